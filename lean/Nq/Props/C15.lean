/-
  C15 — Retries back off quadratically, expire with the queue lifetime, earliest first.

  Model: `Nq.Sched` (qmail-send.c squareroot/nextretry/pass_dochan/del_dochan/job_close/pqrun/pqfinish/
  pqadd/pass_selprep and prioq.c), tied to the source by `harness/c15_sched.c` (exhaustive square roots,
  dense nextretry grid, exhaustive/random heap histories, daemon histories over a real queue directory)
  and by the translator (chanskip[], SLEEP_FOREVER).  Predicates: `Nq.Spec.Sched`.
  Only property theorems live here.
-/
import Nq.Lemmas.SchedSqrt
import Nq.Lemmas.SchedDaemon
import Nq.Lemmas.SchedHist
import Nq.Lemmas.SchedSleep
import Nq.Lemmas.SchedPass
import Nq.Lemmas.SchedFail

namespace Nq.Props.C15
open Nq Nq.Sched Nq.Spec.Sched Nq.Lemmas.Sched

/-! ### the integer square root -/

/-- **`squareroot` is exact on every age `0 … 2³²−1`**: `r² ≤ x < (r+1)²`. -/
theorem C15_sqrt (x : Int) (h0 : 0 ≤ x) (h : x < 4294967296) : IsSqrt x (squareroot x) := by
  unfold squareroot
  apply sqLoop_spec x 16 0 0 (Int.le_refl 0) (by ring) (by simpa using h0)
  norm_num; exact h

/-- complement: from `2³²` on the root saturates at 65535 … -/
theorem C15_sqrt_saturated (x : Int) (h : 4294967296 ≤ x) : squareroot x = 65535 := by
  unfold squareroot
  rw [sqLoop_sat x 16 0 0 (Int.le_refl 0) (by ring) (by norm_num; exact h)]
  norm_num

/-- … and a negative argument (never passed by `nextretry`) gives 0. -/
theorem C15_sqrt_negative (x : Int) (h : x < 0) : squareroot x = 0 := sqLoop_neg x h 16

/-- no intermediate of the C loop overflows: `1 << (j+j)` fits an `int`, everything else a `long`,
for every non-negative `long` argument (9223372036854775808 = 2⁶³). -/
theorem C15_sqrt_nooverflow (x : Int) (h0 : 0 ≤ x) (h : x < 9223372036854775808) : sqLoopOk x 16 0 0 = true :=
  sqLoopOk_inv x h0 h 16 0 0 (Nat.le_refl _) (Int.le_refl 0) (by norm_num) (by ring) (by simpa using h0)

/-! ### the retry time -/

/-- **The retry time is strictly in the future** for every age below `2³²` (including a birth time
that lies after `recent`, i.e. a clock that went backwards), and for a birth time in the past it is
exactly `birth + (⌊√age⌋ + 10 or 20)²`. -/
theorem C15_future (recent birth : Int) (c : Chan) (h : recent - birth < 4294967296) :
    recent < nextretry recent birth c ∧ (birth ≤ recent → IsRetry recent birth c (nextretry recent birth c)) := by
  unfold nextretry
  have hs := skip_pos c
  rw [chanskip_eq]
  by_cases hb : birth > recent
  · rw [if_pos hb]
    refine ⟨?_, fun hle => absurd hb (Int.not_lt.mpr hle)⟩
    nlinarith
  · rw [if_neg hb]
    have hsq := C15_sqrt (recent - birth) (by omega) h
    refine ⟨?_, fun _ => ⟨squareroot (recent - birth), hsq, rfl⟩⟩
    obtain ⟨r0, _, r2⟩ := hsq
    generalize squareroot (recent - birth) = s at *
    nlinarith

/-- complement: for ages from `2³²` (136 years) on, the root is saturated; the retry time is then
`birth + (65535 + skip)²` and it is in the future only while the age is below that square. -/
theorem C15_future_saturated (recent birth : Int) (c : Chan) (h : 4294967296 ≤ recent - birth) :
    nextretry recent birth c = birth + (65535 + skip c) * (65535 + skip c) ∧
    (recent < nextretry recent birth c ↔ recent - birth < (65535 + skip c) * (65535 + skip c)) := by
  unfold nextretry
  rw [chanskip_eq, if_neg (by omega), C15_sqrt_saturated _ h]
  exact ⟨rfl, by constructor <;> intro h' <;> linarith⟩

/-- **Bounded time to expiry.** While a message is not older than the queue lifetime, each retry is
scheduled at least `skip² ≥ 100` seconds after the attempt and no later than
`birth + (⌊√lifetime⌋ + skip)²`; so the attempts' times strictly increase and the first attempt made
after `birth + lifetime` (the expiring one, `C15_dying`) is due by that bound. -/
theorem C15_bounded (recent birth lifetime L : Int) (c : Chan) (hb : birth ≤ recent)
    (hl : recent ≤ birth + lifetime) (h32 : lifetime < 4294967296) (hL : IsSqrt lifetime L) :
    recent + 100 ≤ nextretry recent birth c ∧ nextretry recent birth c ≤ birth + (L + skip c) * (L + skip c) := by
  have hage : recent - birth < 4294967296 := by omega
  obtain ⟨s, hs, he⟩ := (C15_future recent birth c hage).2 hb
  rw [he]
  have hmono := isSqrt_mono hs hL (by omega)
  have hk := skip_pos c
  obtain ⟨s0, s1, s2⟩ := hs
  constructor
  · nlinarith
  · have : s + skip c ≤ L + skip c := by omega
    have h0 : 0 ≤ s + skip c := by omega
    nlinarith

/-! ### the priority queue (prioq.c) -/

/-- `prioq_insert` keeps the heap order and adds exactly the new entry. -/
theorem C15_heap_insert (q : PQ) (e : Elt) (h : Heap q) :
    Heap (q.insert e) ∧ (q.insert e).toList.Perm (e :: q.toList) := insert_spec q e h

/-- `prioq_min` returns the root, which is a minimum of everything queued. -/
theorem C15_heap_min (q : PQ) (pe : Elt) (h : Heap q) (hm : q.min = some pe) :
    pe ∈ q.toList ∧ ∀ e ∈ q.toList, pe.dt ≤ e.dt := by
  obtain ⟨hne, hm0⟩ := min_eq q pe hm
  refine ⟨?_, fun e he => by rw [hm0]; exact heap_root_le_mem q h e he⟩
  have h0 : 0 < q.size := by omega
  rw [hm0, getElem!_pos q 0 h0]
  exact Array.mem_toList_iff.mpr (Array.getElem_mem h0)

/-- `prioq_delmin` keeps the heap order and removes exactly the entry `prioq_min` returned. -/
theorem C15_heap_delmin (q : PQ) (pe : Elt) (h : Heap q) (hm : q.min = some pe) :
    Heap q.delmin ∧ q.toList.Perm (pe :: q.delmin.toList) := by
  obtain ⟨hne, hm0⟩ := min_eq q pe hm
  rw [hm0]; exact delmin_spec q h hne

/-- complement: on an empty queue `prioq_min` fails and `prioq_delmin` does nothing. -/
theorem C15_heap_empty (q : PQ) (hm : q.min = none) : q.delmin = q ∧ q.toList = [] := by
  have := min_none q hm
  refine ⟨by unfold PQ.delmin; rw [if_pos this], ?_⟩
  apply List.eq_nil_of_length_eq_zero; simpa using this

/-- **For every sequence of insertions and deletions** the array is a heap (so every later
`prioq_min` is a minimum, by `C15_heap_min`). -/
theorem C15_heap (ops : List PQ.Op) : Heap (PQ.run #[] ops) := heap_run ops #[] heap_empty

/-! ### the daemon: which message is started, and when -/

/-- **No early start, earliest-due first.** `pass_dochan` opens a job only for an entry whose due time
has passed, that entry is a minimum of the channel's heap, and exactly it leaves the heap. -/
theorem C15_order (recent : Int) (ja : Bool) (q q' : PQ) (pe : Elt) (h : Heap q)
    (hs : passStart recent ja q = some (pe, q')) :
    pe.dt ≤ recent ∧ (∀ e ∈ q.toList, pe.dt ≤ e.dt) ∧ q.toList.Perm (pe :: q'.toList) ∧ Heap q' :=
  (passStart_spec recent ja q q' pe h hs).2

/-- **Promptness.** If a job slot is free and anything on the channel is due, a job is opened. -/
theorem C15_order_prompt (recent : Int) (q : PQ) (h : Heap q) (e : Elt) (he : e ∈ q.toList)
    (hdue : e.dt ≤ recent) : (passStart recent true q).isSome = true := passStart_prompt recent q h e he hdue

/-- Serving the channel until nothing more is started: the started messages come out in non-decreasing
due-time order, they are exactly the due ones, and everything left is not yet due. -/
theorem C15_order_drain (recent : Int) (q : PQ) (h : Heap q) :
    (drainDue recent q.size q).1.Pairwise (fun a b => a.dt ≤ b.dt) ∧
    q.toList.Perm ((drainDue recent q.size q).1 ++ (drainDue recent q.size q).2.toList) ∧
    (∀ e ∈ (drainDue recent q.size q).1, e.dt ≤ recent) ∧
    (∀ e ∈ (drainDue recent q.size q).2.toList, recent < e.dt) :=
  let r := drainDue_spec recent q.size q h (Nat.le_refl _)
  ⟨r.1, r.2.1, r.2.2.1, r.2.2.2.1⟩

/-- `pass_selprep`: the daemon's wake-up time is no later than any due time on the channel. -/
theorem C15_wakeup (w : Int) (q : PQ) (h : Heap q) :
    wakeupChan w q ≤ w ∧ ∀ e ∈ q.toList, wakeupChan w q ≤ e.dt := by
  unfold wakeupChan
  cases hm : q.min with
  | none =>
    have := (C15_heap_empty q hm).2
    simp [this]
  | some pe =>
    simp only
    have hmin := (C15_heap_min q pe h hm).2
    by_cases hc : w > pe.dt
    · rw [if_pos hc]; exact ⟨by omega, hmin⟩
    · rw [if_neg hc]; exact ⟨Int.le_refl _, fun e he => by have := hmin e he; omega⟩

/-- After a pass that leaves recipients to do, the message goes back into the heap with exactly the
retry time computed when the pass began — which was then strictly in the future (`C15_future`), so by
`C15_order` it is not tried again before it. -/
theorem C15_reschedule (recent lifetime birth : Int) (c : Chan) (id numtodo : Nat) (q : PQ) (h : Heap q)
    (hn : numtodo ≠ 0) :
    ∃ q', jobClose (jobOpen recent lifetime birth c) id numtodo q = some q' ∧ Heap q' ∧
      q'.toList.Perm ({ dt := nextretry recent birth c, id := id } :: q.toList) := by
  refine ⟨q.insert { dt := nextretry recent birth c, id := id }, ?_, ?_⟩
  · simp [jobClose, jobOpen, hn]
  · exact insert_spec q _ h

/-! ### expiry -/

/-- **Older than the queue lifetime ⇒ the pass is the last one**: the flag is set exactly when
`recent > birth + lifetime`, and under it every report of the letters qmail-lspawn/qmail-rspawn
produce (K, Z, D) finishes the recipient: a `Z` is handled as `D`, bounced with the report text followed
by the "too long" sentence; no reported recipient stays to be retried, and a pass that ends with nothing
to do removes the message from the channel.
(Audit note: the first and the last conjunct restate the definitions of `jobOpen` / `jobClose` — they pin down the
transcription of `flagdying = (recent > birth + lifetime)` and `if (!numtodo) unlink`, nothing more; the content is in
conjuncts 2–3 (`Z` under `flagdying` is a failure carrying the too-long text; no K/Z/D report leaves a recipient) and, at
history level, in `C15_hist_expire`.) -/
theorem C15_dying (recent lifetime birth : Int) (c : Chan) (text : Bytes) :
    ((jobOpen recent lifetime birth c).dying = true ↔ recent > birth + lifetime) ∧
    report true 90 text = .failure (text ++ tooLong) ∧
    (∀ letter : Byte, letter = 75 ∨ letter = 90 ∨ letter = 68 → (report true letter text).staysTodo = false) ∧
    (∀ (job : Job) (id : Nat) (q : PQ), jobClose job id 0 q = none) := by
  refine ⟨by simp [jobOpen], by simp [report], ?_, by intro job id q; simp [jobClose]⟩
  intro letter hl
  rcases hl with hl | hl | hl <;> subst hl <;> simp [report, Act.staysTodo]

/-- before expiry a temporary failure leaves the recipient to be retried (and nothing is bounced).
(An evaluation of `report`, i.e. of the transcription of del_dochan's switch — not independent evidence for the expiry clause.) -/
theorem C15_dying_not (text : Bytes) : report false 90 text = .deferral ∧ Act.deferral.staysTodo = true := by
  simp [report, Act.staysTodo]

/-- complement: a report that is none of K, Z, D is "mangled" and deferred — even in the expiring pass
(again an evaluation of `report`) -/
theorem C15_dying_mangled (dying : Bool) (letter : Byte) (text : Bytes) (h1 : letter ≠ 75) (h2 : letter ≠ 90)
    (h3 : letter ≠ 68) : report dying letter text = .mangled := by
  simp [report, h1, h2, h3]

/-! ### restart and ALRM -/

/-- **The schedule survives a clean restart.** TERM: `pqfinish` stores every due time as the channel
file's mtime; the new process's `pqstart` reads them back: the heap holds the same entries again
(each message is queued once per channel; `ids` is the directory listing in any order). -/
theorem C15_persist (q : PQ) (m0 : Mtimes) (ids : List Nat) (h : Heap q)
    (hn : (q.toList.map (·.id)).Nodup) (hids : ids.Perm (q.toList.map (·.id))) :
    Heap (pqstart (m0.writeAll (pqfinish q.size q)) ids) ∧
    (pqstart (m0.writeAll (pqfinish q.size q)) ids).toList.Perm q.toList := restart_perm q m0 ids h hn hids

/-- **ALRM makes everything due at once**: after `pqrun` every entry has `dt = recent`, the same
messages are queued, and (by `C15_order_prompt`) a job is opened as soon as a slot is free. -/
theorem C15_alrm (recent : Int) (q : PQ) :
    (∀ e ∈ (pqrun recent q).toList, e.dt = recent) ∧
    (pqrun recent q).toList.map (·.id) = q.toList.map (·.id) ∧ Heap (pqrun recent q) ∧
    (q.size ≠ 0 → (passStart recent true (pqrun recent q)).isSome = true) := by
  have hall : ∀ e ∈ (pqrun recent q).toList, e.dt = recent := by
    intro e he
    rw [pqrun_toList] at he
    obtain ⟨x, _, hx⟩ := List.mem_map.mp he
    rw [← hx]
  refine ⟨hall, by rw [pqrun_toList, List.map_map]; rfl, pqrun_heap recent q, ?_⟩
  intro hne
  have hl : (pqrun recent q).toList ≠ [] := by
    rw [pqrun_toList]; intro h
    have := congrArg List.length h
    simp at this; exact hne (by simp [this])
  obtain ⟨e, he⟩ := List.exists_mem_of_ne_nil _ hl
  exact passStart_prompt recent _ (pqrun_heap recent q) e he (Int.le_of_eq (hall e he))

/-! ### monotonicity -/

/-- `squareroot` is non-negative and monotone on ALL of `Int` (exact below 2³², saturated above, 0 below 0). -/
theorem C15_sqrt_mono (x y : Int) (h : x ≤ y) : 0 ≤ squareroot x ∧ squareroot x ≤ squareroot y := by
  have nonneg : ∀ z : Int, 0 ≤ squareroot z := by
    intro z
    by_cases h0 : z < 0
    · rw [C15_sqrt_negative z h0]
    · by_cases h1 : z < 4294967296
      · exact (C15_sqrt z (by omega) h1).1
      · rw [C15_sqrt_saturated z (by omega)]; decide
  refine ⟨nonneg x, ?_⟩
  by_cases hx0 : x < 0
  · rw [C15_sqrt_negative x hx0]; exact nonneg y
  · by_cases hx1 : x < 4294967296
    · have hsx := C15_sqrt x (by omega) hx1
      by_cases hy1 : y < 4294967296
      · exact isSqrt_mono hsx (C15_sqrt y (by omega) hy1) h
      · rw [C15_sqrt_saturated y (by omega)]
        obtain ⟨r0, r1, _⟩ := hsx
        generalize squareroot x = r at *
        by_contra hc
        have : 65536 ≤ r := by omega
        nlinarith
    · rw [C15_sqrt_saturated x (by omega), C15_sqrt_saturated y (by omega)]

/-- a later attempt never gets an earlier retry time (for every pair of times, every birth) -/
theorem C15_retry_mono (recent recent' birth : Int) (c : Chan) (h : recent ≤ recent') :
    nextretry recent birth c ≤ nextretry recent' birth c := by
  unfold nextretry
  rw [chanskip_eq]
  have hs := skip_pos c
  by_cases hb : birth > recent
  · rw [if_pos hb]
    by_cases hb' : birth > recent'
    · rw [if_pos hb']
    · rw [if_neg hb']
      have := (C15_sqrt_mono (recent' - birth) (recent' - birth) (Int.le_refl _)).1
      generalize squareroot (recent' - birth) = a at *
      nlinarith
  · rw [if_neg hb, if_neg (by omega)]
    obtain ⟨h0, h1⟩ := C15_sqrt_mono (recent - birth) (recent' - birth) (by omega)
    generalize squareroot (recent - birth) = a at *
    generalize squareroot (recent' - birth) = a' at *
    nlinarith

/-! ### history level: every event history of the daemon model (`Nq.SchedHist.step`) -/

open Nq.SchedHist Nq.Spec.SchedHist Nq.Lemmas.SchedHist

/-- **No early retry, over all quiet histories of UNINTERRUPTED passes.**  A pass on channel `c` at time `t = s.clock`
starts message `pe.id` (born at `m.birth`) and leaves a recipient to do (a temporary failure, or a mangled report).
Then in every continuation made of the `QStep`s — clock changes (forwards or backwards), wake-up computations,
further uninterrupted passes on either channel with arbitrary reports and arbitrary injected system failures
(open/getinfo "trouble", unlink failure, stat failure), and clean restarts (TERM `pqfinish`, new process `pqstart`)
BETWEEN passes — of any length —, whenever `pass_dochan(c)` starts that message again, the entry it starts carries a
due time `≥ birth + (⌊√(t-birth)⌋+skip)²`, and the clock has reached it; that back-off time was strictly in the
future at `t`.
Scope (audit): a pass is ONE step of this model — opened, every recipient answered and job_close at one clock value —
so `t` is at once the time the job is opened, the time of the failure and the time of the re-insertion, and nothing
(in particular no TERM) happens while a pass is open; the first two conjuncts are `C15_future`, the substance is
conjuncts 3–4.  `QStep` has no step that creates or takes in another message (`BStep.arrive` exists for the bounded-time
theorems).  Passes that are interrupted — clock ticks, the other channel, reports of other jobs, TERM + exit + restart while
the pass is open — are covered by `C15_pass_backoff` over `Nq.SchedPass.pstep`, where the back-off time is the one
computed when the job was OPENED.  Not covered, on purpose: ALRM — see `C15_hist_alrm` —, files changed from outside,
crash restarts. -/
theorem C15_hist_backoff (s : HSt) (hwf : WF s) (c : Chan) (letters : List Byte) (f : Fault) (pe : Elt) (m : Msg)
    (hstart : started s c = some pe) (hm : s.find pe.id = some m) (hf : f.trouble = false)
    (hage : s.clock - m.birth < 4294967296)
    (hleft : ∃ m2 recs2, (step s (.pass c letters f)).1.find pe.id = some m2 ∧ m2.recs c = some recs2 ∧ true ∈ recs2)
    (mid : List QStep) (pe2 : Elt)
    (hagain : started (runQ (step s (.pass c letters f)).1 mid) c = some pe2) (hid : pe2.id = pe.id) :
    s.clock < nextretry s.clock m.birth c ∧ (m.birth ≤ s.clock → IsRetry s.clock m.birth c (nextretry s.clock m.birth c)) ∧
    nextretry s.clock m.birth c ≤ pe2.dt ∧ pe2.dt ≤ (runQ (step s (.pass c letters f)).1 mid).clock := by
  obtain ⟨q', hp⟩ := started_some hstart
  obtain ⟨hfut, hform⟩ := C15_future s.clock m.birth c hage
  refine ⟨hfut, hform, ?_⟩
  have hmono : ∀ t', nextretry s.clock m.birth c ≤ t' → nextretry s.clock m.birth c ≤ nextretry t' m.birth c :=
    fun t' ht => C15_retry_mono s.clock t' m.birth c (by omega)
  have hsf : 0 ≤ SLEEP_SYSFAIL := Int.natCast_nonneg _
  obtain ⟨m2, recs2, hm2, hr2, ht2⟩ := hleft
  have ho := owed_init hwf letters hp hm hf (by
    intro m3 hm3 recs3 hr3
    have h1 : m3 = m2 := by
      have : some m3 = some m2 := by rw [← hm3]; exact hm2
      exact Option.some.inj this
    subst h1
    rw [hr2] at hr3; cases hr3; exact ht2)
  obtain ⟨hwf3, ho3⟩ := owed_runQ hmono hsf mid _ (wf_passSt hwf c letters f) ho
  obtain ⟨q2, hp2⟩ := started_some hagain
  obtain ⟨hdue2, _, _, _, hmem2, _, _, m3, recs3, hm3, hr3⟩ := start_facts hwf3 hp2
  obtain ⟨_, h2⟩ := ho3 m3 (hid ▸ hm3)
  obtain ⟨e, he, hei, hre⟩ := h2 (by rw [hr3]; rfl)
  have : e = pe2 := eq_of_nodup_map (fun x : Elt => x.id) _ (by have := hwf3.nodupQ c; unfold ids at this; exact this) e he pe2 hmem2 (by rw [hei, hid])
  subst this
  exact ⟨hre, hdue2⟩

/-- **Well-formedness is an invariant of EVERY history**: whatever step is taken (file creation from outside,
pqstart, clock change, ALRM, wake-up, pqfinish, a pass with any reports and any injected failure), the heaps
stay heaps, message ids stay unique per channel, and every scheduled entry has its channel file. -/
theorem C15_hist_wf (s : HSt) (x : Step) (hwf : WF s) : WF (step s x).1 := by
  cases x with
  | mk id c birth due nrec => exact wf_mk hwf id c birth due nrec
  | load => exact wf_loadSt hwf.nodupMsgs
  | clock t => exact wf_clock hwf t
  | alrm => exact wf_alrmSt hwf
  | wake => exact hwf
  | fin => exact wf_finSt hwf
  | pass c l f => exact wf_passSt hwf c l f
  | arrive id n0 n1 => exact wf_arriveSt hwf id n0 n1
  | bad => exact hwf

/-- … hence over every history from a well-formed state (the empty queue is one). -/
theorem C15_hist_wf_run (l : List Step) : ∀ s : HSt, WF s → WF (run s l) := by
  induction l with
  | nil => intro s h; exact h
  | cons x r ih => intro s h; exact ih _ (C15_hist_wf s x h)

/-- **Nothing is lost** (pqdone bookkeeping, markdone effects): `pqstart` schedules every channel file and puts
every message without channel files into pqdone; from then on every step of a running daemon — clock change,
wake-up, ALRM, a pass with ANY reports and ANY injected failure (open/getinfo trouble, unlink failure, stat
failure) — keeps every existing channel file scheduled on its channel heap and every message without channel
files in pqdone.  (pqfinish empties the heaps on purpose; `C15_hist_restart` covers TERM + restart.) -/
theorem C15_hist_noloss (s : HSt) (hwf : WF s) :
    Tracked (step s .load).1 ∧
    (Tracked s → (∀ t, Tracked (step s (.clock t)).1) ∧ Tracked (step s .wake).1 ∧ Tracked (step s .alrm).1 ∧
      ∀ c l f, Tracked (step s (.pass c l f)).1) :=
  ⟨tracked_loadSt s, fun ht => ⟨fun t => tracked_tick ht t, ht, tracked_alrmSt ht, fun c l f => tracked_passSt hwf ht c l f⟩⟩

/-- **Earliest-due first, no starvation — one pass, given a free job slot.**  (`started` is
`passStart s.clock true …`: `job_avail()` is assumed true — with all `numjobs` slots taken by open jobs nothing starts
until one closes; the pass is uninterrupted.)  If an entry `e` of channel `c` is due, a pass on `c`
(any reports, any injected failure) starts an entry due no later than `e`; and either that is `e` itself, or `e`
is still scheduled and the number of entries due no later than `e` has gone down by exactly one (the started
message comes back strictly later than now: at its back-off time, or at now + SLEEP_SYSFAIL). -/
theorem C15_hist_prompt (s : HSt) (hwf : WF s) (c : Chan) (e : Elt) (he : e ∈ (s.q c).toList) (hdue : e.dt ≤ s.clock)
    (hage : ∀ m ∈ s.msgs, s.clock - m.birth < 4294967296) (letters : List Byte) (f : Fault) :
    ∃ pe, started s c = some pe ∧ pe.dt ≤ e.dt ∧
      (pe = e ∨ (e ∈ ((step s (.pass c letters f)).1.q c).toList ∧
                 rank (step s (.pass c letters f)).1 c e.dt + 1 = rank s c e.dt)) :=
  rank_passSt hwf he hdue (fun m hm => (C15_future s.clock m.birth c (hage m hm)).1) (by decide) letters f

/-- **No starvation — bounded number of passes, given a free job slot at each pass, no system failure, and a clock
that stands still meanwhile.**  A due entry `e` is started by one of the next `rank` passes on its channel (`rank` = number
of entries due no later than `e`, itself included), whatever the reports.  Assumptions built into `passes` / `started`
(audit): each of these passes finds a free job slot (`job_avail()`), runs uninterrupted and without an injected failure
(`Fault.none`; with failures `C15_hist_prompt` still gives progress per pass, but a `trouble` exit re-schedules the failing
message only SLEEP_SYSFAIL later, so the count is not bounded by `rank`), and the clock does not move between them (time
advancing only makes more entries due: entries due no later than `e.dt` are the same set, so the bound is unaffected, but
this is not stated).  It counts passes, not seconds. -/
theorem C15_hist_no_starvation (s : HSt) (hwf : WF s) (c : Chan) (e : Elt) (he : e ∈ (s.q c).toList)
    (hdue : e.dt ≤ s.clock) (hage : ∀ m ∈ s.msgs, s.clock - m.birth < 4294967296) (ls : Nat → List Byte) :
    ∃ j, j < rank s c e.dt ∧ started (passes s c ls j) c = some e :=
  let ⟨j, hj, h, _⟩ := no_starvation c e (by decide) (rank s c e.dt) s ls hwf he hdue
    (fun m hm => (C15_future s.clock m.birth c (hage m hm)).1) (Nat.le_refl _)
  ⟨j, hj, h⟩

/-- **The expiring pass.**  A pass started when `recent > birth + lifetime`, answered with K/Z/D only (no open
or unlink failure), finishes every recipient: the channel file is removed, the message is no longer scheduled on
the channel, the other channel is untouched, and if that was the last channel the message is in pqdone. -/
theorem C15_hist_expire (s : HSt) (hwf : WF s) (c : Chan) (letters : List Byte) (f : Fault) (pe : Elt) (m : Msg)
    (hstart : started s c = some pe) (hm : s.find pe.id = some m)
    (hold : s.clock > m.birth + s.lifetime) (hl : lettersKZD letters) (hf : f = .none ∨ f = .stat) :
    ∃ m2, (step s (.pass c letters f)).1.find pe.id = some m2 ∧ m2.recs c = none ∧
      m2.recs (other c) = m.recs (other c) ∧ pe.id ∉ ids ((step s (.pass c letters f)).1.q c) ∧
      (m.recs (other c) = none → pe.id ∈ ids (step s (.pass c letters f)).1.done) := by
  obtain ⟨q', hp⟩ := started_some hstart
  obtain ⟨m2, h1, h2, h3, _, h5, h6, h7⟩ := expire_passSt hwf letters f hp hm hold hl hf
  exact ⟨m2, h1, h2, h3, by show pe.id ∉ ids ((passSt s c letters f).q c); rw [h5]; exact h6, h7⟩

/-- **The schedule survives a clean restart, at history level**: after TERM (`pqfinish`) and a new process
(`pqstart`) each channel heap holds exactly the same entries (same message, same due time) as before. -/
theorem C15_hist_restart (s : HSt) (hwf : WF s) (ht : Tracked s) (c : Chan) (e : Elt) :
    e ∈ ((run s [.fin, .load]).q c).toList ↔ e ∈ (s.q c).toList := restart_mem hwf ht c e

/-- **ALRM at history level**: every scheduled entry becomes due now, the same messages stay scheduled, nothing
is lost, and every non-empty channel starts a message at the next pass. -/
theorem C15_hist_alrm (s : HSt) (hwf : WF s) (c : Chan) :
    WF (step s .alrm).1 ∧ (Tracked s → Tracked (step s .alrm).1) ∧
    (∀ e ∈ ((step s .alrm).1.q c).toList, e.dt = s.clock) ∧ ids ((step s .alrm).1.q c) = ids (s.q c) ∧
    ((s.q c).size ≠ 0 → (started (step s .alrm).1 c).isSome = true) := by
  have h := C15_alrm s.clock (s.q c)
  have hq : (step s .alrm).1.q c = pqrun s.clock (s.q c) := alrmSt_q s c
  refine ⟨wf_alrmSt hwf, tracked_alrmSt, by rw [hq]; exact h.1, by rw [hq]; exact ids_pqrun _ _, ?_⟩
  intro hne
  unfold started
  rw [hq]
  have := h.2.2.2 hne
  show (Option.map _ (passStart s.clock true (pqrun s.clock (s.q c)))).isSome = true
  rw [Option.isSome_map]; exact this

/-- the arithmetic behind the bound: an attempt made no later than `birth + lifetime` is rescheduled no later
than `birth + (⌊√lifetime⌋ + skip)²` — also when the birth time lies in the future of the clock -/
theorem C15_retry_le_bound (lifetime L : Int) (h32 : lifetime < 4294967296) (hL : IsSqrt lifetime L)
    (t b : Int) (c : Chan) (h : t ≤ b + lifetime) : nextretry t b c ≤ expiryBound L b c := by
  unfold expiryBound
  rw [chanskip_eq]
  by_cases hb : b ≤ t
  · exact (C15_bounded t b lifetime L c hb h h32 hL).2
  · unfold nextretry
    rw [if_pos (by omega), chanskip_eq]
    have := skip_pos c
    obtain ⟨l0, _, _⟩ := hL
    nlinarith

/-- **Bounded time to expiry, over all fault-free histories.**  Invariant: every scheduled entry is due by
`birth + (⌊√lifetime⌋ + skip)²` or is already due.  It is preserved by every history made of time advancing,
wake-ups, ALRM, (uninterrupted) passes answered with K/Z/D, clean restarts, and NEW MESSAGES ARRIVING through todo/
(`BStep.arrive`: todo_do schedules them at `now`, i.e. already due) — together with well-formedness and
nothing-is-lost.  Base cases: the empty queue (`C15_hist_init`, from which arrivals now populate it:
`C15_hist_bounded_from_empty`) and any queue directory a new process finds whose persisted due times respect the bound
(`C15_hist_load_inv`). -/
theorem C15_hist_bounded (s : HSt) (L : Int) (h32 : s.lifetime < 4294967296) (hL : IsSqrt s.lifetime L)
    (hinv : DInv L s) (l : List BStep) (hk : allKZD l) : DInv L (runB s l) ∧ (runB s l).lifetime = s.lifetime :=
  inv_runB l s hinv (fun t b c h => C15_retry_le_bound s.lifetime L h32 hL t b c h) hk

/-- **Every message leaves the channel in bounded time — counted in passes, given a free job slot at each pass, no system
failure and spawners answering K/Z/D**: in any state reached as in
`C15_hist_bounded`, once the clock has reached `birth + (⌊√lifetime⌋ + skip)²` a scheduled message `e` is due,
and within `rank` further passes on its channel (`rank` = entries due no later than it) it is started, that
pass is the expiring one, and afterwards its channel file is gone and it is off the channel heap; if no file
remains on the other channel it is in pqdone. -/
theorem C15_hist_leaves (s : HSt) (L : Int) (hL : IsSqrt s.lifetime L) (hinv : DInv L s) (c : Chan) (e : Elt) (m : Msg)
    (he : e ∈ (s.q c).toList) (hm : s.find e.id = some m) (hclock : expiryBound L m.birth c ≤ s.clock)
    (hage : ∀ m ∈ s.msgs, s.clock - m.birth < 4294967296) (ls : Nat → List Byte) (hk : ∀ k, lettersKZD (ls k)) :
    ∃ j, j < rank s c e.dt ∧ started (passes s c ls j) c = some e ∧
      ∃ m2, (passes s c ls (j + 1)).find e.id = some m2 ∧ m2.recs c = none ∧
        e.id ∉ ids ((passes s c ls (j + 1)).q c) ∧
        (m2.recs (other c) = none → e.id ∈ ids (passes s c ls (j + 1)).done) := by
  obtain ⟨hwf, _, hd⟩ := hinv
  have hdue : e.dt ≤ s.clock := by
    rcases hd c e he m hm with h | h
    · omega
    · exact h
  obtain ⟨j, hj, hst, hwfj, hcj, hlj, hbj⟩ := no_starvation c e (by decide) (rank s c e.dt) s ls hwf he hdue
    (fun m hm => (C15_future s.clock m.birth c (hage m hm)).1) (Nat.le_refl _)
  obtain ⟨mj, hmj, hbirth⟩ := hbj e.id m hm
  -- the bound lies beyond birth + lifetime
  have hold : (passes s c ls j).clock > mj.birth + (passes s c ls j).lifetime := by
    rw [hcj, hlj, hbirth]
    have hb : expiryBound L m.birth c = m.birth + (L + skip c) * (L + skip c) := by unfold expiryBound; rw [chanskip_eq]
    have := skip_pos c
    obtain ⟨l0, _, l2⟩ := hL
    have : s.lifetime < (L + skip c) * (L + skip c) := by nlinarith
    omega
  obtain ⟨q', hp⟩ := started_some hst
  obtain ⟨m2, h1, h2, h3, _, h5, h6, h7⟩ := expire_passSt hwfj (ls j) .none hp hmj hold (hk j) (Or.inl rfl)
  refine ⟨j, hj, hst, m2, h1, h2, ?_, ?_⟩
  · show e.id ∉ ids ((passSt (passes s c ls j) c (ls j) .none).q c)
    rw [h5]; exact h6
  · intro ho; exact h7 (by rw [← h3]; exact ho)

/-! ### overflow -/

/-- the root never exceeds 65535, for every argument -/
theorem C15_sqrt_le (x : Int) : squareroot x ≤ 65535 := by
  have := (C15_sqrt_mono x (max x 4294967296) (Int.le_max_left _ _)).2
  rw [C15_sqrt_saturated _ (Int.le_max_right _ _)] at this
  exact this

/-- **No `long` overflow in `nextretry`** (target (c)).  For every `recent`, `birth` that are `long`s, with
`recent - birth` representable (always true for `birth ≥ 0`) and `birth + (65535 + skip)² < 2⁶³` — i.e. every
birth time up to 2⁶³ − 4 297 458 026, the year 292 billion — every intermediate of the C computation
(`recent - birth`, the 16 iterations of `squareroot`, `n + chanskip`, `n * n`, `birth + n * n`) fits, so the
wrapped (machine) arithmetic computes exactly the mathematical `nextretry` all other theorems talk about.
Ages near 2³² are inside this range (the root saturates, `C15_future_saturated`); ages near 2⁶³ are inside it as
long as the subtraction itself is representable. -/
theorem C15_overflow_range (recent birth : Int) (c : Chan)
    (hr0 : -9223372036854775808 ≤ recent) (hr1 : recent < 9223372036854775808)
    (hb0 : -9223372036854775808 ≤ birth)
    (hx : recent - birth < 9223372036854775808)
    (hs : birth + (65535 + skip c) * (65535 + skip c) < 9223372036854775808) :
    nextretryOk recent birth c = true ∧ nextretryW recent birth c = nextretry recent birth c := by
  have hk := skip_pos c
  have hk2 : skip c ≤ 20 := by cases c <;> simp [skip]
  have hb1 : birth < 9223372036854775808 := by nlinarith
  -- the root
  have hroot : ∀ a : Int, a = (if birth > recent then 0 else squareroot (recent - birth)) → 0 ≤ a ∧ a ≤ 65535 := by
    intro a ha
    by_cases hbr : birth > recent
    · rw [if_pos hbr] at ha; omega
    · rw [if_neg hbr] at ha; rw [ha]
      exact ⟨(C15_sqrt_mono _ _ (Int.le_refl _)).1, C15_sqrt_le _⟩
  constructor
  · unfold nextretryOk
    simp only [chanskip_eq]
    obtain ⟨a0, a1⟩ := hroot _ rfl
    generalize (if birth > recent then 0 else squareroot (recent - birth)) = a at a0 a1
    have hnn : 0 ≤ (a + skip c) * (a + skip c) := by nlinarith
    have hnn2 : (a + skip c) * (a + skip c) ≤ (65535 + skip c) * (65535 + skip c) := by nlinarith
    have hnn3 : (65535 + skip c) * (65535 + skip c) ≤ 65555 * 65555 := by nlinarith
    have hsq : (decide (birth > recent) || (inLong (recent - birth) && sqLoopOk (recent - birth) 16 0 0)) = true := by
      by_cases hbr : birth > recent
      · simp [hbr]
      · have := C15_sqrt_nooverflow (recent - birth) (by omega) hx
        simp only [this, inLong]; simp; omega
    have hfin : birth + (a + skip c) * (a + skip c) < 9223372036854775808 := by omega
    generalize (a + skip c) * (a + skip c) = p at hnn hnn2 hfin ⊢
    rw [hsq]
    simp only [inLong]
    simp
    refine ⟨⟨⟨⟨?_, ?_⟩, ?_⟩, ?_⟩, ?_⟩ <;> omega
  · unfold nextretryW nextretry
    simp only [chanskip_eq]
    by_cases hbr : birth > recent
    · simp only [if_pos hbr]
      rw [wrap64_id (0 + skip c) (by omega) (by omega)]
      have : (0 + skip c) * (0 + skip c) ≤ 400 := by nlinarith
      have : 0 ≤ (0 + skip c) * (0 + skip c) := by nlinarith
      rw [wrap64_id ((0 + skip c) * (0 + skip c)) (by omega) (by omega)]
      have hnn2 : (0 + skip c) * (0 + skip c) ≤ (65535 + skip c) * (65535 + skip c) := by nlinarith
      rw [wrap64_id _ (by omega) (by omega)]
    · simp only [if_neg hbr]
      rw [wrap64_id (recent - birth) (by omega) hx]
      obtain ⟨a0, a1⟩ := hroot (squareroot (recent - birth)) (by rw [if_neg hbr])
      generalize squareroot (recent - birth) = a at a0 a1
      rw [wrap64_id (a + skip c) (by omega) (by omega)]
      have hnn : 0 ≤ (a + skip c) * (a + skip c) := by nlinarith
      have hnn2 : (a + skip c) * (a + skip c) ≤ (65535 + skip c) * (65535 + skip c) := by nlinarith
      have hnn3 : (65535 + skip c) * (65535 + skip c) ≤ 65555 * 65555 := by nlinarith
      rw [wrap64_id ((a + skip c) * (a + skip c)) (by omega) (by omega)]
      rw [wrap64_id _ (by omega) (by omega)]

/-- complement: what the C does when the mathematical retry time does not fit a `long` (birth within
4 297 458 025 s of 2⁶³): `birth + n * n` overflows — undefined behaviour in C; with the two's-complement
wrap-around the supported compilers produce, the retry time comes out as `retry − 2⁶⁴`, a negative time, i.e. in
the past: such a message would be retried at every pass.  (`nextretryOk` is false there; the harness never
generates such a case because the build is UBSan-instrumented.) -/
theorem C15_overflow_wraps (recent birth : Int) (c : Chan) (hb0 : 0 ≤ birth) (hbr : birth ≤ recent)
    (hr1 : recent < 9223372036854775808) (hov : 9223372036854775808 ≤ nextretry recent birth c) :
    nextretryOk recent birth c = false ∧
    nextretryW recent birth c = nextretry recent birth c - 18446744073709551616 ∧ nextretryW recent birth c < 0 := by
  have hk := skip_pos c
  have hk2 : skip c ≤ 20 := by cases c <;> simp [skip]
  have a0 := (C15_sqrt_mono (recent - birth) _ (Int.le_refl _)).1
  have a1 := C15_sqrt_le (recent - birth)
  have hW : nextretryW recent birth c = nextretry recent birth c - 18446744073709551616 := by
    unfold nextretryW nextretry at *
    simp only [chanskip_eq] at *
    simp only [if_neg (by omega : ¬ birth > recent)] at *
    rw [wrap64_id (recent - birth) (by omega) (by omega)]
    generalize squareroot (recent - birth) = a at a0 a1 hov ⊢
    rw [wrap64_id (a + skip c) (by omega) (by omega)]
    have hnn : 0 ≤ (a + skip c) * (a + skip c) := by nlinarith
    have hnn2 : (a + skip c) * (a + skip c) ≤ 65555 * 65555 := by nlinarith
    rw [wrap64_id ((a + skip c) * (a + skip c)) (by omega) (by omega)]
    unfold wrap64; omega
  refine ⟨?_, hW, ?_⟩
  · unfold nextretryOk
    unfold nextretry at hov
    simp only [chanskip_eq] at *
    generalize (if birth > recent then 0 else squareroot (recent - birth)) = a at hov ⊢
    have : inLong (birth + (a + skip c) * (a + skip c)) = false := by
      simp only [inLong]; simp; omega
    rw [this]; simp
  · rw [hW]
    unfold nextretry at *
    simp only [chanskip_eq] at *
    simp only [if_neg (by omega : ¬ birth > recent)] at *
    generalize squareroot (recent - birth) = a at a0 a1 hov ⊢
    have hnn2 : (a + skip c) * (a + skip c) ≤ 65555 * 65555 := by nlinarith
    omega


/-! ### the system-failure paths: SLEEP_SYSFAIL re-insertion, full `job_close`, `pqadd`, pqfail (target (b)) -/

/-- **The `trouble:` exit of `pass_dochan`** (channel file or info file cannot be opened): the message stays on
the channel heap (same ids as before the pass: not lost), heap order kept, and its new due time
`recent + SLEEP_SYSFAIL` is strictly later than the due time it had — which was its back-off time —, so the
failure never makes a retry earlier. -/
theorem C15_trouble (recent : Int) (ja : Bool) (q q' : PQ) (pe : Elt) (h : Heap q)
    (hs : passStart recent ja q = some (pe, q')) :
    Heap (passTrouble recent pe q') ∧
    (passTrouble recent pe q').toList.Perm ({ dt := recent + SLEEP_SYSFAIL, id := pe.id } :: q'.toList) ∧
    (ids (passTrouble recent pe q')).Perm (ids q) ∧ pe.dt < recent + SLEEP_SYSFAIL := by
  obtain ⟨hdue, _, hperm, hh'⟩ := C15_order recent ja q q' pe h hs
  have hi := insert_spec q' { dt := recent + SLEEP_SYSFAIL, id := pe.id } hh'
  refine ⟨hi.1, hi.2, ?_, ?_⟩
  · have h1 := ids_insert q' { dt := recent + SLEEP_SYSFAIL, id := pe.id } hh'
    have h2 : (ids q).Perm (pe.id :: ids q') := by
      have := hperm.map (fun e : Elt => e.id); simpa [ids] using this
    exact h1.trans h2.symm
  · have : (0 : Int) < SLEEP_SYSFAIL := by decide
    omega

/-- **`job_close` in full.**  Heaps stay heaps and keep all their entries.  Never lost: afterwards the message is
on the channel heap, or in pqdone, or its other channel file exists (and is tracked there, `C15_hist_noloss`).
Never earlier than the back-off time: whenever a recipient is left to do (or the pass was cut short before EOF)
the message is re-inserted exactly at `retry`, the file is kept and pqdone untouched.  The file is removed only
when nothing is left to do; if the unlink fails the message stays scheduled at `now + SLEEP_SYSFAIL` — there is
then no recipient left whose delivery could be retried early. -/
theorem C15_jobclose (job : Job) (id : Nat) (hiteof : Bool) (numtodo : Nat) (unlinkOk : Bool) (st : StatRes) (now : Int)
    (q done : PQ) (hq : Heap q) (hd : Heap done) :
    Heap (jobCloseF job id hiteof numtodo unlinkOk st now q done).chan ∧
    Heap (jobCloseF job id hiteof numtodo unlinkOk st now q done).done ∧
    (∀ e ∈ q.toList, e ∈ (jobCloseF job id hiteof numtodo unlinkOk st now q done).chan.toList) ∧
    (∀ e ∈ done.toList, e ∈ (jobCloseF job id hiteof numtodo unlinkOk st now q done).done.toList) ∧
    (id ∈ ids (jobCloseF job id hiteof numtodo unlinkOk st now q done).chan ∨
      id ∈ ids (jobCloseF job id hiteof numtodo unlinkOk st now q done).done ∨ ∃ t, st = .found t) ∧
    ((numtodo ≠ 0 ∨ hiteof = false) →
      (jobCloseF job id hiteof numtodo unlinkOk st now q done).chan = q.insert { dt := job.retry, id := id } ∧
      (jobCloseF job id hiteof numtodo unlinkOk st now q done).done = done ∧
      (jobCloseF job id hiteof numtodo unlinkOk st now q done).removed = false) ∧
    ((jobCloseF job id hiteof numtodo unlinkOk st now q done).removed = true →
      numtodo = 0 ∧ hiteof = true ∧ unlinkOk = true ∧ (jobCloseF job id hiteof numtodo unlinkOk st now q done).chan = q) ∧
    (hiteof = true → numtodo = 0 → unlinkOk = false →
      (jobCloseF job id hiteof numtodo unlinkOk st now q done).chan = q.insert { dt := now + SLEEP_SYSFAIL, id := id } ∧
      (jobCloseF job id hiteof numtodo unlinkOk st now q done).removed = false) := by
  have hin : ∀ (x : Int), id ∈ ids (q.insert { dt := x, id := id }) := fun x =>
    ((ids_insert q _ hq).mem_iff).mpr (List.mem_cons_self ..)
  have hind : ∀ (x : Int), id ∈ ids (done.insert { dt := x, id := id }) := fun x =>
    ((ids_insert done _ hd).mem_iff).mpr (List.mem_cons_self ..)
  have hsubq : ∀ (x : Elt), ∀ e ∈ q.toList, e ∈ (q.insert x).toList := fun x e he => (mem_insert q x e hq).mpr (Or.inr he)
  have hsubd : ∀ (x : Elt), ∀ e ∈ done.toList, e ∈ (done.insert x).toList := fun x e he => (mem_insert done x e hd).mpr (Or.inr he)
  have hsubq' : ∀ (x : Elt), ∀ e ∈ q, e ∈ q.insert x := fun x e he => by
    have := hsubq x e (by simpa using he); simpa using this
  have hsubd' : ∀ (x : Elt), ∀ e ∈ done, e ∈ done.insert x := fun x e he => by
    have := hsubd x e (by simpa using he); simpa using this
  unfold jobCloseF
  by_cases hn : numtodo = 0
  · subst hn
    cases hiteof <;> cases unlinkOk <;> cases st <;>
      simp [(insert_spec q _ hq).1, (insert_spec done _ hd).1, hq, hd, hin, hind] <;>
      (first | exact hsubq' _ | exact hsubd' _)
  · have : (numtodo == 0) = false := by simpa using hn
    cases hiteof <;> simp [this, hn, (insert_spec q _ hq).1, hd, hin] <;> exact hsubq' _


/-- **`pqadd` in full (restart and pqfail re-adds).**  Heaps stay heaps.  Never lost: if the info file is there
(or cannot be examined) and no todo file is seen, the message ends up in at least one of pqchan[0], pqchan[1],
pqdone, pqfail.  Complete: with no stat error each existing channel file is scheduled.  Never earlier: the only
possible change of a channel heap is the insertion of ⟨mtime of the channel file, id⟩ — the persisted back-off
time (`C15_persist`); pqdone gets at most ⟨now, id⟩, pqfail at most ⟨now + SLEEP_SYSFAIL, id⟩. -/
theorem C15_pqadd (now : Int) (info todo ch0 ch1 : StatRes) (id : Nat) (h : Heaps)
    (h0 : Heap h.q0) (h1 : Heap h.q1) (hd : Heap h.done) (hf : Heap h.fail) :
    (Heap (pqaddF now info todo ch0 ch1 id h).q0 ∧ Heap (pqaddF now info todo ch0 ch1 id h).q1 ∧
      Heap (pqaddF now info todo ch0 ch1 id h).done ∧ Heap (pqaddF now info todo ch0 ch1 id h).fail) ∧
    (info ≠ .noent → (∀ t, todo ≠ .found t) →
      id ∈ ids (pqaddF now info todo ch0 ch1 id h).q0 ∨ id ∈ ids (pqaddF now info todo ch0 ch1 id h).q1 ∨
      id ∈ ids (pqaddF now info todo ch0 ch1 id h).done ∨ id ∈ ids (pqaddF now info todo ch0 ch1 id h).fail) ∧
    (∀ ti t0, info = .found ti → todo = .noent → ch0 = .found t0 → ch1 ≠ .err →
      (pqaddF now info todo ch0 ch1 id h).q0 = h.q0.insert { dt := t0, id := id }) ∧
    (∀ ti t1, info = .found ti → todo = .noent → ch1 = .found t1 → ch0 ≠ .err →
      (pqaddF now info todo ch0 ch1 id h).q1 = h.q1.insert { dt := t1, id := id }) ∧
    ((pqaddF now info todo ch0 ch1 id h).q0 = h.q0 ∨
      ∃ t0, ch0 = .found t0 ∧ (pqaddF now info todo ch0 ch1 id h).q0 = h.q0.insert { dt := t0, id := id }) ∧
    ((pqaddF now info todo ch0 ch1 id h).q1 = h.q1 ∨
      ∃ t1, ch1 = .found t1 ∧ (pqaddF now info todo ch0 ch1 id h).q1 = h.q1.insert { dt := t1, id := id }) ∧
    ((pqaddF now info todo ch0 ch1 id h).done = h.done ∨
      (pqaddF now info todo ch0 ch1 id h).done = h.done.insert { dt := now, id := id }) ∧
    ((pqaddF now info todo ch0 ch1 id h).fail = h.fail ∨
      (pqaddF now info todo ch0 ch1 id h).fail = h.fail.insert { dt := now + SLEEP_SYSFAIL, id := id }) := by
  have hin : ∀ (q : PQ) (x : Int), Heap q → id ∈ ids (q.insert { dt := x, id := id }) := fun q x hq =>
    ((ids_insert q _ hq).mem_iff).mpr (List.mem_cons_self ..)
  have hi0 := fun x : Int => hin h.q0 x h0
  have hi1 := fun x : Int => hin h.q1 x h1
  have hid := fun x : Int => hin h.done x hd
  have hif := fun x : Int => hin h.fail x hf
  have k0 := fun x : Elt => (insert_spec h.q0 x h0).1
  have k1 := fun x : Elt => (insert_spec h.q1 x h1).1
  have kd := fun x : Elt => (insert_spec h.done x hd).1
  have kf := fun x : Elt => (insert_spec h.fail x hf).1
  cases info <;> cases todo <;> cases ch0 <;> cases ch1 <;>
    simp [pqaddF, h0, h1, hd, hf, hi0, hi1, hid, hif, k0, k1, kd, kf]

/-- **pqfail is drained only by re-adding.**  One `pass_do()`: every pqfail entry either stays in pqfail, or it
is the due minimum and the state afterwards is exactly `pqadd(id)` applied to the heaps without it — which by
`C15_pqadd` keeps the message in one of the heaps, with the persisted due time if it goes to a channel. -/
theorem C15_pqfail (recent now : Int) (files : Nat → Files) (h : Heaps)
    (h0 : Heap h.q0) (h1 : Heap h.q1) (hd : Heap h.done) (hf : Heap h.fail) (e : Elt)
    (he : e ∈ h.fail.toList) :
    e ∈ (passDoFail recent now files h).fail.toList ∨
    (e.dt ≤ recent ∧ (∀ x ∈ h.fail.toList, e.dt ≤ x.dt) ∧ h.fail.min = some e ∧
      h.fail.toList.Perm (e :: h.fail.delmin.toList) ∧ Heap h.fail.delmin ∧
      passDoFail recent now files h =
        pqaddF now (files e.id).info (files e.id).todo (files e.id).ch0 (files e.id).ch1 e.id { h with fail := h.fail.delmin }) := by
  unfold passDoFail
  cases hm : h.fail.min with
  | none =>
    have := (C15_heap_empty h.fail hm).2
    rw [this] at he; cases he
  | some pe =>
    simp only
    obtain ⟨hmem, hmin⟩ := C15_heap_min h.fail pe hf hm
    obtain ⟨hh', hperm⟩ := C15_heap_delmin h.fail pe hf hm
    by_cases hdue : pe.dt ≤ recent
    · rw [if_pos hdue]
      by_cases hpe : e = pe
      · right; subst hpe; exact ⟨hdue, hmin, rfl, hperm, hh', rfl⟩
      · left
        have he' : e ∈ h.fail.delmin.toList := by
          rcases List.mem_cons.mp ((hperm.mem_iff).mp he) with h | h
          · exact absurd h hpe
          · exact h
        -- pqadd only ever adds to pqfail
        rcases (C15_pqadd now (files pe.id).info (files pe.id).todo (files pe.id).ch0 (files pe.id).ch1 pe.id
          { h with fail := h.fail.delmin } h0 h1 hd hh').2.2.2.2.2.2.2 with hh | hh
        · rw [hh]; exact he'
        · rw [hh]; exact (mem_insert _ _ _ hh').mpr (Or.inr he')
    · rw [if_neg hdue]; left; exact he

/-! ### Non-vacuity: concrete inputs meeting the hypotheses -/

example : squareroot 1000000 = 1000 ∧ squareroot 999999 = 999 ∧ squareroot 4294967295 = 65535 := by decide
/-- a remote message born 1 000 000 s ago: next try 1020² s after its birth -/
example : nextretry 1759000000 1758000000 .rem = 1758000000 + 1020 * 1020 := by decide
example : (4294967295 : Int) - 0 < 4294967296 := by decide
example : (PQ.run #[] [.ins ⟨5, 1⟩, .ins ⟨3, 2⟩, .ins ⟨9, 3⟩, .ins ⟨3, 4⟩, .del]).toList
    = [⟨3, 4⟩, ⟨5, 1⟩, ⟨9, 3⟩] := by decide
example : passStart 10 true #[⟨3, 4⟩, ⟨5, 1⟩, ⟨9, 3⟩] = some (⟨3, 4⟩, #[⟨5, 1⟩, ⟨9, 3⟩]) := by decide
example : passStart 2 true #[⟨3, 4⟩, ⟨5, 1⟩, ⟨9, 3⟩] = none := by decide
/-- the default lifetime 604800 has root 777: the expiring attempt is due within 797² s of birth (remote) -/
example : IsSqrt 604800 777 := by decide
example : (jobOpen 1000 100 800 .loc).dying = true ∧ (jobOpen 900 100 800 .loc).dying = false := by decide

/-! ### non-vacuity of the history-level theorems -/

/-- the empty queue is well-formed, nothing is lost in it, and nothing is overdue -/
theorem C15_hist_init (lifetime clock L : Int) :
    DInv L ({ lifetime := lifetime, clock := clock } : HSt) := by
  refine ⟨⟨fun c => by cases c <;> exact heap_empty, heap_empty, List.nodup_nil, fun c => by cases c <;> exact List.nodup_nil,
    fun c e he => by cases c <;> cases he⟩, (fun m hm => by cases hm), (fun c e he => by cases c <;> cases he)⟩

/-- **Base case after `pqstart()`**: on any queue directory with unique message numbers whose persisted due times (the
mtimes of the channel files) are not beyond the expiry bound of their message or not in the future (`MtimesDueBy` — true
of every queue the daemon itself wrote while the invariant held: pqfinish persists heap entries), the new process
satisfies the whole invariant: well-formed, nothing lost, every entry due by the bound.  Complement: without the
hypothesis it fails — a channel file with an mtime far in the future (written from outside) is scheduled at that time
(`example` below, the audit's probe). -/
theorem C15_hist_load_inv (s : HSt) (L : Int) (hn : (s.msgs.map (·.id)).Nodup) (hmt : MtimesDueBy L s) :
    DInv L (step s .load).1 :=
  ⟨wf_loadSt hn, tracked_loadSt s, dueby_loadSt hn hmt⟩

/-- **An arriving message keeps the invariant** (todo_do: info/<id> created now, `pe.dt = now()`, into pqchan[c] for each
channel with recipients, into pqdone if none): well-formedness, nothing-is-lost and the expiry bound — the new entries are
already due. -/
theorem C15_hist_arrive (s : HSt) (L : Int) (hinv : DInv L s) (id n0 n1 : Nat) : DInv L (step s (.arrive id n0 n1)).1 :=
  ⟨wf_arriveSt hinv.1 id n0 n1, tracked_arriveSt hinv.1 hinv.2.1 id n0 n1, dueby_arriveSt hinv.1 hinv.2.2 id n0 n1⟩

/-- **From the empty queue**: every fault-free history of arrivals, time, wake-ups, ALRM, passes answered K/Z/D and clean
restarts — starting with nothing queued — satisfies the invariant at every point; so `C15_hist_leaves` applies to every
message such a history ever takes in. -/
theorem C15_hist_bounded_from_empty (lifetime clock L : Int) (h32 : lifetime < 4294967296) (hL : IsSqrt lifetime L)
    (l : List BStep) (hk : allKZD l) : DInv L (runB ({ lifetime := lifetime, clock := clock } : HSt) l) :=
  (C15_hist_bounded _ L h32 hL (C15_hist_init lifetime clock L) l hk).1

/-- non-vacuity: two messages arrive (one with recipients on both channels, one with none), a pass defers, time passes;
and the audit's probe: a persisted due time beyond the bound breaks `MtimesDueBy` and `DueBy` after pqstart -/
example : let s := runB ({ lifetime := 604800, clock := 5000 } : HSt) [.arrive 7 2 1, .arrive 9 0 0, .pass .loc [90, 75], .tick 100]
    s.q0.toList = [⟨5100, 7⟩] ∧ s.q1.toList = [⟨5000, 7⟩] ∧ s.done.toList = [⟨5000, 9⟩] ∧ (s.find 7).map (·.birth) = some 5000 := by decide
example : let s := run ({ lifetime := 604800 } : HSt) [.mk 7 .loc 1000 99999999 2, .load, .clock 5000]
    s.q0.toList = [⟨99999999, 7⟩] ∧ expiryBound 777 1000 .loc = 620369 ∧ IsSqrt 604800 777 := by decide

/-- a history: message 7 (local, born at 1000, 2 recipients, due at 2000) and message 9 (due at 1990) -/
def exS : HSt := run { lifetime := 604800 } [.mk 7 .loc 1000 2000 2, .mk 9 .loc 1500 1990 1, .load, .clock 2000]

example : started exS .loc = some ⟨1990, 9⟩ ∧ rank exS .loc 2000 = 2 ∧
    started (step exS (.pass .loc [90] .none)).1 .loc = some ⟨2000, 7⟩ := by decide
def exS1 : HSt := (step exS (.pass .loc [90] .none)).1
example : (exS1.find 7).map (·.birth) = some 1000 ∧ exS1.clock - 1000 < 4294967296 := by decide
example : ((step exS1 (.pass .loc [90, 75] .none)).1.find 7).map (·.recs .loc) = some (some [true, false]) ∧
    nextretry 2000 1000 .loc = 2681 := by decide
example : started (runQ (step exS1 (.pass .loc [90, 75] .none)).1 [.clock 2680, .pass .loc [75] .none, .restart, .pass .rem [90] .openf]) .loc = none ∧
    started (runQ (step exS1 (.pass .loc [90, 75] .none)).1 [.clock 2680, .pass .loc [75] .none, .restart, .clock 2681]) .loc = some ⟨2681, 7⟩ := by decide
/-- expiry: lifetime 100, message born at 1000, now 2000: one pass answered Z removes it and puts it into pqdone -/
def exE : HSt := run { lifetime := 100 } [.mk 7 .rem 1000 1500 3, .load, .clock 2000]
example : started exE .rem = some ⟨1500, 7⟩ ∧ ((step exE (.pass .rem [90] .none)).1.find 7).map (·.recs .rem) = some none ∧
    ids (step exE (.pass .rem [90] .none)).1.done = [7] ∧ expiryBound 10 1000 .rem = 1900 ∧ IsSqrt 100 10 := by decide
/-- system failures: open failure keeps the message, 123 s later; unlink failure keeps the all-done file scheduled -/
example : ((step exE (.pass .rem [90] .openf)).1.q .rem).toList = [⟨2123, 7⟩] ∧
    ((step exE (.pass .rem [75] .unlink)).1.q .rem).toList = [⟨2123, 7⟩] ∧
    ((step exE (.pass .rem [75] .unlink)).1.find 7).map (·.recs .rem) = some (some [false, false, false]) := by decide
example : (pqaddF 50 (.found 1) .noent (.found 40) .err 7 {}).fail.toList = [⟨173, 7⟩] ∧
    (pqaddF 50 (.found 1) .noent (.found 40) .noent 7 {}).q0.toList = [⟨40, 7⟩] ∧
    (pqaddF 50 (.found 1) .noent .noent .noent 7 {}).done.toList = [⟨50, 7⟩] := by decide
example : (passDoFail 60 61 (fun _ => { info := .found 1, ch1 := .found 44 }) { fail := #[⟨55, 7⟩] }).q1.toList = [⟨44, 7⟩] ∧
    (passDoFail 54 55 (fun _ => { info := .found 1, ch1 := .found 44 }) { fail := #[⟨55, 7⟩] }).fail.toList = [⟨55, 7⟩] := by decide
/-- overflow: inside the range, and a birth time 50 s below 2⁶³ where `birth + n*n` wraps to a negative time -/
example : nextretryOk 1759000000 1758000000 .rem = true ∧
    nextretryOk 9223372036854775757 9223372036854775757 .loc = false ∧
    nextretry 9223372036854775757 9223372036854775757 .loc = 9223372036854775857 ∧
    nextretryW 9223372036854775757 9223372036854775757 .loc = -9223372036854775759 := by decide

/-! ### Promptness of the sleep: "is retried promptly once that time has passed"

`pass_dochan` starts a due message whenever it runs (`C15_order_prompt`, `C15_hist_prompt`); it runs once per iteration of
main()'s loop, and between two iterations the daemon sleeps in `select()` with the timeout computed by the select preparation
(`Nq.SelPrep.timeout`: `wakeup = recent + SLEEP_FOREVER`, pass_selprep, todo_selprep, cleanup_selprep,
`tv.tv_sec = wakeup <= recent ? 0 : wakeup - recent + SLEEP_FUZZ`; the model belongs to C16 and is compared with the real
daemon at every select there and in the `W` scenarios of this check).  The theorems below say that this sleep never carries
the daemon past the due time of an entry it could start, by more than SLEEP_FUZZ — whatever the rest of the daemon is doing:
in particular while another channel is in the middle of a pass with every delivery slot taken. -/

open Nq.Lemmas.SchedSleep in
/-- **The sleep is prompt.**  For every snapshot of the daemon's globals (clock at or after the epoch) and every startable
due time `d` (head of the heap of a channel that is not mid-pass, with a job slot free; head of pqfail; head of pqdone; no exit
requested): if `d` has been reached the timeout is 0, otherwise it is at most `d - recent + SLEEP_FUZZ`.  No hypothesis on
the other channel: it may be mid-pass and saturated, have writes pending, or its spawner may be dead. -/
theorem C15_sleep_prompt (s : Nq.SelPrep.Snap) (h0 : 0 ≤ s.recent) (d : Int) (hd : d ∈ startableDues s) :
    (d ≤ s.recent → Nq.SelPrep.timeout s = 0) ∧
    (s.recent < d → Nq.SelPrep.timeout s ≤ d - s.recent + Nq.SelPrep.SLEEP_FUZZ) := by
  obtain ⟨a, b, _⟩ := timeout_prompt s h0 d hd
  exact ⟨a, b⟩

open Nq.Lemmas.SchedSleep in
/-- the oracle of the select-loop scenarios is the negation of this theorem's conclusion: a `select()` that returns no later
than `recent + timeout` (it may return earlier: a descriptor became ready, a signal) never "sleeps through a due time". -/
theorem C15_sleep_not_through (s : Nq.SelPrep.Snap) (h0 : 0 ≤ s.recent) (tafter : Int)
    (hret : tafter ≤ s.recent + Nq.SelPrep.timeout s) : sleptThrough s tafter = false := by
  unfold sleptThrough
  rw [List.any_eq_false]
  intro d hd
  obtain ⟨a, b, _⟩ := timeout_prompt s h0 d hd
  simp only [Bool.and_eq_true, decide_eq_true_eq, not_and]
  intro h1
  by_cases hds : d ≤ s.recent
  · rw [a hds] at hret; omega
  · have := b (by omega); omega

open Nq.Lemmas.SchedSleep in
/-- **History level**: in a well-formed daemon state, for EVERY message scheduled on a channel that is not in the middle of a
pass (not only the head of the heap) the daemon does not sleep past its due time by more than SLEEP_FUZZ, and does not sleep
at all once it is due — whatever the other channel, pqfail, the todo and cleanup timers look like.  Together with
`C15_hist_prompt` (the pass that then runs starts an entry due no later) and `C15_hist_no_starvation`. -/
theorem C15_sleep_hist (s : HSt) (sn : Nq.SelPrep.Snap) (hwf : WF s) (hs : SnapOf s sn) (h0 : 0 ≤ s.clock)
    (c : Chan) (hc : midPass sn c = false) (e : Elt) (he : e ∈ (s.q c).toList) :
    (e.dt ≤ s.clock → Nq.SelPrep.timeout sn = 0) ∧
    (s.clock < e.dt → Nq.SelPrep.timeout sn ≤ e.dt - s.clock + Nq.SelPrep.SLEEP_FUZZ) := by
  obtain ⟨m, hm, hle⟩ := min_dt_le (s.q c) (hwf.heap c) e he
  obtain ⟨c0, c1, hch, h0m, h1m⟩ := hs.chans
  have hmem : m ∈ startableDues sn := by
    rw [mem_startableDues]
    refine ⟨hs.running, Or.inl ⟨hs.job, ?_⟩⟩
    cases c with
    | loc =>
      refine ⟨c0, by simp [hch], ?_, by rw [h0m]; exact hm⟩
      simpa [midPass, hch] using hc
    | rem =>
      refine ⟨c1, by simp [hch], ?_, by rw [h1m]; exact hm⟩
      simpa [midPass, hch] using hc
  have h0' : 0 ≤ sn.recent := by rw [hs.recent]; exact h0
  obtain ⟨ha, hb, _⟩ := timeout_prompt sn h0' m hmem
  rw [hs.recent] at ha hb
  have hfz := Nq.SelPrep.fuzz_nonneg
  constructor
  · intro h; exact ha (by omega)
  · intro h
    by_cases hmc : m ≤ s.clock
    · rw [ha hmc]; omega
    · have := hb (by omega); omega

open Nq.Lemmas.SchedSleep in
/-- the same for a finished message waiting in pqdone (e.g. after a failed bounce injection: `now + SLEEP_SYSFAIL`) -/
theorem C15_sleep_hist_done (s : HSt) (sn : Nq.SelPrep.Snap) (hwf : WF s) (hs : SnapOf s sn) (h0 : 0 ≤ s.clock)
    (e : Elt) (he : e ∈ s.done.toList) :
    (e.dt ≤ s.clock → Nq.SelPrep.timeout sn = 0) ∧
    (s.clock < e.dt → Nq.SelPrep.timeout sn ≤ e.dt - s.clock + Nq.SelPrep.SLEEP_FUZZ) := by
  obtain ⟨m, hm, hle⟩ := min_dt_le s.done hwf.heapDone e he
  have hmem : m ∈ startableDues sn := by
    rw [mem_startableDues]
    exact ⟨hs.running, Or.inr (Or.inr (by rw [hs.done]; exact hm))⟩
  have h0' : 0 ≤ sn.recent := by rw [hs.recent]; exact h0
  obtain ⟨ha, hb, _⟩ := timeout_prompt sn h0' m hmem
  rw [hs.recent] at ha hb
  have hfz := Nq.SelPrep.fuzz_nonneg
  constructor
  · intro h; exact ha (by omega)
  · intro h
    by_cases hmc : m ≤ s.clock
    · rw [ha hmc]; omega
    · have := hb (by omega); omega

/-- non-vacuity, and the excluded case.  Local channel mid-pass with its only slot taken, remote message due at +400, todo
rescan at +1500: the daemon sleeps 401 s; returning at +401 is prompt, returning at +1000 (what a select preparation that
gives up as soon as any channel is mid-pass would do) is "slept through".  Complement: the head of the heap of the channel
that IS mid-pass is not startable and does not shorten the sleep. -/
def exSnap : Nq.SelPrep.Snap :=
  { recent := 1000000000, chans := [{ used := 1, conc := 1, passOpen := true }, { conc := 2, pqMin := some 1000000400 }],
    jobRefs := [1, 0, 0], nexttodorun := 1000001500, cleanuptime := 1000076431 }
example : startableDues exSnap = [1000000400] ∧ Nq.SelPrep.timeout exSnap = 401 ∧
    sleptThrough exSnap 1000000401 = false ∧ sleptThrough exSnap 1000001000 = true := by decide
example : let s : Nq.SelPrep.Snap := { exSnap with chans := [{ used := 1, conc := 1, passOpen := true, pqMin := some 1000000100 }, { conc := 2 }] }
    startableDues s = [] ∧ Nq.SelPrep.timeout s = 1501 := by decide
example : SnapOf { clock := 1000000000, q1 := #[⟨1000000400, 9⟩] } exSnap ∧ midPass exSnap .rem = false ∧ midPass exSnap .loc = true :=
  ⟨⟨rfl, rfl, by decide, ⟨_, _, rfl, by decide, by decide⟩, by decide⟩, by decide, by decide⟩

/-! ### Passes that are not atomic (`Nq.SchedPass`): open / one record / one report / job_close as separate steps

The `C15_hist_*` theorems above are about `Nq.SchedHist.step`, where a pass is ONE step (opened, every recipient started
and answered, job_close — at one clock value): they cover *uninterrupted* passes.  The real daemon spreads a pass over many
iterations of its loop; the clock moves, the other channel works, reports of earlier jobs arrive, TERM arrives in
between.  The theorems below are about `Nq.SchedPass.pstep`, which has those interleavings.  Two things change:

* the retry time of a pass is computed from `recent` when the job is OPENED (`jo[].retry = nextretry(birth,c)` in
  pass_dochan), not when a recipient fails and not when the message is re-inserted.  "Strictly in the future" holds
  at the moment the job is opened; when the pass lasts longer than the back-off the re-inserted due time is already past
  (complement `example` below) — the guarantee is "not before the back-off time computed at open".
* a pass can be cut short by TERM: pass_dochan returns at once under flagexitasap, the daemon waits only for deliveries
  in flight (del_canexit), the pass keeps its job reference so job_close never re-inserts, and pqfinish() walks only
  pqchan[].  Before /repo be3a18d the channel file then kept its old mtime and the recipients deferred in that pass were
  retried right after the restart (`C15_term_midpass_mutant`; found by the `W` scenarios of this check).  Since be3a18d
  `pass_finish()` stamps the file with `jo[].retry` iff recipients were deferred (`numtodo != 0`): `persist = true`,
  `Nq.SchedPass.codeNow`. -/

open Nq.SchedPass Nq.Lemmas.SchedPass

/-- **Well-formedness of the fine-grained state is an invariant** of every quiet step (clock tick, TERM, exit, restart,
opening a pass, reading one record, one report — on either channel), for the exit as it is and as it was. -/
theorem C15_pass_wf (persist : Bool) (s : PSt) (hw : WFp s) (x : PStep) (hq : x.quiet = true) : WFp (pstep persist s x) :=
  wfp_pstep hw persist x hq

/-- **No early retry with interrupted passes** (general form).  In a well-formed state a report for record `pos` of the open
job `j` of message `i` on channel `c` leaves the record 'T' (deferral, or a mangled report).  Then for EVERY quiet
continuation `mid` — clock ticks, TERM at any moment, the exit of the daemon as soon as nothing is in flight, restart,
further opens / records / reports on either channel for any message, in any order and number — whenever `pass_dochan(c)`
starts message `i` again the clock has reached `j.job.retry`, which is `nextretry` of the time the job was OPENED, was
strictly in the future at that time and has the quadratic form.  For the exit as it was before be3a18d
(`persist = false`) this needs `NoCut`: the daemon never exits while a job of `i` is open on `c`. -/
theorem C15_pass_backoff_gen (persist : Bool) (s : PSt) (hw : WFp s) (c : Chan) (i pos : Nat) (letter : Byte) (j : OJob) (m : Msg)
    (hup : s.up = true) (hj : s.job? c i = some j) (hin : j.inflight.contains pos = true) (hm : s.h.find i = some m)
    (hstay : (report j.job.dying letter (str "report\n")).staysTodo = true)
    (hage : j.opened - m.birth < 4294967296)
    (mid : List PStep) (hq : allQuiet mid)
    (hcut : persist = true ∨ NoCut persist i c (reportSt s c i pos letter) mid)
    (pe : Elt) (hagain : startedP (prun persist (reportSt s c i pos letter) mid) c = some pe) (hid : pe.id = i) :
    j.job.retry = nextretry j.opened m.birth c ∧ j.opened < j.job.retry ∧
    (m.birth ≤ j.opened → IsRetry j.opened m.birth c j.job.retry) ∧
    j.job.retry ≤ (prun persist (reportSt s c i pos letter) mid).h.clock := by
  have hjm := find_job_mem (show (s.jobs c).find? (·.id == i) = some j from hj)
  have hji : j.id = i := by simpa using hjm.2
  obtain ⟨m', hm', _, hret⟩ := hw.jobFile c j hjm.1
  rw [hji, hm] at hm'; cases hm'
  obtain ⟨hfut, hform⟩ := C15_future j.opened m.birth c hage
  refine ⟨hret, by rw [hret]; exact hfut, by rw [hret]; exact hform, ?_⟩
  have ho := owed_init_report hw hup hj hin hm hstay
  obtain ⟨hw2, ho2⟩ := owed_prun persist mid _ (wfp_reportSt hw c i pos letter) ho hq hcut
  exact owed_started hw2 ho2 hagain hid

/-- **No early retry with interrupted passes, for qmail-send.c as it is** (`codeNow`: the repaired exit): no side
condition — the schedule of a message whose pass was cut short by TERM survives the clean restart. -/
theorem C15_pass_backoff (s : PSt) (hw : WFp s) (c : Chan) (i pos : Nat) (letter : Byte) (j : OJob) (m : Msg)
    (hup : s.up = true) (hj : s.job? c i = some j) (hin : j.inflight.contains pos = true) (hm : s.h.find i = some m)
    (hstay : (report j.job.dying letter (str "report\n")).staysTodo = true)
    (hage : j.opened - m.birth < 4294967296)
    (mid : List PStep) (hq : allQuiet mid)
    (pe : Elt) (hagain : startedP (prun codeNow (reportSt s c i pos letter) mid) c = some pe) (hid : pe.id = i) :
    j.job.retry = nextretry j.opened m.birth c ∧ j.opened < j.job.retry ∧
    (m.birth ≤ j.opened → IsRetry j.opened m.birth c j.job.retry) ∧
    j.job.retry ≤ (prun codeNow (reportSt s c i pos letter) mid).h.clock :=
  C15_pass_backoff_gen codeNow s hw c i pos letter j m hup hj hin hm hstay hage mid hq (Or.inl rfl) pe hagain hid

/-- **A cut pass without a deferral stays due**: when the daemon exits while the pass on message `i` is still open and no
recipient was deferred in it (`numtodo = 0`), the exit does not touch the mtime of its channel file — pqstart() of the next
process schedules it where the file says, so the recipients that were not tried yet are not delayed by the back-off
(in the real file system that mtime is the time of the last mark or of the last pqfinish, not later than now). -/
theorem C15_cut_no_deferral_unchanged (s : PSt) (hw : WFp s) (c : Chan) (i : Nat) (j : OJob) (m : Msg)
    (hup : s.up = true) (hex : s.exitasap = true) (hnf : nothingInFlight s = true)
    (hj : s.job? c i = some j) (hd : j.deferred = 0) (hm : s.h.find i = some m) :
    ∃ m', (pfinSt codeNow s).h.find i = some m' ∧ m'.mt c = m.mt c ∧ m'.recs c = m.recs c ∧ (pfinSt codeNow s).up = false := by
  have hjm := find_job_mem (show (s.jobs c).find? (·.id == i) = some j from hj)
  have hji : j.id = i := by simpa using hjm.2
  have hnq : i ∉ ids (s.h.q c) := by rw [← hji]; exact hw.jobNotQ c j hjm.1
  rcases pfinSt_cases codeNow s with h | ⟨_, _, _, h⟩
  · exfalso
    have : pfinSt codeNow s ≠ s := by
      unfold pfinSt; simp [hup, hex, hnf]
      intro hc; have := congrArg PSt.up hc; simp [hup] at this
    exact this h
  · rw [h]
    obtain ⟨_, _, _, _, _, _, hfind⟩ := finSt_spec hw.wf
    obtain ⟨g, hg, hgp⟩ := hfind i
    obtain ⟨_, _, g3, g4⟩ := hgp m
    have hnone : ∀ x ∈ s.jobs c, ¬ ((x.scanning && decide (0 < x.deferred)) = true ∧ i = x.id) := by
      intro x hx ⟨hq, hxi⟩
      have hxj : x = j := eq_of_nodup_map (·.id) _ (hw.jobNodup c) x hx j hjm.1 (by rw [← hxi, hji])
      subst hxj
      simp [hd] at hq
    have hcutid : ∀ (mm : Msg), cutMt c (s.jobs c) i mm = mm := by
      intro mm
      unfold cutMt
      generalize s.jobs c = l at hnone
      induction l generalizing mm with
      | nil => rfl
      | cons x r ih =>
        rw [List.foldl_cons]
        simp only [if_neg (hnone x List.mem_cons_self)]
        exact ih mm (fun y hy => hnone y (List.mem_cons_of_mem _ hy))
    refine ⟨cutMt .rem s.j1 i (cutMt .loc s.j0 i (g m)), ?_, ?_, ?_, rfl⟩
    · show (if codeNow then s.j1.foldl (cutWrite .rem) (s.j0.foldl (cutWrite .loc) (finSt s.h)) else finSt s.h).find i = _
      simp only [codeNow, if_true]
      rw [foldl_cutWrite_find, foldl_cutWrite_find, hg, hm]; rfl
    · obtain ⟨_, a2, _, _⟩ := cutMt_spec .rem i s.j1 (cutMt .loc s.j0 i (g m))
      obtain ⟨_, b2, _, _⟩ := cutMt_spec .loc i s.j0 (g m)
      cases c with
      | loc =>
        rw [a2 .loc (by decide)]
        rw [show s.j0 = s.jobs .loc from rfl, hcutid]; exact (g4 .loc).2 hnq
      | rem =>
        rw [show s.j1 = s.jobs .rem from rfl, hcutid, b2 .rem (by decide)]; exact (g4 .rem).2 hnq
    · obtain ⟨a1, _, _, _⟩ := cutMt_spec .rem i s.j1 (cutMt .loc s.j0 i (g m))
      obtain ⟨b1, _, _, _⟩ := cutMt_spec .loc i s.j0 (g m)
      rw [a1, b1, g3]

/-- the queue of the minimal scenario of the finding: one local message (born at T0−50, due), one recipient; daemon started at T0 -/
def exP0 : PSt := prun true { h := { lifetime := 604800 } } [.mk 213 .loc 999999950 999999995 1, .tick 1000000000, .load]
/-- pass opened at T0 (retry T0+239), the delivery started; TERM at T0+10; the report Z arrives at T0+50; the daemon exits; restart -/
def exCut : List PStep := [.open .loc, .next .loc, .tick 10, .term, .tick 40, .report .loc 213 0 90, .fin, .load]

/-- **The pre-fix behaviour, as a documented mutant** (`persist = false`, qmail-send.c before be3a18d): the same history on
which the repaired exit keeps the message scheduled at its back-off time T0+239 lets the old exit start the deferred
recipient again at T0+50 — in the second of the deferral, 189 s early.  (Observed on the real code by the `W` scenario
`cl=1/end=600/term=10/out=Z/dur=50/m=p1.0.50.-5.0`; reverting be3a18d in a scratch copy makes the check report it.) -/
theorem C15_term_midpass_mutant :
    allQuiet exCut ∧
    (startedP (prun false exP0 exCut) .loc = some ⟨999999995, 213⟩ ∧ (prun false exP0 exCut).h.clock = 1000000050 ∧
      ((prun false exP0 [.open .loc, .next .loc]).job? .loc 213).map (·.job.retry) = some 1000000239) ∧
    (startedP (prun true exP0 exCut) .loc = none ∧ (prun true exP0 exCut).h.q0.toList = [⟨1000000239, 213⟩] ∧
      startedP (prun true exP0 (exCut ++ [.tick 189])) .loc = some ⟨1000000239, 213⟩) := by
  refine ⟨?_, by decide, by decide⟩
  intro x hx
  simp only [exCut, List.mem_cons, List.mem_nil_iff, or_false] at hx
  rcases hx with h | h | h | h | h | h | h | h <;> subst h <;> rfl

/-- no deferral in the cut pass (two recipients, the first one delivered): due at once after the restart, as before the fix -/
example : startedP (prun codeNow (prun true { h := { lifetime := 604800 } } [.mk 213 .loc 999999950 999999995 2, .tick 1000000000, .load])
    [.open .loc, .next .loc, .tick 10, .term, .tick 40, .report .loc 213 0 75, .fin, .load]) .loc = some ⟨999999995, 213⟩ := by decide

/-- complement to "strictly in the future": the retry time is computed when the job is opened; a pass that lasts longer than
the back-off (here the report arrives 300 s after the open, back-off 239 s) re-inserts the message with a due time that is
already past, and it is started again at once -/
example : let s := prun codeNow exP0 [.open .loc, .next .loc, .tick 300, .report .loc 213 0 90, .next .loc]
    s.h.q0.toList = [⟨1000000239, 213⟩] ∧ s.h.clock = 1000000300 ∧ startedP s .loc = some ⟨1000000239, 213⟩ := by decide

/-- the atomic pass of `Nq.SchedHist` is the uninterrupted special case: open, every record read and answered at once, EOF -/
example : (prun codeNow exP0 (atomicPass .loc 213 [true] [90])).h.q0.toList =
    (Nq.SchedHist.step exP0.h (.pass .loc [90])).1.q0.toList := by decide
example : let s := prun true { h := { lifetime := 604800 } } [.mk 7 .rem 1000 2000 3, .tick 5000, .load]
    (prun codeNow s (atomicPass .rem 7 [true, true, true] [75, 90, 68])).h.q1.toList = (Nq.SchedHist.step s.h (.pass .rem [75, 90, 68])).1.q1.toList ∧
    ((prun codeNow s (atomicPass .rem 7 [true, true, true] [75, 90, 68])).h.find 7).map (·.recs1) =
      ((Nq.SchedHist.step s.h (.pass .rem [75, 90, 68])).1.find 7).map (·.recs1) := by decide

/-! ## Extension round (session 4): the failure paths as history events (`Nq.SchedFail.fstep`)

`messdone` with its pqdone re-insertion, the "trouble reading" / "unknown record type" exits of `pass_dochan`, `utimes` failure
in `pqfinish` — added to the atomic-pass history model as further events (`FStep` = every `Step` + `done f` + `passCut c l k` +
`finF bad`), and the history theorems re-proved over the larger event set.  (`job_close`'s unlink failure is `Fault.unlink`,
part of `Step.pass` already.) -/

open Nq.SchedFail Nq.Lemmas.SchedFail

/-- **Well-formedness over the larger event set**: every old step, a `messdone` run with ANY failing call, a pass cut short at
ANY record, `pqfinish` with `utimes` failing on ANY set of files. -/
theorem C15_fail_wf (s : HSt) (x : FStep) (hwf : WF s) : WF (fstep s x).1 := by
  cases x with
  | old y => exact C15_hist_wf s y hwf
  | done f => exact wf_doneSt hwf f
  | passCut c l k => exact wf_passCutSt hwf c l k
  | finF bad => exact wf_finFSt hwf bad

theorem C15_fail_wf_run (l : List FStep) : ∀ s : HSt, WF s → WF (frun s l) := by
  induction l with
  | nil => intro s h; exact h
  | cons x r ih => intro s h; exact ih _ (C15_fail_wf s x h)

/-- **Nothing is lost, with the failure paths.**  `Tracked` (every existing channel file is on its channel heap, every message
without channel files is in pqdone) is kept by a `messdone` run whatever call fails — a failure puts the message back into
pqdone, a "false alarm" (channel file still there, HOPEFULLY) drops the pqdone entry of a message that is on a channel heap —,
by a pass cut short at any record, and is re-established by `pqstart` after an exit with failing `utimes`.  A message record
disappears from the disk in a `messdone` run only if NO call failed, it had no channel file left and its pqdone entry was due;
the other new events keep every message record. -/
theorem C15_fail_noloss (s : HSt) (hwf : WF s) (ht : Tracked s) :
    (∀ f, Tracked (fstep s (.done f)).1) ∧ (∀ c l k, Tracked (fstep s (.passCut c l k)).1) ∧
    (∀ bad, Tracked (frun s [.finF bad, .old .load])) ∧
    (∀ f m, s.find m.id = some m → (fstep s (.done f)).1.find m.id = none →
      f = .none ∧ m.recs0 = none ∧ m.recs1 = none ∧ ∃ e ∈ s.done.toList, e.id = m.id ∧ e.dt ≤ s.clock) ∧
    (∀ c l k i m, s.find i = some m → ∃ m', (fstep s (.passCut c l k)).1.find i = some m' ∧ m'.birth = m.birth) ∧
    (∀ bad, (fstep s (.finF bad)).1.msgs.map (·.id) = s.msgs.map (·.id)) :=
  ⟨fun f => tracked_doneSt hwf ht f, fun c l k => tracked_passCutSt hwf ht c l k, fun bad => tracked_loadSt (finFSt s bad),
   fun f m hm hg => doneSt_gone f m hm hg, fun c l k i m hm => passCutSt_ids hwf c l k i m hm,
   fun bad => (finFSt_spec hwf bad).2.2.2.2.2.1⟩

/-- **`messdone` in full: a failure only delays, earliest-due first.**  The pqdone part of `pass_do()` touches pqdone only when
its minimum `pe` is due (`pe.dt ≤ clock`, and no entry is due earlier); then pqdone is either the rest (message finished, false
alarm, or info file already gone) or the rest plus `⟨now + SLEEP_SYSFAIL, pe.id⟩` — strictly in the future —, and after ANY
failing call (`f ≠ none`) whose message exists without channel files it is the latter: the message is still there and still in
pqdone.  The channel heaps are never touched. -/
theorem C15_fail_messdone (s : HSt) (hwf : WF s) (f : MdFault) :
    (∀ c, (fstep s (.done f)).1.q c = s.q c) ∧
    (passStart s.clock true s.done = none → (fstep s (.done f)).1 = s) ∧
    (∀ pe d', passStart s.clock true s.done = some (pe, d') →
      pe.dt ≤ s.clock ∧ (∀ e ∈ s.done.toList, pe.dt ≤ e.dt) ∧ s.done.toList.Perm (pe :: d'.toList) ∧
      ((fstep s (.done f)).1.done = d' ∨
       ((fstep s (.done f)).1.done = d'.insert { dt := s.clock + SLEEP_SYSFAIL, id := pe.id } ∧ s.clock < s.clock + SLEEP_SYSFAIL)) ∧
      (f ≠ .none → ∀ m, s.find pe.id = some m → m.recs0 = none → m.recs1 = none →
        (fstep s (.done f)).1.find pe.id = some m ∧
        (fstep s (.done f)).1.done = d'.insert { dt := s.clock + SLEEP_SYSFAIL, id := pe.id })) := by
  refine ⟨fun c => ?_, fun hp => doneSt_none f hp, fun pe d' hp => ?_⟩
  · show (doneSt s f).q c = s.q c
    cases hp : passStart s.clock true s.done with
    | none => rw [doneSt_none f hp]
    | some r =>
      obtain ⟨pe, d'⟩ := r
      rw [doneSt_some f hp]
      rcases messdone_cases (setDone s d') pe.id f with ⟨h, _⟩ | h | ⟨h, _⟩
      · rw [h, setDone_q]
      · rw [h, failDone_eq, setDone_q, setDone_q]
      · rw [h, removeMsg_q, setDone_q]
  · obtain ⟨_, h1, h2, h3, _⟩ := passStart_spec s.clock true s.done d' pe hwf.heapDone hp
    have hsf : s.clock < s.clock + SLEEP_SYSFAIL := by
      have : (0 : Int) < SLEEP_SYSFAIL := by decide
      omega
    have hds : (fstep s (.done f)).1 = messdone (setDone s d') pe.id f := doneSt_some f hp
    rw [hds]
    refine ⟨h1, h2, h3, ?_, ?_⟩
    · rcases messdone_cases (setDone s d') pe.id f with ⟨h, _⟩ | h | ⟨h, _⟩
      · left; rw [h]; rfl
      · right; rw [h]; exact ⟨rfl, hsf⟩
      · left; rw [h]; rfl
    · intro hf m hm n0 n1
      rcases messdone_cases (setDone s d') pe.id f with ⟨h, hwhy⟩ | h | ⟨_, hnone, _⟩
      · exfalso
        rcases hwhy with ⟨t, hs⟩ | ⟨t, hs⟩ | hn
        · obtain ⟨m2, hm2, hr2⟩ := chanStat_found hs
          rw [setDone_find, hm] at hm2; cases hm2
          have : m.recs .loc = none := n0
          rw [this] at hr2; cases hr2
        · obtain ⟨m2, hm2, hr2⟩ := chanStat_found hs
          rw [setDone_find, hm] at hm2; cases hm2
          have : m.recs .rem = none := n1
          rw [this] at hr2; cases hr2
        · rw [setDone_find, hm] at hn; cases hn
      · rw [h]; exact ⟨hm, rfl⟩
      · exact absurd hnone hf

/-- **"Trouble reading" / "unknown record type": the pass is cut short, the message comes back at its back-off time.**  A pass
that starts message `pe.id` (the due minimum of the channel heap: earliest-due first, as for every pass) and cannot read record
`k` of the channel file re-inserts the message at `nextretry(birth)` — strictly in the future, the quadratic formula — whatever
was reported for the records before `k`, even if none is left to do; the channel file stays, pqdone and the other channel are
untouched, nothing else moves. -/
theorem C15_fail_cut (s : HSt) (hwf : WF s) (c : Chan) (letters : List Byte) (k : Nat) (pe : Elt) (q' : PQ) (m : Msg) (recs : List Bool)
    (hp : passStart s.clock true (s.q c) = some (pe, q')) (hm : s.find pe.id = some m) (hr : m.recs c = some recs)
    (hk : k < recs.length) (hage : s.clock - m.birth < 4294967296) :
    started s c = some pe ∧ pe.dt ≤ s.clock ∧ (∀ e ∈ (s.q c).toList, pe.dt ≤ e.dt) ∧
    s.clock < nextretry s.clock m.birth c ∧
    ((fstep s (.passCut c letters k)).1.q c).toList.Perm ({ dt := nextretry s.clock m.birth c, id := pe.id } :: q'.toList) ∧
    (fstep s (.passCut c letters k)).1.q (other c) = s.q (other c) ∧
    (fstep s (.passCut c letters k)).1.done = s.done ∧
    ∃ m', (fstep s (.passCut c letters k)).1.find pe.id = some m' ∧ (m'.recs c).isSome = true ∧
      m'.recs (other c) = m.recs (other c) := by
  obtain ⟨h1, h2, _, hh', _, _, _, _⟩ := start_facts hwf hp
  have hmid : m.id = pe.id := (find_some hm).2
  refine ⟨by unfold started; rw [hp]; rfl, h1, h2, (C15_future s.clock m.birth c hage).1, ?_⟩
  show ((passCutSt s c letters k).q c).toList.Perm _ ∧ (passCutSt s c letters k).q (other c) = _ ∧
    (passCutSt s c letters k).done = _ ∧ ∃ m', (passCutSt s c letters k).find pe.id = some m' ∧ _
  rw [passCutSt_run letters k hp hm hr hk]
  refine ⟨by rw [update_q, mkSt_q_same]; exact (insert_spec q' _ hh').2,
    by rw [update_q, mkSt_q_other _ _ _ _ _ (other_ne c)], by rw [update_done, mkSt_done], ?_⟩
  refine ⟨cutMsg m c recs k (cutAnswer s c letters k m recs), ?_, by rw [cutMsg_recs_same]; rfl, cutMsg_recs_other ..⟩
  have := find_update_self (mkSt s c (q'.insert { dt := nextretry s.clock m.birth c, id := pe.id }) s.done)
    (cutMsg m c recs k (cutAnswer s c letters k m recs)) m (by rw [cutMsg_id, mkSt_find, hmid]; exact hm)
  rw [cutMsg_id, hmid] at this; exact this

/-- **No early retry, over all quiet histories WITH the failure paths.**  As `C15_hist_backoff`, but the continuation `mid` may also
contain `messdone` runs with any failing call, passes cut short by trouble reading / an unknown record at any record (on either
channel, for any message), and TERM + restart where `utimes` FAILS on any files other than this message's channel file
(`utimesKept`); and the first pass may itself be a cut pass (`first = .passCut`, which always leaves the message to do) instead
of a completed pass that left a recipient to do.  Whenever `pass_dochan(c)` starts the message again, the entry carries a due time
`≥ nextretry(t)` and the clock has reached it: none of these failures makes a retry EARLIER.  The excluded case — `utimes`
failing on this very file — is `C15_fail_utimes` / `C15_fail_utimes_early`. -/
theorem C15_fail_backoff (s : HSt) (hwf : WF s) (c : Chan) (pe : Elt) (m : Msg) (first : FStep)
    (hstart : started s c = some pe) (hm : s.find pe.id = some m)
    (hage : s.clock - m.birth < 4294967296)
    (hfirst : (∃ letters f, first = .old (.pass c letters f) ∧ f.trouble = false ∧
                ∃ m2 recs2, (fstep s first).1.find pe.id = some m2 ∧ m2.recs c = some recs2 ∧ true ∈ recs2) ∨
              (∃ letters k recs, first = .passCut c letters k ∧ m.recs c = some recs ∧ k < recs.length))
    (mid : List QFStep) (hut : utimesKept c pe.id mid) (pe2 : Elt)
    (hagain : started (runQF (fstep s first).1 mid) c = some pe2) (hid : pe2.id = pe.id) :
    s.clock < nextretry s.clock m.birth c ∧ (m.birth ≤ s.clock → IsRetry s.clock m.birth c (nextretry s.clock m.birth c)) ∧
    nextretry s.clock m.birth c ≤ pe2.dt ∧ pe2.dt ≤ (runQF (fstep s first).1 mid).clock := by
  obtain ⟨q', hp⟩ := started_some hstart
  obtain ⟨hfut, hform⟩ := C15_future s.clock m.birth c hage
  refine ⟨hfut, hform, ?_⟩
  have hmono : ∀ t', nextretry s.clock m.birth c ≤ t' → nextretry s.clock m.birth c ≤ nextretry t' m.birth c :=
    fun t' ht => C15_retry_mono s.clock t' m.birth c (by omega)
  have hsf : 0 ≤ SLEEP_SYSFAIL := Int.natCast_nonneg _
  have ho : Owed pe.id c m.birth (nextretry s.clock m.birth c) (fstep s first).1 := by
    rcases hfirst with ⟨letters, f, hf1, hf, m2, recs2, hm2, hr2, ht2⟩ | ⟨letters, k, recs, hf1, hr, hk⟩
    · subst hf1
      exact owed_init hwf letters hp hm hf (by
        intro m3 hm3 recs3 hr3
        have h1 : m3 = m2 := by
          have : some m3 = some m2 := by rw [← hm3]; exact hm2
          exact Option.some.inj this
        subst h1
        rw [hr2] at hr3; cases hr3; exact ht2)
    · subst hf1
      exact owed_init_cut hwf letters k hp hm hr hk
  obtain ⟨hwf3, ho3⟩ := owed_runQF hmono hsf mid _ (C15_fail_wf s first hwf) ho hut
  obtain ⟨q2, hp2⟩ := started_some hagain
  obtain ⟨hdue2, _, _, _, hmem2, _, _, m3, recs3, hm3, hr3⟩ := start_facts hwf3 hp2
  obtain ⟨_, h2⟩ := ho3 m3 (hid ▸ hm3)
  obtain ⟨e, he, hei, hre⟩ := h2 (by rw [hr3]; rfl)
  have : e = pe2 := eq_of_nodup_map (fun x : Elt => x.id) _ (by have := hwf3.nodupQ c; unfold ids at this; exact this) e he pe2 hmem2 (by rw [hei, hid])
  subst this
  exact ⟨hre, hdue2⟩

/-- **What a failing `utimes` at exit does to the schedule after the restart** (what the code really does; its own warning says
"message will be retried too soon").  After TERM (`pqfinish` with `utimes` failing on the files in `bad`) and a new process
(`pqstart`), channel `c` holds exactly one entry per entry it held before, for the same message; where `utimes` succeeded it has
the same due time (the schedule survives), where it FAILED the entry carries the mtime the channel file had BEFORE the exit — the
time of the last successful `utimes`, of the file's creation, or of the last `markdone` write — and NOT the due time in the heap.
Nothing is lost either way. -/
theorem C15_fail_utimes (s : HSt) (hwf : WF s) (ht : Tracked s) (bad : List (Chan × Nat)) (c : Chan) (e : Elt) :
    e ∈ ((frun s [.finF bad, .old .load]).q c).toList ↔
      ∃ e0 ∈ (s.q c).toList, e0.id = e.id ∧
        (((c, e.id) ∉ bad ∧ e.dt = e0.dt) ∨ ((c, e.id) ∈ bad ∧ ∃ m, s.find e.id = some m ∧ e.dt = m.mt c)) :=
  restartF_mem hwf ht bad c e

def exF : HSt := run { lifetime := 604800 } [.mk 7 .loc 1000 2000 2, .load, .clock 2000]
def exF1 : HSt := (fstep exF (.old (.pass .loc [90]))).1

/-- **Complement of `C15_fail_backoff` (the clause "the schedule survives a clean restart" does NOT hold under a failing utimes)**,
by evaluation: message 7 (born 1000) is deferred at 2000, its back-off time is 2000 + … = `nextretry 2000 1000 loc` = 2681 and it
is scheduled there; TERM with `utimes` failing on local/7, restart: the entry is back at the file's old mtime 2000 and the very
next pass — one second after the deferral — starts it again, 680 s before its back-off time.  With `utimes` succeeding it stays
at 2681. -/
theorem C15_fail_utimes_early :
    exF1.q0.toList = [⟨2681, 7⟩] ∧ nextretry 2000 1000 .loc = 2681 ∧
    (frun exF1 [.finF [(.loc, 7)], .old .load]).q0.toList = [⟨2000, 7⟩] ∧
    started (frun exF1 [.finF [(.loc, 7)], .old .load, .old (.clock 2001)]) .loc = some ⟨2000, 7⟩ ∧
    (frun exF1 [.finF [], .old .load]).q0.toList = [⟨2681, 7⟩] ∧
    started (frun exF1 [.finF [], .old .load, .old (.clock 2001)]) .loc = none := by decide

/-- non-vacuity / what the new events do on concrete states -/
example : WF exF ∧ Tracked exF := by
  refine ⟨C15_hist_wf_run _ _ ⟨fun c => by cases c <;> exact heap_empty, heap_empty, List.nodup_nil,
    fun c => by cases c <;> exact List.nodup_nil, fun c e he => by cases c <;> cases he⟩, ?_⟩
  exact tracked_tick (tracked_loadSt _) 2000
/-- a cut pass: record 1 unreadable, record 0 delivered: back at 2681 although … one 'T' is left; with k = 0 nothing is tried -/
example : ((fstep exF (.passCut .loc [75] 1)).1.q0.toList = [⟨2681, 7⟩]) ∧
    ((fstep exF (.passCut .loc [75] 1)).1.find 7).map (·.recs0) = some (some [false, true]) ∧
    ((fstep exF (.passCut .loc [75] 0)).1.q0.toList = [⟨2681, 7⟩]) ∧
    ((fstep exF (.passCut .loc [75] 0)).1.find 7).map (·.recs0) = some (some [true, true]) := by decide
/-- messdone: message 7 finishes (both delivered) → pqdone at 2000; messdone with a failing unlink of info/7 → back into pqdone at
2123, message still on disk; without failure → gone from disk, pqdone empty; not yet due → nothing happens -/
example : let s := (fstep exF (.old (.pass .loc [75]))).1
    s.done.toList = [⟨2000, 7⟩] ∧ (fstep s (.done .unlinkInfo)).1.done.toList = [⟨2123, 7⟩] ∧
    ((fstep s (.done .unlinkInfo)).1.find 7).isSome = true ∧
    (fstep s (.done .none)).1.done.toList = [] ∧ ((fstep s (.done .none)).1.find 7).isNone = true ∧
    (frun s [.done .statLoc, .done .none]).done.toList = [⟨2123, 7⟩] ∧
    (frun s [.done .bounce, .old (.clock 2123), .done .none]).msgs.length = 0 := by decide
example : utimesKept .loc 7 [.restartF [(.rem, 7), (.loc, 9)], .done .statTodo, .passCut .rem [90] 0, .q (.clock 5)] := by
  intro bad hb
  simp only [List.mem_cons, List.mem_nil_iff, or_false] at hb
  rcases hb with h | h | h | h
  · cases h; decide
  all_goals cases h

end Nq.Props.C15
