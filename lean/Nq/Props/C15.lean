/-
  C15 — Retries back off quadratically, expire with the queue lifetime, earliest first.

  Model: `Nq.Sched` (qmail-send.c squareroot/nextretry/pass_dochan/del_dochan/job_close/pqrun/pqfinish/
  pqadd/pass_selprep and prioq.c), tied to the source by `harness/c15_sched.c` (exhaustive square roots,
  dense nextretry grid, exhaustive/random heap histories, daemon histories over a real queue directory)
  and by the translator (chanskip[], SLEEP_FOREVER).  Predicates: `Nq.Spec.Sched`.
  Only property theorems live here.
-/
import Nq.Lemmas.SchedSqrt
import Nq.Lemmas.SchedDaemon

namespace Nq.Props.C15
open Nq Nq.Sched Nq.Spec.Sched Nq.Lemmas.Sched

/-! ### the integer square root -/

/-- **`squareroot` is exact on every age `0 … 2³²−1`**: `r² ≤ x < (r+1)²`. -/
theorem C15_sqrt (x : Int) (h0 : 0 ≤ x) (h : x < 4294967296) : IsSqrt x (squareroot x) := by
  unfold squareroot
  apply sqLoop_spec x 16 0 0 (Int.le_refl 0) (by ring) (by simpa using h0)
  norm_num; exact h

/-- complement: from `2³²` on the root saturates at 65535 … -/
theorem C15_sqrt_saturated (x : Int) (h : 4294967296 ≤ x) : squareroot x = 65535 := by
  unfold squareroot
  rw [sqLoop_sat x 16 0 0 (Int.le_refl 0) (by ring) (by norm_num; exact h)]
  norm_num

/-- … and a negative argument (never passed by `nextretry`) gives 0. -/
theorem C15_sqrt_negative (x : Int) (h : x < 0) : squareroot x = 0 := sqLoop_neg x h 16

/-- no intermediate of the C loop overflows: `1 << (j+j)` fits an `int`, everything else a `long`,
for every non-negative `long` argument (9223372036854775808 = 2⁶³). -/
theorem C15_sqrt_nooverflow (x : Int) (h0 : 0 ≤ x) (h : x < 9223372036854775808) : sqLoopOk x 16 0 0 = true :=
  sqLoopOk_inv x h0 h 16 0 0 (Nat.le_refl _) (Int.le_refl 0) (by norm_num) (by ring) (by simpa using h0)

/-! ### the retry time -/

/-- **The retry time is strictly in the future** for every age below `2³²` (including a birth time
that lies after `recent`, i.e. a clock that went backwards), and for a birth time in the past it is
exactly `birth + (⌊√age⌋ + 10 or 20)²`. -/
theorem C15_future (recent birth : Int) (c : Chan) (h : recent - birth < 4294967296) :
    recent < nextretry recent birth c ∧ (birth ≤ recent → IsRetry recent birth c (nextretry recent birth c)) := by
  unfold nextretry
  have hs := skip_pos c
  rw [chanskip_eq]
  by_cases hb : birth > recent
  · rw [if_pos hb]
    refine ⟨?_, fun hle => absurd hb (Int.not_lt.mpr hle)⟩
    nlinarith
  · rw [if_neg hb]
    have hsq := C15_sqrt (recent - birth) (by omega) h
    refine ⟨?_, fun _ => ⟨squareroot (recent - birth), hsq, rfl⟩⟩
    obtain ⟨r0, _, r2⟩ := hsq
    generalize squareroot (recent - birth) = s at *
    nlinarith

/-- complement: for ages from `2³²` (136 years) on, the root is saturated; the retry time is then
`birth + (65535 + skip)²` and it is in the future only while the age is below that square. -/
theorem C15_future_saturated (recent birth : Int) (c : Chan) (h : 4294967296 ≤ recent - birth) :
    nextretry recent birth c = birth + (65535 + skip c) * (65535 + skip c) ∧
    (recent < nextretry recent birth c ↔ recent - birth < (65535 + skip c) * (65535 + skip c)) := by
  unfold nextretry
  rw [chanskip_eq, if_neg (by omega), C15_sqrt_saturated _ h]
  exact ⟨rfl, by constructor <;> intro h' <;> linarith⟩

/-- **Bounded time to expiry.** While a message is not older than the queue lifetime, each retry is
scheduled at least `skip² ≥ 100` seconds after the attempt and no later than
`birth + (⌊√lifetime⌋ + skip)²`; so the attempts' times strictly increase and the first attempt made
after `birth + lifetime` (the expiring one, `C15_dying`) is due by that bound. -/
theorem C15_bounded (recent birth lifetime L : Int) (c : Chan) (hb : birth ≤ recent)
    (hl : recent ≤ birth + lifetime) (h32 : lifetime < 4294967296) (hL : IsSqrt lifetime L) :
    recent + 100 ≤ nextretry recent birth c ∧ nextretry recent birth c ≤ birth + (L + skip c) * (L + skip c) := by
  have hage : recent - birth < 4294967296 := by omega
  obtain ⟨s, hs, he⟩ := (C15_future recent birth c hage).2 hb
  rw [he]
  have hmono := isSqrt_mono hs hL (by omega)
  have hk := skip_pos c
  obtain ⟨s0, s1, s2⟩ := hs
  constructor
  · nlinarith
  · have : s + skip c ≤ L + skip c := by omega
    have h0 : 0 ≤ s + skip c := by omega
    nlinarith

/-! ### the priority queue (prioq.c) -/

/-- `prioq_insert` keeps the heap order and adds exactly the new entry. -/
theorem C15_heap_insert (q : PQ) (e : Elt) (h : Heap q) :
    Heap (q.insert e) ∧ (q.insert e).toList.Perm (e :: q.toList) := insert_spec q e h

/-- `prioq_min` returns the root, which is a minimum of everything queued. -/
theorem C15_heap_min (q : PQ) (pe : Elt) (h : Heap q) (hm : q.min = some pe) :
    pe ∈ q.toList ∧ ∀ e ∈ q.toList, pe.dt ≤ e.dt := by
  obtain ⟨hne, hm0⟩ := min_eq q pe hm
  refine ⟨?_, fun e he => by rw [hm0]; exact heap_root_le_mem q h e he⟩
  have h0 : 0 < q.size := by omega
  rw [hm0, getElem!_pos q 0 h0]
  exact Array.mem_toList_iff.mpr (Array.getElem_mem h0)

/-- `prioq_delmin` keeps the heap order and removes exactly the entry `prioq_min` returned. -/
theorem C15_heap_delmin (q : PQ) (pe : Elt) (h : Heap q) (hm : q.min = some pe) :
    Heap q.delmin ∧ q.toList.Perm (pe :: q.delmin.toList) := by
  obtain ⟨hne, hm0⟩ := min_eq q pe hm
  rw [hm0]; exact delmin_spec q h hne

/-- complement: on an empty queue `prioq_min` fails and `prioq_delmin` does nothing. -/
theorem C15_heap_empty (q : PQ) (hm : q.min = none) : q.delmin = q ∧ q.toList = [] := by
  have := min_none q hm
  refine ⟨by unfold PQ.delmin; rw [if_pos this], ?_⟩
  apply List.eq_nil_of_length_eq_zero; simpa using this

/-- **For every sequence of insertions and deletions** the array is a heap (so every later
`prioq_min` is a minimum, by `C15_heap_min`). -/
theorem C15_heap (ops : List PQ.Op) : Heap (PQ.run #[] ops) := heap_run ops #[] heap_empty

/-! ### the daemon: which message is started, and when -/

/-- **No early start, earliest-due first.** `pass_dochan` opens a job only for an entry whose due time
has passed, that entry is a minimum of the channel's heap, and exactly it leaves the heap. -/
theorem C15_order (recent : Int) (ja : Bool) (q q' : PQ) (pe : Elt) (h : Heap q)
    (hs : passStart recent ja q = some (pe, q')) :
    pe.dt ≤ recent ∧ (∀ e ∈ q.toList, pe.dt ≤ e.dt) ∧ q.toList.Perm (pe :: q'.toList) ∧ Heap q' :=
  (passStart_spec recent ja q q' pe h hs).2

/-- **Promptness.** If a job slot is free and anything on the channel is due, a job is opened. -/
theorem C15_order_prompt (recent : Int) (q : PQ) (h : Heap q) (e : Elt) (he : e ∈ q.toList)
    (hdue : e.dt ≤ recent) : (passStart recent true q).isSome = true := passStart_prompt recent q h e he hdue

/-- Serving the channel until nothing more is started: the started messages come out in non-decreasing
due-time order, they are exactly the due ones, and everything left is not yet due. -/
theorem C15_order_drain (recent : Int) (q : PQ) (h : Heap q) :
    (drainDue recent q.size q).1.Pairwise (fun a b => a.dt ≤ b.dt) ∧
    q.toList.Perm ((drainDue recent q.size q).1 ++ (drainDue recent q.size q).2.toList) ∧
    (∀ e ∈ (drainDue recent q.size q).1, e.dt ≤ recent) ∧
    (∀ e ∈ (drainDue recent q.size q).2.toList, recent < e.dt) :=
  let r := drainDue_spec recent q.size q h (Nat.le_refl _)
  ⟨r.1, r.2.1, r.2.2.1, r.2.2.2.1⟩

/-- `pass_selprep`: the daemon's wake-up time is no later than any due time on the channel. -/
theorem C15_wakeup (w : Int) (q : PQ) (h : Heap q) :
    wakeupChan w q ≤ w ∧ ∀ e ∈ q.toList, wakeupChan w q ≤ e.dt := by
  unfold wakeupChan
  cases hm : q.min with
  | none =>
    have := (C15_heap_empty q hm).2
    simp [this]
  | some pe =>
    simp only
    have hmin := (C15_heap_min q pe h hm).2
    by_cases hc : w > pe.dt
    · rw [if_pos hc]; exact ⟨by omega, hmin⟩
    · rw [if_neg hc]; exact ⟨Int.le_refl _, fun e he => by have := hmin e he; omega⟩

/-- After a pass that leaves recipients to do, the message goes back into the heap with exactly the
retry time computed when the pass began — which was then strictly in the future (`C15_future`), so by
`C15_order` it is not tried again before it. -/
theorem C15_reschedule (recent lifetime birth : Int) (c : Chan) (id numtodo : Nat) (q : PQ) (h : Heap q)
    (hn : numtodo ≠ 0) :
    ∃ q', jobClose (jobOpen recent lifetime birth c) id numtodo q = some q' ∧ Heap q' ∧
      q'.toList.Perm ({ dt := nextretry recent birth c, id := id } :: q.toList) := by
  refine ⟨q.insert { dt := nextretry recent birth c, id := id }, ?_, ?_⟩
  · simp [jobClose, jobOpen, hn]
  · exact insert_spec q _ h

/-! ### expiry -/

/-- **Older than the queue lifetime ⇒ the pass is the last one**: the flag is set exactly when
`recent > birth + lifetime`, and under it every report of the letters qmail-lspawn/qmail-rspawn
produce (K, Z, D) finishes the recipient: a `Z` is handled as `D`, bounced with the report text followed
by the "too long" sentence; no reported recipient stays to be retried, and a pass that ends with nothing
to do removes the message from the channel. -/
theorem C15_dying (recent lifetime birth : Int) (c : Chan) (text : Bytes) :
    ((jobOpen recent lifetime birth c).dying = true ↔ recent > birth + lifetime) ∧
    report true 90 text = .failure (text ++ tooLong) ∧
    (∀ letter : Byte, letter = 75 ∨ letter = 90 ∨ letter = 68 → (report true letter text).staysTodo = false) ∧
    (∀ (job : Job) (id : Nat) (q : PQ), jobClose job id 0 q = none) := by
  refine ⟨by simp [jobOpen], by simp [report], ?_, by intro job id q; simp [jobClose]⟩
  intro letter hl
  rcases hl with hl | hl | hl <;> subst hl <;> simp [report, Act.staysTodo]

/-- before expiry a temporary failure leaves the recipient to be retried (and nothing is bounced) -/
theorem C15_dying_not (text : Bytes) : report false 90 text = .deferral ∧ Act.deferral.staysTodo = true := by
  simp [report, Act.staysTodo]

/-- complement: a report that is none of K, Z, D is "mangled" and deferred — even in the expiring pass -/
theorem C15_dying_mangled (dying : Bool) (letter : Byte) (text : Bytes) (h1 : letter ≠ 75) (h2 : letter ≠ 90)
    (h3 : letter ≠ 68) : report dying letter text = .mangled := by
  simp [report, h1, h2, h3]

/-! ### restart and ALRM -/

/-- **The schedule survives a clean restart.** TERM: `pqfinish` stores every due time as the channel
file's mtime; the new process's `pqstart` reads them back: the heap holds the same entries again
(each message is queued once per channel; `ids` is the directory listing in any order). -/
theorem C15_persist (q : PQ) (m0 : Mtimes) (ids : List Nat) (h : Heap q)
    (hn : (q.toList.map (·.id)).Nodup) (hids : ids.Perm (q.toList.map (·.id))) :
    Heap (pqstart (m0.writeAll (pqfinish q.size q)) ids) ∧
    (pqstart (m0.writeAll (pqfinish q.size q)) ids).toList.Perm q.toList := restart_perm q m0 ids h hn hids

/-- **ALRM makes everything due at once**: after `pqrun` every entry has `dt = recent`, the same
messages are queued, and (by `C15_order_prompt`) a job is opened as soon as a slot is free. -/
theorem C15_alrm (recent : Int) (q : PQ) :
    (∀ e ∈ (pqrun recent q).toList, e.dt = recent) ∧
    (pqrun recent q).toList.map (·.id) = q.toList.map (·.id) ∧ Heap (pqrun recent q) ∧
    (q.size ≠ 0 → (passStart recent true (pqrun recent q)).isSome = true) := by
  have hall : ∀ e ∈ (pqrun recent q).toList, e.dt = recent := by
    intro e he
    rw [pqrun_toList] at he
    obtain ⟨x, _, hx⟩ := List.mem_map.mp he
    rw [← hx]
  refine ⟨hall, by rw [pqrun_toList, List.map_map]; rfl, pqrun_heap recent q, ?_⟩
  intro hne
  have hl : (pqrun recent q).toList ≠ [] := by
    rw [pqrun_toList]; intro h
    have := congrArg List.length h
    simp at this; exact hne (by simp [this])
  obtain ⟨e, he⟩ := List.exists_mem_of_ne_nil _ hl
  exact passStart_prompt recent _ (pqrun_heap recent q) e he (Int.le_of_eq (hall e he))

/-! ### Non-vacuity: concrete inputs meeting the hypotheses -/

example : squareroot 1000000 = 1000 ∧ squareroot 999999 = 999 ∧ squareroot 4294967295 = 65535 := by decide
/-- a remote message born 1 000 000 s ago: next try 1020² s after its birth -/
example : nextretry 1759000000 1758000000 .rem = 1758000000 + 1020 * 1020 := by decide
example : (4294967295 : Int) - 0 < 4294967296 := by decide
example : (PQ.run #[] [.ins ⟨5, 1⟩, .ins ⟨3, 2⟩, .ins ⟨9, 3⟩, .ins ⟨3, 4⟩, .del]).toList
    = [⟨3, 4⟩, ⟨5, 1⟩, ⟨9, 3⟩] := by decide
example : passStart 10 true #[⟨3, 4⟩, ⟨5, 1⟩, ⟨9, 3⟩] = some (⟨3, 4⟩, #[⟨5, 1⟩, ⟨9, 3⟩]) := by decide
example : passStart 2 true #[⟨3, 4⟩, ⟨5, 1⟩, ⟨9, 3⟩] = none := by decide
/-- the default lifetime 604800 has root 777: the expiring attempt is due within 797² s of birth (remote) -/
example : IsSqrt 604800 777 := by decide
example : (jobOpen 1000 100 800 .loc).dying = true ∧ (jobOpen 900 100 800 .loc).dying = false := by decide

end Nq.Props.C15
