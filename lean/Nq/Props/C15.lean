/-
  C15 — Retries back off quadratically, expire with the queue lifetime, earliest first.

  Model: `Nq.Sched` (qmail-send.c squareroot/nextretry/pass_dochan/del_dochan/job_close/pqrun/pqfinish/
  pqadd/pass_selprep and prioq.c), tied to the source by `harness/c15_sched.c` (exhaustive square roots,
  dense nextretry grid, exhaustive/random heap histories, daemon histories over a real queue directory)
  and by the translator (chanskip[], SLEEP_FOREVER).  Predicates: `Nq.Spec.Sched`.
  Only property theorems live here.
-/
import Nq.Lemmas.SchedSqrt
import Nq.Lemmas.SchedDaemon
import Nq.Lemmas.SchedHist

namespace Nq.Props.C15
open Nq Nq.Sched Nq.Spec.Sched Nq.Lemmas.Sched

/-! ### the integer square root -/

/-- **`squareroot` is exact on every age `0 … 2³²−1`**: `r² ≤ x < (r+1)²`. -/
theorem C15_sqrt (x : Int) (h0 : 0 ≤ x) (h : x < 4294967296) : IsSqrt x (squareroot x) := by
  unfold squareroot
  apply sqLoop_spec x 16 0 0 (Int.le_refl 0) (by ring) (by simpa using h0)
  norm_num; exact h

/-- complement: from `2³²` on the root saturates at 65535 … -/
theorem C15_sqrt_saturated (x : Int) (h : 4294967296 ≤ x) : squareroot x = 65535 := by
  unfold squareroot
  rw [sqLoop_sat x 16 0 0 (Int.le_refl 0) (by ring) (by norm_num; exact h)]
  norm_num

/-- … and a negative argument (never passed by `nextretry`) gives 0. -/
theorem C15_sqrt_negative (x : Int) (h : x < 0) : squareroot x = 0 := sqLoop_neg x h 16

/-- no intermediate of the C loop overflows: `1 << (j+j)` fits an `int`, everything else a `long`,
for every non-negative `long` argument (9223372036854775808 = 2⁶³). -/
theorem C15_sqrt_nooverflow (x : Int) (h0 : 0 ≤ x) (h : x < 9223372036854775808) : sqLoopOk x 16 0 0 = true :=
  sqLoopOk_inv x h0 h 16 0 0 (Nat.le_refl _) (Int.le_refl 0) (by norm_num) (by ring) (by simpa using h0)

/-! ### the retry time -/

/-- **The retry time is strictly in the future** for every age below `2³²` (including a birth time
that lies after `recent`, i.e. a clock that went backwards), and for a birth time in the past it is
exactly `birth + (⌊√age⌋ + 10 or 20)²`. -/
theorem C15_future (recent birth : Int) (c : Chan) (h : recent - birth < 4294967296) :
    recent < nextretry recent birth c ∧ (birth ≤ recent → IsRetry recent birth c (nextretry recent birth c)) := by
  unfold nextretry
  have hs := skip_pos c
  rw [chanskip_eq]
  by_cases hb : birth > recent
  · rw [if_pos hb]
    refine ⟨?_, fun hle => absurd hb (Int.not_lt.mpr hle)⟩
    nlinarith
  · rw [if_neg hb]
    have hsq := C15_sqrt (recent - birth) (by omega) h
    refine ⟨?_, fun _ => ⟨squareroot (recent - birth), hsq, rfl⟩⟩
    obtain ⟨r0, _, r2⟩ := hsq
    generalize squareroot (recent - birth) = s at *
    nlinarith

/-- complement: for ages from `2³²` (136 years) on, the root is saturated; the retry time is then
`birth + (65535 + skip)²` and it is in the future only while the age is below that square. -/
theorem C15_future_saturated (recent birth : Int) (c : Chan) (h : 4294967296 ≤ recent - birth) :
    nextretry recent birth c = birth + (65535 + skip c) * (65535 + skip c) ∧
    (recent < nextretry recent birth c ↔ recent - birth < (65535 + skip c) * (65535 + skip c)) := by
  unfold nextretry
  rw [chanskip_eq, if_neg (by omega), C15_sqrt_saturated _ h]
  exact ⟨rfl, by constructor <;> intro h' <;> linarith⟩

/-- **Bounded time to expiry.** While a message is not older than the queue lifetime, each retry is
scheduled at least `skip² ≥ 100` seconds after the attempt and no later than
`birth + (⌊√lifetime⌋ + skip)²`; so the attempts' times strictly increase and the first attempt made
after `birth + lifetime` (the expiring one, `C15_dying`) is due by that bound. -/
theorem C15_bounded (recent birth lifetime L : Int) (c : Chan) (hb : birth ≤ recent)
    (hl : recent ≤ birth + lifetime) (h32 : lifetime < 4294967296) (hL : IsSqrt lifetime L) :
    recent + 100 ≤ nextretry recent birth c ∧ nextretry recent birth c ≤ birth + (L + skip c) * (L + skip c) := by
  have hage : recent - birth < 4294967296 := by omega
  obtain ⟨s, hs, he⟩ := (C15_future recent birth c hage).2 hb
  rw [he]
  have hmono := isSqrt_mono hs hL (by omega)
  have hk := skip_pos c
  obtain ⟨s0, s1, s2⟩ := hs
  constructor
  · nlinarith
  · have : s + skip c ≤ L + skip c := by omega
    have h0 : 0 ≤ s + skip c := by omega
    nlinarith

/-! ### the priority queue (prioq.c) -/

/-- `prioq_insert` keeps the heap order and adds exactly the new entry. -/
theorem C15_heap_insert (q : PQ) (e : Elt) (h : Heap q) :
    Heap (q.insert e) ∧ (q.insert e).toList.Perm (e :: q.toList) := insert_spec q e h

/-- `prioq_min` returns the root, which is a minimum of everything queued. -/
theorem C15_heap_min (q : PQ) (pe : Elt) (h : Heap q) (hm : q.min = some pe) :
    pe ∈ q.toList ∧ ∀ e ∈ q.toList, pe.dt ≤ e.dt := by
  obtain ⟨hne, hm0⟩ := min_eq q pe hm
  refine ⟨?_, fun e he => by rw [hm0]; exact heap_root_le_mem q h e he⟩
  have h0 : 0 < q.size := by omega
  rw [hm0, getElem!_pos q 0 h0]
  exact Array.mem_toList_iff.mpr (Array.getElem_mem h0)

/-- `prioq_delmin` keeps the heap order and removes exactly the entry `prioq_min` returned. -/
theorem C15_heap_delmin (q : PQ) (pe : Elt) (h : Heap q) (hm : q.min = some pe) :
    Heap q.delmin ∧ q.toList.Perm (pe :: q.delmin.toList) := by
  obtain ⟨hne, hm0⟩ := min_eq q pe hm
  rw [hm0]; exact delmin_spec q h hne

/-- complement: on an empty queue `prioq_min` fails and `prioq_delmin` does nothing. -/
theorem C15_heap_empty (q : PQ) (hm : q.min = none) : q.delmin = q ∧ q.toList = [] := by
  have := min_none q hm
  refine ⟨by unfold PQ.delmin; rw [if_pos this], ?_⟩
  apply List.eq_nil_of_length_eq_zero; simpa using this

/-- **For every sequence of insertions and deletions** the array is a heap (so every later
`prioq_min` is a minimum, by `C15_heap_min`). -/
theorem C15_heap (ops : List PQ.Op) : Heap (PQ.run #[] ops) := heap_run ops #[] heap_empty

/-! ### the daemon: which message is started, and when -/

/-- **No early start, earliest-due first.** `pass_dochan` opens a job only for an entry whose due time
has passed, that entry is a minimum of the channel's heap, and exactly it leaves the heap. -/
theorem C15_order (recent : Int) (ja : Bool) (q q' : PQ) (pe : Elt) (h : Heap q)
    (hs : passStart recent ja q = some (pe, q')) :
    pe.dt ≤ recent ∧ (∀ e ∈ q.toList, pe.dt ≤ e.dt) ∧ q.toList.Perm (pe :: q'.toList) ∧ Heap q' :=
  (passStart_spec recent ja q q' pe h hs).2

/-- **Promptness.** If a job slot is free and anything on the channel is due, a job is opened. -/
theorem C15_order_prompt (recent : Int) (q : PQ) (h : Heap q) (e : Elt) (he : e ∈ q.toList)
    (hdue : e.dt ≤ recent) : (passStart recent true q).isSome = true := passStart_prompt recent q h e he hdue

/-- Serving the channel until nothing more is started: the started messages come out in non-decreasing
due-time order, they are exactly the due ones, and everything left is not yet due. -/
theorem C15_order_drain (recent : Int) (q : PQ) (h : Heap q) :
    (drainDue recent q.size q).1.Pairwise (fun a b => a.dt ≤ b.dt) ∧
    q.toList.Perm ((drainDue recent q.size q).1 ++ (drainDue recent q.size q).2.toList) ∧
    (∀ e ∈ (drainDue recent q.size q).1, e.dt ≤ recent) ∧
    (∀ e ∈ (drainDue recent q.size q).2.toList, recent < e.dt) :=
  let r := drainDue_spec recent q.size q h (Nat.le_refl _)
  ⟨r.1, r.2.1, r.2.2.1, r.2.2.2.1⟩

/-- `pass_selprep`: the daemon's wake-up time is no later than any due time on the channel. -/
theorem C15_wakeup (w : Int) (q : PQ) (h : Heap q) :
    wakeupChan w q ≤ w ∧ ∀ e ∈ q.toList, wakeupChan w q ≤ e.dt := by
  unfold wakeupChan
  cases hm : q.min with
  | none =>
    have := (C15_heap_empty q hm).2
    simp [this]
  | some pe =>
    simp only
    have hmin := (C15_heap_min q pe h hm).2
    by_cases hc : w > pe.dt
    · rw [if_pos hc]; exact ⟨by omega, hmin⟩
    · rw [if_neg hc]; exact ⟨Int.le_refl _, fun e he => by have := hmin e he; omega⟩

/-- After a pass that leaves recipients to do, the message goes back into the heap with exactly the
retry time computed when the pass began — which was then strictly in the future (`C15_future`), so by
`C15_order` it is not tried again before it. -/
theorem C15_reschedule (recent lifetime birth : Int) (c : Chan) (id numtodo : Nat) (q : PQ) (h : Heap q)
    (hn : numtodo ≠ 0) :
    ∃ q', jobClose (jobOpen recent lifetime birth c) id numtodo q = some q' ∧ Heap q' ∧
      q'.toList.Perm ({ dt := nextretry recent birth c, id := id } :: q.toList) := by
  refine ⟨q.insert { dt := nextretry recent birth c, id := id }, ?_, ?_⟩
  · simp [jobClose, jobOpen, hn]
  · exact insert_spec q _ h

/-! ### expiry -/

/-- **Older than the queue lifetime ⇒ the pass is the last one**: the flag is set exactly when
`recent > birth + lifetime`, and under it every report of the letters qmail-lspawn/qmail-rspawn
produce (K, Z, D) finishes the recipient: a `Z` is handled as `D`, bounced with the report text followed
by the "too long" sentence; no reported recipient stays to be retried, and a pass that ends with nothing
to do removes the message from the channel. -/
theorem C15_dying (recent lifetime birth : Int) (c : Chan) (text : Bytes) :
    ((jobOpen recent lifetime birth c).dying = true ↔ recent > birth + lifetime) ∧
    report true 90 text = .failure (text ++ tooLong) ∧
    (∀ letter : Byte, letter = 75 ∨ letter = 90 ∨ letter = 68 → (report true letter text).staysTodo = false) ∧
    (∀ (job : Job) (id : Nat) (q : PQ), jobClose job id 0 q = none) := by
  refine ⟨by simp [jobOpen], by simp [report], ?_, by intro job id q; simp [jobClose]⟩
  intro letter hl
  rcases hl with hl | hl | hl <;> subst hl <;> simp [report, Act.staysTodo]

/-- before expiry a temporary failure leaves the recipient to be retried (and nothing is bounced) -/
theorem C15_dying_not (text : Bytes) : report false 90 text = .deferral ∧ Act.deferral.staysTodo = true := by
  simp [report, Act.staysTodo]

/-- complement: a report that is none of K, Z, D is "mangled" and deferred — even in the expiring pass -/
theorem C15_dying_mangled (dying : Bool) (letter : Byte) (text : Bytes) (h1 : letter ≠ 75) (h2 : letter ≠ 90)
    (h3 : letter ≠ 68) : report dying letter text = .mangled := by
  simp [report, h1, h2, h3]

/-! ### restart and ALRM -/

/-- **The schedule survives a clean restart.** TERM: `pqfinish` stores every due time as the channel
file's mtime; the new process's `pqstart` reads them back: the heap holds the same entries again
(each message is queued once per channel; `ids` is the directory listing in any order). -/
theorem C15_persist (q : PQ) (m0 : Mtimes) (ids : List Nat) (h : Heap q)
    (hn : (q.toList.map (·.id)).Nodup) (hids : ids.Perm (q.toList.map (·.id))) :
    Heap (pqstart (m0.writeAll (pqfinish q.size q)) ids) ∧
    (pqstart (m0.writeAll (pqfinish q.size q)) ids).toList.Perm q.toList := restart_perm q m0 ids h hn hids

/-- **ALRM makes everything due at once**: after `pqrun` every entry has `dt = recent`, the same
messages are queued, and (by `C15_order_prompt`) a job is opened as soon as a slot is free. -/
theorem C15_alrm (recent : Int) (q : PQ) :
    (∀ e ∈ (pqrun recent q).toList, e.dt = recent) ∧
    (pqrun recent q).toList.map (·.id) = q.toList.map (·.id) ∧ Heap (pqrun recent q) ∧
    (q.size ≠ 0 → (passStart recent true (pqrun recent q)).isSome = true) := by
  have hall : ∀ e ∈ (pqrun recent q).toList, e.dt = recent := by
    intro e he
    rw [pqrun_toList] at he
    obtain ⟨x, _, hx⟩ := List.mem_map.mp he
    rw [← hx]
  refine ⟨hall, by rw [pqrun_toList, List.map_map]; rfl, pqrun_heap recent q, ?_⟩
  intro hne
  have hl : (pqrun recent q).toList ≠ [] := by
    rw [pqrun_toList]; intro h
    have := congrArg List.length h
    simp at this; exact hne (by simp [this])
  obtain ⟨e, he⟩ := List.exists_mem_of_ne_nil _ hl
  exact passStart_prompt recent _ (pqrun_heap recent q) e he (Int.le_of_eq (hall e he))

/-! ### monotonicity -/

/-- `squareroot` is non-negative and monotone on ALL of `Int` (exact below 2³², saturated above, 0 below 0). -/
theorem C15_sqrt_mono (x y : Int) (h : x ≤ y) : 0 ≤ squareroot x ∧ squareroot x ≤ squareroot y := by
  have nonneg : ∀ z : Int, 0 ≤ squareroot z := by
    intro z
    by_cases h0 : z < 0
    · rw [C15_sqrt_negative z h0]
    · by_cases h1 : z < 4294967296
      · exact (C15_sqrt z (by omega) h1).1
      · rw [C15_sqrt_saturated z (by omega)]; decide
  refine ⟨nonneg x, ?_⟩
  by_cases hx0 : x < 0
  · rw [C15_sqrt_negative x hx0]; exact nonneg y
  · by_cases hx1 : x < 4294967296
    · have hsx := C15_sqrt x (by omega) hx1
      by_cases hy1 : y < 4294967296
      · exact isSqrt_mono hsx (C15_sqrt y (by omega) hy1) h
      · rw [C15_sqrt_saturated y (by omega)]
        obtain ⟨r0, r1, _⟩ := hsx
        generalize squareroot x = r at *
        by_contra hc
        have : 65536 ≤ r := by omega
        nlinarith
    · rw [C15_sqrt_saturated x (by omega), C15_sqrt_saturated y (by omega)]

/-- a later attempt never gets an earlier retry time (for every pair of times, every birth) -/
theorem C15_retry_mono (recent recent' birth : Int) (c : Chan) (h : recent ≤ recent') :
    nextretry recent birth c ≤ nextretry recent' birth c := by
  unfold nextretry
  rw [chanskip_eq]
  have hs := skip_pos c
  by_cases hb : birth > recent
  · rw [if_pos hb]
    by_cases hb' : birth > recent'
    · rw [if_pos hb']
    · rw [if_neg hb']
      have := (C15_sqrt_mono (recent' - birth) (recent' - birth) (Int.le_refl _)).1
      generalize squareroot (recent' - birth) = a at *
      nlinarith
  · rw [if_neg hb, if_neg (by omega)]
    obtain ⟨h0, h1⟩ := C15_sqrt_mono (recent - birth) (recent' - birth) (by omega)
    generalize squareroot (recent - birth) = a at *
    generalize squareroot (recent' - birth) = a' at *
    nlinarith

/-! ### history level: every event history of the daemon model (`Nq.SchedHist.step`) -/

open Nq.SchedHist Nq.Spec.SchedHist Nq.Lemmas.SchedHist

theorem started_some {s : HSt} {c : Chan} {pe : Elt} (h : started s c = some pe) :
    ∃ q', passStart s.clock true (s.q c) = some (pe, q') := by
  unfold started at h
  cases hp : passStart s.clock true (s.q c) with
  | none => rw [hp] at h; cases h
  | some r => rw [hp] at h; exact ⟨r.2, by cases h; rfl⟩

/-- **No early retry, over all quiet histories.**  A pass on channel `c` at time `t = s.clock` starts message
`pe.id` (born at `m.birth`) and leaves a recipient to do (a temporary failure, or a mangled report).  Then in
EVERY continuation made of clock changes (forwards or backwards), wake-up computations, further passes on either
channel with arbitrary reports and arbitrary injected system failures (open/getinfo "trouble", unlink failure,
stat failure), and clean restarts (TERM `pqfinish`, new process `pqstart`) — of any length —, whenever
`pass_dochan(c)` starts that message again, the entry it starts carries a due time `≥ birth + (⌊√(t-birth)⌋+skip)²`,
and the clock has reached it; that back-off time was strictly in the future at `t`.  (Not covered, on purpose:
ALRM — see `C15_hist_alrm` —, files changed from outside, crash restarts.) -/
theorem C15_hist_backoff (s : HSt) (hwf : WF s) (c : Chan) (letters : List Byte) (f : Fault) (pe : Elt) (m : Msg)
    (hstart : started s c = some pe) (hm : s.find pe.id = some m) (hf : f.trouble = false)
    (hage : s.clock - m.birth < 4294967296)
    (hleft : ∃ m2 recs2, (step s (.pass c letters f)).1.find pe.id = some m2 ∧ m2.recs c = some recs2 ∧ true ∈ recs2)
    (mid : List QStep) (pe2 : Elt)
    (hagain : started (runQ (step s (.pass c letters f)).1 mid) c = some pe2) (hid : pe2.id = pe.id) :
    s.clock < nextretry s.clock m.birth c ∧ (m.birth ≤ s.clock → IsRetry s.clock m.birth c (nextretry s.clock m.birth c)) ∧
    nextretry s.clock m.birth c ≤ pe2.dt ∧ pe2.dt ≤ (runQ (step s (.pass c letters f)).1 mid).clock := by
  obtain ⟨q', hp⟩ := started_some hstart
  obtain ⟨hfut, hform⟩ := C15_future s.clock m.birth c hage
  refine ⟨hfut, hform, ?_⟩
  have hmono : ∀ t', nextretry s.clock m.birth c ≤ t' → nextretry s.clock m.birth c ≤ nextretry t' m.birth c :=
    fun t' ht => C15_retry_mono s.clock t' m.birth c (by omega)
  have hsf : 0 ≤ SLEEP_SYSFAIL := Int.natCast_nonneg _
  obtain ⟨m2, recs2, hm2, hr2, ht2⟩ := hleft
  have ho := owed_init hwf letters hp hm hf (by
    intro m3 hm3 recs3 hr3
    have h1 : m3 = m2 := by
      have : some m3 = some m2 := by rw [← hm3]; exact hm2
      exact Option.some.inj this
    subst h1
    rw [hr2] at hr3; cases hr3; exact ht2)
  obtain ⟨hwf3, ho3⟩ := owed_runQ hmono hsf mid _ (wf_passSt hwf c letters f) ho
  obtain ⟨q2, hp2⟩ := started_some hagain
  obtain ⟨hdue2, _, _, _, hmem2, _, _, m3, recs3, hm3, hr3⟩ := start_facts hwf3 hp2
  obtain ⟨_, h2⟩ := ho3 m3 (hid ▸ hm3)
  obtain ⟨e, he, hei, hre⟩ := h2 (by rw [hr3]; rfl)
  have : e = pe2 := eq_of_nodup_map (fun x : Elt => x.id) _ (by have := hwf3.nodupQ c; unfold ids at this; exact this) e he pe2 hmem2 (by rw [hei, hid])
  subst this
  exact ⟨hre, hdue2⟩

/-- **Well-formedness is an invariant of EVERY history**: whatever step is taken (file creation from outside,
pqstart, clock change, ALRM, wake-up, pqfinish, a pass with any reports and any injected failure), the heaps
stay heaps, message ids stay unique per channel, and every scheduled entry has its channel file. -/
theorem C15_hist_wf (s : HSt) (x : Step) (hwf : WF s) : WF (step s x).1 := by
  cases x with
  | mk id c birth due nrec => exact wf_mk hwf id c birth due nrec
  | load => exact wf_loadSt hwf.nodupMsgs
  | clock t => exact wf_clock hwf t
  | alrm => exact wf_alrmSt hwf
  | wake => exact hwf
  | fin => exact wf_finSt hwf
  | pass c l f => exact wf_passSt hwf c l f
  | bad => exact hwf

/-- … hence over every history from a well-formed state (the empty queue is one). -/
theorem C15_hist_wf_run (l : List Step) : ∀ s : HSt, WF s → WF (run s l) := by
  induction l with
  | nil => intro s h; exact h
  | cons x r ih => intro s h; exact ih _ (C15_hist_wf s x h)

/-- **Nothing is lost** (pqdone bookkeeping, markdone effects): `pqstart` schedules every channel file and puts
every message without channel files into pqdone; from then on every step of a running daemon — clock change,
wake-up, ALRM, a pass with ANY reports and ANY injected failure (open/getinfo trouble, unlink failure, stat
failure) — keeps every existing channel file scheduled on its channel heap and every message without channel
files in pqdone.  (pqfinish empties the heaps on purpose; `C15_hist_restart` covers TERM + restart.) -/
theorem C15_hist_noloss (s : HSt) (hwf : WF s) :
    Tracked (step s .load).1 ∧
    (Tracked s → (∀ t, Tracked (step s (.clock t)).1) ∧ Tracked (step s .wake).1 ∧ Tracked (step s .alrm).1 ∧
      ∀ c l f, Tracked (step s (.pass c l f)).1) :=
  ⟨tracked_loadSt s, fun ht => ⟨fun t => tracked_tick ht t, ht, tracked_alrmSt ht, fun c l f => tracked_passSt hwf ht c l f⟩⟩

/-- **Earliest-due first, no starvation — one pass.**  If an entry `e` of channel `c` is due, a pass on `c`
(any reports, any injected failure) starts an entry due no later than `e`; and either that is `e` itself, or `e`
is still scheduled and the number of entries due no later than `e` has gone down by exactly one (the started
message comes back strictly later than now: at its back-off time, or at now + SLEEP_SYSFAIL). -/
theorem C15_hist_prompt (s : HSt) (hwf : WF s) (c : Chan) (e : Elt) (he : e ∈ (s.q c).toList) (hdue : e.dt ≤ s.clock)
    (hage : ∀ m ∈ s.msgs, s.clock - m.birth < 4294967296) (letters : List Byte) (f : Fault) :
    ∃ pe, started s c = some pe ∧ pe.dt ≤ e.dt ∧
      (pe = e ∨ (e ∈ ((step s (.pass c letters f)).1.q c).toList ∧
                 rank (step s (.pass c letters f)).1 c e.dt + 1 = rank s c e.dt)) :=
  rank_passSt hwf he hdue (fun m hm => (C15_future s.clock m.birth c (hage m hm)).1) (by decide) letters f

/-- **No starvation — bounded number of passes.**  A due entry `e` is started by one of the next `rank` passes
on its channel (`rank` = number of entries due no later than `e`, itself included), whatever the reports. -/
theorem C15_hist_no_starvation (s : HSt) (hwf : WF s) (c : Chan) (e : Elt) (he : e ∈ (s.q c).toList)
    (hdue : e.dt ≤ s.clock) (hage : ∀ m ∈ s.msgs, s.clock - m.birth < 4294967296) (ls : Nat → List Byte) :
    ∃ j, j < rank s c e.dt ∧ started (passes s c ls j) c = some e :=
  let ⟨j, hj, h, _⟩ := no_starvation c e (by decide) (rank s c e.dt) s ls hwf he hdue
    (fun m hm => (C15_future s.clock m.birth c (hage m hm)).1) (Nat.le_refl _)
  ⟨j, hj, h⟩

/-- **The expiring pass.**  A pass started when `recent > birth + lifetime`, answered with K/Z/D only (no open
or unlink failure), finishes every recipient: the channel file is removed, the message is no longer scheduled on
the channel, the other channel is untouched, and if that was the last channel the message is in pqdone. -/
theorem C15_hist_expire (s : HSt) (hwf : WF s) (c : Chan) (letters : List Byte) (f : Fault) (pe : Elt) (m : Msg)
    (hstart : started s c = some pe) (hm : s.find pe.id = some m)
    (hold : s.clock > m.birth + s.lifetime) (hl : lettersKZD letters) (hf : f = .none ∨ f = .stat) :
    ∃ m2, (step s (.pass c letters f)).1.find pe.id = some m2 ∧ m2.recs c = none ∧
      m2.recs (other c) = m.recs (other c) ∧ pe.id ∉ ids ((step s (.pass c letters f)).1.q c) ∧
      (m.recs (other c) = none → pe.id ∈ ids (step s (.pass c letters f)).1.done) := by
  obtain ⟨q', hp⟩ := started_some hstart
  obtain ⟨m2, h1, h2, h3, _, h5, h6, h7⟩ := expire_passSt hwf letters f hp hm hold hl hf
  exact ⟨m2, h1, h2, h3, by show pe.id ∉ ids ((passSt s c letters f).q c); rw [h5]; exact h6, h7⟩

/-- **The schedule survives a clean restart, at history level**: after TERM (`pqfinish`) and a new process
(`pqstart`) each channel heap holds exactly the same entries (same message, same due time) as before. -/
theorem C15_hist_restart (s : HSt) (hwf : WF s) (ht : Tracked s) (c : Chan) (e : Elt) :
    e ∈ ((run s [.fin, .load]).q c).toList ↔ e ∈ (s.q c).toList := restart_mem hwf ht c e

/-- **ALRM at history level**: every scheduled entry becomes due now, the same messages stay scheduled, nothing
is lost, and every non-empty channel starts a message at the next pass. -/
theorem C15_hist_alrm (s : HSt) (hwf : WF s) (c : Chan) :
    WF (step s .alrm).1 ∧ (Tracked s → Tracked (step s .alrm).1) ∧
    (∀ e ∈ ((step s .alrm).1.q c).toList, e.dt = s.clock) ∧ ids ((step s .alrm).1.q c) = ids (s.q c) ∧
    ((s.q c).size ≠ 0 → (started (step s .alrm).1 c).isSome = true) := by
  have h := C15_alrm s.clock (s.q c)
  have hq : (step s .alrm).1.q c = pqrun s.clock (s.q c) := alrmSt_q s c
  refine ⟨wf_alrmSt hwf, tracked_alrmSt, by rw [hq]; exact h.1, by rw [hq]; exact ids_pqrun _ _, ?_⟩
  intro hne
  unfold started
  rw [hq]
  have := h.2.2.2 hne
  show (Option.map _ (passStart s.clock true (pqrun s.clock (s.q c)))).isSome = true
  rw [Option.isSome_map]; exact this

/-- the arithmetic behind the bound: an attempt made no later than `birth + lifetime` is rescheduled no later
than `birth + (⌊√lifetime⌋ + skip)²` — also when the birth time lies in the future of the clock -/
theorem C15_retry_le_bound (lifetime L : Int) (h32 : lifetime < 4294967296) (hL : IsSqrt lifetime L)
    (t b : Int) (c : Chan) (h : t ≤ b + lifetime) : nextretry t b c ≤ expiryBound L b c := by
  unfold expiryBound
  rw [chanskip_eq]
  by_cases hb : b ≤ t
  · exact (C15_bounded t b lifetime L c hb h h32 hL).2
  · unfold nextretry
    rw [if_pos (by omega), chanskip_eq]
    have := skip_pos c
    obtain ⟨l0, _, _⟩ := hL
    nlinarith

/-- **Bounded time to expiry, over all fault-free histories.**  Invariant: every scheduled entry is due by
`birth + (⌊√lifetime⌋ + skip)²` or is already due.  It is preserved by every history made of time advancing,
wake-ups, ALRM, passes answered with K/Z/D, and clean restarts — together with well-formedness and
nothing-is-lost. -/
theorem C15_hist_bounded (s : HSt) (L : Int) (h32 : s.lifetime < 4294967296) (hL : IsSqrt s.lifetime L)
    (hinv : DInv L s) (l : List BStep) (hk : allKZD l) : DInv L (runB s l) ∧ (runB s l).lifetime = s.lifetime :=
  inv_runB l s hinv (fun t b c h => C15_retry_le_bound s.lifetime L h32 hL t b c h) hk

/-- **Every message leaves the channel in bounded time** (spawners answering K/Z/D): in any state reached as in
`C15_hist_bounded`, once the clock has reached `birth + (⌊√lifetime⌋ + skip)²` a scheduled message `e` is due,
and within `rank` further passes on its channel (`rank` = entries due no later than it) it is started, that
pass is the expiring one, and afterwards its channel file is gone and it is off the channel heap; if no file
remains on the other channel it is in pqdone. -/
theorem C15_hist_leaves (s : HSt) (L : Int) (hL : IsSqrt s.lifetime L) (hinv : DInv L s) (c : Chan) (e : Elt) (m : Msg)
    (he : e ∈ (s.q c).toList) (hm : s.find e.id = some m) (hclock : expiryBound L m.birth c ≤ s.clock)
    (hage : ∀ m ∈ s.msgs, s.clock - m.birth < 4294967296) (ls : Nat → List Byte) (hk : ∀ k, lettersKZD (ls k)) :
    ∃ j, j < rank s c e.dt ∧ started (passes s c ls j) c = some e ∧
      ∃ m2, (passes s c ls (j + 1)).find e.id = some m2 ∧ m2.recs c = none ∧
        e.id ∉ ids ((passes s c ls (j + 1)).q c) ∧
        (m2.recs (other c) = none → e.id ∈ ids (passes s c ls (j + 1)).done) := by
  obtain ⟨hwf, _, hd⟩ := hinv
  have hdue : e.dt ≤ s.clock := by
    rcases hd c e he m hm with h | h
    · omega
    · exact h
  obtain ⟨j, hj, hst, hwfj, hcj, hlj, hbj⟩ := no_starvation c e (by decide) (rank s c e.dt) s ls hwf he hdue
    (fun m hm => (C15_future s.clock m.birth c (hage m hm)).1) (Nat.le_refl _)
  obtain ⟨mj, hmj, hbirth⟩ := hbj e.id m hm
  -- the bound lies beyond birth + lifetime
  have hold : (passes s c ls j).clock > mj.birth + (passes s c ls j).lifetime := by
    rw [hcj, hlj, hbirth]
    have hb : expiryBound L m.birth c = m.birth + (L + skip c) * (L + skip c) := by unfold expiryBound; rw [chanskip_eq]
    have := skip_pos c
    obtain ⟨l0, _, l2⟩ := hL
    have : s.lifetime < (L + skip c) * (L + skip c) := by nlinarith
    omega
  obtain ⟨q', hp⟩ := started_some hst
  obtain ⟨m2, h1, h2, h3, _, h5, h6, h7⟩ := expire_passSt hwfj (ls j) .none hp hmj hold (hk j) (Or.inl rfl)
  refine ⟨j, hj, hst, m2, h1, h2, ?_, ?_⟩
  · show e.id ∉ ids ((passSt (passes s c ls j) c (ls j) .none).q c)
    rw [h5]; exact h6
  · intro ho; exact h7 (by rw [← h3]; exact ho)

/-! ### Non-vacuity: concrete inputs meeting the hypotheses -/

example : squareroot 1000000 = 1000 ∧ squareroot 999999 = 999 ∧ squareroot 4294967295 = 65535 := by decide
/-- a remote message born 1 000 000 s ago: next try 1020² s after its birth -/
example : nextretry 1759000000 1758000000 .rem = 1758000000 + 1020 * 1020 := by decide
example : (4294967295 : Int) - 0 < 4294967296 := by decide
example : (PQ.run #[] [.ins ⟨5, 1⟩, .ins ⟨3, 2⟩, .ins ⟨9, 3⟩, .ins ⟨3, 4⟩, .del]).toList
    = [⟨3, 4⟩, ⟨5, 1⟩, ⟨9, 3⟩] := by decide
example : passStart 10 true #[⟨3, 4⟩, ⟨5, 1⟩, ⟨9, 3⟩] = some (⟨3, 4⟩, #[⟨5, 1⟩, ⟨9, 3⟩]) := by decide
example : passStart 2 true #[⟨3, 4⟩, ⟨5, 1⟩, ⟨9, 3⟩] = none := by decide
/-- the default lifetime 604800 has root 777: the expiring attempt is due within 797² s of birth (remote) -/
example : IsSqrt 604800 777 := by decide
example : (jobOpen 1000 100 800 .loc).dying = true ∧ (jobOpen 900 100 800 .loc).dying = false := by decide

end Nq.Props.C15
