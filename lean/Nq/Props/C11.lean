/-
  C11 — local deliveries run as exactly the user the address belongs to, never root.

  Theorems about the executable model `Nq.Users` (tied to qmail-newu.c, cdb*.c, qmail-lspawn.c, qmail-getpw.c,
  spawn.c, prot.c by the correspondence harness harness/c11_users.c and to qlx.h / report() by the translator),
  stated with the predicates of `Nq.Spec.Users` — the same functions the driver evaluates, compiled, on the
  implementation's traces.
-/
import Nq.Users
import Nq.Spec.Users
import Nq.Lemmas.UsersSpawn
import Nq.Lemmas.UsersLookup
import Nq.Lemmas.UsersCdb
import Nq.Lemmas.UsersGetpw
import Nq.Lemmas.UsersNewu
import Nq.Lemmas.UsersCdbBytes
import Nq.Lemmas.UsersCdbRobust
import Nq.Lemmas.UsersCdbDump
import Nq.Lemmas.UsersIdent

namespace Nq.Props.C11
open Nq Nq.Users Nq.Spec.Users Nq.Gen.Lspawn Nq.Lemmas.Users

/-! ## order of the privileged calls; never root

  Honest labelling (audit round): `C11_order`, `C11_order_docmd`, `C11_argv`, `C11_runs_assigned_user`, `C11_never_root`
  are statements about the model's `dropAndExec`, which emits `setgroups, setgid, setuid, getuid, execv` in that order BY
  CONSTRUCTION (it transcribes the tail of spawn()); what is proved is that no other path of `spawnChild` (lookup, getpw
  child, faults) reaches an execv, and that the ids/argv are those of the parsed record.  That the real spawn() makes these
  calls in this order with these arguments is established by trace replay (harness + DISAGREE channel + the `guardedAny`
  / `traceOk` / `specChild` oracles on the recorded calls), not by these theorems.  `C11_argv` & co. are conditional on a
  model fact (`nughdeGet … = (evs, .hit x)`); the unconditional, composed statements are `C11_identity`,
  `C11_identity_faults`, `C11_child_defers` below, and `parseNughde` is tied to the record's fields by `C11_record_parse`,
  `C11_record_fields`, `C11_table_record`, `C11_passwd_record`. -/

/-- Whatever the tables, the passwd database, the recipient and the injected fault: qmail-local is executed only
    immediately after successful `setgroups [g]`, `setgid g`, `setuid u` and a `getuid` that returned `u ≠ 0`. -/
theorem C11_order (env : Env) (flt : Fault) (sender loc dom : Bytes) :
    guardedAny [] (spawnChild env flt sender loc dom).1 = true := by
  unfold spawnChild
  split
  · simp [guardedAny]
  · split
    · simp [guardedAny, isExecLocal]
    · have hq := nughdeGet_quiet env flt loc
      have hc : isExecLocal (Ev.chdir env.autoQmail) = false := rfl
      split
      · rename_i evs c h; rw [h] at hq; exact guardedAny_of_quiet _ _ (quiet_cons hc hq)
      · rename_i evs h; rw [h] at hq; exact guardedAny_of_quiet _ _ (quiet_cons hc hq)
      · rename_i evs x h; rw [h] at hq
        split
        · exact guardedAny_of_quiet _ _ (quiet_cons hc hq)
        · rename_i id _
          show guardedAny [] (Ev.chdir env.autoQmail :: (evs ++ [Ev.fdmove 0, Ev.fdmove 1, Ev.fdcopy 2] ++
                 (dropAndExec env flt id loc dom sender).1)) = true
          have hq2 : Quiet (Ev.chdir env.autoQmail :: (evs ++ [Ev.fdmove 0, Ev.fdmove 1, Ev.fdcopy 2])) :=
            quiet_cons hc (quiet_append hq quiet_fds)
          have := guardedAny_quiet _ [] (dropAndExec env flt id loc dom sender).1 hq2
          rw [List.cons_append] at this
          rw [this]; exact dropAndExec_guarded ..

/-- the same for docmd(), i.e. including the split of the recipient at its last '@' -/
theorem C11_order_docmd (env : Env) (flt : Fault) (sender recip : Bytes) :
    guardedAny [] (docmd env flt sender recip).1 = true := by
  unfold docmd
  split
  · simp [guardedAny]
  · exact C11_order ..

/-- Exactly the assigned identity: if the lookup (table or qmail-getpw) yields the record `x` with fields `id`,
    every execv of qmail-local in the trace follows the drop to exactly `id.gid`/`id.uid` and carries
    `[bin/qmail-local, --, user, home, local, dash, ext, domain, sender, aliasempty]`. -/
theorem C11_argv (env : Env) (flt : Fault) (sender loc dom : Bytes) (evs : List Ev) (x : Bytes) (id : Ident)
    (h : nughdeGet env flt loc = (evs, .hit x)) (hp : parseNughde x = some id) :
    traceOk env id loc dom sender [] (spawnChild env flt sender loc dom).1 = true :=
  spawnChild_traceOk_hit env flt sender loc dom evs x id h hp

/-- … and it is started: with no fault and a non-zero uid the child's calls are exactly
    chdir, (the qmail-getpw child's calls), fd moves, setgroups, setgid, setuid, getuid, execv. -/
theorem C11_runs_assigned_user (env : Env) (sender loc dom : Bytes) (evs : List Ev) (x : Bytes) (id : Ident)
    (hl : loc ≠ []) (h : nughdeGet env .none loc = (evs, .hit x)) (hp : parseNughde x = some id) (hu : id.uid ≠ 0) :
    spawnChild env .none sender loc dom =
      (.chdir env.autoQmail :: (evs ++ [.fdmove 0, .fdmove 1, .fdcopy 2] ++
        [.setgroups 1 id.gid true, .setgid id.gid true, .setuid id.uid true, .getuid id.uid,
         .execv localPath (argvOf env id loc dom sender)]), .exec) := by
  unfold spawnChild
  have : loc.isEmpty = false := by cases loc <;> simp_all
  simp [this, h, hp, dropAndExec_run env id loc dom sender hu]

/-- Never root: if the record assigns uid 0 (also through a non-numeric or a wrapping uid field) qmail-local is not
    executed under any fault plan, and without a fault the child exits QLX_ROOT. -/
theorem C11_never_root (env : Env) (flt : Fault) (sender loc dom : Bytes) (evs : List Ev) (x : Bytes) (id : Ident)
    (h : nughdeGet env flt loc = (evs, .hit x)) (hp : parseNughde x = some id) (hu : id.uid = 0) :
    noExec (spawnChild env flt sender loc dom).1 = true ∧ (spawnChild env flt sender loc dom).2 ≠ .exec ∧
    (flt = .none → loc ≠ [] → (spawnChild env flt sender loc dom).2 = .exit QLX_ROOT) := by
  have hq := nughdeGet_quiet env flt loc
  rw [h] at hq
  have hc : isExecLocal (Ev.chdir env.autoQmail) = false := rfl
  obtain ⟨hr1, hr2, hr3⟩ := dropAndExec_root env flt id loc dom sender hu
  unfold spawnChild
  split
  · rename_i he; refine ⟨by simp [noExec], by simp, ?_⟩
    intro _ hl; cases loc <;> simp_all
  · split
    · rename_i hf; refine ⟨by simp [noExec, isExecLocal], by simp, ?_⟩
      intro h0; simp [h0] at hf
    · simp only [h, hp]
      refine ⟨?_, hr2, fun h0 _ => hr3 h0⟩
      exact noExec_of_quiet _ (quiet_cons hc (quiet_append (quiet_append hq quiet_fds) hr1))

/-! ## errors defer -/

/-- report(): every exit code that stands for a database / lookup / identity error is reported as `Z` (deferral);
    the table is regenerated from qmail-lspawn.c and qlx.h on every run. -/
theorem C11_defer :
    ∀ c ∈ [QLX_CDB, QLX_NOMEM, QLX_SYS, QLX_NFS, QLX_EXECPW, QLX_USAGE, QLX_NOALIAS, QLX_ROOT, QLX_EXECSOFT],
      reportByte c = 90 := by
  decide

/-- a child killed by a signal is deferred as well -/
theorem C11_defer_crash : reportCrashed = 90 := by decide

/-- the exit codes nughde_get itself can produce (cdb unreadable, fork/pipe failure, qmail-getpw not startable or
    failing: NFS, passwd busy, no alias user) are all reported as `Z`: a lookup error defers, it never bounces -/
theorem C11_lookup_error_defers (env : Env) (flt : Fault) (loc : Bytes) (evs : List Ev) (c : Nat)
    (h : nughdeGet env flt loc = (evs, .exit c)) : reportByte c = 90 := by
  have key := nughdeGet_exit_codes env flt loc evs c h
  have hall : ∀ c ∈ [QLX_CDB, QLX_SYS, QLX_USAGE, QLX_EXECPW, QLX_NFS, QLX_NOALIAS], reportByte c = 90 := by decide
  exact hall c key

/-- **Whole-child deferral.** EVERY way the delivery child can end without running qmail-local — under every table,
    passwd database, recipient and fault — is: exit 0 for the null recipient only; QLX_EXECHARD only when `execv` of
    qmail-local itself failed permanently; otherwise an exit code that report() turns into `Z` (deferral).  Covers the
    exits of spawn() proper (chdir failure, malformed record, `prot_gid`/`prot_uid` failure, QLX_ROOT, EXECSOFT) and of
    nughde_get.  (An inductive consequence of the model's control flow + the regenerated report table, not a restated
    guard.) -/
theorem C11_child_defers (env : Env) (flt : Fault) (sender loc dom : Bytes) (c : Nat)
    (h : (spawnChild env flt sender loc dom).2 = .exit c) :
    (c = 0 ∧ loc = []) ∨ (c = QLX_EXECHARD ∧ flt = .execHard) ∨ reportByte c = 90 := by
  rcases spawnChild_exit env flt sender loc dom c h with h' | h' | h'
  · exact Or.inl h'
  · exact Or.inr (Or.inl h')
  · have hall : ∀ c ∈ [QLX_CDB, QLX_SYS, QLX_USAGE, QLX_EXECPW, QLX_NFS, QLX_NOALIAS, QLX_ROOT, QLX_EXECSOFT],
        reportByte c = 90 := by decide
    exact Or.inr (Or.inr (hall c h'))

/-- the same for docmd() (a recipient without `@` is answered by docmd itself: `.refused`, not an exit) -/
theorem C11_docmd_defers (env : Env) (flt : Fault) (sender recip : Bytes) (c : Nat)
    (h : (docmd env flt sender recip).2 = .exit c) :
    c = 0 ∨ (c = QLX_EXECHARD ∧ flt = .execHard) ∨ reportByte c = 90 := by
  unfold docmd at h
  split at h
  · simp at h
  · rcases C11_child_defers _ _ _ _ _ c h with h' | h' | h'
    · exact Or.inl h'.1
    · exact Or.inr (Or.inl h')
    · exact Or.inr (Or.inr h')

/-- report() beyond its first byte: for every lookup/identity error code the WHOLE report is a fixed single line
    `Z…\n` — it does not depend on what the child wrote, contains no NUL and no inner LF (so qmail-send reads exactly one
    deferral line); for every other code the report is the class byte followed by the child's output up to its first
    NUL.  (Texts regenerated from qmail-lspawn.c on every run.) -/
theorem C11_report_text :
    ∀ c ∈ [QLX_CDB, QLX_NOMEM, QLX_SYS, QLX_NFS, QLX_EXECPW, QLX_USAGE, QLX_NOALIAS, QLX_ROOT, QLX_EXECSOFT], ∀ s : Bytes,
      reportFull c s = reportFull c [] ∧ (reportFull c []).head? = some 90 ∧ (reportFull c []).getLast? = some LF ∧
      NUL ∉ reportFull c [] ∧ LF ∉ (reportFull c []).dropLast := by
  have key : ∀ c ∈ [QLX_CDB, QLX_NOMEM, QLX_SYS, QLX_NFS, QLX_EXECPW, QLX_USAGE, QLX_NOALIAS, QLX_ROOT, QLX_EXECSOFT],
      (reportTexts.find? (fun p => p.1 == c)).isSome = true ∧ (reportFull c []).head? = some 90 ∧
      (reportFull c []).getLast? = some LF ∧ NUL ∉ reportFull c [] ∧ LF ∉ (reportFull c []).dropLast := by decide
  intro c hc s
  obtain ⟨h1, h2⟩ := key c hc
  refine ⟨?_, h2⟩
  unfold reportFull
  cases hf : reportTexts.find? (fun p => p.1 == c) with
  | none => rw [hf] at h1; cases h1
  | some p => rfl

/-- the first byte of the whole report is `reportByte`, for every exit code and output -/
theorem C11_report_head (c : Nat) (s : Bytes) : (reportFull c s).head? = some (reportByte c) := by
  have key : ∀ p ∈ reportTexts, p.2.head? = some (reportByte p.1) := by decide
  unfold reportFull
  cases hf : reportTexts.find? (fun p => p.1 == c) with
  | none => rfl
  | some p =>
    have hm := List.mem_of_find?_eq_some hf
    have hc := List.find?_some hf
    have : p.1 = c := by simpa using hc
    rw [← this]; exact key p hm

/-- a crashed child: the whole report is the fixed line `Zqmail-local crashed.\n` class `Z` -/
theorem C11_report_crashed : reportCrashedText.head? = some reportCrashed ∧ reportCrashed = 90 ∧
    reportCrashedText.getLast? = some LF ∧ NUL ∉ reportCrashedText := by decide

/-! ## which user: the assignment table -/

/-- nughde_get's lookup order (exact key, then shrinking prefixes gated by the recorded break characters, then the
    empty prefix) computes exactly the declarative assignment: the first exact entry for the lower-cased address, else
    the first entry with the LONGEST wildcard prefix of it (its `pre` followed by the rest of the address in original
    case), else "not in the table". `lkTbl tbl` is the lookup function the source table defines
    (`C11_cdb_roundtrip` shows that the bytes of the compiled file implement it). Hypotheses: the address is a C string and
    the table's names are NUL-free — `C11_newu_table_ok` shows qmail-newu only produces such tables. -/
theorem C11_lookup_spec (tbl : List Asg) (hT : ∀ a ∈ tbl, NUL ∉ a.name) (loc : Bytes) (hl : NUL ∉ loc) :
    nughdeLoop (lkTbl tbl) (wildOf tbl []) loc =
      match specLookup tbl loc with
      | some r => .hit r
      | none => .miss :=
  nughdeLoop_spec tbl hT loc hl

/-- every table qmail-newu's parser accepts has NUL-free names (it refuses lines containing NUL) -/
theorem C11_newu_table_ok (assign : Bytes) (tbl : List Asg) (h : newuParse assign = some tbl) :
    ∀ a ∈ tbl, NUL ∉ a.name :=
  newuParse_names assign tbl h

/-- the record stored under the empty key is the list of break characters nughde_get reads first -/
theorem C11_wildchars_record (tbl : List Asg) : lkTbl tbl [] = .found (wildOf tbl []) :=
  lkTbl_empty tbl

/-! ## the source table: qmail-newu's line compiler -/

/-- qmail-newu's parser (getln loop, dot line, NUL check, `byte_chr` for the first colon, the six-colon data loop,
    `case_lowerb`) = the declarative reading of users/assign written from qmail-users(5) (LF-separated lines up to the
    first line starting with a dot, which must exist; each line: no NUL, eight or more colon-separated fields, the first
    not empty; wildcard iff it starts with `+`; name = rest of the first field lower-cased; data = fields 2–7 joined by
    NUL) — for EVERY file: same table, and "bad format" on exactly the same files. -/
theorem C11_newu_parse (assign : Bytes) : newuParse assign = specParse assign :=
  newuParse_eq_specParse assign

/-- line level: one line of users/assign -/
theorem C11_newu_line (line : Bytes) : newuLine line = specLine line :=
  newuLine_eq_specLine line

/-! ## the compiled database, byte level -/

/-- the structured tables (hashing, 256 buckets, `2*count` slots, linear probing with wrap-around in insertion order,
    first match in probe order) return the first pair, for every list (duplicates, collisions, any size) -/
theorem C11_cdb_struct (es : List (Bytes × Bytes)) (k : Bytes) : findStruct es k = assocFind es k :=
  findStruct_eq_assocFind es k

/-- **The constant database round trip, on bytes.** For every list of (key, data) pairs whose compiled file is smaller
    than 4 GiB (the format's limit: every pointer is a 32-bit word) and every key `k` (present or not, any length):
    running the reader — `cdb_hash`, the header pointer `(pos, len)` of table `h & 255` read as two little-endian words,
    the slot walk from `(h >> 8) % len` with wrap-around, for each slot with an equal hash the record header
    `(klen, dlen)`, the key comparison in 32-byte chunks, then `cdb_bread` of `dlen` bytes — on the bytes the writer
    produces (records from offset 2048, 256 tables of `(hash, pos)` slots, the 2048-byte header) returns the data of the
    FIRST pair with key `k`, and "absent" iff there is none; never a read error. -/
theorem C11_cdb_roundtrip (es : List (Bytes × Bytes)) (k : Bytes) (hsz : (cdbMake es).length < 4294967296) :
    cdbGet (cdbMake es) k =
      match assocFind es k with
      | some d => .found d
      | none => .notFound := by
  rw [cdbGet_cdbMake es k hsz, findStruct_eq_assocFind]
  cases assocFind es k <;> rfl

/-- the same for `cdb_seek` alone: it stops with the file position on the data of the first pair with that key and
    reports its length -/
theorem C11_cdb_seek_roundtrip (es : List (Bytes × Bytes)) (k : Bytes) (hsz : (cdbMake es).length < 4294967296) :
    match cdbSeek (cdbMake es) k with
    | .found dpos dlen => assocFind es k = some (((cdbMake es).drop dpos).take dlen) ∧
                          (((cdbMake es).drop dpos).take dlen).length = dlen
    | .notFound => assocFind es k = none
    | .err => False := by
  have h := C11_cdb_roundtrip es k hsz
  unfold cdbGet at h
  cases hs : cdbSeek (cdbMake es) k with
  | err =>
    rw [hs] at h
    cases hf : assocFind es k <;> rw [hf] at h <;> cases h
  | notFound =>
    rw [hs] at h
    cases hf : assocFind es k with
    | none => rfl
    | some d => rw [hf] at h; cases h
  | found dpos dlen =>
    rw [hs] at h
    dsimp only at h ⊢
    by_cases hl : (((cdbMake es).drop dpos).take dlen).length = dlen
    · rw [if_pos hl] at h
      cases hf : assocFind es k with
      | none => rw [hf] at h; cases h
      | some d =>
        rw [hf] at h
        simp only [Lk.found.injEq] at h
        exact ⟨by rw [h], hl⟩
    · rw [if_neg hl] at h
      cases hf : assocFind es k <;> rw [hf] at h <;> cases h

/-- table lookup end to end on the BYTES of the database compiled from `tbl`: what nughde_get computes (wildchars
    record, exact key, shrinking prefixes, empty prefix — each a byte-level cdb lookup) is what the table says -/
theorem C11_lookup_compiled (tbl : List Asg) (hT : ∀ a ∈ tbl, NUL ∉ a.name) (loc : Bytes) (hl : NUL ∉ loc)
    (hsz : (cdbMake (pairsOf tbl)).length < 4294967296) :
    nughdeCdb (some (cdbMake (pairsOf tbl))) loc =
      match specLookup tbl loc with
      | some r => .hit r
      | none => .miss := by
  have hlk : cdbGet (cdbMake (pairsOf tbl)) = lkTbl tbl := by
    funext k
    rw [C11_cdb_roundtrip _ k hsz]; rfl
  unfold nughdeCdb
  dsimp only
  rw [hlk, lkTbl_empty]
  exact nughdeLoop_spec tbl hT loc hl

/-- **users/assign → users/cdb → nughde, end to end.** If qmail-newu compiles `assign` into the file `f` (smaller than
    4 GiB), then the independent reading of `assign` accepts it as a table `tbl`, and for every C-string address
    nughde_get's lookups in the bytes of `f` produce exactly the record `tbl` assigns (first exact entry, else first
    entry with the longest wildcard prefix + remainder, case-insensitive), or a miss iff `tbl` does not cover it. -/
theorem C11_assign_to_nughde (assign f : Bytes) (h : newuFile assign = some f) (hsz : f.length < 4294967296)
    (loc : Bytes) (hl : NUL ∉ loc) :
    ∃ tbl, specParse assign = some tbl ∧
      nughdeCdb (some f) loc =
        match specLookup tbl loc with
        | some r => .hit r
        | none => .miss := by
  unfold newuFile at h
  cases hp : newuParse assign with
  | none => rw [hp] at h; cases h
  | some tbl =>
    rw [hp] at h
    simp only [Option.map_some, Option.some.injEq] at h
    subst h
    exact ⟨tbl, by rw [← C11_newu_parse, hp],
      C11_lookup_compiled tbl (newuParse_names assign tbl hp) loc hl hsz⟩

/-- … and a file qmail-newu refuses ("bad format", exit 111, no cdb installed) is exactly one the declarative reading
    refuses -/
theorem C11_newu_refuses (assign : Bytes) : newuFile assign = none ↔ specParse assign = none := by
  unfold newuFile
  rw [C11_newu_parse]
  cases specParse assign <;> simp

/-- reading the records of the compiled file back in file order (an independent reading of the format, `cdbDump`)
    gives exactly the source list: nothing added, dropped, reordered or altered (duplicates kept) -/
theorem C11_cdb_dump (es : List (Bytes × Bytes)) (hsz : (cdbMake es).length < 4294967296) :
    cdbDump (cdbMake es) = some es :=
  cdbDump_cdbMake es hsz

/-- the predicate the driver evaluates on the real qmail-newu's output: the records of the compiled users/cdb are
    exactly the keys and data of the declaratively parsed users/assign, followed by the wildchars record -/
theorem C11_newu_dump (assign f : Bytes) (h : newuFile assign = some f) (hsz : f.length < 4294967296) :
    ∃ tbl, specParse assign = some tbl ∧ cdbDump f = some (pairsOf tbl) := by
  unfold newuFile at h
  cases hp : newuParse assign with
  | none => rw [hp] at h; cases h
  | some tbl =>
    rw [hp] at h
    simp only [Option.map_some, Option.some.injEq] at h
    subst h
    exact ⟨tbl, by rw [← C11_newu_parse, hp], C11_cdb_dump _ hsz⟩

/-! ## corrupted and truncated databases

  Bounds (cdb_seek reports a record only after reading its header and key from inside the file; the data is a slice of
  the file or the read fails) are `C20_cdb_seek_in_file` and `C20_cdb_get_slice` in Nq/Props/C20.lean, about the same
  model functions.  Here: what a hit MEANS on an arbitrary file, and that truncation can only turn answers into errors. -/

/-- On ANY file (corrupted, truncated, hostile): if the lookup of `k` returns data `d`, then the file really contains
    a slot holding `(cdb_hash k, p)`, at `p` a record header `(|k|, |d|)`, and at `p + 8` the bytes `k ++ d`, all
    inside the file — a hit is never made of garbage positions or of another key's record. -/
theorem C11_cdb_hit_sound (f k d : Bytes) (h : cdbGet f k = .found d) :
    ∃ o p, read8 f o = some ((hashKey k).toNat, p) ∧ read8 f p = some (k.length, d.length) ∧
      (f.drop (p + 8)).take (k.length + d.length) = k ++ d ∧ p + 8 + k.length + d.length ≤ f.length := by
  obtain ⟨o, p, h1, h2, h3⟩ := cdbGet_sound f k d h
  refine ⟨o, p, h1, h2, h3, ?_⟩
  have hlen := congrArg List.length h3
  have hle := read8_le f p _ h2
  simp only [List.length_take, List.length_drop, List.length_append] at hlen
  omega

/-- Reads are stable under extension: whatever the reader answers WITHOUT a read error on a file it answers on every
    file that extends it.  (The reader never looks at the file size.) -/
theorem C11_cdb_extension (f y k : Bytes) (hne : cdbGet f k ≠ .err) : cdbGet (f ++ y) k = cdbGet f k :=
  cdbGet_mono f y k hne

/-- A TRUNCATED compiled database (any prefix of the file, e.g. a crash while copying): every lookup either reports a
    read error or gives exactly the answer of the source list — never another record, never a false "absent". -/
theorem C11_cdb_truncated (es : List (Bytes × Bytes)) (f' y k : Bytes) (hf : f' ++ y = cdbMake es)
    (hsz : (cdbMake es).length < 4294967296) :
    cdbGet f' k = .err ∨
    cdbGet f' k = match assocFind es k with
      | some d => .found d
      | none => .notFound := by
  rcases cdbGet_prefix f' y k with h | h
  · exact Or.inl h
  · right; rw [h, hf]; exact C11_cdb_roundtrip es k hsz

/-- … hence nughde_get on a truncated users/cdb compiled from `tbl` yields exactly the record the table assigns (or
    the miss that sends it to qmail-getpw, iff the table does not cover the address), or exits QLX_CDB — which
    `C11_defer` shows is reported `Z`: the delivery is deferred, never misdirected. -/
theorem C11_truncated_defers (tbl : List Asg) (hT : ∀ a ∈ tbl, NUL ∉ a.name) (loc : Bytes) (hl : NUL ∉ loc)
    (f' y : Bytes) (hf : f' ++ y = cdbMake (pairsOf tbl)) (hsz : (cdbMake (pairsOf tbl)).length < 4294967296) :
    nughdeCdb (some f') loc = .exit QLX_CDB ∨
    nughdeCdb (some f') loc = match specLookup tbl loc with
      | some r => .hit r
      | none => .miss := by
  rcases nughdeCdb_prefix f' y loc with h | h
  · exact Or.inl h
  · right; rw [h, hf]; exact C11_lookup_compiled tbl hT loc hl hsz

/-- On ANY file whatsoever nughde_get's cdb part ends in a record, a miss, or exit QLX_CDB (reported `Z`) -/
theorem C11_any_cdb_exit (f : Option Bytes) (loc : Bytes) (c : Nat) (h : nughdeCdb f loc = .exit c) :
    c = QLX_CDB ∧ reportByte c = 90 := by
  have := nughdeCdb_exit f loc c h
  subst this
  exact ⟨rfl, by decide⟩

/-! ## what a record says: the model's parser and argv layout against the declarative reading -/

/-- the six `byte_chr`/`scan_ulong` steps of spawn() = the declarative reading of a nughde record (split at every NUL,
    six NUL-terminated fields, numbers = leading decimal digits as a 32-bit id), for EVERY byte string — so the
    `parseNughde` in `C11_argv`, `C11_runs_assigned_user`, `C11_never_root` can be read as `specRecord` -/
theorem C11_record_parse (x : Bytes) : parseNughde x = specRecord x :=
  parseNughde_eq_specRecord x

/-- a record `user NUL uid NUL gid NUL home NUL dash NUL pre` + remainder of the address + NUL reads as exactly those
    fields: uid/gid = value of the leading digits of the field modulo 2^32 (no digits — `+5`, ` 5`, empty — give 0, which
    `C11_never_root` refuses), ext = pre followed by the remainder -/
theorem C11_record_fields (u ui gi ho da ex rest : Bytes)
    (hu : NUL ∉ u) (hui : NUL ∉ ui) (hgi : NUL ∉ gi) (hho : NUL ∉ ho) (hda : NUL ∉ da) (hex : NUL ∉ ex) (hr : NUL ∉ rest) :
    parseNughde (joinNul [u, ui, gi, ho, da, ex] ++ rest ++ [NUL]) =
      some ⟨u, decVal (ui.takeWhile isDigit) % 4294967296, decVal (gi.takeWhile isDigit) % 4294967296, ho, da, ex ++ rest⟩ := by
  rw [parseNughde_eq_specRecord, specRecord_fields u ui gi ho da ex rest hu hui hgi hho hda hex hr]
  rfl

/-- … hence, in terms of the TEXT of users/assign: a line the declarative reading accepts has colon-separated fields
    `f0:user:uid:gid:home:dash:pre:…`, and the record it contributes, completed by nughde_get with the remainder `rest` of
    the address (`[]` for a simple assignment), is parsed by spawn() into exactly these fields of the line -/
theorem C11_table_record (line : Bytes) (a : Asg) (h : specLine line = some a) :
    ∃ f0 u ui gi ho da ex x xs, splitOn COLON line = f0 :: u :: ui :: gi :: ho :: da :: ex :: x :: xs ∧
      a.wild = (f0.head? == some PLUS) ∧ a.name = lower (f0.drop 1) ∧
      ∀ rest, NUL ∉ rest →
        parseNughde (a.data ++ rest ++ [NUL]) =
          some ⟨u, decVal (ui.takeWhile isDigit) % 4294967296, decVal (gi.takeWhile isDigit) % 4294967296,
                ho, da, ex ++ rest⟩ := by
  unfold specLine at h
  by_cases hn : line.contains NUL = true
  · rw [if_pos hn] at h; cases h
  · have hnul : NUL ∉ line := by simpa using hn
    rw [if_neg hn] at h
    have hmem := splitOn_mem COLON line
    rcases hs : splitOn COLON line with _ | ⟨f0, _ | ⟨u, _ | ⟨ui, _ | ⟨gi, _ | ⟨ho, _ | ⟨da, _ | ⟨ex, _ | ⟨x, xs⟩⟩⟩⟩⟩⟩⟩⟩ <;>
      rw [hs] at h <;> simp only [reduceCtorEq] at h
    rw [hs] at hmem
    have nf : ∀ f, f ∈ f0 :: u :: ui :: gi :: ho :: da :: ex :: x :: xs → NUL ∉ f :=
      fun f hf hc => hnul (hmem f hf NUL hc)
    by_cases he : f0.isEmpty = true
    · simp [he] at h
    · simp only [he, Bool.false_eq_true, if_false, Option.some.injEq] at h
      subst h
      refine ⟨f0, u, ui, gi, ho, da, ex, x, xs, rfl, rfl, rfl, ?_⟩
      intro rest hr
      exact C11_record_fields u ui gi ho da ex rest (nf u (by simp)) (nf ui (by simp)) (nf gi (by simp))
        (nf ho (by simp)) (nf da (by simp)) (nf ex (by simp)) hr

/-- … and in terms of the PASSWORD FILE: the line qmail-getpw prints for an account (`fmt_ulong` of uid and gid) is parsed
    by spawn() (`scan_ulong`) into exactly the account's name, uid, gid (as 32-bit ids), home, and the dash/ext it chose -/
theorem C11_passwd_record (pw : PwEnt) (dash ext : Bytes)
    (hn : NUL ∉ pw.name) (hd : NUL ∉ pw.dir) (hda : NUL ∉ dash) (hex : NUL ∉ ext) :
    parseNughde (pwLine pw dash ext) =
      some ⟨pw.name, pw.uid % 4294967296, pw.gid % 4294967296, pw.dir, dash, ext⟩ := by
  have hshape : pwLine pw dash ext = joinNul [pw.name, fmtDec pw.uid, fmtDec pw.gid, pw.dir, dash, ext] ++ [] ++ [NUL] := by
    simp [pwLine, joinNul, List.append_assoc]
  rw [hshape, C11_record_fields _ _ _ _ _ _ [] hn (fmtDec_nul _) (fmtDec_nul _) hd hda hex (by simp),
    (fmtDec_spec pw.uid).2, (fmtDec_spec pw.gid).2]
  simp

/-- the argv the model's spawn() builds is the argument list written down from qmail-local(8) in the spec
    (`bin/qmail-local -- user homedir local dash ext domain sender defaultdelivery`) -/
theorem C11_argv_layout (env : Env) (id : Ident) (loc dom sender : Bytes) :
    argvOf env id loc dom sender = specArgv env id loc dom sender := rfl

/-! ## the composed identity: "the assignment table, or else the password-file rules" -/

/-- with users/cdb installed by qmail-newu from a users/assign that reads as `tbl` (or absent: `tbl = none`), the cdb part
    of nughde_get answers what the table says -/
theorem C11_installed_lookup (env : Env) (tbl : Option (List Asg)) (hI : Installed env tbl) (loc : Bytes) (hl : NUL ∉ loc) :
    nughdeCdb env.cdb loc =
      match tbl.bind (fun t => specLookup t loc) with
      | some r => .hit r
      | none => .miss := by
  cases tbl with
  | none =>
    have : env.cdb = none := hI
    rw [this]; rfl
  | some t =>
    obtain ⟨assign, f, hc, hn, hsz, hp⟩ := hI
    obtain ⟨t', hp', hlk⟩ := C11_assign_to_nughde assign f hn hsz loc hl
    have : t' = t := Option.some.inj (hp'.symm.trans hp)
    subst this
    rw [hc, hlk]
    rfl

/-- **nughde_get as a whole** (no failing call): the record the assignment table gives the address, without any child
    process; or else — the table does not cover it, or there is no users/cdb — what the password-file rules print, after
    the qmail-getpw child has been run as qmailp/nofiles; or else the exit code of that failing lookup.
    This is the fall-through clause that so far existed only as the `if` nest of `nughdeGet`. -/
theorem C11_identity_lookup (env : Env) (tbl : Option (List Asg)) (hI : Installed env tbl) (loc : Bytes) (hl : NUL ∉ loc) :
    nughdeGet env .none loc =
      match specIdentity tbl env.pw loc with
      | .table r => ([], .hit r)
      | .passwd r => (gpwEvents env loc, .hit r)
      | .fail c => (gpwEvents env loc, .exit c) := by
  rw [nughdeGet_identity env tbl loc (C11_installed_lookup env tbl hI loc hl)]
  cases specIdentity tbl env.pw loc <;> rfl

/-- **The composed identity theorem.** users/cdb compiled by qmail-newu from users/assign (or absent), any passwd
    database, any non-empty NUL-free local part, no failing call: the delivery child does EXACTLY what the tables dictate
    (`specChild`, written in the spec without reference to the model): chdir, the lookup's child if the table does not
    cover the address, then for the record of `specIdentity` read by `specRecord`: fds, `setgroups [gid]`, `setgid gid`,
    `setuid uid`, `getuid`, and `execv bin/qmail-local` with `specArgv` (user, home, local, dash, ext, domain, sender,
    aliasempty) — outcome exec; uid 0 ⇒ QLX_ROOT before any exec; malformed record ⇒ QLX_USAGE; failing password lookup ⇒
    its code.  Composes `C11_newu_parse`, `C11_cdb_roundtrip`, `C11_lookup_spec`, `C11_getpw_spec`, `C11_record_parse`. -/
theorem C11_identity (env : Env) (tbl : Option (List Asg)) (hI : Installed env tbl) (sender loc dom : Bytes)
    (hl : NUL ∉ loc) (hne : loc ≠ []) :
    spawnChild env .none sender loc dom = specChild env (specIdentity tbl env.pw loc) sender loc dom :=
  spawnChild_none env sender loc dom hne _
    (nughdeGet_identity env tbl loc (C11_installed_lookup env tbl hI loc hl))

/-- the form of `C11_identity` the driver evaluates on the implementation's recorded calls and outcome -/
theorem C11_identity_oracle (env : Env) (tbl : Option (List Asg)) (hI : Installed env tbl) (sender loc dom : Bytes)
    (hl : NUL ∉ loc) (hne : loc ≠ []) :
    childAsDictated env (specIdentity tbl env.pw loc) sender loc dom
      (spawnChild env .none sender loc dom).1 (spawnChild env .none sender loc dom).2 = true := by
  rw [C11_identity env tbl hI sender loc dom hl hne]
  simp [childAsDictated]

/-- … and under EVERY single-call fault: with `id` the identity the tables dictate, every execv of qmail-local that
    still happens follows the drop to exactly `id.gid`/`id.uid ≠ 0` and carries exactly `specArgv … id …`; and when the
    tables dictate no runnable identity (failing lookup, malformed record, uid 0) nothing is executed at all. -/
theorem C11_identity_faults (env : Env) (tbl : Option (List Asg)) (hI : Installed env tbl) (flt : Fault)
    (sender loc dom : Bytes) (hl : NUL ∉ loc) :
    match (specIdentity tbl env.pw loc).record?.bind specRecord with
    | some id =>
      traceOk env id loc dom sender [] (spawnChild env flt sender loc dom).1 = true ∧
      (id.uid = 0 → noExec (spawnChild env flt sender loc dom).1 = true ∧ (spawnChild env flt sender loc dom).2 ≠ .exec)
    | none =>
      noExec (spawnChild env flt sender loc dom).1 = true ∧ (spawnChild env flt sender loc dom).2 ≠ .exec := by
  have h0 := nughdeGet_identity env tbl loc (C11_installed_lookup env tbl hI loc hl)
  -- a failing call leaves the lookup's answer as it is, or turns it into an exit
  have hexit : ∀ evs c, nughdeGet env flt loc = (evs, .exit c) →
      noExec (spawnChild env flt sender loc dom).1 = true ∧ (spawnChild env flt sender loc dom).2 ≠ .exec := by
    intro evs c he
    obtain ⟨hq, c', hc', _⟩ := spawnChild_of_lookup_exit env flt sender loc dom evs c he
    exact ⟨noExec_of_quiet _ hq, by rw [hc']; simp⟩
  have hexitT : ∀ id evs c, nughdeGet env flt loc = (evs, .exit c) →
      traceOk env id loc dom sender [] (spawnChild env flt sender loc dom).1 = true := by
    intro id evs c he
    obtain ⟨hq, _⟩ := spawnChild_of_lookup_exit env flt sender loc dom evs c he
    exact traceOk_of_quiet _ _ _ _ _ _ _ hq
  have hrec : ∀ evs r, nughdeGet env .none loc = (evs, .hit r) →
      match specRecord r with
      | some id =>
        traceOk env id loc dom sender [] (spawnChild env flt sender loc dom).1 = true ∧
        (id.uid = 0 → noExec (spawnChild env flt sender loc dom).1 = true ∧ (spawnChild env flt sender loc dom).2 ≠ .exec)
      | none =>
        noExec (spawnChild env flt sender loc dom).1 = true ∧ (spawnChild env flt sender loc dom).2 ≠ .exec := by
    intro evs r hn
    rcases nughdeGet_fault env flt loc with he | ⟨evs', c, he, _⟩
    · rw [hn] at he
      cases hs : specRecord r with
      | none =>
        obtain ⟨hq, hx⟩ := spawnChild_noExec_hit env flt sender loc dom evs r he
          (by intro id hp; rw [parseNughde_eq_specRecord, hs] at hp; cases hp)
        exact ⟨noExec_of_quiet _ hq, hx⟩
      | some id =>
        refine ⟨spawnChild_traceOk_hit env flt sender loc dom evs r id he (by rw [parseNughde_eq_specRecord, hs]), ?_⟩
        intro hu
        obtain ⟨hq, hx⟩ := spawnChild_noExec_hit env flt sender loc dom evs r he
          (by intro id' hp; rw [parseNughde_eq_specRecord, hs] at hp; cases hp; exact hu)
        exact ⟨noExec_of_quiet _ hq, hx⟩
    · cases hs : specRecord r with
      | none => exact hexit evs' c he
      | some id => exact ⟨hexitT id evs' c he, fun _ => hexit evs' c he⟩
  cases hw : specIdentity tbl env.pw loc with
  | table r => rw [hw] at h0; exact hrec _ r h0
  | passwd r => rw [hw] at h0; exact hrec _ r h0
  | fail c =>
    rw [hw] at h0
    show noExec _ = true ∧ _
    rcases nughdeGet_fault env flt loc with he | ⟨evs', c', he, _⟩
    · rw [h0] at he; exact hexit _ c he
    · exact hexit evs' c' he

/-! ## which user: the password-file rules -/

/-- qmail-getpw's loop = the declarative rules: the longest `user[-ext]` split (user part shorter than 32 bytes,
    lower-cased) whose account is a non-root account owning its existing home; a temporary getpwnam/stat failure
    met before that exits QLX_SYS/QLX_NFS; otherwise the alias user with dash "-" and the whole address as ext;
    QLX_NOALIAS without one -/
theorem C11_getpw_spec (db : PwDb) (loc : Bytes) : getpwMain db loc = specGetpw db loc :=
  getpwMain_eq_spec db loc

/-- what "is a user" means in that rule -/
theorem C11_getpw_user_rule (db : PwDb) (name : Bytes) (pw : PwEnt) (h : acct db name = .user pw) :
    db.getpwnam name = some pw ∧ pw.uid ≠ 0 ∧ db.stat pw.dir = .ok pw.uid := by
  unfold acct at h
  split at h
  · simp at h
  · rename_i pw' hg
    split at h
    · simp at h
    · split at h
      · simp at h
      · rename_i hu
        split at h
        · rename_i o hs
          split at h
          · rename_i ho
            simp only [Acct.user.injEq] at h
            subst h; subst ho
            exact ⟨hg, hu, hs⟩
          · simp at h
        · simp at h
        · simp at h

/-! ## non-vacuity: concrete inputs meeting the hypotheses -/

/-- qmail-users(5)'s example: `+:alias…`, `+joe-:joe…`, `=joe:joe…` (data abbreviated to one byte) -/
def exTbl : List Asg :=
  [⟨true, [], [65]⟩, ⟨true, [106, 111, 101, 45], [66]⟩, ⟨false, [106, 111, 101], [67]⟩]

example : ∀ a ∈ exTbl, NUL ∉ a.name := by decide
-- "Joe-Direct" is handled by the second line (longest wildcard prefix, case-insensitive), keeping "Direct"
example : specLookup exTbl [74, 111, 101, 45, 68, 105, 114, 101, 99, 116] = some [66, 68, 105, 114, 101, 99, 116, 0] := by decide
-- "JOE" by the third (exact beats wildcard), "bill" by the first
example : specLookup exTbl [74, 79, 69] = some [67, 0] := by decide
example : specLookup exTbl [98, 105, 108, 108] = some [65, 98, 105, 108, 108, 0] := by decide
example : nughdeLoop (lkTbl exTbl) (wildOf exTbl []) [74, 111, 101, 45, 68] = .hit [66, 68, 0] := by decide
-- duplicates: the first pair wins, through hashing and probing
example : findStruct [([33, 97, 0], [1]), ([33, 98, 0], [2]), ([33, 97, 0], [3])] [33, 97, 0] = some [1] := by decide

-- the same through the BYTES of the compiled file (2132 bytes, far below the 4 GiB hypothesis)
example : (cdbMake [([33, 97, 0], [1]), ([33, 98, 0], [2]), ([33, 97, 0], [3])]).length < 4294967296 := by decide +kernel
example : cdbGet (cdbMake [([33, 97, 0], [1]), ([33, 98, 0], [2]), ([33, 97, 0], [3])]) [33, 97, 0] = .found [1] := by
  decide +kernel
example : cdbGet (cdbMake [([33, 97, 0], [1]), ([33, 98, 0], [2]), ([33, 97, 0], [3])]) [33, 99, 0] = .notFound := by
  decide +kernel
example : cdbDump (cdbMake [([33, 97, 0], [1]), ([33, 98, 0], [2]), ([33, 97, 0], [3])]) =
    some [([33, 97, 0], [1]), ([33, 98, 0], [2]), ([33, 97, 0], [3])] := by decide +kernel
-- truncated after the header: the lookup reports a read error (hypothesis of `C11_cdb_truncated`, first alternative)
example : cdbGet ((cdbMake [([33, 97, 0], [1]), ([33, 98, 0], [2])]).take 2060) [33, 97, 0] = .err := by decide +kernel

/-- `+a:w:1:2:/h:-:p:` / `=B:u:3:4:/:::` / `.` -/
def exAssign : Bytes :=
  [43, 97, 58, 119, 58, 49, 58, 50, 58, 47, 104, 58, 45, 58, 112, 58, 10,
   61, 66, 58, 117, 58, 51, 58, 52, 58, 47, 58, 58, 58, 10, 46, 10]

example : specParse exAssign = some [⟨true, [97], [119, 0, 49, 0, 50, 0, 47, 104, 0, 45, 0, 112]⟩,
                                     ⟨false, [98], [117, 0, 51, 0, 52, 0, 47, 0, 0]⟩] := by decide
-- a line with seven fields only, and a file without a dot line, are refused by both readings
example : specParse [61, 97, 58, 117, 58, 49, 58, 50, 58, 47, 58, 58, 10, 46, 10] = none := by decide
example : newuParse [61, 97, 58, 117, 58, 49, 58, 50, 58, 47, 58, 58, 58, 10] = none := by decide
-- the compiled file of `exAssign` exists, is small, and "Ax" is delivered by the wildcard line (ext "x" after pre "p")
example : ∃ f, newuFile exAssign = some f ∧ f.length < 4294967296 ∧
    nughdeCdb (some f) [65, 120] = .hit [119, 0, 49, 0, 50, 0, 47, 104, 0, 45, 0, 112, 120, 0] :=
  ⟨_, rfl, by decide +kernel, by decide +kernel⟩

/-- no users/cdb; passwd: alias (7790) and joe (uid 1001, owns /h/joe) -/
def exEnv : Env :=
  { cdb := none,
    pw := { pws := [⟨[97, 108, 105, 97, 115], 7790, 2108, [47, 97], false⟩, ⟨[106, 111, 101], 1001, 100, [47, 104], false⟩],
            dirs := [([47, 97], .ok 7790), ([47, 104], .ok 1001)] },
    uidp := 7794, gidn := 2108, aliasempty := [46], autoQmail := [47] }

-- "Joe-x@d" is delivered as joe with ext "x"; the trace ends in the guarded execv
example : (docmd exEnv .none [115] [74, 111, 101, 45, 120, 64, 100]).2 = .exec := by decide
example : ((docmd exEnv .none [115] [74, 111, 101, 45, 120, 64, 100]).1.getLast?) =
    some (.execv localPath [localPath, [45, 45], [106, 111, 101], [47, 104], [74, 111, 101, 45, 120], [45], [120], [100], [115], [46]]) := by
  decide
-- with setuid failing nothing is executed and the exit code defers
example : (docmd exEnv .setuid [115] [106, 111, 101, 64, 100]).2 = .exit QLX_USAGE := by decide

/-! non-vacuity of the audit-round theorems -/

/-- the declarative reading of `exAssign` -/
def exAssignTbl : List Asg :=
  [⟨true, [97], [119, 0, 49, 0, 50, 0, 47, 104, 0, 45, 0, 112]⟩, ⟨false, [98], [117, 0, 51, 0, 52, 0, 47, 0, 0]⟩]

-- `Installed` is satisfiable: the passwd-only environment with the compiled `exAssign` as users/cdb; and without users/cdb
example : ∃ f, Installed { exEnv with cdb := some f } (some exAssignTbl) :=
  ⟨_, exAssign, _, rfl, rfl, by decide +kernel, by decide⟩
example : Installed exEnv none := rfl
-- "Ax" is covered by the table (wildcard `+a`, pre "p", remainder "x"): record w/1/2//h/-/px, no child process
example : specIdentity (some exAssignTbl) exEnv.pw [65, 120] = .table [119, 0, 49, 0, 50, 0, 47, 104, 0, 45, 0, 112, 120, 0] := by decide
example : specRecord [119, 0, 49, 0, 50, 0, 47, 104, 0, 45, 0, 112, 120, 0] = some ⟨[119], 1, 2, [47, 104], [45], [112, 120]⟩ := by decide
-- "Joe-x" is not: the password-file rules give joe (1001/100, /h), dash "-", ext "x"
example : specIdentity (some exAssignTbl) exEnv.pw [74, 111, 101, 45, 120] =
    .passwd [106, 111, 101, 0, 49, 48, 48, 49, 0, 49, 48, 48, 0, 47, 104, 0, 45, 0, 120, 0] := by decide
-- … and the whole child for it: chdir, the four calls of the qmail-getpw child, fds, drop to 100/1001, execv
example : specChild exEnv (specIdentity (some exAssignTbl) exEnv.pw [74, 111, 101, 45, 120]) [115] [74, 111, 101, 45, 120] [100] =
    ([.chdir [47]] ++ gpwEvents exEnv [74, 111, 101, 45, 120] ++
      [.fdmove 0, .fdmove 1, .fdcopy 2, .setgroups 1 100 true, .setgid 100 true, .setuid 1001 true, .getuid 1001,
       .execv localPath [localPath, [45, 45], [106, 111, 101], [47, 104], [74, 111, 101, 45, 120], [45], [120], [100], [115], [46]]],
     .exec) := by decide
-- no alias user and an unknown address: the lookup fails with QLX_NOALIAS
example : specIdentity none { pws := [], dirs := [] } [120] = .fail QLX_NOALIAS := by decide
-- a uid field without leading digits (`+5`) reads as uid 0 — refused by `C11_never_root`; 4294967296 wraps to 0
example : (specRecord [117, 0, 43, 53, 0, 50, 0, 47, 0, 0, 0]).map (·.uid) = some 0 := by decide
example : (specRecord [117, 0, 52, 50, 57, 52, 57, 54, 55, 50, 57, 54, 0, 50, 0, 47, 0, 0, 0]).map (·.uid) = some 0 := by decide
-- five NULs only: malformed
example : specRecord [117, 0, 49, 0, 50, 0, 47, 0, 45, 0, 120] = none := by decide
-- 8-bit names: `case_lowerb` folds ASCII only — "MÜLLER" (UTF-8 c3 9c) lower-cases to "mÜller", not to "müller" (c3 bc);
-- 0xC1 ('A' + 0x80) is left alone
example : lower [77, 195, 156, 76, 76, 69, 82] = [109, 195, 156, 108, 108, 101, 114] := by decide
example : lower [193, 201, 255, 127, 1] = [193, 201, 255, 127, 1] := by decide
example : specLookup [⟨false, [109, 195, 188, 108, 108, 101, 114], [65]⟩, ⟨true, [], [66]⟩] [77, 195, 188, 76, 76, 69, 82] = some [65, 0] := by decide
example : specLookup [⟨false, [109, 195, 188, 108, 108, 101, 114], [65]⟩, ⟨true, [], [66]⟩] [77, 195, 156, 76, 76, 69, 82] =
    some [66, 77, 195, 156, 76, 76, 69, 82, 0] := by decide
-- the same 8-bit key through the bytes of the compiled file (reader and writer hash the byte as unsigned)
example : cdbGet (cdbMake [([33, 109, 195, 188, 0], [1]), ([33, 233, 45], [2])]) [33, 109, 195, 188, 0] = .found [1] := by decide +kernel
example : cdbGet (cdbMake [([33, 109, 195, 188, 0], [1]), ([33, 233, 45], [2])]) [33, 233, 45] = .found [2] := by decide +kernel

end Nq.Props.C11
