/-
  C11 — local deliveries run as exactly the user the address belongs to, never root.

  Theorems about the executable model `Nq.Users` (tied to qmail-newu.c, cdb*.c, qmail-lspawn.c, qmail-getpw.c,
  spawn.c, prot.c by the correspondence harness harness/c11_users.c and to qlx.h / report() by the translator),
  stated with the predicates of `Nq.Spec.Users` — the same functions the driver evaluates, compiled, on the
  implementation's traces.
-/
import Nq.Users
import Nq.Spec.Users
import Nq.Lemmas.UsersSpawn
import Nq.Lemmas.UsersLookup
import Nq.Lemmas.UsersCdb
import Nq.Lemmas.UsersGetpw

namespace Nq.Props.C11
open Nq Nq.Users Nq.Spec.Users Nq.Gen.Lspawn Nq.Lemmas.Users

/-! ## order of the privileged calls; never root -/

/-- Whatever the tables, the passwd database, the recipient and the injected fault: qmail-local is executed only
    immediately after successful `setgroups [g]`, `setgid g`, `setuid u` and a `getuid` that returned `u ≠ 0`. -/
theorem C11_order (env : Env) (flt : Fault) (sender loc dom : Bytes) :
    guardedAny [] (spawnChild env flt sender loc dom).1 = true := by
  unfold spawnChild
  split
  · simp [guardedAny]
  · split
    · simp [guardedAny, isExecLocal]
    · have hq := nughdeGet_quiet env flt loc
      have hc : isExecLocal (Ev.chdir env.autoQmail) = false := rfl
      split
      · rename_i evs c h; rw [h] at hq; exact guardedAny_of_quiet _ _ (quiet_cons hc hq)
      · rename_i evs h; rw [h] at hq; exact guardedAny_of_quiet _ _ (quiet_cons hc hq)
      · rename_i evs x h; rw [h] at hq
        split
        · exact guardedAny_of_quiet _ _ (quiet_cons hc hq)
        · rename_i id _
          show guardedAny [] (Ev.chdir env.autoQmail :: (evs ++ [Ev.fdmove 0, Ev.fdmove 1, Ev.fdcopy 2] ++
                 (dropAndExec env flt id loc dom sender).1)) = true
          have hq2 : Quiet (Ev.chdir env.autoQmail :: (evs ++ [Ev.fdmove 0, Ev.fdmove 1, Ev.fdcopy 2])) :=
            quiet_cons hc (quiet_append hq quiet_fds)
          have := guardedAny_quiet _ [] (dropAndExec env flt id loc dom sender).1 hq2
          rw [List.cons_append] at this
          rw [this]; exact dropAndExec_guarded ..

/-- the same for docmd(), i.e. including the split of the recipient at its last '@' -/
theorem C11_order_docmd (env : Env) (flt : Fault) (sender recip : Bytes) :
    guardedAny [] (docmd env flt sender recip).1 = true := by
  unfold docmd
  split
  · simp [guardedAny]
  · exact C11_order ..

/-- Exactly the assigned identity: if the lookup (table or qmail-getpw) yields the record `x` with fields `id`,
    every execv of qmail-local in the trace follows the drop to exactly `id.gid`/`id.uid` and carries
    `[bin/qmail-local, --, user, home, local, dash, ext, domain, sender, aliasempty]`. -/
theorem C11_argv (env : Env) (flt : Fault) (sender loc dom : Bytes) (evs : List Ev) (x : Bytes) (id : Ident)
    (h : nughdeGet env flt loc = (evs, .hit x)) (hp : parseNughde x = some id) :
    traceOk env id loc dom sender [] (spawnChild env flt sender loc dom).1 = true := by
  have hq := nughdeGet_quiet env flt loc
  rw [h] at hq
  have hc : isExecLocal (Ev.chdir env.autoQmail) = false := rfl
  unfold spawnChild
  split
  · simp [traceOk]
  · split
    · simp [traceOk, execOk]
    · simp only [h, hp]
      have hq2 : Quiet (Ev.chdir env.autoQmail :: (evs ++ [Ev.fdmove 0, Ev.fdmove 1, Ev.fdcopy 2])) :=
        quiet_cons hc (quiet_append hq quiet_fds)
      have := traceOk_quiet env id loc dom sender _ [] (dropAndExec env flt id loc dom sender).1 hq2
      rw [List.cons_append] at this
      rw [this]; exact dropAndExec_traceOk ..

/-- … and it is started: with no fault and a non-zero uid the child's calls are exactly
    chdir, (the qmail-getpw child's calls), fd moves, setgroups, setgid, setuid, getuid, execv. -/
theorem C11_runs_assigned_user (env : Env) (sender loc dom : Bytes) (evs : List Ev) (x : Bytes) (id : Ident)
    (hl : loc ≠ []) (h : nughdeGet env .none loc = (evs, .hit x)) (hp : parseNughde x = some id) (hu : id.uid ≠ 0) :
    spawnChild env .none sender loc dom =
      (.chdir env.autoQmail :: (evs ++ [.fdmove 0, .fdmove 1, .fdcopy 2] ++
        [.setgroups 1 id.gid true, .setgid id.gid true, .setuid id.uid true, .getuid id.uid,
         .execv localPath (argvOf env id loc dom sender)]), .exec) := by
  unfold spawnChild
  have : loc.isEmpty = false := by cases loc <;> simp_all
  simp [this, h, hp, dropAndExec_run env id loc dom sender hu]

/-- Never root: if the record assigns uid 0 (also through a non-numeric or a wrapping uid field) qmail-local is not
    executed under any fault plan, and without a fault the child exits QLX_ROOT. -/
theorem C11_never_root (env : Env) (flt : Fault) (sender loc dom : Bytes) (evs : List Ev) (x : Bytes) (id : Ident)
    (h : nughdeGet env flt loc = (evs, .hit x)) (hp : parseNughde x = some id) (hu : id.uid = 0) :
    noExec (spawnChild env flt sender loc dom).1 = true ∧ (spawnChild env flt sender loc dom).2 ≠ .exec ∧
    (flt = .none → loc ≠ [] → (spawnChild env flt sender loc dom).2 = .exit QLX_ROOT) := by
  have hq := nughdeGet_quiet env flt loc
  rw [h] at hq
  have hc : isExecLocal (Ev.chdir env.autoQmail) = false := rfl
  obtain ⟨hr1, hr2, hr3⟩ := dropAndExec_root env flt id loc dom sender hu
  unfold spawnChild
  split
  · rename_i he; refine ⟨by simp [noExec], by simp, ?_⟩
    intro _ hl; cases loc <;> simp_all
  · split
    · rename_i hf; refine ⟨by simp [noExec, isExecLocal], by simp, ?_⟩
      intro h0; simp [h0] at hf
    · simp only [h, hp]
      refine ⟨?_, hr2, fun h0 _ => hr3 h0⟩
      exact noExec_of_quiet _ (quiet_cons hc (quiet_append (quiet_append hq quiet_fds) hr1))

/-! ## errors defer -/

/-- report(): every exit code that stands for a database / lookup / identity error is reported as `Z` (deferral);
    the table is regenerated from qmail-lspawn.c and qlx.h on every run. -/
theorem C11_defer :
    ∀ c ∈ [QLX_CDB, QLX_NOMEM, QLX_SYS, QLX_NFS, QLX_EXECPW, QLX_USAGE, QLX_NOALIAS, QLX_ROOT, QLX_EXECSOFT],
      reportByte c = 90 := by
  decide

/-- a child killed by a signal is deferred as well -/
theorem C11_defer_crash : reportCrashed = 90 := by decide

/-- the exit codes nughde_get itself can produce (cdb unreadable, fork/pipe failure, qmail-getpw not startable or
    failing: NFS, passwd busy, no alias user) are all reported as `Z`: a lookup error defers, it never bounces -/
theorem C11_lookup_error_defers (env : Env) (flt : Fault) (loc : Bytes) (evs : List Ev) (c : Nat)
    (h : nughdeGet env flt loc = (evs, .exit c)) : reportByte c = 90 := by
  have key : c ∈ [QLX_CDB, QLX_SYS, QLX_USAGE, QLX_EXECPW, QLX_NFS, QLX_NOALIAS] := by
    unfold nughdeGet at h
    split at h
    · simp at h; simp [h.2]
    · split at h
      · simp at h
      · rename_i c' hc
        simp only [Prod.mk.injEq, NgRes.exit.injEq] at h
        have := nughdeCdb_exit _ _ _ hc
        simp [← h.2, this]
      · split at h
        · simp at h; simp [← h.2]
        · split at h
          · rename_i evs' c' hg
            have hc' : c' ≠ 0 ∧ c' = c := by
              by_cases h0 : c' = 0
              · simp [h0] at h
              · simp [h0] at h; exact ⟨h0, h.2⟩
            rw [← hc'.2]
            unfold getpwChild at hg
            split at hg
            · simp at hg; simp [← hg.2]
            · split at hg
              · simp at hg; simp [← hg.2]
              · split at hg
                · simp at hg; simp [← hg.2]
                · split at hg
                  · simp at hg; simp [← hg.2]
                  · simp only [Prod.mk.injEq] at hg
                    have hm := hg.2
                    rw [getpwMain_eq_spec] at hm
                    unfold specGetpw at hm
                    split at hm
                    · simp at hm
                    · simp at hm; simp [← hm]
                    · simp at hm; simp [← hm]
                    · split at hm
                      · split at hm
                        · simp at hm; simp [← hm]
                        · simp at hm
                      · simp at hm; simp [← hm]
          · simp at h
  have hall : ∀ c ∈ [QLX_CDB, QLX_SYS, QLX_USAGE, QLX_EXECPW, QLX_NFS, QLX_NOALIAS], reportByte c = 90 := by decide
  exact hall c key

/-! ## which user: the assignment table -/

/-- nughde_get's lookup order (exact key, then shrinking prefixes gated by the recorded break characters, then the
    empty prefix) computes exactly the declarative assignment: the first exact entry for the lower-cased address, else
    the first entry with the LONGEST wildcard prefix of it (its `pre` followed by the rest of the address in original
    case), else "not in the table". `lkTbl tbl` is the lookup function the source table defines
    (`C11_cdb_roundtrip_partial` shows the compiled tables implement it). Hypotheses: the address is a C string and
    the table's names are NUL-free — `C11_newu_table_ok` shows qmail-newu only produces such tables. -/
theorem C11_lookup_spec (tbl : List Asg) (hT : ∀ a ∈ tbl, NUL ∉ a.name) (loc : Bytes) (hl : NUL ∉ loc) :
    nughdeLoop (lkTbl tbl) (wildOf tbl []) loc =
      match specLookup tbl loc with
      | some r => .hit r
      | none => .miss :=
  nughdeLoop_spec tbl hT loc hl

/-- every table qmail-newu's parser accepts has NUL-free names (it refuses lines containing NUL) -/
theorem C11_newu_table_ok (assign : Bytes) (tbl : List Asg) (h : newuParse assign = some tbl) :
    ∀ a ∈ tbl, NUL ∉ a.name :=
  newuParse_names assign tbl h

/-- the record stored under the empty key is the list of break characters nughde_get reads first -/
theorem C11_wildchars_record (tbl : List Asg) : lkTbl tbl [] = .found (wildOf tbl []) :=
  lkTbl_empty tbl

/-! ## the compiled database

  Full statement (design): `cdbGet (cdbMake es) k` = data of the first pair of `es` with key `k`, `notFound` if
  absent, for total size < 2^32.  Proved here for the STRUCTURED tables — hashing, the 256 buckets, `2*count` slots,
  linear probing with wrap-around in insertion order, first match in probe order — for every list (duplicates,
  collisions, any size).  Not proved: that parsing the little-endian byte serialisation (`cdbSeek` on `cdbMake es`)
  equals the structured lookup; that step is covered by the correspondence run (the real qmail-newu's bytes =
  `cdbMake`'s byte for byte, real cdb_seek = `cdbSeek` = `findStruct` on every looked-up key). -/
theorem C11_cdb_roundtrip_partial (es : List (Bytes × Bytes)) (k : Bytes) : findStruct es k = assocFind es k :=
  findStruct_eq_assocFind es k

/-- table lookup end to end on the structured database compiled from `tbl`: what nughde_get computes is what the
    table says -/
theorem C11_lookup_compiled (tbl : List Asg) (hT : ∀ a ∈ tbl, NUL ∉ a.name) (loc : Bytes) (hl : NUL ∉ loc) :
    let lk : Bytes → Lk := fun k => match findStruct (pairsOf tbl) k with
      | some d => .found d
      | none => .notFound
    (match lk [] with
     | .found w => nughdeLoop lk w loc
     | _ => NgRes.exit QLX_CDB) =
      match specLookup tbl loc with
      | some r => .hit r
      | none => .miss := by
  intro lk
  have hlk : lk = lkTbl tbl := by
    funext k
    show (match findStruct (pairsOf tbl) k with | some d => Lk.found d | none => Lk.notFound) = lkTbl tbl k
    rw [findStruct_eq_assocFind]; rfl
  rw [hlk, lkTbl_empty]
  exact nughdeLoop_spec tbl hT loc hl

/-! ## which user: the password-file rules -/

/-- qmail-getpw's loop = the declarative rules: the longest `user[-ext]` split (user part shorter than 32 bytes,
    lower-cased) whose account is a non-root account owning its existing home; a temporary getpwnam/stat failure
    met before that exits QLX_SYS/QLX_NFS; otherwise the alias user with dash "-" and the whole address as ext;
    QLX_NOALIAS without one -/
theorem C11_getpw_spec (db : PwDb) (loc : Bytes) : getpwMain db loc = specGetpw db loc :=
  getpwMain_eq_spec db loc

/-- what "is a user" means in that rule -/
theorem C11_getpw_user_rule (db : PwDb) (name : Bytes) (pw : PwEnt) (h : acct db name = .user pw) :
    db.getpwnam name = some pw ∧ pw.uid ≠ 0 ∧ db.stat pw.dir = .ok pw.uid := by
  unfold acct at h
  split at h
  · simp at h
  · rename_i pw' hg
    split at h
    · simp at h
    · split at h
      · simp at h
      · rename_i hu
        split at h
        · rename_i o hs
          split at h
          · rename_i ho
            simp only [Acct.user.injEq] at h
            subst h; subst ho
            exact ⟨hg, hu, hs⟩
          · simp at h
        · simp at h
        · simp at h

/-! ## non-vacuity: concrete inputs meeting the hypotheses -/

/-- qmail-users(5)'s example: `+:alias…`, `+joe-:joe…`, `=joe:joe…` (data abbreviated to one byte) -/
def exTbl : List Asg :=
  [⟨true, [], [65]⟩, ⟨true, [106, 111, 101, 45], [66]⟩, ⟨false, [106, 111, 101], [67]⟩]

example : ∀ a ∈ exTbl, NUL ∉ a.name := by decide
-- "Joe-Direct" is handled by the second line (longest wildcard prefix, case-insensitive), keeping "Direct"
example : specLookup exTbl [74, 111, 101, 45, 68, 105, 114, 101, 99, 116] = some [66, 68, 105, 114, 101, 99, 116, 0] := by decide
-- "JOE" by the third (exact beats wildcard), "bill" by the first
example : specLookup exTbl [74, 79, 69] = some [67, 0] := by decide
example : specLookup exTbl [98, 105, 108, 108] = some [65, 98, 105, 108, 108, 0] := by decide
example : nughdeLoop (lkTbl exTbl) (wildOf exTbl []) [74, 111, 101, 45, 68] = .hit [66, 68, 0] := by decide
-- duplicates: the first pair wins, through hashing and probing
example : findStruct [([33, 97, 0], [1]), ([33, 98, 0], [2]), ([33, 97, 0], [3])] [33, 97, 0] = some [1] := by decide

/-- no users/cdb; passwd: alias (7790) and joe (uid 1001, owns /h/joe) -/
def exEnv : Env :=
  { cdb := none,
    pw := { pws := [⟨[97, 108, 105, 97, 115], 7790, 2108, [47, 97], false⟩, ⟨[106, 111, 101], 1001, 100, [47, 104], false⟩],
            dirs := [([47, 97], .ok 7790), ([47, 104], .ok 1001)] },
    uidp := 7794, gidn := 2108, aliasempty := [46], autoQmail := [47] }

-- "Joe-x@d" is delivered as joe with ext "x"; the trace ends in the guarded execv
example : (docmd exEnv .none [115] [74, 111, 101, 45, 120, 64, 100]).2 = .exec := by decide
example : ((docmd exEnv .none [115] [74, 111, 101, 45, 120, 64, 100]).1.getLast?) =
    some (.execv localPath [localPath, [45, 45], [106, 111, 101], [47, 104], [74, 111, 101, 45, 120], [45], [120], [100], [115], [46]]) := by
  decide
-- with setuid failing nothing is executed and the exit code defers
example : (docmd exEnv .setuid [115] [106, 111, 101, 64, 100]).2 = .exit QLX_USAGE := by decide

end Nq.Props.C11
