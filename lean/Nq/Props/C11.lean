/-
  C11 — local deliveries run as exactly the user the address belongs to, never root.

  Theorems about the executable model `Nq.Users` (tied to qmail-newu.c, cdb*.c, qmail-lspawn.c, qmail-getpw.c,
  spawn.c, prot.c by the correspondence harness harness/c11_users.c and to qlx.h / report() by the translator),
  stated with the predicates of `Nq.Spec.Users` — the same functions the driver evaluates, compiled, on the
  implementation's traces.
-/
import Nq.Users
import Nq.Spec.Users
import Nq.Lemmas.UsersSpawn

namespace Nq.Props.C11
open Nq Nq.Users Nq.Spec.Users Nq.Gen.Lspawn Nq.Lemmas.Users

/-! ## order of the privileged calls; never root -/

/-- Whatever the tables, the passwd database, the recipient and the injected fault: qmail-local is executed only
    immediately after successful `setgroups [g]`, `setgid g`, `setuid u` and a `getuid` that returned `u ≠ 0`. -/
theorem C11_order (env : Env) (flt : Fault) (sender loc dom : Bytes) :
    guardedAny [] (spawnChild env flt sender loc dom).1 = true := by
  unfold spawnChild
  split
  · simp [guardedAny]
  · split
    · simp [guardedAny, isExecLocal]
    · have hq := nughdeGet_quiet env flt loc
      have hc : isExecLocal (Ev.chdir env.autoQmail) = false := rfl
      split
      · rename_i evs c h; rw [h] at hq; exact guardedAny_of_quiet _ _ (quiet_cons hc hq)
      · rename_i evs h; rw [h] at hq; exact guardedAny_of_quiet _ _ (quiet_cons hc hq)
      · rename_i evs x h; rw [h] at hq
        split
        · exact guardedAny_of_quiet _ _ (quiet_cons hc hq)
        · rename_i id _
          show guardedAny [] (Ev.chdir env.autoQmail :: (evs ++ [Ev.fdmove 0, Ev.fdmove 1, Ev.fdcopy 2] ++
                 (dropAndExec env flt id loc dom sender).1)) = true
          have hq2 : Quiet (Ev.chdir env.autoQmail :: (evs ++ [Ev.fdmove 0, Ev.fdmove 1, Ev.fdcopy 2])) :=
            quiet_cons hc (quiet_append hq quiet_fds)
          have := guardedAny_quiet _ [] (dropAndExec env flt id loc dom sender).1 hq2
          rw [List.cons_append] at this
          rw [this]; exact dropAndExec_guarded ..

/-- the same for docmd(), i.e. including the split of the recipient at its last '@' -/
theorem C11_order_docmd (env : Env) (flt : Fault) (sender recip : Bytes) :
    guardedAny [] (docmd env flt sender recip).1 = true := by
  unfold docmd
  split
  · simp [guardedAny]
  · exact C11_order ..

/-- Exactly the assigned identity: if the lookup (table or qmail-getpw) yields the record `x` with fields `id`,
    every execv of qmail-local in the trace follows the drop to exactly `id.gid`/`id.uid` and carries
    `[bin/qmail-local, --, user, home, local, dash, ext, domain, sender, aliasempty]`. -/
theorem C11_argv (env : Env) (flt : Fault) (sender loc dom : Bytes) (evs : List Ev) (x : Bytes) (id : Ident)
    (h : nughdeGet env flt loc = (evs, .hit x)) (hp : parseNughde x = some id) :
    traceOk env id loc dom sender [] (spawnChild env flt sender loc dom).1 = true := by
  have hq := nughdeGet_quiet env flt loc
  rw [h] at hq
  have hc : isExecLocal (Ev.chdir env.autoQmail) = false := rfl
  unfold spawnChild
  split
  · simp [traceOk]
  · split
    · simp [traceOk, execOk]
    · simp only [h, hp]
      have hq2 : Quiet (Ev.chdir env.autoQmail :: (evs ++ [Ev.fdmove 0, Ev.fdmove 1, Ev.fdcopy 2])) :=
        quiet_cons hc (quiet_append hq quiet_fds)
      have := traceOk_quiet env id loc dom sender _ [] (dropAndExec env flt id loc dom sender).1 hq2
      rw [List.cons_append] at this
      rw [this]; exact dropAndExec_traceOk ..

/-- … and it is started: with no fault and a non-zero uid the child's calls are exactly
    chdir, (the qmail-getpw child's calls), fd moves, setgroups, setgid, setuid, getuid, execv. -/
theorem C11_runs_assigned_user (env : Env) (sender loc dom : Bytes) (evs : List Ev) (x : Bytes) (id : Ident)
    (hl : loc ≠ []) (h : nughdeGet env .none loc = (evs, .hit x)) (hp : parseNughde x = some id) (hu : id.uid ≠ 0) :
    spawnChild env .none sender loc dom =
      (.chdir env.autoQmail :: (evs ++ [.fdmove 0, .fdmove 1, .fdcopy 2] ++
        [.setgroups 1 id.gid true, .setgid id.gid true, .setuid id.uid true, .getuid id.uid,
         .execv localPath (argvOf env id loc dom sender)]), .exec) := by
  unfold spawnChild
  have : loc.isEmpty = false := by cases loc <;> simp_all
  simp [this, h, hp, dropAndExec_run env id loc dom sender hu]

/-- Never root: if the record assigns uid 0 (also through a non-numeric or a wrapping uid field) qmail-local is not
    executed under any fault plan, and without a fault the child exits QLX_ROOT. -/
theorem C11_never_root (env : Env) (flt : Fault) (sender loc dom : Bytes) (evs : List Ev) (x : Bytes) (id : Ident)
    (h : nughdeGet env flt loc = (evs, .hit x)) (hp : parseNughde x = some id) (hu : id.uid = 0) :
    noExec (spawnChild env flt sender loc dom).1 = true ∧ (spawnChild env flt sender loc dom).2 ≠ .exec ∧
    (flt = .none → loc ≠ [] → (spawnChild env flt sender loc dom).2 = .exit QLX_ROOT) := by
  have hq := nughdeGet_quiet env flt loc
  rw [h] at hq
  have hc : isExecLocal (Ev.chdir env.autoQmail) = false := rfl
  obtain ⟨hr1, hr2, hr3⟩ := dropAndExec_root env flt id loc dom sender hu
  unfold spawnChild
  split
  · rename_i he; refine ⟨by simp [noExec], by simp, ?_⟩
    intro _ hl; cases loc <;> simp_all
  · split
    · rename_i hf; refine ⟨by simp [noExec, isExecLocal], by simp, ?_⟩
      intro h0; simp [h0] at hf
    · simp only [h, hp]
      refine ⟨?_, hr2, fun h0 _ => hr3 h0⟩
      exact noExec_of_quiet _ (quiet_cons hc (quiet_append (quiet_append hq quiet_fds) hr1))

/-! ## errors defer -/

/-- report(): every exit code that stands for a database / lookup / identity error is reported as `Z` (deferral);
    the table is regenerated from qmail-lspawn.c and qlx.h on every run. -/
theorem C11_defer :
    ∀ c ∈ [QLX_CDB, QLX_NOMEM, QLX_SYS, QLX_NFS, QLX_EXECPW, QLX_USAGE, QLX_NOALIAS, QLX_ROOT, QLX_EXECSOFT],
      reportByte c = 90 := by
  decide

/-- a child killed by a signal is deferred as well -/
theorem C11_defer_crash : reportCrashed = 90 := by decide

end Nq.Props.C11
