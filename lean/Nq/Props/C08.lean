/-
  C08 — SMTP transactions are well-sequenced and relaying is gated by policy.

  Model: `Nq.SmtpSession` (commands() line reader, addrparse, bmfcheck, rcpthosts, the smtp_* handlers as
  `sstep`, the byte-level session `run`), tied to qmail-smtpd.c / commands.c / rcpthosts.c / control.c /
  constmap.c / cdb_seek.c / ip.c / qmail-newmrh.c by `harness/c08_session.c` and, for the command table,
  reply texts and the length limit, by the translator (`Nq.Gen.SmtpCmds`).

  A session is observed as its trace: the list of (command, outcome) pairs, an outcome being the replies
  and, possibly, the envelope handed to the queue.  All statements quantify over every configuration
  `cfg` and every command list / byte stream, with no bound on length.  The predicates `SubmitOK`, `GateOK`,
  `MatchSpec`, `BadSender`, `discards` are in `Nq/Spec/SmtpPolicy.lean`; their Boolean forms are what the
  compiled driver evaluates on the *implementation's* trace.
-/
import Nq.Lemmas.SmtpSession
import Nq.Lemmas.SmtpAddr
import Nq.Lemmas.SmtpLip
import Nq.Lemmas.SmtpCmdSpec
import Nq.Lemmas.SmtpCmdSession
import Nq.Lemmas.SmtpPolicyDoc
import Nq.Lemmas.SmtpAddrParse
import Nq.Lemmas.SmtpFlush

namespace Nq.Props.C08
open Nq Nq.SmtpIn Nq.SmtpSession Nq.SmtpPolicy Nq.Lemmas.Smtp
open Nq.Substdio Nq.SmtpIO Nq.SmtpCmdIO Nq.CmdLineSpec Nq.SmtpPolicyDoc Nq.Lemmas.SmtpCmd Nq.Lemmas.SmtpDoc

/-- **Sequencing.** Whenever an envelope is handed to the queue, the trace before that point ends in
`MAIL` answered 250 (whose parsed address is the envelope sender), followed by events none of which is
HELO / EHLO / RSET / another MAIL answered 250 / a DATA that got past its checks; the envelope recipients
are exactly the stored forms of the RCPTs answered 250 in that stretch, in order; and there is at least one. -/
theorem C08_submit (cfg : Cfg) (cs : List Cmd) (pre post : List Ev) (c : Cmd) (o : Out) (sub : Submit)
    (ht : trace cfg {} cs = pre ++ (c, o) :: post) (hs : o.submit = some sub) : SubmitOK cfg pre sub := by
  obtain ⟨s', c', hi, hx⟩ := trace_split cfg pre {} [] cs (c, o) post (inv_init cfg) ht
  simp only [List.nil_append, Prod.mk.injEq] at hi hx
  obtain ⟨rfl, rfl⟩ := hx
  obtain ⟨_, mid, h1, h2, h3⟩ := submit_step cfg pre s' c sub hi hs
  exact ⟨mid, (openTxnB_iff cfg pre _ mid).1 h1, h2, h3⟩

/-- …and only a DATA command that was answered 354 hands anything to the queue. -/
theorem C08_submit_only_data (cfg : Cfg) (s : Sess) (c : Cmd) (sub : Submit) (hs : (sstep cfg s c).2.submit = some sub) :
    (∃ env, c = .data env) ∧ (sstep cfg s c).2.replies.head? = some .go ∧ s.seenmail = true ∧ s.rcptto ≠ [] ∧
      sub.sender = s.mailfrom ∧ sub.rcpts = s.rcptto := by
  cases c with
  | data env =>
    refine ⟨⟨env, rfl⟩, ?_⟩
    by_cases h1 : s.seenmail = true
    · by_cases he : s.rcptto.isEmpty = true
      · simp [sstep, h1, he] at hs
      · by_cases ho : env.openFails = true
        · simp [sstep, h1, he, ho] at hs
        · cases hb : env.blast <;> simp [sstep, h1, he, ho, hb] at hs ⊢
          subst hs
          exact ⟨by simpa using he, rfl, rfl⟩
    · simp [sstep, h1] at hs
  | mail arg => cases ha : addrparse cfg arg <;> simp [sstep, ha] at hs
  | rcpt arg =>
    by_cases h1 : s.seenmail = true
    · cases ha : addrparse cfg arg with
      | none => simp [sstep, h1, ha] at hs
      | some a =>
        by_cases hb : s.flagbarf = true
        · simp [sstep, h1, ha, hb] at hs
        · cases hr : cfg.relay with
          | some rc => simp [sstep, h1, ha, hb, hr] at hs
          | none => by_cases hm : rcpthostsMatch cfg a = true <;> simp [sstep, h1, ha, hb, hr, hm] at hs
    · simp [sstep, h1] at hs
  | _ => simp [sstep] at hs

/-- **Discarding.** HELO, EHLO, RSET and a DATA that got past its checks leave no transaction open:
whatever follows, nothing is submitted and no RCPT is accepted until another MAIL is answered 250
(a MAIL answered 250 starts a new transaction with no recipients). State-level form. -/
theorem C08_discard (cfg : Cfg) (s : Sess) (c : Cmd) (hd : discards (c, (sstep cfg s c).2) = true) :
    (∃ a, c = .mail a ∧ (sstep cfg s c).1.seenmail = true ∧ (sstep cfg s c).1.rcptto = [] ∧
       addrparse cfg a = some (sstep cfg s c).1.mailfrom) ∨
    (sstep cfg s c).1.seenmail = false := by
  cases c with
  | mail arg =>
    cases ha : addrparse cfg arg with
    | none => simp [discards, sstep, ha] at hd
    | some a => exact Or.inl ⟨arg, rfl, by simp [sstep, ha]⟩
  | data env =>
    right
    by_cases h1 : s.seenmail = true
    · by_cases he : s.rcptto.isEmpty = true
      · simp [discards, sstep, h1, he] at hd
      · by_cases ho : env.openFails = true
        · simp [sstep, h1, he, ho]
        · cases hb : env.blast <;> simp [sstep, h1, he, ho, hb]
    · simp [discards, sstep, h1] at hd
  | helo => right; simp [sstep]
  | ehlo => right; simp [sstep]
  | rset => right; simp [sstep]
  | rcpt arg => simp [discards] at hd
  | help => simp [discards] at hd
  | noop => simp [discards] at hd
  | vrfy => simp [discards] at hd
  | unimpl => simp [discards] at hd
  | quit => simp [discards] at hd

/-- while no transaction is open, DATA is refused and RCPT is refused -/
theorem C08_closed (cfg : Cfg) (s : Sess) (h : s.seenmail = false) (env : DataEnv) (arg : Bytes) :
    sstep cfg s (.data env) = (s, { replies := [.wantmail] }) ∧ sstep cfg s (.rcpt arg) = (s, { replies := [.wantmail] }) := by
  simp [sstep, h]

/-- **Gating, one step.** In any state, RCPT is answered 250 exactly when a transaction is open, the
sender was not flagged, the argument parses (length limit included) and either RELAYCLIENT is set or
rcpthosts() accepts the parsed address; the address stored is the parsed one followed by $RELAYCLIENT. -/
theorem C08_gate_step (cfg : Cfg) (s : Sess) (arg : Bytes) :
    ((sstep cfg s (.rcpt arg)).2.replies = [.rcptok] ↔
      s.seenmail = true ∧ s.flagbarf = false ∧
        ∃ a, addrparse cfg arg = some a ∧ (cfg.relay.isSome = true ∨ rcpthostsMatch cfg a = true)) ∧
    ((sstep cfg s (.rcpt arg)).2.replies = [.rcptok] →
      ∃ a, addrparse cfg arg = some a ∧
        (sstep cfg s (.rcpt arg)).1 = { s with rcptto := s.rcptto ++ [a ++ relaySuffix cfg] }) :=
  ⟨gate_step cfg s arg, gate_stored cfg s arg⟩

/-- **Gating, whole sessions.** A RCPT anywhere in a session is answered 250 *iff* the trace before it
ends in an open transaction whose sender is not on the bad-sender list, its argument parses to an address
within the length limit (local IP literals already replaced), and RELAYCLIENT is set or the address matches
the recipient-host lists. -/
theorem C08_gate (cfg : Cfg) (hl : MoreLower cfg) (cs : List Cmd) (pre post : List Ev) (arg : Bytes) (o : Out)
    (ht : trace cfg {} cs = pre ++ (.rcpt arg, o) :: post) : o.replies = [.rcptok] ↔ GateOK cfg pre arg := by
  obtain ⟨s', c', hi, hx⟩ := trace_split cfg pre {} [] cs (.rcpt arg, o) post (inv_init cfg) ht
  simp only [List.nil_append, Prod.mk.injEq] at hi hx
  obtain ⟨rfl, rfl⟩ := hx
  exact gate_inv cfg hl pre s' arg hi

/-- the lower-case hypothesis holds for every configuration read from files: qmail-newmrh lower-cases -/
theorem C08_moreLower (me : Bytes) (rh more bmf lip relay : Option Bytes) (ipme : List Ip) (now qp : Nat) :
    MoreLower (Cfg.ofFiles me rh more bmf lip relay ipme now qp) := ofFiles_moreLower me rh more bmf lip relay ipme now qp

/-- **Recipient-host matching.** rcpthosts() accepts an address iff there is no rcpthosts file, or the
address has no `@`, or some entry of rcpthosts / morercpthosts.cdb equals the domain ignoring case or
starts with a dot and is a suffix of the domain ignoring case. An empty domain is never covered. -/
theorem C08_match_spec (cfg : Cfg) (hl : MoreLower cfg) (a : Bytes) : rcpthostsMatch cfg a = true ↔ MatchSpec cfg a :=
  match_iff cfg hl a

/-- **Bad senders.** bmfcheck() flags a sender iff an entry equals the address or `@domain`, ignoring case. -/
theorem C08_bmf_spec (cfg : Cfg) (a : Bytes) : bmfcheck cfg a = true ↔ BadSender cfg a := bmf_iff cfg a

/-- **Length limit.** What addrparse accepts has at most 899 bytes (900 with its NUL)… -/
theorem C08_len (cfg : Cfg) (arg a : Bytes) (h : addrparse cfg arg = some a) : a.length < 900 := by
  have := addrparse_limit cfg arg a h
  have : addrLimit = 900 := rfl
  omega

/-- …and anything longer is a syntax error for MAIL and for RCPT alike, leaving the state untouched. -/
theorem C08_len_refused (cfg : Cfg) (s : Sess) (arg : Bytes) (h : 900 ≤ (addrCore cfg arg).length) (hm : s.seenmail = true) :
    addrparse cfg arg = none ∧ sstep cfg s (.mail arg) = (s, { replies := [.syntax] }) ∧
      sstep cfg s (.rcpt arg) = (s, { replies := [.syntax] }) := by
  have : addrparse cfg arg = none := by
    unfold addrparse
    have : Gen.ADDRMAX = 900 := rfl
    simp; omega
  simp [sstep, this, hm]

/-- **Local IP literals are replaced inside addrparse**, hence before bmfcheck / rcpthosts see the address:
`box@[d.d.d.d]` with `d.d.d.d` (octets taken modulo 256) one of this host's addresses becomes
`box@localiphost`; this is the only thing `lipSubst` ever does. -/
theorem C08_liphost (cfg : Cfg) (h box d1 d2 d3 d4 : Bytes) (hh : cfg.liphost = some h)
    (h1 : allDigits d1 = true) (h2 : allDigits d2 = true) (h3 : allDigits d3 = true) (h4 : allDigits d4 = true)
    (hip : cfg.ipme.contains (numVal d1, numVal d2, numVal d3, numVal d4) = true) :
    lipSubst cfg (box ++ AT :: ipLit d1 d2 d3 d4) = box ++ AT :: h :=
  lipSubst_literal cfg h box d1 d2 d3 d4 hh h1 h2 h3 h4 hip

/-- …for *every* address: the scanner of ip.c (`scanBracket`: `scan_ulong` wrap-around, truncation to a byte)
and the independent split-at-dots reading of `[d.d.d.d]` used by the oracle (`lipSpec`/`ipLiteral`) agree, so the
address left by addrparse is the quoted-and-routed-stripped argument with a local literal domain replaced. -/
theorem C08_liphost_spec (cfg : Cfg) (arg : Bytes) :
    addrCore cfg arg = lipSpec cfg (addrRaw arg) ∧ ∀ a, lipSubst cfg a = lipSpec cfg a :=
  ⟨lipSubst_eq_spec cfg (addrRaw arg), lipSubst_eq_spec cfg⟩

theorem C08_liphost_only (cfg : Cfg) (a : Bytes) :
    lipSubst cfg a = a ∨ ∃ h p d ip, cfg.liphost = some h ∧ splitLastAt a = some (p, d) ∧ scanBracket d = some (ip, []) ∧
      cfg.ipme.contains ip = true ∧ lipSubst cfg a = p ++ h :=
  lipSubst_cases cfg a

/-- **Every byte stream is a command sequence**: the byte-level session (line reader, verb table, DATA
swallowing its message through `dblast` of C05) is `trace` of some command list, so the theorems above
hold for every input stream, pipelined or not, with CRLF or bare-LF line ends. -/
theorem C08_run_is_trace (cfg : Cfg) (qq : QQ) (inp : Bytes) :
    run cfg qq inp = trace cfg {} ((run cfg qq inp).map Prod.fst) :=
  runFuel_is_trace cfg qq _ {} inp

/-- **The oracle is the theorem.** The Boolean checkers evaluated by the driver are equivalent to the
declarative predicates, and they accept every trace of the model. -/
theorem C08_oracle_iff (cfg : Cfg) (pre : List Ev) (sub : Submit) (arg : Bytes) :
    (submitOKB cfg pre sub = true ↔ SubmitOK cfg pre sub) ∧ (gateOKB cfg pre arg = true ↔ GateOK cfg pre arg) ∧
    (matchSpecB cfg arg = true ↔ MatchSpec cfg arg) ∧ (badSenderB cfg arg = true ↔ BadSender cfg arg) :=
  ⟨submitOKB_iff cfg pre sub, gateOKB_iff cfg pre arg, matchSpecB_iff cfg arg, badSenderB_iff cfg arg⟩

theorem C08_oracle_accepts_model (cfg : Cfg) (hl : MoreLower cfg) (qq : QQ) (inp : Bytes) :
    traceBad cfg [] (run cfg qq inp) 0 = none := by
  rw [C08_run_is_trace]
  exact traceBad_none cfg hl _ {} [] 0 (inv_init cfg)

/-- the command table as the model sees it (the table itself is regenerated from qmail-smtpd.c) -/
theorem C08_verbs :
    verbOf [77, 65, 73, 76] = .mail ∧ verbOf [114, 99, 112, 116] = .rcpt ∧ verbOf [68, 97, 84, 97] = .data ∧
    verbOf [82, 83, 69, 84] = .rset ∧ verbOf [72, 69, 76, 79] = .helo ∧ verbOf [69, 72, 76, 79] = .ehlo ∧
    verbOf [81, 85, 73, 84] = .quit ∧ verbOf [] = .unimpl ∧ verbOf [77, 65, 73, 76, 70] = .unimpl := by
  decide

/-! ### Framing: from the byte stream, through substdio, to the calls `commands()` makes

`SmtpCmdIO.commandsIO` is commands.c over a buffered descriptor (`Nq.Substdio.ISt`: any buffer size, any read
script = any chunking the kernel may choose, failing reads included) with an arbitrary command table;
`CmdLineSpec` is the independently written meaning of a command stream. -/

/-- **The independent splitter is well defined**: the executable functions the oracle runs satisfy the declarative
relations (`IsLines`: the stream is the lines, each followed by LF, then an LF-free rest; `IsSplit`: one CR before
the LF dropped, cut at the first NUL, verb = up to the first space, argument = after the run of spaces), and the
relations determine their result. -/
theorem C08_frame_spec_wd (inp : Bytes) :
    IsLines inp (specLines inp) (specTail inp) ∧
    (∀ ls tail, IsLines inp ls tail → ls = specLines inp ∧ tail = specTail inp) ∧
    (∀ l, IsSplit l (specSplit l).1 (specSplit l).2) ∧
    (∀ l v a, IsSplit l v a → specSplit l = (v, a)) :=
  ⟨isLines_spec _ inp (Nat.lt_succ_self _), fun ls tail h => isLines_unique ls inp tail h, isSplit_spec, isSplit_unique⟩

/-- **Framing, every table, every buffer state, every read script.** The calls made are exactly the spec's calls
on the bytes delivered before the first failing read — all pending bytes, and return value 0, when no read fails;
-1 is returned only after a failing read. -/
theorem C08_frame_io (table : List Bytes) (s : ISt) (h : IWF s) :
    ∃ pre, pre <+: pending s ∧ (commandsIO table s).1 = specCalls table pre ∧
      ((commandsIO table s).2 = .err → 0 ∈ s.rs) ∧
      (0 ∉ s.rs → pre = pending s ∧ (commandsIO table s).2 = .eof) := by
  obtain ⟨pre, h1, h2, h3, h4⟩ := commandsIO_spec table s h
  exact ⟨pre, h1, by rw [h2, cmds_spec], h3, h4⟩

/-- **Framing, declaratively, for every chunking.** However the stream `inp` is cut into reads (buffer size `size`,
read script `rs` without a failing read) and whatever lines `ls` it consists of: `commands()` makes one call per
line, in order, each with the table entry selected by the line's verb (first text equal ignoring case, else the
catch-all) and the line's argument, verb and argument being related to the line by `IsSplit`; then returns 0. -/
theorem C08_frame (table : List Bytes) (size : Nat) (inp : Bytes) (rs : List Nat) (hrs : 0 ∉ rs)
    (ls : List Bytes) (tail : Bytes) (hl : IsLines inp ls tail) :
    commandsIO table (istart size inp rs) = (ls.map (fun l => (specIdx table (specSplit l).1, (specSplit l).2)), .eof) ∧
    ∀ l ∈ ls, IsSplit l (specSplit l).1 (specSplit l).2 := by
  obtain ⟨pre, _, h2, _, h4⟩ := C08_frame_io table (istart size inp rs) (istart_IWF size inp rs)
  obtain ⟨e1, e2⟩ := h4 hrs
  rw [istart_pending] at e1
  subst e1
  obtain ⟨r1, _⟩ := isLines_unique ls pre tail hl
  refine ⟨?_, fun l _ => isSplit_spec l⟩
  rw [Prod.ext_iff]
  exact ⟨by rw [h2, r1]; rfl, e2⟩

/-- the session model's line reader, line parser and verb table are the spec's -/
theorem C08_parse_spec (inp l v : Bytes) :
    readLine inp = specFirstLine inp ∧ parseLine l = specParse l ∧ verbOf v = specVerb v ∧
    (∀ s t, ciEqB s t = true ↔ lower s = lower t) :=
  ⟨(specFirstLine_eq inp).symm, (specParse_eq l).symm, (specVerb_eq v).symm, ciEqB_iff⟩

/-- **Sessions over substdio.** qmail-smtpd's loop — `commands()` reading `ssin` byte by byte, `smtp_data` running
`blast()` on the same `ssin` — over any buffer state and any read script without a failing read is the byte-level
session `run` on the bytes still to come: no chunking changes what is dispatched, answered or queued. -/
theorem C08_io_run (cfg : Cfg) (qq : QQ) (i : ISt) (h : IWF i) (hrs : 0 ∉ i.rs) : runIO cfg qq i = run cfg qq (pending i) :=
  runIO_eq cfg qq i h hrs

/-- …and with failing reads (which `saferead` turns into `die_read()`, like end of file): the session is the session on
a prefix of those bytes — what the descriptor delivered before the failure. Every buffer state, every read script. -/
theorem C08_io_run_any (cfg : Cfg) (qq : QQ) (i : ISt) (h : IWF i) : ∃ pre, pre <+: pending i ∧ runIO cfg qq i = run cfg qq pre :=
  runIO_any cfg qq i h

/-- **Sessions are laid out over the stream as the spec says** (`CmdLineSpec.Framed`): every event is the next
LF-terminated line, its verb the table entry the spec selects and its MAIL/RCPT argument the spec's argument; a DATA
answered 354 is followed by its message, ending where the RFC 5321 reference decoder says, and the next command line
starts right there (message lines are never taken for commands, commands never for message lines); nothing is read
after an event that ends the session; the rest after the last LF is not a command. For every byte stream — and, by
`C08_io_run`, for every chunking of it into reads. -/
theorem C08_frame_session (cfg : Cfg) (qq : QQ) (inp : Bytes) : Framed inp (run cfg qq inp) :=
  run_framed cfg qq inp

/-- **Sequencing, lifted to raw byte streams and every chunking.** -/
theorem C08_submit_bytes (cfg : Cfg) (qq : QQ) (size : Nat) (inp : Bytes) (rs : List Nat) (hrs : 0 ∉ rs)
    (pre post : List Ev) (c : Cmd) (o : Out) (sub : Submit)
    (ht : runIO cfg qq (istart size inp rs) = pre ++ (c, o) :: post) (hs : o.submit = some sub) : SubmitOK cfg pre sub := by
  rw [C08_io_run cfg qq _ (istart_IWF size inp rs) hrs, C08_run_is_trace] at ht
  exact C08_submit cfg _ pre post c o sub ht hs

/-- **Gating, lifted to raw byte streams and every chunking**, in both forms: the trace predicate `GateOK` and the
documented rules `GateDoc`. -/
theorem C08_gate_bytes (cfg : Cfg) (hl : MoreLower cfg) (qq : QQ) (size : Nat) (inp : Bytes) (rs : List Nat) (hrs : 0 ∉ rs)
    (pre post : List Ev) (arg : Bytes) (o : Out)
    (ht : runIO cfg qq (istart size inp rs) = pre ++ (.rcpt arg, o) :: post) :
    (o.replies = [.rcptok] ↔ GateOK cfg pre arg) ∧ (o.replies = [.rcptok] ↔ GateDoc cfg pre arg) := by
  rw [C08_io_run cfg qq _ (istart_IWF size inp rs) hrs, C08_run_is_trace] at ht
  have := C08_gate cfg hl _ pre post arg o ht
  exact ⟨this, this.trans (gateDoc_iff cfg pre arg).symm⟩

/-! ### The documented rules (qmail-smtpd.8), written without the model's vocabulary -/

/-- **badmailfrom, documented rule**: a sender is refused iff some line equals the whole address or equals `@host`
for the address's host part (what follows its last `@`), ignoring ASCII case (`CiEq`: position-wise, no `lower`). -/
theorem C08_bmf_doc (cfg : Cfg) (a : Bytes) : bmfcheck cfg a = true ↔ BadSenderDoc cfg a :=
  (bmf_iff cfg a).trans (badSenderDoc_iff cfg a).symm

/-- **rcpthosts / morercpthosts, documented rule**: no rcpthosts file, or no `@`, or the (non-empty) host part is a
listed host or ends with a listed `.suffix`, ignoring case. -/
theorem C08_rcpthosts_doc (cfg : Cfg) (hl : MoreLower cfg) (a : Bytes) : rcpthostsMatch cfg a = true ↔ RcptHostOK cfg a :=
  (match_iff cfg hl a).trans (rcptHostOK_iff cfg a).symm

/-- **The RCPT decision with RELAYCLIENT.** In an open transaction with an unflagged sender, a recipient that parses
to `a` is answered 250 iff the documented rule gives a stored form (RELAYCLIENT set: always, `a ++ $RELAYCLIENT`;
otherwise `a` itself if its host is allowed); that form is what is appended to the recipient list; otherwise the
state is untouched. -/
theorem C08_rcpt_doc (cfg : Cfg) (hl : MoreLower cfg) (s : Sess) (arg a : Bytes) (h1 : s.seenmail = true) (h2 : s.flagbarf = false)
    (ha : addrparse cfg arg = some a) :
    ((sstep cfg s (.rcpt arg)).2.replies = [.rcptok] ↔ ∃ stored, RcptDoc cfg a stored) ∧
    (∀ stored, RcptDoc cfg a stored → (sstep cfg s (.rcpt arg)).1 = { s with rcptto := s.rcptto ++ [stored] }) ∧
    ((¬ ∃ stored, RcptDoc cfg a stored) → (sstep cfg s (.rcpt arg)).1 = s) :=
  rcpt_step_doc cfg hl s arg a h1 h2 ha

/-- **Gating by the documented rules, whole sessions.** -/
theorem C08_gate_doc (cfg : Cfg) (hl : MoreLower cfg) (cs : List Cmd) (pre post : List Ev) (arg : Bytes) (o : Out)
    (ht : trace cfg {} cs = pre ++ (.rcpt arg, o) :: post) : o.replies = [.rcptok] ↔ GateDoc cfg pre arg :=
  (C08_gate cfg hl cs pre post arg o ht).trans (gateDoc_iff cfg pre arg).symm

/-- the Boolean forms of the documented rules which the driver evaluates are the rules -/
theorem C08_oracle_doc_iff (cfg : Cfg) (pre : List Ev) (a arg stored : Bytes) :
    (badSenderDocB cfg a = true ↔ BadSenderDoc cfg a) ∧ (rcptHostOKB cfg a = true ↔ RcptHostOK cfg a) ∧
    (rcptDocB cfg a = some stored ↔ RcptDoc cfg a stored) ∧ (gateDocB cfg pre arg = true ↔ GateDoc cfg pre arg) :=
  ⟨badSenderDocB_iff cfg a, rcptHostOKB_iff cfg a, rcptDocB_iff cfg a stored, gateDocB_iff cfg pre arg⟩

/-! ### Non-vacuity -/

/-- rcpthosts = {local.example → "l.e", ".w.e"}; a session MAIL, RCPT ok, RCPT foreign, DATA submits exactly one recipient -/
def cfgEx : Cfg := { rh := some [[108, 46, 101], [46, 119, 46, 101]], bmf := some [[64, 98]] }

-- "<s@x>", "<u@L.E>" (upper case), "<u@a.W.e>" (wildcard), "<u@w.e>" (not covered), RSET, DATA, MAIL, "<u@r>", ":u" (no @)
example :
    (trace cfgEx {} [.mail [60, 115, 64, 120, 62], .rcpt [60, 117, 64, 76, 46, 69, 62], .rcpt [60, 117, 64, 97, 46, 87, 46, 101, 62],
        .rcpt [60, 117, 64, 119, 46, 101, 62], .rset, .data {}, .mail [60, 115, 64, 120, 62], .rcpt [60, 117, 64, 114, 62],
        .rcpt [58, 117], .data {}]).map (fun x => (x.2.replies, x.2.submit)) =
      [([.mailok], none), ([.rcptok], none), ([.rcptok], none), ([.nogateway], none), ([.flushed], none), ([.wantmail], none),
       ([.mailok], none), ([.nogateway], none), ([.rcptok], none),
       ([.go, .accepted], some ⟨[115, 64, 120], [[117]], []⟩)] := by decide

-- sender "<s@B>" is on the bad-sender list (@b): every RCPT is refused
example : (trace cfgEx {} [.mail [60, 115, 64, 66, 62], .rcpt [60, 117, 64, 108, 46, 101, 62]]).map (fun x => x.2.replies) =
    [[.mailok], [.bmf]] := by decide

-- `"a b"\@x@[127.0.0.1]` with localiphost "l.e": quotes and backslash removed, literal replaced
example : addrparse { liphost := some [108, 46, 101], ipme := [(127, 0, 0, 1)] }
    [60, 64, 114, 58, 34, 97, 32, 98, 34, 92, 64, 120, 64, 91, 49, 50, 55, 46, 48, 46, 48, 46, 49, 93, 62] =
    some [97, 32, 98, 64, 120, 64, 108, 46, 101] := by decide

example : MoreLower cfgEx := by intro ks h; simp [cfgEx] at h

-- table ["a", "AB", "ab", ""]; stream "aB  x\r\n\n a\0b\nAb" read through a 2-byte buffer in reads of 1, 1, 3, … bytes:
-- three calls (entry 1 "AB" with argument "x"; the empty verb selects entry 3; again entry 3 with argument "a"), the
-- unterminated "Ab" is not a command
def tabEx : List Bytes := [[97], [65, 66], [97, 98], []]
def inEx : Bytes := [97, 66, 32, 32, 120, 13, 10, 10, 32, 97, 0, 98, 10, 65, 98]

example : commandsIO tabEx (istart 2 inEx [1, 1, 3]) = ([(1, [120]), (3, []), (3, [97])], .eof) := by decide
example : specCalls tabEx inEx = [(1, [120]), (3, []), (3, [97])] := by decide
example : IsLines inEx [[97, 66, 32, 32, 120, 13], [], [32, 97, 0, 98]] [65, 98] := by
  refine ⟨by decide, ?_, by decide⟩
  intro l hl; simp at hl; rcases hl with rfl | rfl | rfl <;> decide
example : IsSplit [97, 66, 32, 32, 120, 13] [97, 66] [120] :=
  ⟨[97, 66, 32, 32, 120], [97, 66, 32, 32, 120], [], [32, 32], Or.inl rfl, by simp, by decide, Or.inl rfl, rfl, by decide,
   by decide, by decide, by decide⟩
-- a failing read (script entry 0) after 3 + 4 + 2 bytes: -1, and only the lines complete by then
example : commandsIO tabEx (istart 4 inEx [3, 5, 2, 0]) = ([(1, [120]), (3, [])], .err) := by decide

-- "MAIL <s@x>\r\nRCPT <u@L.E>\nDATA\r\nx\r\n.\r\nQUIT\n" one byte per read: one envelope, then QUIT
example : (runIO cfgEx {} (istart 8 [77, 65, 73, 76, 32, 60, 115, 64, 120, 62, 13, 10, 82, 67, 80, 84, 32, 60, 117, 64, 76, 46, 69, 62, 10,
      68, 65, 84, 65, 13, 10, 120, 13, 10, 46, 13, 10, 81, 85, 73, 84, 10] (List.replicate 50 1))).map (fun x => (x.2.replies, x.2.submit)) =
    [([.mailok], none), ([.rcptok], none), ([.go, .accepted], some ⟨[115, 64, 120], [[117, 64, 76, 46, 69]], []⟩), ([.quit], none)] := by decide

-- the layout of "NOOP\r\nquit\nx": two command lines, the second ends the session, "x" is never read
example : Framed [78, 79, 79, 80, 13, 10, 113, 117, 105, 116, 10, 120]
    [(.noop, { replies := [.noop] }), (.quit, { replies := [.quit], halt := true })] :=
  Framed.cmd [78, 79, 79, 80, 13] _ _ _ _ (by decide) ⟨by decide, by simp [argOfCmd]⟩ rfl (by decide)
    (Framed.last [113, 117, 105, 116] [120] _ _ (by decide) ⟨by decide, by simp [argOfCmd]⟩ rfl)

-- documented rules on cfgEx: "u@a.W.e" is listed by ".w.e", "u@w.e" is not; "s@B" is a bad sender through "@b"
example : RcptHostOK cfgEx [117, 64, 97, 46, 87, 46, 101] := (rcptHostOKB_iff _ _).1 (by decide)
example : ¬ RcptHostOK cfgEx [117, 64, 119, 46, 101] := fun h => absurd ((rcptHostOKB_iff _ _).2 h) (by decide)
example : BadSenderDoc cfgEx [115, 64, 66] := (badSenderDocB_iff _ _).1 (by decide)
example : RcptDoc { relay := some [64, 114] } [117] [117, 64, 114] := rfl

/-! ### Session 4: address unquoting against an independent path grammar (`Nq.Spec.SmtpAddr`) -/

open Nq.SmtpAddrSpec in
/-- The path grammar is well defined.  For every argument: the lexer-based reading `specPath` satisfies the
declarative relation `IsPath` (start after the first `<` / after the first `:` and blanks / nothing; a leading
`@…:` source route dropped; the rest a sequence of plain bytes, `\x` pairs and `"…"` strings up to the first
top-level terminator, unterminated strings and a lone trailing backslash included), and the relation
determines the address.  The item grammar alone (`IsUnq`) is total for every terminator. -/
theorem C08_addr_spec_wd (arg : Bytes) :
    IsPath arg (specPath arg) ∧ (∀ a, IsPath arg a ↔ a = specPath arg) ∧
    (∀ term s, IsUnq term s (specUnq term s)) ∧
    IsStart arg (specStart arg).1 (specStart arg).2 ∧ (∀ body, IsRoute body (specRoute body)) :=
  ⟨specPath_is arg, IsPath_iff arg, specUnq_is, specStart_is arg, specRoute_is⟩

open Nq.SmtpAddrSpec in
/-- model = spec for ALL arguments and configurations: the copy loop / source-route / bracket code of the model
of addrparse() computes exactly the address the grammar denotes, and the model's addrparse (localiphost rule,
900-byte limit) is `specAddrparse`; `AddrSpec` (declarative: some `IsPath` reading, `lipSpec`, literal limit)
holds of exactly that result. -/
theorem C08_addr_spec (cfg : Cfg) (arg : Bytes) :
    addrRaw arg = specPath arg ∧ addrparse cfg arg = specAddrparse cfg arg ∧
    (∀ res, AddrSpec cfg arg res ↔ res = addrparse cfg arg) :=
  ⟨addrRaw_eq_spec arg, addrparse_eq_spec cfg arg, fun res => by rw [addrparse_eq_spec]; exact AddrSpec_iff cfg arg res⟩

open Nq.SmtpAddrSpec in
/-- each item of the grammar is what the model's loop makes of it, for the two terminators that occur: the
relation `IsUnq` determines the address (any two readings of a string give the same address). -/
theorem C08_addr_unq_unique (term : Byte) (ht : term = RAB ∨ term = SP) (s a b : Bytes)
    (ha : IsUnq term s a) (hb : IsUnq term s b) : a = b := by
  have h1 : SmtpAddrSpec.BSL ≠ term := by rcases ht with rfl | rfl <;> decide
  have h2 : SmtpAddrSpec.DQ ≠ term := by rcases ht with rfl | rfl <;> decide
  rw [IsUnq_unq term h1 h2 s a ha, IsUnq_unq term h1 h2 s b hb]

/-- the trace checkers the driver now runs (`traceBadS`: `traceBad` with `specAddrparse` as "the parsed address")
are the checkers of `C08_oracle_iff`. -/
theorem C08_addr_oracle (cfg : Cfg) (tr pre : List Ev) (i : Nat) :
    traceBadS cfg pre tr i = traceBad cfg pre tr i ∧ gateOKBS = gateOKB ∧ submitOKBS = submitOKB :=
  ⟨traceBadS_eq cfg tr pre i, gateOKBS_eq, submitOKBS_eq⟩

-- `<@a,@b:">"\"@c>x`  reads as  `>"@c`  (source route dropped, quoted `>`, escaped quote, junk after `>` ignored)
example : Nq.SmtpAddrSpec.specPath [60, 64, 97, 44, 64, 98, 58, 34, 62, 34, 92, 34, 64, 99, 62, 120] = [62, 34, 64, 99] := by decide
-- bracketless `FROM:  u\ v w`: starts after the colon and blanks, ends at the first unescaped blank
example : Nq.SmtpAddrSpec.specPath [70, 58, 32, 32, 117, 92, 32, 118, 32, 119] = [117, 32, 118] := by decide
-- unterminated quoted string with a lone trailing backslash: `<"a>\`
example : Nq.SmtpAddrSpec.specPath [60, 34, 97, 62, 92] = [97, 62] := by decide
example : Nq.SmtpAddrSpec.IsUnq 62 [34, 97, 62, 92] [97, 62] :=
  ⟨[], .openq [.ch 97, .ch 62] true, by simp, by simp [Nq.SmtpAddrSpec.Ending.ok, Nq.SmtpAddrSpec.QItem.ok, Nq.SmtpAddrSpec.BSL, Nq.SmtpAddrSpec.DQ], by decide, by decide⟩
example : specAddrparse cfgEx [60, 64, 120, 58, 117, 64, 76, 46, 69, 62] = some [117, 64, 76, 46, 69] := by decide
set_option maxRecDepth 20000 in
example : AddrSpec cfgEx (60 :: List.replicate 900 97) none :=
  (Nq.SmtpPolicy.AddrSpec_iff _ _ _).2 (by decide)

/-! ### Session 4: the flush discipline of commands() (`Nq.SmtpFlush`) -/

open Nq.SmtpFlush in
/-- No reply is withheld.  For EVERY command table, flush-flag assignment, handlers (state, call ↦ state, reply length,
exits?), output buffer size, banner length, input buffer state and read script: the event list of commands() with
`saferead` as the read op is disciplined (`disciplinedB`, the Boolean the driver evaluates on the implementation's own
event log), which means: whenever the server issues a `read` of the connection, and whenever the flush callback of a
table entry has run, the number of bytes written so far equals the number of reply bytes generated so far (banner
included); and no write runs ahead of what was generated. -/
theorem C08_flush {σ : Type} (table : List Bytes) (flags : Nat → Bool) (h : Handler σ) (size : Nat) (st : σ) (s : ISt) (banner : Nat) :
    disciplinedB 0 (cmdsEv table flags h size st s banner) = true ∧
    ∀ pre e post, cmdsEv table flags h size st s banner = pre ++ e :: post →
      written pre ≤ generated pre ∧ ((e = .rd ∨ e = .fl) → written pre = generated pre) := by
  refine ⟨disc_cmdsEv table flags h size st s banner, ?_⟩
  intro pre e post hs
  have := disc_meaning pre 0 e post (by rw [← hs]; exact disc_cmdsEv table flags h size st s banner)
  simpa using this

-- "ab\nc\n" through a 4-byte input buffer, reads of ≤ 3 bytes, entry 0 = "ab" without flush callback, catch-all with one:
-- the 5 bytes of the first reply stay buffered past the handler and are written before the second read
example : Nq.SmtpFlush.cmdsEv [[97, 98]] (fun i => i != 0) (fun (_ : Unit) c => ((), 5 + c.1, false)) 16 () (istart 4 [97, 98, 10, 99, 10] [3, 3]) 7 =
    [.gen 7, .wr 7, .rd, .gen 5, .cmd 0, .wr 5, .rd, .gen 6, .cmd 1, .wr 6, .fl, .rd] := by decide
example : Nq.SmtpFlush.disciplinedB 0 [.gen 7, .rd] = false := by decide

end Nq.Props.C08
