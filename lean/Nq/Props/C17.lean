/-
  C17 — Address quoting and parsing agree; header recipients become the envelope.

  Models: `Nq.Quote` (quote.c), `Nq.Token822` (token822.c), `Nq.SmtpAddr` (qmail-remote.c addrmangle,
  commands.c, qmail-smtpd.c addrparse), `Nq.Inject` (qmail-inject.c, headerbody.c, hfield.c); tied to
  the source by the translator (`Nq.Gen.QuoteOk/AtomOk/Hfield`) and by the differential harnesses
  `harness/c17_quote.c`, `harness/c17_inject.c`.  Only property theorems live here.
-/
import Nq.Lemmas.C17Smtp
import Nq.Lemmas.C17Envelope
import Nq.Lemmas.C17Unparse
import Nq.Lemmas.C17Group
import Nq.Lemmas.C17Rewrite
import Nq.Lemmas.C17Inject
import Nq.Lemmas.C17Clean
import Nq.Lemmas.C17Roundtrip
import Nq.Lemmas.C17Hfield
import Nq.Lemmas.C17HeaderLaws
import Nq.Lemmas.C17Hidden
import Nq.Lemmas.C17HeaderInv
import Nq.Lemmas.C17UnparseLines

namespace Nq.Props.C17
open Nq Nq.Quote Nq.Token822 Nq.SmtpAddr Nq.Inject Nq.Spec.Addr Nq.Spec.Lex822 Nq.Lemmas.C17

/-- **The quoter's table is inside the parser's.**  Every byte that `quote_need` leaves unquoted (the
`ok[]` table of quote.c, regenerated from the source), other than '.', is for token822.c an ordinary
atom byte: not a single-character token, not white space, not a delimiter, accepted by `atomok`, not
objected to by `atomcheck`; and for qmail-smtpd's `addrparse` it is neither `>` nor `"` nor `\`.
('.' itself is the DOT token and ends an atom; '@' is never left unquoted.) -/
theorem C17_ok_subset_atomok (c : Byte) (h : okChar c = true) (hd : c ≠ DOT) :
    specialTok c = none ∧ isWs c = false ∧ c ≠ RPAR ∧ c ≠ RBRK ∧ c ≠ LPAR ∧ c ≠ Token822.DQ ∧ c ≠ LBRK ∧
    c ≠ Token822.BSL ∧ atomok c = true ∧ atomBad c = false ∧ c ≠ 62 ∧ c ≠ AT ∧ c ≠ LF :=
  plain_facts (by simp [plainByte, h, hd])

/-- **Header round trip.**  For EVERY local part (any bytes at all, including NUL, LF, quotes,
backslashes, 8-bit) and every sane domain (dot-atom of `ok[]` bytes, or one domain literal): the address
quoted by `quote2` and tokenized by `token822_parse` is accepted, `token822_unquote` gives back exactly
`local@domain`, and the tokens have the shape `word(.word)* @ domain`. -/
theorem C17_header_roundtrip (loc dom : Bytes) (hd : saneDomain dom = true) :
    ∃ ts, parse (quote2 (loc ++ AT :: dom)) = some ts ∧ unquote ts = loc ++ AT :: dom ∧ mailboxShape ts = true :=
  header_roundtrip_core loc dom hd

/-- Complement (a lone box name, as `dorecip`/`-f` may be given): without any '@' the whole string is the box. -/
theorem C17_header_roundtrip_nohost (s : Bytes) (h : AT ∉ s) :
    ∃ ts, parse (quote2 s) = some ts ∧ unquote ts = s := by
  cases s with
  | nil => exact ⟨[], by simp [quote2, parse, prun, pfinish], rfl⟩
  | cons x xs =>
    have hq : quote2 (x :: xs) = quote (x :: xs) := by
      simp [quote2, splitLast_none AT (x :: xs) h]
    rw [hq]
    unfold parse quote
    by_cases hn : quoteNeed (x :: xs) = true
    · simp only [hn, if_true]
      refine ⟨[.quote (x :: xs)], ?_, by simp [unquote, unqTok]⟩
      have e : doit (x :: xs) = Token822.DQ :: (escape (x :: xs) ++ Token822.DQ :: []) := by
        simp [doit, Quote.DQ, Token822.DQ]
      rw [e, prun_cons]
      simp only [pstep, stepTop_dq]
      rw [quote_run (x :: xs) [] []]
      simp [prun, pfinish]
    · have hn' : quoteNeed (x :: xs) = false := by simpa using hn
      obtain ⟨_, hok⟩ := goodDots_of_noNeed _ hn'
      simp only [hn', Bool.false_eq_true, if_false]
      have := (plain_run (x :: xs) hok [] [] (Or.inl rfl) (by simp [prun, pfinish])).1
      simp only [List.append_nil] at this
      exact ⟨_, this, by simpa using unquote_dotAtomsAux (x :: xs) []⟩

/-- **SMTP round trip.**  For every box (any bytes) and every host without `"`, `\`, `>`, `@`, LF that is
not a bracketed address of this host, total length at most 899: what qmail-remote's `addrmangle` writes
between `<` and `>` is read back by qmail-smtpd's `addrparse` as exactly `box@host`, whatever precedes
the `<` in the argument (`FROM:`, `TO:`), provided that prefix has no `<`. -/
theorem C17_smtp_roundtrip (cfg : Cfg) (pre box host : Bytes) (hpre : (60 : Byte) ∉ pre)
    (hh : smtpDomain host = true) (hl : isLocalLiteral cfg host = false)
    (hlen : (box ++ AT :: host).length ≤ 899) :
    addrparse cfg (pre ++ 60 :: addrmangle (box ++ AT :: host) ++ [62]) = some (box ++ AT :: host) := by
  have hat := at_not_in_smtpDomain host hh
  unfold addrparse
  have e : pre ++ 60 :: addrmangle (box ++ AT :: host) ++ [62]
      = pre ++ 60 :: (quote box ++ AT :: host ++ [62]) := by
    rw [addrmangle_split box host hat]; simp
  rw [e, afterFirst_skip 60 pre _ hpre]
  have e2 : quote box ++ AT :: host ++ [62] = quote box ++ AT :: (host ++ [62]) := by simp
  simp only []
  rw [e2, stripRoute_quote box (host ++ [62]), ← e2, copy_mangled box host hh, localIp_id cfg box host hat hl]
  have : ¬ ((box ++ AT :: host).length + 1 > 900) := by omega
  rw [if_neg this]

/-- Complement: an address of 900 bytes or more is refused (`addrparse` returns 0, the server answers 501). -/
theorem C17_smtp_toolong (cfg : Cfg) (pre box host : Bytes) (hpre : (60 : Byte) ∉ pre)
    (hh : smtpDomain host = true) (hl : isLocalLiteral cfg host = false)
    (hlen : 900 ≤ (box ++ AT :: host).length) :
    addrparse cfg (pre ++ 60 :: addrmangle (box ++ AT :: host) ++ [62]) = none := by
  have hat := at_not_in_smtpDomain host hh
  unfold addrparse
  have e : pre ++ 60 :: addrmangle (box ++ AT :: host) ++ [62]
      = pre ++ 60 :: (quote box ++ AT :: host ++ [62]) := by
    rw [addrmangle_split box host hat]; simp
  rw [e, afterFirst_skip 60 pre _ hpre]
  have e2 : quote box ++ AT :: host ++ [62] = quote box ++ AT :: (host ++ [62]) := by simp
  simp only []
  rw [e2, stripRoute_quote box (host ++ [62]), ← e2, copy_mangled box host hh, localIp_id cfg box host hat hl]
  have : (box ++ AT :: host).length + 1 > 900 := by omega
  rw [if_pos this]

/-- Complement: an address without '@' is sent as it is (no quoting at all). -/
theorem C17_smtp_nohost (s : Bytes) (h : AT ∉ s) : addrmangle s = s := by
  simp [addrmangle, splitLast_none AT s h]

/-- **…and through the command line.**  When neither box nor host contains LF, the line qmail-remote
sends is read by `commands()` as ONE command line, with verb `MAIL` and argument `FROM:<mangled>` —
to which `C17_smtp_roundtrip` applies (`FROM:` has no `<`). -/
theorem C17_smtp_commandline (box host rest : Bytes) (hb : LF ∉ box) (hh : smtpDomain host = true) :
    readLine (mailFromLine (box ++ AT :: host) ++ rest)
        = some (verbMail ++ SP :: argFrom ++ 60 :: addrmangle (box ++ AT :: host) ++ [62, CR], rest) ∧
    splitCmd (verbMail ++ SP :: argFrom ++ 60 :: addrmangle (box ++ AT :: host) ++ [62, CR])
        = (verbMail, argFrom ++ 60 :: addrmangle (box ++ AT :: host) ++ [62]) ∧
    (60 : Byte) ∉ argFrom := by
  have hat := at_not_in_smtpDomain host hh
  have hm : LF ∉ addrmangle (box ++ AT :: host) := by
    rw [addrmangle_split box host hat]
    have h1 : LF ∉ quote box := lf_not_in_quote box hb
    have h2 : LF ∉ host := by
      intro hmem
      have := List.all_eq_true.mp hh LF hmem
      simp [LF] at this
    simp [h1, h2, LF, AT]
  refine ⟨?_, ?_, by decide⟩
  · have e : mailFromLine (box ++ AT :: host) ++ rest
        = (verbMail ++ SP :: argFrom ++ 60 :: addrmangle (box ++ AT :: host) ++ [62, CR]) ++ LF :: rest := by
      simp [mailFromLine]
    rw [e]
    apply readLine_split
    simp [verbMail, argFrom, hm, LF, SP, CR]
  · generalize addrmangle (box ++ AT :: host) = m
    have hl : (verbMail ++ SP :: argFrom ++ 60 :: m ++ [62, CR]).getLast? = some CR := by
      have : verbMail ++ SP :: argFrom ++ 60 :: m ++ [62, CR] = (verbMail ++ SP :: argFrom ++ 60 :: m ++ [62]) ++ [CR] := by simp
      rw [this, List.getLast?_concat]
    have hd : (verbMail ++ SP :: argFrom ++ 60 :: m ++ [62, CR]).dropLast = verbMail ++ SP :: argFrom ++ 60 :: m ++ [62] := by
      have : verbMail ++ SP :: argFrom ++ 60 :: m ++ [62, CR] = (verbMail ++ SP :: argFrom ++ 60 :: m ++ [62]) ++ [CR] := by simp
      rw [this, List.dropLast_concat]
    simp only [splitCmd, dropLastCR, hl, if_true, hd]
    simp [verbMail, argFrom, SP, dropSpaces]

/-- **…and RCPT TO** (audit repair: the twin of `C17_smtp_commandline`; `rcptToLine` was unused).  The line
qmail-remote sends for a recipient is read by `commands()` as ONE command line with verb `RCPT` and argument
`TO:<mangled>` — to which `C17_smtp_roundtrip` applies (`TO:` has no `<`). -/
theorem C17_smtp_commandline_rcpt (box host rest : Bytes) (hb : LF ∉ box) (hh : smtpDomain host = true) :
    readLine (rcptToLine (box ++ AT :: host) ++ rest)
        = some (verbRcpt ++ SP :: argTo ++ 60 :: addrmangle (box ++ AT :: host) ++ [62, CR], rest) ∧
    splitCmd (verbRcpt ++ SP :: argTo ++ 60 :: addrmangle (box ++ AT :: host) ++ [62, CR])
        = (verbRcpt, argTo ++ 60 :: addrmangle (box ++ AT :: host) ++ [62]) ∧
    (60 : Byte) ∉ argTo := by
  have hat := at_not_in_smtpDomain host hh
  have hm : LF ∉ addrmangle (box ++ AT :: host) := by
    rw [addrmangle_split box host hat]
    have h1 : LF ∉ quote box := lf_not_in_quote box hb
    have h2 : LF ∉ host := by
      intro hmem
      have := List.all_eq_true.mp hh LF hmem
      simp [LF] at this
    simp [h1, h2, LF, AT]
  refine ⟨?_, ?_, by decide⟩
  · have e : rcptToLine (box ++ AT :: host) ++ rest
        = (verbRcpt ++ SP :: argTo ++ 60 :: addrmangle (box ++ AT :: host) ++ [62, CR]) ++ LF :: rest := by
      simp [rcptToLine]
    rw [e]
    apply readLine_split
    simp [verbRcpt, argTo, hm, LF, SP, CR]
  · generalize addrmangle (box ++ AT :: host) = m
    have hl : (verbRcpt ++ SP :: argTo ++ 60 :: m ++ [62, CR]).getLast? = some CR := by
      have : verbRcpt ++ SP :: argTo ++ 60 :: m ++ [62, CR] = (verbRcpt ++ SP :: argTo ++ 60 :: m ++ [62]) ++ [CR] := by simp
      rw [this, List.getLast?_concat]
    have hd : (verbRcpt ++ SP :: argTo ++ 60 :: m ++ [62, CR]).dropLast = verbRcpt ++ SP :: argTo ++ 60 :: m ++ [62] := by
      have : verbRcpt ++ SP :: argTo ++ 60 :: m ++ [62, CR] = (verbRcpt ++ SP :: argTo ++ 60 :: m ++ [62]) ++ [CR] := by simp
      rw [this, List.dropLast_concat]
    simp only [splitCmd, dropLastCR, hl, if_true, hd]
    simp [verbRcpt, argTo, SP, dropSpaces]

/-! ### The envelope

Full statement (design): for every address-list AST `L` (mailboxes, `Name <route-addr>`, groups, comments,
quoted strings, domain literals, missing commas) and every legal rendering (white space, comments,
folding), `recipients (addrlist (parse (render L ws))) = (mailboxes L).reverse.map rwgeneric`, and
`parse (unparse rewritten)` yields the same addresses.

Proved: `C17_envelope` — the first half at full strength, from BYTES to callbacks: for every element list
accepted by the grammar automaton `validEls` (mailboxes `addr-spec` / `phrase <anything but "<">`, commas
present / repeated / missing where the text stays unambiguous, groups `phrase : … ;`) and every legal
rendering of it (`C17_parse_render`: any white space and folds, nested comments anywhere after the colon,
quoted-pairs anywhere in quoted strings / literals / comments), `token822_parse` succeeds and
`token822_addrlist` succeeds and invokes the callback exactly on the listed mailboxes, right to left.
Its parts: `C17_parse_render` (lexer), `C17_comments_ignored` (comment tokens never influence the parser),
`C17_envelope_groups` (token level).  `C17_envelope_field` carries it into `doheaderfield`: the strings
appended to `hrlist`/`hrrlist` are the unquoted `rwgeneric`-rewritten listed mailboxes (then `C17_modes`
says which list is the envelope, `C17_rewrite_*` what `rwgeneric` does).  Second half: `C17_unparse_parse`
— for EVERY line length (so whatever the folding macro does) `parse (unparse n ts) = ts` on clean token
lists, hence the rewritten field (`C17_envelope_field`, third conjunct) is read back as the same TOKENS.
The rewritten field is proved clean from INPUT-level hypotheses (`C17_rewritten_clean`: good input tokens, clean
configuration), and the token-level `rwgeneric` is linked to the string-level `Spec.Addr.rewriteMailbox`
(`C17_rewrite_spec*`, `C17_rewrite_spec_any`, `C17_arg_spec`); `C17_field_end_to_end` assembles TEXT → STRINGS.
NOT proved (oracle `Ireparse` of the differential harness only): that a second `token822_addrlist` pass over
those rewritten tokens yields the same ADDRESSES (needs the shape of `rwgeneric`'s output for arbitrary
addresses and its idempotence).
Earlier special cases kept: `C17_envelope_plain` (was `C17_envelope_partial`), `C17_envelope_items`.
NOTE (deviation from the design text): the callback order, hence the envelope order, is right-to-left
within a field. -/

/-- **Envelope, restricted grammar.**  A field `name: m₁, m₂, …, mₙ` whose mailboxes are plain
(non-empty; words and `@`/`.` only; no two words adjacent — `sepOk`): `token822_addrlist` succeeds and
calls the callback exactly once per mailbox, with the whole mailbox, from the last to the first.  (`rs`
lists the mailboxes right to left, each reversed, exactly as the C callback receives them.) -/
theorem C17_envelope_plain (cb : List Tok → List Tok) (name colon : Tok) (rs : List (List Tok))
    (h : ∀ m ∈ rs, m ≠ [] ∧ sepOk true m = true) :
    let r := addrlist cb (name :: colon :: (bodyRev rs).reverse)
    r.ok = true ∧ r.got = rs.map cb := by
  have := fold_list cb rs {} ⟨rfl, rfl, rfl⟩ rfl rfl h
  simp only [addrlist, List.drop_succ_cons, List.drop_zero, List.reverse_reverse]
  simpa using this

/-- **Header round trip, through the address-list parser.**  For EVERY local part (any bytes at all, including
NUL, LF, quotes, backslashes, 8-bit) and every sane domain (dot-atom of `ok[]` bytes, or one domain literal):
the address quoted by `quote2` and tokenized by `token822_parse` is accepted, `token822_unquote` gives back
exactly `local@domain`, the tokens have the shape `word(.word)* @ domain`, AND `token822_addrlist` (after any
two prefix tokens, as in a header field) accepts them as an address list and invokes the callback exactly
once, with the whole address.  (Audit repair: the former statement stopped at `mailboxShape`, which does not
imply what `token822_addrlist` needs.) -/
theorem C17_header_roundtrip_addrlist (loc dom : Bytes) (hd : saneDomain dom = true) :
    ∃ ts, parse (quote2 (loc ++ AT :: dom)) = some ts ∧ unquote ts = loc ++ AT :: dom ∧ mailboxShape ts = true ∧
      ∀ (cb : List Tok → List Tok) (name colon : Tok),
        (addrlist cb (name :: colon :: ts)).ok = true ∧ (addrlist cb (name :: colon :: ts)).got = [cb ts.reverse] := by
  obtain ⟨ts, h1, h2, h3, h4, h5⟩ := header_roundtrip_full loc dom hd
  refine ⟨ts, h1, h2, h3, ?_⟩
  intro cb name colon
  have := C17_envelope_plain cb name colon [ts.reverse] (by
    intro m hm
    simp only [List.mem_cons, List.not_mem_nil, or_false] at hm
    subst hm
    exact ⟨by simpa using h4, h5⟩)
  simpa [bodyRev] using this

/-- what then reaches the envelope: with qmail-inject's callback for To/Cc/Bcc (`rwgeneric`, then
`rwappend`), the recipient strings are the unquoted rewritten mailboxes -/
theorem C17_envelope_recipients (c : RwCfg) (name colon : Tok) (rs : List (List Tok))
    (h : ∀ m ∈ rs, m ≠ [] ∧ sepOk true m = true) :
    (addrlist (rwgeneric c) (name :: colon :: (bodyRev rs).reverse)).got.map addrString
      = rs.map (fun m => unquote (rwgeneric c m).reverse) := by
  have := (C17_envelope_plain (rwgeneric c) name colon rs h).2
  rw [this]
  simp [addrString]

/-- **Envelope, comments and angle addresses.**  A field `name: i₁, …, iₙ` whose items are plain mailboxes
with comments anywhere between their tokens (`sepOkC`) or `display-name <…>` with ANYTHING but `<` between
the brackets (routes, comments, quoted strings, literals) and a display name of words/comments:
`token822_addrlist` succeeds and calls the callback exactly once per item, last to first, with the item's
address with the comments removed — in particular a comment inside `<…>` is not part of the address (the
code as repaired by a66f18c; before, `<(c)@r:u@h>` kept its route).  `its` lists the items right to left. -/
theorem C17_envelope_items (cb : List Tok → List Tok) (name colon : Tok) (its : List Item)
    (h : ∀ it ∈ its, it.ok) :
    let r := addrlist cb (name :: colon :: (bodyRevI its).reverse)
    r.ok = true ∧ r.got = its.map (fun it => cb it.addr) := by
  have := fold_items cb its {} ⟨rfl, rfl, rfl⟩ rfl rfl h
  simp only [addrlist, List.drop_succ_cons, List.drop_zero, List.reverse_reverse]
  simpa using this

/-- **The tokenizer on ANY legal rendering** (lexical level of RFC 822 §3, as a generator independent of
the parser — `Nq.Spec.Lex822`): tokens written as specials, atoms of atom bytes, quoted strings and domain
literals with any mixture of plain bytes and quoted-pairs, comments with quoted-pairs and balanced nested
parentheses; between, before and after them any runs of SP TAB CR LF (so also folds), provided two atoms
are not adjacent.  `token822_parse` succeeds and returns exactly the tokens (a comment becomes ONE comment
token, wherever it stands; the inner parentheses of nested comments are dropped, as in C). -/
theorem C17_parse_render (cts : List (Bytes × CTok)) (tr : Bytes)
    (hok : cts.all (fun p => p.2.ok) = true) (hsep : sepsOk false cts = true) (htr : tr.all isWs = true) :
    parse (render cts tr) = some (cts.map (fun p => p.2.tok)) := by
  have := prun_render cts tr htr .top (Or.inl rfl) hok (by simpa using hsep)
  simpa [parse, flushSt] using this

/-- **Comments are white space for `token822_addrlist`** (the code as repaired by a66f18c), for EVERY token
list: the return value and the sequence of callback invocations (addresses handed over, in order) are
those of the same field with all comment tokens removed.  With `C17_parse_render` (a comment in the text
becomes one comment token and changes no other token) this is insensitivity to inter-token comments. -/
theorem C17_comments_ignored (cb : List Tok → List Tok) (name colon : Tok) (body : List Tok) :
    (addrlist cb (name :: colon :: body)).ok = (addrlist cb (name :: colon :: body.filter notComment)).ok ∧
    (addrlist cb (name :: colon :: body)).got = (addrlist cb (name :: colon :: body.filter notComment)).got :=
  addrlist_comments cb name colon body

/-- **`token822_parse ∘ token822_unparse = id`, folding included**: for every line length `n` (0 = never
fold, `LINELEN` = 80 in qmail-inject, or anything else — whatever the `NSUW` macro decides about its
tentative folds) and every token list whose atoms are legal atoms (quoted strings, literals and comments
may hold ANY bytes), what `token822_unparse` writes is read back as the same token list. -/
theorem C17_unparse_parse (n : Nat) (ts : List Tok) (hc : ts.all cleanTok = true) :
    parse (unparse n ts) = some ts :=
  parse_unparse n ts hc

/-- Complement: an atom that is not a legal atom does not survive (`a\ b@c`: the quoted-pair inside an
atom yields the atom `a b`, written back as two atoms) — the hypothesis cannot be dropped. -/
example : parse (unparse 80 [.atom [97, 32, 98]]) = some [.atom [97], .atom [98]] := by decide

/-- **Envelope, token level, full grammar** (groups, repeated and missing commas).  `els` lists the field's
elements right to left: mailboxes (`addr-spec` with comments anywhere, or `phrase <…>` with anything but `<`
inside), commas, `;`, `: display-name`.  If the grammar automaton `validEls` accepts it — a comma may be
MISSING to the right of a mailbox that ends in a word or `>` when its right neighbour is an addr-spec
beginning with a word (`To: djb fred`, `<a@b> c@d`), commas may be repeated, a group opens with `;`, closes
with `: name` and must be followed by a comma or the beginning of the field, groups do not nest — then
`token822_addrlist` succeeds and invokes the callback exactly once per mailbox, with the mailbox's address
(comments removed), last to first. -/
theorem C17_envelope_groups (cb : List Tok → List Tok) (name colon : Tok) (els : List El)
    (hv : validEls false .fresh els = true) (hel : ∀ el ∈ els, el.ok) :
    let r := addrlist cb (name :: colon :: (els.flatMap El.toks).reverse)
    r.ok = true ∧ r.got = (mboxes els).map cb := by
  have := fold_els cb els {} false .fresh ⟨rfl, rfl, rfl, rfl, rfl⟩ hv hel
  simp only [addrlist, List.drop_succ_cons, List.drop_zero, List.reverse_reverse]
  simpa [owed] using this

/-- Complement (why a real comma is needed before `phrase <…>`): in `a@b Joe <c@d>` the tokens of `a@b` are
read as part of the display name; the callback sees `c@d` only.  `validEls` rejects this element list. -/
example : (addrlist id [.atom [84], .colon, .atom [97], .at, .atom [98], .atom [74], .left, .atom [99], .at, .atom [100], .right]).got
    = [[.atom [100], .at, .atom [99]]] := by decide
example : validEls false .fresh [.mbox (.angle [.atom [100], .at, .atom [99]] [.atom [74]]), .mbox (.plain [.atom [98], .at, .atom [97]])]
    = false := by decide

/-- **The envelope, from bytes to callbacks** (first half of the design statement, full strength).  For
every element list `els` accepted by the grammar (`C17_envelope_groups`) and EVERY legal rendering of the
field — concrete tokens `cts` (any quoting, `C17_parse_render`) with any white space / folding between
them, whose tokens are the field name, the colon, and a body that is `els` (left to right) with comment
tokens inserted or removed ANYWHERE — `token822_parse` accepts the text, `token822_addrlist` accepts the
tokens, and the callback is invoked exactly on the listed mailboxes, right to left. -/
theorem C17_envelope (cb : List Tok → List Tok) (els : List El) (cts : List (Bytes × CTok)) (tr : Bytes)
    (name colon : Tok) (body : List Tok)
    (hv : validEls false .fresh els = true) (hel : ∀ el ∈ els, el.ok)
    (hok : cts.all (fun p => p.2.ok) = true) (hsep : sepsOk false cts = true) (htr : tr.all isWs = true)
    (htoks : cts.map (fun p => p.2.tok) = name :: colon :: body)
    (hskel : body.filter notComment = ((els.flatMap El.toks).reverse).filter notComment) :
    ∃ ts, parse (render cts tr) = some ts ∧ (addrlist cb ts).ok = true ∧ (addrlist cb ts).got = (mboxes els).map cb := by
  refine ⟨name :: colon :: body, ?_, ?_, ?_⟩
  · rw [C17_parse_render cts tr hok hsep htr, htoks]
  · rw [(C17_comments_ignored cb name colon body).1, hskel,
      ← (C17_comments_ignored cb name colon (els.flatMap El.toks).reverse).1]
    exact (C17_envelope_groups cb name colon els hv hel).1
  · rw [(C17_comments_ignored cb name colon body).2, hskel,
      ← (C17_comments_ignored cb name colon (els.flatMap El.toks).reverse).2]
    exact (C17_envelope_groups cb name colon els hv hel).2

/-- **The envelope for an address-list TREE** (RFC 822 `#address`): `L` is any list of addresses — a mailbox
(`addr-spec` or `phrase <route-addr>`) or a group `name : mailboxes ;` — separated by commas (listed right
to left, token lists reversed, as the C callback sees them).  Every such list is accepted by the grammar
automaton, so: for EVERY legal rendering of the field (any quoting, white space, folding; comments inserted
anywhere in the body) `token822_parse` and `token822_addrlist` succeed and the callback is invoked exactly on
the mailboxes of the tree — group members included — last to first.  (Missing commas: `C17_envelope`.) -/
theorem C17_envelope_ast (cb : List Tok → List Tok) (L : List Addr) (cts : List (Bytes × CTok)) (tr : Bytes)
    (name colon : Tok) (body : List Tok) (hL : ∀ a ∈ L, a.ok)
    (hok : cts.all (fun p => p.2.ok) = true) (hsep : sepsOk false cts = true) (htr : tr.all isWs = true)
    (htoks : cts.map (fun p => p.2.tok) = name :: colon :: body)
    (hskel : body.filter notComment = (((flatAddrs L).flatMap El.toks).reverse).filter notComment) :
    ∃ ts, parse (render cts tr) = some ts ∧ (addrlist cb ts).ok = true ∧
      (addrlist cb ts).got = (L.flatMap Addr.mailboxes).map cb := by
  have := C17_envelope cb (flatAddrs L) cts tr name colon body (validEls_addrs L) (ok_addrs L hL) hok hsep htr htoks hskel
  rwa [mboxes_addrs] at this

/-- **The rewritten field stays clean** (audit repair: the re-parse conjunct of `C17_envelope_field` was
conditional on a DERIVED value, `out.all cleanTok`, which fails for `To: u@+` although its input tokens are
clean).  If every token of the field is good — a clean token (atoms are non-empty runs of RFC 822 atom bytes)
other than the atom `+` alone — and the configuration tokens are clean (`defaulthost`'s good), then every
token `token822_addrlist` + `rwgeneric` put into `taout` is clean. -/
theorem C17_rewritten_clean (c : RwCfg) (hc : CleanCfg c) (ts : List Tok) (hts : ts.all goodTok = true) :
    (addrlist (rwgeneric c) ts).out.all cleanTok = true :=
  addrlist_clean (rwgeneric c) (rwgeneric_clean c hc) ts hts

/-- Complement: the atom `+` alone as a host (`To: u@+`) has clean input tokens, but `rwplus` leaves an EMPTY
atom, which `token822_unparse` writes as nothing: the rewritten field is `To: u@.p` and does not parse back to
`taout` — the hypothesis `goodTok` cannot be weakened to `cleanTok`.  (The envelope address is `u@.p` both times.) -/
example :
    let c : RwCfg := { defaulthost := [.at, .atom [104]], defaultdomain := [.dot, .atom [100]], plusdomain := [.dot, .atom [112]] }
    let ts : List Tok := [.atom [84, 111], .colon, .atom [117], .at, .atom [43]]
    ts.all cleanTok = true ∧ ts.all goodTok = false ∧ (addrlist (rwgeneric c) ts).out.all cleanTok = false ∧
    parse (unparse 80 (addrlist (rwgeneric c) ts).out) ≠ some (addrlist (rwgeneric c) ts).out := by decide

/-- **…and into qmail-inject's lists and saved header.**  A header field `h` that `token822_parse` accepts and
on which `token822_addrlist` succeeds with qmail-inject's callback — by `C17_envelope` every legal rendering of a
grammatical list, with `got = (mboxes els).map (rwgeneric c)` —: if it is a To, Cc, Bcc or Apparently-To field
the strings appended to `hrlist` are exactly the unquoted rewritten mailboxes (for Resent-To/Cc/Bcc: to
`hrrlist`), qmail-inject does not die on it, and the saved header grows by exactly the rewritten text
`(rewriteField c true h).1` — by nothing for Bcc / Resent-Bcc.  That text is `unparse LINELEN out`, and it is read
back by `token822_parse` as the same tokens `out` whenever the field's INPUT tokens are good and the
configuration is clean (`C17_rewritten_clean`; audit repair: formerly conditional on `out` itself being clean). -/
theorem C17_envelope_field (e : Env) (c : RwCfg) (st : ISt) (h : Bytes) (ts : List Tok) (hd : st.dead = none)
    (hp : parse h = some ts) (hok : (addrlist (rwgeneric c) ts).ok = true) :
    ((hfieldKnown h = Gen.H_TO ∨ hfieldKnown h = Gen.H_CC ∨ hfieldKnown h = Gen.H_BCC ∨ hfieldKnown h = Gen.H_APPARENTLYTO) →
      (doheaderfield e c st h).hrlist = st.hrlist ++ (addrlist (rwgeneric c) ts).got.map addrString ∧
      (doheaderfield e c st h).hrrlist = st.hrrlist ∧ (doheaderfield e c st h).dead = none ∧
      (doheaderfield e c st h).savedh = st.savedh ++ (if hfieldKnown h = Gen.H_BCC then [] else [(rewriteField c true h).1])) ∧
    ((hfieldKnown h = Gen.H_R_TO ∨ hfieldKnown h = Gen.H_R_CC ∨ hfieldKnown h = Gen.H_R_BCC) →
      (doheaderfield e c st h).hrrlist = st.hrrlist ++ (addrlist (rwgeneric c) ts).got.map addrString ∧
      (doheaderfield e c st h).hrlist = st.hrlist ∧ (doheaderfield e c st h).dead = none ∧
      (doheaderfield e c st h).savedh = st.savedh ++ (if hfieldKnown h = Gen.H_R_BCC then [] else [(rewriteField c true h).1])) ∧
    ((rewriteField c true h).1 = unparse Gen.LINELEN (addrlist (rwgeneric c) ts).out ∧
      (CleanCfg c → ts.all goodTok = true →
        parse (rewriteField c true h).1 = some (addrlist (rwgeneric c) ts).out)) := by
  have hr : ∀ mf, rewriteField c mf h
      = (unparse Gen.LINELEN (addrlist (rwgeneric c) ts).out, (addrlist (rwgeneric c) ts).got, false) := by
    intro mf; simp [rewriteField, hp, hok]
  refine ⟨?_, ?_, ?_, ?_⟩
  · intro hk
    rcases hk with hk | hk | hk | hk <;>
      simp [doheaderfield, hd, hk, hr, Gen.H_BCC, Gen.H_FROM, Gen.H_MESSAGEID, Gen.H_RETURNPATH, fieldClass, fieldDropped,
        Gen.H_TO, Gen.H_CC, Gen.H_APPARENTLYTO, Gen.H_R_BCC, Gen.H_CONTENTLENGTH]
  · intro hk
    rcases hk with hk | hk | hk <;>
      simp [doheaderfield, hd, hk, hr, Gen.H_BCC, Gen.H_FROM, Gen.H_MESSAGEID, Gen.H_RETURNPATH, fieldClass, fieldDropped,
        Gen.H_TO, Gen.H_CC, Gen.H_APPARENTLYTO, Gen.H_R_BCC, Gen.H_R_TO, Gen.H_R_CC, Gen.H_CONTENTLENGTH]
  · rw [hr]
  · intro hc hts
    rw [hr]
    exact C17_unparse_parse Gen.LINELEN _ (C17_rewritten_clean c hc ts hts)

/-- **Rewriting, fully qualified host**: `local@host` whose host (rightmost token an atom not ending in
`+`) has a dot is left alone. -/
theorem C17_rewrite_qualified (c : RwCfg) (s : Bytes) (r : List Tok)
    (hat : (Tok.atom s :: r).contains .at = true) (hlast : (Tok.atom s :: r).getLast? ≠ some .at)
    (hplus : s.getLast? ≠ some 43) (hdot : beforeAt (· = .dot) (Tok.atom s :: r) = true) :
    rwgeneric c (.atom s :: r) = .atom s :: r := by
  rw [rwgeneric_atomHost c s r hat hlast]
  simp [rwplus, hplus, rwnodot, hdot]

/-- **Rewriting, default domain**: a host without dots (and not a literal, not ending in `+`) gets
`.defaultdomain` appended (prepended in the reversed list). -/
theorem C17_rewrite_defaultdomain (c : RwCfg) (s : Bytes) (r : List Tok)
    (hat : (Tok.atom s :: r).contains .at = true) (hlast : (Tok.atom s :: r).getLast? ≠ some .at)
    (hplus : s.getLast? ≠ some 43) (hdot : beforeAt (· = .dot) (Tok.atom s :: r) = false)
    (hlit : beforeAt isLiteral (Tok.atom s :: r) = false) :
    rwgeneric c (.atom s :: r) = c.defaultdomain.reverse ++ (.atom s :: r) := by
  rw [rwgeneric_atomHost c s r hat hlast]
  simp [rwplus, hplus, rwnodot, hdot, hlit]

/-- **Rewriting, plus domain**: a host ending in `+` loses the plus sign and gets `.plusdomain`
(`plusdomain` = DOT followed by tokens without '@'), and then no default domain. -/
theorem C17_rewrite_plusdomain (c : RwCfg) (s : Bytes) (r pt : List Tok)
    (hat : (Tok.atom s :: r).contains .at = true) (hlast : (Tok.atom s :: r).getLast? ≠ some .at)
    (hplus : s.getLast? = some 43) (hpd : c.plusdomain = .dot :: pt) (hpt : ∀ t ∈ pt, t ≠ Tok.at) :
    rwgeneric c (.atom s :: r) = c.plusdomain.reverse ++ (.atom s.dropLast :: r) := by
  rw [rwgeneric_atomHost c s r hat hlast]
  have hb : beforeAt (· = .dot) (c.plusdomain.reverse ++ (.atom s.dropLast :: r)) = true := by
    rw [hpd, List.reverse_cons, List.append_assoc]
    exact beforeAt_prefix _ pt.reverse .dot _ (fun t ht => hpt t (by simpa using ht)) (by simp)
  simp [rwplus, hplus, rwnodot, hb]

/-- **Rewriting, lone box name**: an address without '@' (not starting with a dot) gets `@defaulthost`,
to which the plus-domain and default-domain rules are then applied. -/
theorem C17_rewrite_defaulthost (c : RwCfg) (t : Tok) (r : List Tok)
    (hno : (t :: r).contains .at = false) (ht : t ≠ .dot) :
    rwgeneric c (t :: r) = rwnodot c (rwplus c (c.defaulthost.reverse ++ (t :: r))) := by
  have hmem : Tok.at ∉ (t :: r) := by simpa using hno
  have ht2 : t ≠ .at := fun e => hmem (by simp [e])
  have hr : Tok.at ∉ r := fun e => hmem (by simp [e])
  have hlast : (t :: r).getLast? ≠ some .at := by
    intro e
    exact hmem (List.mem_of_getLast? e)
  have hno' : ¬ (Tok.at = t ∨ Tok.at ∈ r) := by
    intro e; rcases e with e | e
    · exact ht2 e.symm
    · exact hr e
  cases t <;> simp_all [rwgeneric, rwroute, rwextradot, rwextraat, rwnoat]
  split <;> simp_all

/-- **The same, as envelope strings.**  With `defaultdomain`/`plusdomain` token lists that unquote to
`.dd` / `.pd`: a dotless host gives `addr ++ ".dd"`; a host `…h+` gives `…h ++ ".pd"` (the plus sign
removed); a dotted host gives the address unchanged. -/
theorem C17_rewrite_strings (c : RwCfg) (s : Bytes) (r pt : List Tok)
    (hat : (Tok.atom s :: r).contains .at = true) (hlast : (Tok.atom s :: r).getLast? ≠ some .at) :
    (s.getLast? ≠ some 43 → beforeAt (· = .dot) (Tok.atom s :: r) = true →
        addrString (rwgeneric c (.atom s :: r)) = addrString (.atom s :: r)) ∧
    (s.getLast? ≠ some 43 → beforeAt (· = .dot) (Tok.atom s :: r) = false → beforeAt isLiteral (Tok.atom s :: r) = false →
        addrString (rwgeneric c (.atom s :: r)) = addrString (.atom s :: r) ++ unquote c.defaultdomain) ∧
    (s.getLast? = some 43 → c.plusdomain = .dot :: pt → (∀ t ∈ pt, t ≠ Tok.at) →
        addrString (rwgeneric c (.atom s :: r)) = addrString r ++ s.dropLast ++ unquote c.plusdomain) := by
  refine ⟨?_, ?_, ?_⟩
  · intro h1 h2; rw [C17_rewrite_qualified c s r hat hlast h1 h2]
  · intro h1 h2 h3
    rw [C17_rewrite_defaultdomain c s r hat hlast h1 h2 h3]
    simp [addrString, unquote_append, unquote]
  · intro h1 h2 h3
    rw [C17_rewrite_plusdomain c s r pt hat hlast h1 h2 h3]
    simp [addrString, unquote_append, unquote, unqTok]

/-- **The token-level rewriting IS the documented string-level rewriting** (`Spec.Addr.rewriteMailbox`, written
from qmail-header(5) / qmail-inject(8) independently of the token model; it is what the harness oracle
compares the real envelope with).  For a mailbox `local@host` — local part ANY non-empty token list not
beginning with `@` (so not a source route), host a dot-atom of legal atoms ending in an atom — and
control values whose tokens unquote to `.defaultdomain` / `.plusdomain` (`C17_control_tokens`): the string
qmail-inject appends to its recipient list is `local@qualifyHost host`: a host ending in `+` loses the plus
and gets `.plusdomain`, else a dotted host is unchanged, else `.defaultdomain` is appended. -/
theorem C17_rewrite_spec (c : RwCfg) (sp : RwSpec) (ls h0 pt : List Tok) (s : Bytes)
    (hh : (h0 ++ [Tok.atom s]).all hostTok = true) (hne : ls ≠ []) (hroute : ls.head? ≠ some .at)
    (hdd : unquote c.defaultdomain = DOT :: sp.defaultdomain)
    (hpd : c.plusdomain = .dot :: pt) (hpt : ∀ t ∈ pt, t ≠ Tok.at) (hpu : unquote c.plusdomain = DOT :: sp.plusdomain) :
    addrString (rwgeneric c ((h0 ++ [Tok.atom s]).reverse ++ .at :: ls.reverse))
      = rewriteMailbox sp (unquote ls) (some (unquote (h0 ++ [Tok.atom s]))) := by
  have e : (h0 ++ [Tok.atom s]).reverse ++ .at :: ls.reverse = .atom s :: (h0.reverse ++ .at :: ls.reverse) := by simp
  have hat : (Tok.atom s :: (h0.reverse ++ .at :: ls.reverse)).contains .at = true := by simp
  have hlast : (Tok.atom s :: (h0.reverse ++ .at :: ls.reverse)).getLast? ≠ some .at := by
    cases ls with
    | nil => exact absurd rfl hne
    | cons t r =>
      have ht : t ≠ .at := by simpa using hroute
      have : (Tok.atom s :: (h0.reverse ++ .at :: (t :: r).reverse)) = (Tok.atom s :: (h0.reverse ++ .at :: r.reverse)) ++ [t] := by simp
      rw [this, List.getLast?_concat]
      simpa using ht
  have h1 := rwgeneric_atomHost c s (h0.reverse ++ .at :: ls.reverse) hat hlast
  have h2 := rw_host_strings c sp h0 s ls.reverse pt hh hdd hpd hpt hpu
  rw [e] at h2 ⊢
  rw [h1, h2]
  simp [rewriteMailbox]

/-- **Source routes are stripped** ("strips all source routes", qmail-header(5)): `@route:inner` (the route has
no colon of its own; `inner` is not empty, is not itself a route, and is not an address ending in `@[]`) is
rewritten exactly as `inner` is — to which `C17_rewrite_spec_any` applies.  (Audit repair: generalised from
"`inner` ends in an atom" so that `<@r:u@[1.2.3.4]>` is covered.  The one exception in the C code, an address
ending in `@[]`, is left completely alone, route included — complement `example` below.) -/
theorem C17_rewrite_route (c : RwCfg) (rt inner : List Tok)
    (hrt : Tok.colon ∉ rt) (hne : inner ≠ []) (hnr : inner.head? ≠ some .at)
    (hnl : ∀ y, inner.reverse ≠ .literal [] :: .at :: y) :
    rwgeneric c ((.at :: rt ++ .colon :: inner).reverse) = rwgeneric c inner.reverse := by
  obtain ⟨t, r, hin⟩ : ∃ t r, inner.reverse = t :: r := by
    cases h : inner.reverse with
    | nil => simp at h; exact absurd h hne
    | cons t r => exact ⟨t, r, rfl⟩
  have hdrop : ∀ (x : List Tok), Tok.colon ∉ x → dropThroughColon (x ++ .colon :: inner) = inner := by
    intro x hx
    induction x with
    | nil => simp [dropThroughColon]
    | cons t x ih =>
      have ht : t ≠ .colon := fun e => hx (by simp [e])
      simp [dropThroughColon, ht, ih (fun e => hx (by simp [e]))]
  have hlast1 : (t :: r).getLast? ≠ some .at := by
    rw [← hin, List.getLast?_reverse]; exact hnr
  have e : (Tok.at :: rt ++ .colon :: inner).reverse = t :: (r ++ (.colon :: rt.reverse ++ [.at])) := by
    simp [hin]
  have hlast2 : (t :: (r ++ (.colon :: rt.reverse ++ [.at]))).getLast? = some .at := by
    have : t :: (r ++ (.colon :: rt.reverse ++ [.at])) = (t :: (r ++ .colon :: rt.reverse)) ++ [.at] := by simp
    rw [this, List.getLast?_concat]
  have hroute : rwroute (t :: (r ++ (.colon :: rt.reverse ++ [.at]))) = t :: r := by
    simp only [rwroute, hlast2, if_true]
    rw [← e, List.reverse_reverse]
    have : Tok.at :: rt ++ .colon :: inner = (Tok.at :: rt) ++ .colon :: inner := by simp
    rw [this, hdrop (.at :: rt) (by simpa using hrt), hin]
  have hself : rwroute (t :: r) = t :: r := by simp [rwroute, hlast1]
  have hnl2 : ∀ y, t :: (r ++ (.colon :: rt.reverse ++ [.at])) ≠ .literal [] :: .at :: y := by
    intro y hy
    simp only [List.cons.injEq] at hy
    obtain ⟨ht, hr⟩ := hy
    cases r with
    | nil => simp at hr
    | cons u r' =>
      simp only [List.cons_append, List.cons.injEq] at hr
      exact hnl r' (by rw [hin, ht, hr.1])
  rw [e, hin, rwgeneric_body c _ (by simp) hnl2, rwgeneric_body c (t :: r) (by simp) (by rw [← hin]; exact hnl), hroute, hself]

/-- Complement: `<@r:u@[]>` keeps its route (the C code returns before `rwroute`). -/
example : rwgeneric { defaulthost := [.at, .atom [104]], defaultdomain := [.dot, .atom [100]], plusdomain := [.dot, .atom [112]] }
      ([Tok.at, .atom [114], .colon, .atom [117], .at, .literal []].reverse)
    = [Tok.at, .atom [114], .colon, .atom [117], .at, .literal []].reverse := by decide
/-- `<@r:u@[1.2.3.4]>` (literal host): covered now -/
example : addrString (rwgeneric { defaulthost := [.at, .atom [104]], defaultdomain := [.dot, .atom [100]], plusdomain := [.dot, .atom [112]] }
      ([Tok.at, .atom [114], .colon, .atom [117], .at, .literal [49]].reverse)) = [117, 64, 91, 49, 93] := by decide
/-- …a domain-literal host is left alone… -/
theorem C17_rewrite_spec_literal (c : RwCfg) (sp : RwSpec) (ls : List Tok) (x : Bytes)
    (hne : ls ≠ []) (hroute : ls.head? ≠ some .at) :
    addrString (rwgeneric c (.literal x :: .at :: ls.reverse))
      = rewriteMailbox sp (unquote ls) (some (LBRK :: (x ++ [RBRK]))) := by
  have hlast : (Tok.literal x :: .at :: ls.reverse).getLast? ≠ some .at := by
    cases ls with
    | nil => exact absurd rfl hne
    | cons t r =>
      have ht : t ≠ .at := by simpa using hroute
      have : (Tok.literal x :: .at :: (t :: r).reverse) = (Tok.literal x :: .at :: r.reverse) ++ [t] := by simp
      rw [this, List.getLast?_concat]
      simpa using ht
  have hq : qualifyHost sp (LBRK :: (x ++ [RBRK])) = LBRK :: (x ++ [RBRK]) := by simp [qualifyHost, LBRK]
  have hres : rwgeneric c (.literal x :: .at :: ls.reverse) = .literal x :: .at :: ls.reverse := by
    cases x with
    | nil => simp [rwgeneric]
    | cons b x =>
      have hlast' : (Tok.at :: ls.reverse).getLast? ≠ some Tok.at := by simpa using hlast
      simp [rwgeneric, rwroute, hlast', rwextradot, rwextraat, rwnoat, rwplus, rwnodot, beforeAt, isLiteral]
  rw [hres]
  simp [addrString, rewriteMailbox, hq, unquote_append, unquote, unqTok, AT]

/-- …and a lone box name (no `@`, not ending in a dot) gets `@defaulthost`, qualified by the same rules. -/
theorem C17_rewrite_spec_nohost (c : RwCfg) (sp : RwSpec) (ls d0 pt : List Tok) (s : Bytes)
    (hdh : c.defaulthost = .at :: (d0 ++ [Tok.atom s])) (hh : (d0 ++ [Tok.atom s]).all hostTok = true)
    (hdu : unquote (d0 ++ [Tok.atom s]) = sp.defaulthost)
    (hne : ls ≠ []) (hno : Tok.at ∉ ls) (hdot : ls.getLast? ≠ some .dot)
    (hdd : unquote c.defaultdomain = DOT :: sp.defaultdomain)
    (hpd : c.plusdomain = .dot :: pt) (hpt : ∀ t ∈ pt, t ≠ Tok.at) (hpu : unquote c.plusdomain = DOT :: sp.plusdomain) :
    addrString (rwgeneric c ls.reverse) = rewriteMailbox sp (unquote ls) none := by
  obtain ⟨t, r, hr⟩ : ∃ t r, ls.reverse = t :: r := by
    cases h : ls.reverse with
    | nil => simp at h; exact absurd h hne
    | cons t r => exact ⟨t, r, rfl⟩
  have ht : t ≠ .dot := by
    intro e
    have : ls.getLast? = some t := by
      have : ls = r.reverse ++ [t] := by
        have := congrArg List.reverse hr; simpa using this
      rw [this, List.getLast?_concat]
    exact hdot (by rw [this, e])
  have hno' : (t :: r).contains .at = false := by
    rw [← hr]; simpa using hno
  have h1 := C17_rewrite_defaulthost c t r hno' ht
  have e : c.defaulthost.reverse ++ (t :: r) = (d0 ++ [Tok.atom s]).reverse ++ .at :: ls.reverse := by
    rw [hdh, hr]; simp
  rw [hr, h1, e, rw_host_strings c sp d0 s ls.reverse pt hh hdd hpd hpt hpu, hdu]
  simp [rewriteMailbox]

/-- **Sane control values parse to what the rewriting theorems assume**: for a `defaultdomain`/`plusdomain`
value `d` of unquoted-safe bytes, `token822_parse("." d)` (what `getcontrols` stores) is a DOT followed by
tokens without '@', and unquotes to `.d`; likewise `"@" d` for `defaulthost`. -/
theorem C17_control_tokens (d : Bytes) (hd : d.all okChar = true) :
    (∃ pt, parse (DOT :: d) = some (.dot :: pt) ∧ (∀ t ∈ pt, t ≠ Tok.at) ∧ unquote (.dot :: pt) = DOT :: d) ∧
    (∃ pt, parse (AT :: d) = some (.at :: pt) ∧ (∀ t ∈ pt, t ≠ Tok.at) ∧ unquote (.at :: pt) = AT :: d) := by
  have h := (plain_run d hd [] [] (Or.inl rfl) (by simp [prun, pfinish])).1
  simp only [List.append_nil] at h
  refine ⟨⟨dotAtomsAux d [], ?_, dotAtomsAux_noAt d [], ?_⟩, ⟨dotAtomsAux d [], ?_, dotAtomsAux_noAt d [], ?_⟩⟩
  · unfold parse; rw [prun_cons]; simp only [pstep, stepTop_dot, h]; simp
  · simp [unquote, unqTok, unquote_dotAtomsAux, DOT]
  · unfold parse; rw [prun_cons]; simp only [pstep, stepTop_at, h]; simp
  · simp [unquote, unqTok, unquote_dotAtomsAux, AT]

/-- **The atom bytes of the theorems are exactly RFC 822's** (audit repair: `atomByte` is defined through the
tables regenerated from token822.c, so a mutated `atomok` would have moved the hypothesis of `C17_parse_render`
along with the code).  `rfc822Atom` is written from the RFC: CHAR except specials, SPACE and CTLs. -/
theorem C17_atomByte_rfc822 (c : Byte) : atomByte c = rfc822Atom c := by
  simpa using atomByte_rfc822_all c

/-- **`hfield_known` is the independent field-name matcher plus a table lookup** (audit repair: links the
model's `hfieldKnown`, transcribed from hfield.c, to `Spec.Addr.fieldName`, the matcher the driver's Bcc oracle
uses).  For EVERY line: the H_* number is the position in `hname[]` of the line's name — the bytes before the
first colon, trailing SP/TAB removed, lower-cased — or 0. -/
theorem C17_hfield_known_spec (line : Bytes) : hfieldKnown line = knownField line :=
  hfieldKnown_spec line

/-- the table positions of the names the envelope and Bcc theorems speak about -/
theorem C17_hfield_names :
    rcptFields.map (fun n => knownIndexFrom n 1 (Gen.hname.drop 1)) = [Gen.H_TO, Gen.H_CC, Gen.H_BCC, Gen.H_APPARENTLYTO] ∧
    resentRcptFields.map (fun n => knownIndexFrom n 1 (Gen.hname.drop 1)) = [Gen.H_R_TO, Gen.H_R_CC, Gen.H_R_BCC] ∧
    resentFields.map (fun n => knownIndexFrom n 1 (Gen.hname.drop 1)) = resentTypes ∧
    hiddenFields.map (fun n => knownIndexFrom n 1 (Gen.hname.drop 1))
      = [Gen.H_BCC, Gen.H_R_BCC, Gen.H_RETURNPATH, Gen.H_CONTENTLENGTH] := by decide
/-- **Sane control values give the configuration the rewriting theorems assume** (audit repair:
`C17_control_tokens` did not deliver the `defaulthost` shape `C17_rewrite_spec_nohost` needs — it fails for
`dh.`).  For `defaultdomain`, `plusdomain` of `ok[]` bytes and a `defaulthost` of `ok[]` bytes that is not
empty and does not end in a dot, the token lists `getcontrols` stores satisfy `CfgSpec`. -/
theorem C17_control_cfg (ddv dhv pdv : Bytes) (dd dh pd : List Tok)
    (h1 : ddv.all okChar = true) (h2 : dhv.all okChar = true) (h3 : pdv.all okChar = true)
    (hne : dhv ≠ []) (hl : dhv.getLast? ≠ some DOT)
    (hdd : parse ([46] ++ ddv) = some dd) (hdh : parse ([AT] ++ dhv) = some dh) (hpd : parse ([46] ++ pdv) = some pd) :
    CfgSpec ⟨dh, dd, pd⟩ ⟨dhv, ddv, pdv⟩ := by
  obtain ⟨⟨pt1, p1, _, p3⟩, _⟩ := C17_control_tokens ddv h1
  obtain ⟨⟨pt3, q1, q2, q3⟩, _⟩ := C17_control_tokens pdv h3
  obtain ⟨h0, s, e, hh, hu⟩ := host_tokens dhv h2 hne hl
  have r1 : dd = .dot :: pt1 := by
    have : parse (DOT :: ddv) = some dd := hdd
    rw [p1] at this; exact (Option.some.inj this).symm
  have r3 : pd = .dot :: pt3 := by
    have : parse (DOT :: pdv) = some pd := hpd
    rw [q1] at this; exact (Option.some.inj this).symm
  have r2 : dh = .at :: (h0 ++ [Tok.atom s]) := by
    have hp := (plain_run dhv h2 [] [] (Or.inl rfl) (by simp [prun, pfinish])).1
    simp only [List.append_nil] at hp
    have : parse (AT :: dhv) = some dh := hdh
    unfold parse at this
    rw [prun_cons] at this
    simp only [pstep, stepTop_at, hp] at this
    rw [← e]
    exact (Option.some.inj this).symm
  exact ⟨by rw [r1]; exact p3, ⟨pt3, r3, q2, by rw [r3]; exact q3⟩, ⟨h0, s, r2, hh, hu⟩⟩

/-- **One statement for every mailbox shape** (`specShape`: lone box name; `local@dot-atom-host`;
`local@[literal]`; local part any non-empty token list that is not a route): the string qmail-inject appends to
its recipient list for the callback argument `m` is `specString sp m` — the documented string-level rewriting
`Spec.Addr.rewriteMailbox` of the unquoted local part and host. -/
theorem C17_rewrite_spec_any (c : RwCfg) (sp : RwSpec) (hc : CfgSpec c sp) (m : List Tok) (hs : specShape m = true) :
    addrString (rwgeneric c m) = specString sp m := by
  obtain ⟨hdd, ⟨pt, hpd, hpt, hpu⟩, ⟨d0, s0, hdh, hdhh, hdhu⟩⟩ := hc
  unfold specShape at hs
  unfold specString
  cases hsp : splitAtTok m with
  | none =>
    simp only [hsp, Bool.and_eq_true, Bool.not_eq_true', List.isEmpty_eq_false_iff, bne_iff_ne, ne_eq] at hs ⊢
    have hno := splitAtTok_none m hsp
    have := C17_rewrite_spec_nohost c sp m.reverse d0 pt s0 hdh hdhh hdhu (by simpa using hs.1) (by simpa using hno)
      (by rw [List.getLast?_reverse]; exact hs.2) hdd hpd hpt hpu
    simpa using this
  | some p =>
    obtain ⟨hr, lr⟩ := p
    simp only [hsp, Bool.and_eq_true, Bool.not_eq_true', List.isEmpty_eq_false_iff, bne_iff_ne, ne_eq] at hs ⊢
    obtain ⟨⟨hlne, hlr⟩, hhost⟩ := hs
    obtain ⟨hm, _⟩ := splitAtTok_some m hr lr hsp
    have hne : lr.reverse ≠ [] := by simpa using hlne
    have hroute : lr.reverse.head? ≠ some .at := by rw [List.head?_reverse]; exact hlr
    cases hr with
    | nil => simp at hhost
    | cons t hr' =>
      cases t with
      | literal x =>
        cases hr' with
        | nil =>
          have := C17_rewrite_spec_literal c sp lr.reverse x hne hroute
          rw [hm]
          simpa [unquote, unqTok] using this
        | cons u v => simp at hhost
      | atom s =>
        have hh : (hr'.reverse ++ [Tok.atom s]).all hostTok = true := by
          simp only [List.all_cons, Bool.and_eq_true] at hhost
          simp only [List.all_append, List.all_reverse, List.all_cons, List.all_nil, Bool.and_true, Bool.and_eq_true]
          exact ⟨hhost.2, hhost.1⟩
        have := C17_rewrite_spec c sp lr.reverse hr'.reverse pt s hh hne hroute hdd hpd hpt hpu
        rw [hm]
        simpa using this
      | _ => simp at hhost

/-- **…and with a source route in front**: for ANY callback argument `m` (routed or not) that is not the C code's
`…@[]` exception, if `rwroute m` — `m` without its route: everything through the first colon of an address that
begins with `@` (`C17_rewrite_route`) — has one of the shapes of `specShape`, the envelope string is the documented
rewriting of that route-free mailbox. -/
theorem C17_rewrite_spec_route_any (c : RwCfg) (sp : RwSpec) (hc : CfgSpec c sp) (m : List Tok)
    (hs : specShape (rwroute m) = true) (hnl : ∀ y, m ≠ .literal [] :: .at :: y) :
    addrString (rwgeneric c m) = specString sp (rwroute m) := by
  have hsuf : ∀ (l : List Tok), ∃ z, l = z ++ dropThroughColon l := by
    intro l
    induction l with
    | nil => exact ⟨[], rfl⟩
    | cons t r ih =>
      unfold dropThroughColon
      split
      · exact ⟨[t], rfl⟩
      · obtain ⟨z, hz⟩ := ih
        exact ⟨t :: z, by rw [List.cons_append, ← hz]⟩
  have hpre : ∃ z, m = rwroute m ++ z := by
    unfold rwroute
    split
    · obtain ⟨z, hz⟩ := hsuf m.reverse
      refine ⟨z.reverse, ?_⟩
      have := congrArg List.reverse hz
      simpa using this
    · exact ⟨[], by simp⟩
  have hne : rwroute m ≠ [] := by
    intro e; rw [e] at hs; simp [specShape, splitAtTok] at hs
  have hmne : m ≠ [] := by
    intro e; rw [e] at hne; simp [rwroute] at hne
  have hnl2 : ∀ y, rwroute m ≠ .literal [] :: .at :: y := by
    intro y hy
    obtain ⟨z, hz⟩ := hpre
    rw [hy] at hz
    exact hnl (y ++ z) (by rw [hz]; simp)
  have hlast : (rwroute m).getLast? ≠ some .at := by
    unfold specShape at hs
    cases hsp : splitAtTok (rwroute m) with
    | none =>
      have := splitAtTok_none _ hsp
      intro e
      exact this (List.mem_of_getLast? e)
    | some p =>
      obtain ⟨hr, lr⟩ := p
      simp only [hsp, Bool.and_eq_true, Bool.not_eq_true', List.isEmpty_eq_false_iff, bne_iff_ne, ne_eq] at hs
      obtain ⟨e1, _⟩ := splitAtTok_some _ hr lr hsp
      rw [e1]
      have : (hr ++ Tok.at :: lr).getLast? = lr.getLast? := by
        cases lr with
        | nil => exact absurd rfl hs.1.1
        | cons u v =>
          rw [List.getLast?_append, List.getLast?_cons_cons]
          cases hx : (u :: v).getLast? with
          | none => simp at hx
          | some x => simp
      rw [this]; exact hs.1.2
  have hidem : ∀ x, x.getLast? ≠ some Tok.at → rwroute x = x := by
    intro x hx; unfold rwroute; rw [if_neg hx]
  have h1 := rwgeneric_body c m hmne hnl
  have h2 := rwgeneric_body c (rwroute m) hne hnl2
  rw [hidem _ hlast] at h2
  rw [h1, ← h2]
  exact C17_rewrite_spec_any c sp hc _ hs
/-- **Command-line recipients** (`dorecip`: `quote2`, `token822_parse`, `rwgeneric`, `token822_unquote`) **= the
documented rewriting** (audit repair).  For EVERY local part (any bytes) and every sane host name (`ok[]` bytes,
non-empty, not ending in a dot): the recipient `local@host` given on the command line enters the envelope as
`rewriteMailbox sp local (some host)`. -/
theorem C17_arg_spec (c : RwCfg) (sp : RwSpec) (hc : CfgSpec c sp) (loc dom : Bytes)
    (hd : dom.all okChar = true) (hne : dom ≠ []) (hl : dom.getLast? ≠ some DOT) :
    argAddress c (loc ++ AT :: dom) = some (rewriteMailbox sp loc (some dom)) := by
  obtain ⟨hdd, ⟨pt, hpd, hpt, hpu⟩, _⟩ := hc
  obtain ⟨ls, h0, s, hp, hu, hlne, hlh, hh, hhu⟩ := arg_tokens loc dom hd hne hl
  unfold argAddress
  rw [hp]
  simp only []
  have e : (ls ++ Tok.at :: (h0 ++ [Tok.atom s])).reverse = (h0 ++ [Tok.atom s]).reverse ++ .at :: ls.reverse := by simp
  rw [e, C17_rewrite_spec c sp ls h0 pt s hh hlne hlh hdd hpd hpt hpu, hu, hhu]
/-- **The whole message: what reaches qmail-queue** (audit repair: the former statement quantified
existentially over a state `st` whose `seen` component nothing constrained, so "`hrrlist` if a Resent- field was
seen" was not proved; there is no existential any more).  For EVERY input message and option set with which
qmail-inject exits 0 (and queues, `-N`): every command-line recipient parses (unless the strategy is `-h`), and
the recipients handed to `qmail_to` are, in this order, the rewritten arguments (`-a`, `-H`, default with
arguments) followed (`-h`, `-H`, default without arguments) by the concatenation over the header fields
`headerbody` delivers, in their order, of each field's contribution — the contributions of the Resent-To/Cc/Bcc
fields if ANY of the fields is one of the eight Resent- fields (`isResentField`), else those of the
To/Cc/Bcc/Apparently-To fields.  A field's contribution (`hrContribution`) is the unquoted callback results of
`token822_addrlist` on it — by `C17_field_end_to_end` the documented rewriting of the listed mailboxes. -/
theorem C17_envelope_inject (e : Env) (a : Args) (inp : Bytes) (dd dh pd : List Tok)
    (hdd : parse ([46] ++ e.defaultdomain) = some dd) (hdh : parse ([AT] ++ e.defaulthost) = some dh)
    (hpd : parse ([46] ++ e.plusdomain) = some pd)
    (hex : (inject e a inp).exit = 0) (hq : a.queue = true) :
    (effStrategy a ≠ 3 → ∀ r ∈ a.recips, (argAddress ⟨dh, dd, pd⟩ r).isSome = true) ∧
    (inject e a inp).recips =
      ((if effStrategy a = 3 then [] else a.recips.filterMap (argAddress ⟨dh, dd, pd⟩)) ++
       (if effStrategy a = 2 then []
        else if (headerbody inp).fields.any isResentField then (headerbody inp).fields.flatMap (hrContribution ⟨dh, dd, pd⟩ 2)
        else (headerbody inp).fields.flatMap (hrContribution ⟨dh, dd, pd⟩ 1))).map cstr := by
  unfold inject at hex ⊢
  simp only [hdd, hdh, hpd] at hex ⊢
  generalize hc : ({ defaulthost := dh, defaultdomain := dd, plusdomain := pd } : RwCfg) = c at hex ⊢
  split at hex
  · simp at hex
  · rename_i sender0 heq
    generalize hrl : (if effStrategy a ≠ 3 then mapOpt (argAddress c) a.recips else some []) = rl at hex ⊢
    cases rl with
    | none => simp at hex
    | some reciplist =>
      simp only [] at hex ⊢
      have hdead0 := header_dead e c (headerbody inp).fields { sender := sender0 } (Or.inl rfl)
      generalize hst0 : List.foldl (doheaderfield e c) { sender := sender0 } (headerbody inp).fields = st0 at hex hdead0 ⊢
      cases hd0 : st0.dead with
      | some x =>
        simp only [hd0] at hex
        rcases hdead0 with h | h
        · rw [hd0] at h; simp at h
        · rw [hd0] at h; simp only [Option.some.injEq] at h; omega
      | none =>
        simp only [hd0] at hex ⊢
        have hl := header_lists e c (headerbody inp).fields { sender := sender0 } (by rw [hst0]; exact hd0)
        have hres := header_resent e c (headerbody inp).fields { sender := sender0 } (by rw [hst0]; exact hd0)
        rw [hst0] at hl hres
        have hres0 : isResent ({ sender := sender0 } : ISt) = false := by rw [isResent_eq]; simp
        rw [hres0, Bool.false_or] at hres
        have hdr := defaultReturnPath_facts e c st0
        generalize hst1 : (if st0.sender.isNone = true then defaultReturnPath e c st0 else st0) = st1 at hex ⊢
        have f1 : st1.hrlist = st0.hrlist ∧ st1.hrrlist = st0.hrrlist ∧ st1.seen = st0.seen ∧ (st1.dead = none ∨ st1.dead = some 100) := by
          rw [← hst1]
          split
          · refine ⟨hdr.1, hdr.2.1, hdr.2.2.1, ?_⟩
            rcases hdr.2.2.2 with h | h
            · left; rw [h, hd0]
            · right; exact h
          · exact ⟨rfl, rfl, rfl, Or.inl hd0⟩
        cases hd1 : st1.dead with
        | some x =>
          simp only [hd1] at hex
          rcases f1.2.2.2 with h | h
          · rw [hd1] at h; simp at h
          · rw [hd1] at h; simp only [Option.some.injEq] at h; omega
        | none =>
          simp only [hd1] at hex ⊢
          cases hg : generatedFields e c st1 with
          | none => simp [hg] at hex
          | some gen =>
            simp only [hq, if_true]
            have hr1 : isResent st1 = (headerbody inp).fields.any isResentField := by
              rw [isResent_seen f1.2.2.1, hres]
            have hL1 : st1.hrlist = (headerbody inp).fields.flatMap (hrContribution c 1) := by
              rw [f1.1, hl.2.1]; simp
            have hL2 : st1.hrrlist = (headerbody inp).fields.flatMap (hrContribution c 2) := by
              rw [f1.2.1, hl.2.2]; simp
            by_cases h3 : effStrategy a = 3
            · simp only [h3, ne_eq, not_true_eq_false, if_false, Option.some.injEq] at hrl
              subst hrl
              refine ⟨fun h => absurd h3 h, ?_⟩
              simp [envelopeRecips, h3, hr1, hL1, hL2]
            · have hrl' : mapOpt (argAddress c) a.recips = some reciplist := by simpa [h3] using hrl
              obtain ⟨e1, e2⟩ := mapOpt_some (argAddress c) a.recips reciplist hrl'
              refine ⟨fun _ => e2, ?_⟩
              subst e1
              by_cases h2 : effStrategy a = 2
              · simp [envelopeRecips, h2]
              · simp [envelopeRecips, h2, h3, hr1, hL1, hL2]

/-- "one of the eight Resent- fields", "a To/Cc/Bcc/Apparently-To field", "a Resent-To/Cc/Bcc field", "a dropped
field" — by NAME: the model's tests on `hfield_known`'s number are the independent matcher's tests on the field's
own name (`Spec.Addr.fieldName`: bytes before the first colon, trailing blanks removed, lower-cased). -/
theorem C17_field_types_by_name (h : Bytes) :
    isResentField h = nameIn resentFields h ∧
    ((fieldClass (hfieldKnown h)).1 = 1 ↔ nameIn rcptFields h = true) ∧
    ((fieldClass (hfieldKnown h)).1 = 2 ↔ nameIn resentRcptFields h = true) ∧
    fieldDropped (hfieldKnown h) = nameIn hiddenFields h :=
  ⟨isResentField_name h, rcpt_class_name h, resent_class_name h, dropped_name h⟩

/-- **From header TEXT to envelope STRINGS** (audit repair: the end-to-end claim, assembled).  `h` is the text of
one header field: ANY legal rendering (`C17_parse_render`: any quoting, white space, folding, comments anywhere
in the body) of `name : address-list`, where the address list is the tree `L` (`C17_envelope_ast`) whose
mailboxes — after removal of a source route, `rwroute` — have one of the shapes of `specShape` (and are not the C
code's `…@[]` exception), the field's own name (independent matcher) is To, Cc, Bcc or
Apparently-To (`cls = 1`; Resent-To, Resent-Cc, Resent-Bcc for `cls = 2`), and the control values are sane
(`CfgSpec`, delivered by `C17_control_cfg`).  Then what the field contributes to qmail-inject's recipient list
`hrlist` (`hrrlist`) — by `C17_envelope_inject` a segment of the envelope — is exactly the list of the tree's
mailboxes, right to left, each — its source route stripped — rewritten by the DOCUMENTED string-level rule
`Spec.Addr.rewriteMailbox` (`specString`); and it contributes nothing to the other list. -/
theorem C17_field_end_to_end (c : RwCfg) (sp : RwSpec) (hc : CfgSpec c sp) (cls : Nat) (L : List Addr)
    (cts : List (Bytes × CTok)) (tr : Bytes) (name colon : Tok) (body : List Tok) (hL : ∀ a ∈ L, a.ok)
    (hok : cts.all (fun p => p.2.ok) = true) (hsep : sepsOk false cts = true) (htr : tr.all isWs = true)
    (htoks : cts.map (fun p => p.2.tok) = name :: colon :: body)
    (hskel : body.filter notComment = (((flatAddrs L).flatMap El.toks).reverse).filter notComment)
    (hshape : ∀ m ∈ L.flatMap Addr.mailboxes, specShape (rwroute m) = true ∧ ∀ y, m ≠ .literal [] :: .at :: y)
    (hname : (cls = 1 ∧ nameIn rcptFields (render cts tr) = true) ∨ (cls = 2 ∧ nameIn resentRcptFields (render cts tr) = true)) :
    hrContribution c cls (render cts tr) = (L.flatMap Addr.mailboxes).map (fun m => specString sp (rwroute m)) ∧
    hrContribution c (3 - cls) (render cts tr) = [] := by
  obtain ⟨ts, hp, hk, hg⟩ := C17_envelope_ast (rwgeneric c) L cts tr name colon body hL hok hsep htr htoks hskel
  have hcls : (fieldClass (hfieldKnown (render cts tr))).1 = cls := by
    rcases hname with ⟨rfl, hn⟩ | ⟨rfl, hn⟩
    · exact (rcpt_class_name _).mpr hn
    · exact (resent_class_name _).mpr hn
  have hr : rewriteField c true (render cts tr)
      = (unparse Gen.LINELEN (addrlist (rwgeneric c) ts).out, (addrlist (rwgeneric c) ts).got, false) := by
    simp [rewriteField, hp, hk]
  constructor
  · unfold hrContribution
    rw [if_pos hcls, hr]
    simp only []
    rw [hg, List.map_map]
    apply List.map_congr_left
    intro m hm
    exact C17_rewrite_spec_route_any c sp hc m (hshape m hm).1 (hshape m hm).2
  · unfold hrContribution
    rw [if_neg]
    rw [hcls]
    rcases hname with ⟨rfl, _⟩ | ⟨rfl, _⟩ <;> decide

/-- **Bcc removal, whole message** (audit repair: the former `C17_bcc` was one model step).  For EVERY message
and option set with which qmail-inject exits 0, the output message is
`[Return-Path line if -n] ++ generated fields ++ saved header ++ body`, where the saved header is the
concatenation, over the header fields `headerbody` delivers and in their order, of each field's
`savedContribution` — and a field whose own NAME (independent matcher `Spec.Addr.fieldName`) is Bcc, Resent-Bcc,
Return-Path or Content-Length contributes NOTHING, while (`C17_envelope_inject`) a Bcc / Resent-Bcc field still
contributes its addresses to the envelope.  The generated part consists of at most a Date, a Message-ID, a From
and a `Cc: recipient list not shown: ;` field (with `Resent-` in front of each for a resent message).
PARTIAL with respect to the full claim "`fieldNames msg` (every header line of the final TEXT, as an independent
reader splits it) contains no hidden name": not proved is that no line INSIDE a kept or rewritten field, inside
the generated From field or of the body is read as a header line named Bcc (needs the line structure of
`token822_unparse`'s output for arbitrary token contents, e.g. a quoted string holding LF); that part is the
oracle `Ihidden` of the harness, evaluated on every produced message. -/
theorem C17_bcc_message_partial (e : Env) (a : Args) (inp : Bytes) (dd dh pd : List Tok)
    (hdd : parse ([46] ++ e.defaultdomain) = some dd) (hdh : parse ([AT] ++ e.defaulthost) = some dh)
    (hpd : parse ([46] ++ e.plusdomain) = some pd)
    (hex : (inject e a inp).exit = 0) :
    (∃ rp d m f cc, (a.queue = true → rp = []) ∧
      (inject e a inp).msg = rp ++ (d ++ m ++ f ++ cc) ++
        ((headerbody inp).fields.flatMap (savedContribution e ⟨dh, dd, pd⟩)).flatten ++ (headerbody inp).body.flatten ∧
      (d = [] ∨ d = e.date ∨ d = str "Resent-" ++ e.date) ∧
      (m = [] ∨ m = msgid e ∨ m = str "Resent-" ++ msgid e) ∧
      (f = [] ∨ ∃ t, defaultFrom e ⟨dh, dd, pd⟩ = some t ∧ (f = t ∨ f = str "Resent-" ++ t)) ∧
      (cc = [] ∨ cc = str "Cc: recipient list not shown: ;\n" ∨ cc = str "Resent-Cc: recipient list not shown: ;\n")) ∧
    (∀ h, nameIn hiddenFields h = true → savedContribution e ⟨dh, dd, pd⟩ h = []) := by
  constructor
  · unfold inject at hex ⊢
    simp only [hdd, hdh, hpd] at hex ⊢
    generalize hc : ({ defaulthost := dh, defaultdomain := dd, plusdomain := pd } : RwCfg) = c at hex ⊢
    split at hex
    · simp at hex
    · rename_i sender0 heq
      generalize hrl : (if effStrategy a ≠ 3 then mapOpt (argAddress c) a.recips else some []) = rl at hex ⊢
      cases rl with
      | none => simp at hex
      | some reciplist =>
        simp only [] at hex ⊢
        generalize hst0 : List.foldl (doheaderfield e c) { sender := sender0 } (headerbody inp).fields = st0 at hex ⊢
        cases hd0 : st0.dead with
        | some x =>
          simp only [hd0] at hex
          have hdead0 := header_dead e c (headerbody inp).fields { sender := sender0 } (Or.inl rfl)
          rw [hst0, hd0] at hdead0
          rcases hdead0 with h | h
          · simp at h
          · simp only [Option.some.injEq] at h; omega
        | none =>
          simp only [hd0] at hex ⊢
          have hs := header_savedh e c (headerbody inp).fields { sender := sender0 } (by rw [hst0]; exact hd0)
          rw [hst0] at hs
          generalize hst1 : (if st0.sender.isNone = true then defaultReturnPath e c st0 else st0) = st1 at hex ⊢
          have f1 : st1.savedh = st0.savedh := by
            rw [← hst1]; split
            · exact defaultReturnPath_savedh e c st0
            · rfl
          cases hd1 : st1.dead with
          | some x =>
            simp only [hd1] at hex
            have hdr := (defaultReturnPath_facts e c st0).2.2.2
            have : st1.dead = none ∨ st1.dead = some 100 := by
              rw [← hst1]; split
              · rcases hdr with h | h
                · left; rw [h, hd0]
                · right; exact h
              · left; exact hd0
            rw [hd1] at this
            rcases this with h | h
            · simp at h
            · simp only [Option.some.injEq] at h; omega
          | none =>
            simp only [hd1] at hex ⊢
            cases hg : generatedFields e c st1 with
            | none => simp [hg] at hex
            | some gen =>
              simp only []
              have hsv : st1.savedh = (headerbody inp).fields.flatMap (savedContribution e c) := by
                rw [f1, hs]; simp
              have hgen : ∃ d m f cc, gen = d ++ m ++ f ++ cc ∧
                  (d = [] ∨ d = e.date ∨ d = str "Resent-" ++ e.date) ∧
                  (m = [] ∨ m = msgid e ∨ m = str "Resent-" ++ msgid e) ∧
                  (f = [] ∨ ∃ t, defaultFrom e c = some t ∧ (f = t ∨ f = str "Resent-" ++ t)) ∧
                  (cc = [] ∨ cc = str "Cc: recipient list not shown: ;\n" ∨ cc = str "Resent-Cc: recipient list not shown: ;\n") := by
                unfold generatedFields at hg
                split at hg
                · cases hs1 : seenAny st1 [Gen.H_R_FROM] with
                  | true =>
                    simp only [hs1, Bool.not_true, Bool.false_eq_true, if_false, Option.map_some, Option.some.injEq] at hg
                    refine ⟨_, _, [], _, hg.symm, ?_, ?_, Or.inl rfl, ?_⟩
                    · split <;> simp
                    · split <;> simp
                    · split <;> simp
                  | false =>
                    simp only [hs1, Bool.not_false, if_true] at hg
                    cases hdf : defaultFrom e c with
                    | none => simp [hdf] at hg
                    | some t =>
                      simp only [hdf, Option.map_some, Option.some.injEq] at hg
                      refine ⟨_, _, str "Resent-" ++ t, _, hg.symm, ?_, ?_, Or.inr ⟨t, rfl, Or.inr rfl⟩, ?_⟩
                      · split <;> simp
                      · split <;> simp
                      · split <;> simp
                · cases hs1 : seenAny st1 [Gen.H_FROM] with
                  | true =>
                    simp only [hs1, Bool.not_true, Bool.false_eq_true, if_false, Option.map_some, Option.some.injEq] at hg
                    refine ⟨_, _, [], _, hg.symm, ?_, ?_, Or.inl rfl, ?_⟩
                    · split <;> simp
                    · split <;> simp
                    · split <;> simp
                  | false =>
                    simp only [hs1, Bool.not_false, if_true] at hg
                    cases hdf : defaultFrom e c with
                    | none => simp [hdf] at hg
                    | some t =>
                      simp only [hdf, Option.map_some, Option.some.injEq] at hg
                      refine ⟨_, _, t, _, hg.symm, ?_, ?_, Or.inr ⟨t, rfl, Or.inl rfl⟩, ?_⟩
                      · split <;> simp
                      · split <;> simp
                      · split <;> simp
              obtain ⟨d, m, f, cc, eg, g1, g2, g3, g4⟩ := hgen
              by_cases hq : a.queue = true
              · refine ⟨[], d, m, f, cc, fun _ => rfl, ?_, g1, g2, g3, g4⟩
                simp [hq, eg, hsv]
              · refine ⟨str "Return-Path: <" ++ quote2 (cstr (st1.sender.getD [])) ++ str ">\n", d, m, f, cc, fun h => absurd h hq, ?_, g1, g2, g3, g4⟩
                simp only [hq, Bool.false_eq_true, if_false, eg, hsv]
  · intro h hn
    have := dropped_name h
    rw [hn] at this
    unfold savedContribution
    simp only [this, if_true]
    split <;> rfl
/-- **White space and folding between tokens are ignored** by the tokenizer: any run of SP, TAB, CR, LF
(so also a fold `LF SP`) at token level disappears, and such a byte ends an atom (`atomok` is false for
it), so `a@b ,` LF SP `c` tokenizes like `a@b,c`. -/
theorem C17_parse_blanks (ws rest : Bytes) (h : ws.all isWs = true) :
    prun .top (ws ++ rest) = prun .top rest ∧ (∀ c ∈ ws, atomok c = false) := by
  constructor
  · induction ws with
    | nil => rfl
    | cons c ws ih =>
      simp only [List.all_cons, Bool.and_eq_true] at h
      have hf := ws_facts c
      simp only [h.1, Bool.not_true, Bool.false_or, Bool.and_eq_true, Option.isNone_iff_eq_none] at hf
      rw [List.cons_append, prun_cons]
      have : pstep .top c = (.top, []) := by simp [pstep, stepTop, hf.1, h.1]
      rw [this]
      simp only [ih h.2]
      cases prun .top rest <;> simp
  · intro c hc
    have hw := List.all_eq_true.mp h c hc
    have hf := ws_facts c
    simp only [hw, Bool.not_true, Bool.false_or, Bool.and_eq_true, Bool.not_eq_true'] at hf
    exact hf.2

/-- **Bcc removal, one field** (the whole-message statement is `C17_bcc_message_partial`).  A `Bcc` (resp. `Resent-Bcc`) field never reaches the saved header — the output
message is `generated fields ++ savedh ++ body` — while the addresses its callback collected are
appended to `hrlist` (resp. `hrrlist`), the lists the envelope is taken from. -/
theorem C17_bcc (e : Env) (c : RwCfg) (st : ISt) (h : Bytes) (hd : st.dead = none) :
    (hfieldKnown h = Gen.H_BCC →
      (doheaderfield e c st h).savedh = st.savedh ∧
      (doheaderfield e c st h).hrlist = st.hrlist ++ (rewriteField c true h).2.1.map addrString) ∧
    (hfieldKnown h = Gen.H_R_BCC →
      (doheaderfield e c st h).savedh = st.savedh ∧
      (doheaderfield e c st h).hrrlist = st.hrrlist ++ (rewriteField c true h).2.1.map addrString) := by
  constructor
  · intro hk
    simp [doheaderfield, hd, hk, Gen.H_BCC, Gen.H_FROM, Gen.H_MESSAGEID, Gen.H_RETURNPATH, fieldClass, fieldDropped,
      Gen.H_TO, Gen.H_CC, Gen.H_APPARENTLYTO, Gen.H_R_BCC, Gen.H_CONTENTLENGTH]
    split <;> simp
  · intro hk
    simp [doheaderfield, hd, hk, Gen.H_BCC, Gen.H_FROM, Gen.H_MESSAGEID, Gen.H_RETURNPATH, fieldClass, fieldDropped,
      Gen.H_TO, Gen.H_CC, Gen.H_APPARENTLYTO, Gen.H_R_BCC, Gen.H_R_TO, Gen.H_R_CC, Gen.H_CONTENTLENGTH]
    split <;> simp

/-- **Recipient strategies and which fields feed which list.**  `-a`: the arguments only; `-h`/`-H` and the
default: header recipients — `hrrlist` (Resent-To/Cc/Bcc) if any Resent- field was seen, else `hrlist`
(To/Cc/Bcc/Apparently-To) — after the arguments; the default strategy is `-a` when there are arguments and
`-h` otherwise.  To, Cc, Bcc, Apparently-To feed `hrlist`; Resent-To, Resent-Cc, Resent-Bcc feed `hrrlist`;
Return-Path sets the sender; the sender fields are only rewritten; Bcc, Resent-Bcc, Return-Path and
Content-Length are dropped from the header. -/
theorem C17_modes (rl : List Bytes) (st : ISt) (a : Args) :
    envelopeRecips 2 rl st = rl ∧
    envelopeRecips 3 rl st = rl ++ (if isResent st then st.hrrlist else st.hrlist) ∧
    envelopeRecips 4 rl st = rl ++ (if isResent st then st.hrrlist else st.hrlist) ∧
    (a.strategy = 1 → effStrategy a = if a.recips.isEmpty then 3 else 2) ∧
    (a.strategy ≠ 1 → effStrategy a = a.strategy) ∧
    [Gen.H_TO, Gen.H_CC, Gen.H_BCC, Gen.H_APPARENTLYTO].map fieldClass = [(1, true), (1, true), (1, true), (1, true)] ∧
    [Gen.H_R_TO, Gen.H_R_CC, Gen.H_R_BCC].map fieldClass = [(2, true), (2, true), (2, true)] ∧
    fieldClass Gen.H_RETURNPATH = (3, false) ∧
    [Gen.H_SUBJECT, Gen.H_DATE, Gen.H_RECEIVED, Gen.H_MAILFOLLOWUPTO, 0].map fieldClass
      = [(0, false), (0, false), (0, false), (0, false), (0, false)] ∧
    (List.range Gen.H_NUM).filter fieldDropped = [Gen.H_BCC, Gen.H_R_BCC, Gen.H_RETURNPATH, Gen.H_CONTENTLENGTH] := by
  refine ⟨by simp [envelopeRecips], by simp [envelopeRecips], by simp [envelopeRecips], ?_, ?_, by decide, by decide,
    by decide, by decide, by decide⟩
  · intro h; simp [effStrategy, h]
  · intro h; simp [effStrategy, h]

/-! ### Non-vacuity: concrete inputs meeting the hypotheses (bytes written out) -/

/-- the local part `a b"\` CR (needs quoting) at domain `x.y`: quoted as `"a b\"\\\<CR>"@x.y` -/
example : quote2 [97, 32, 98, 34, 92, 13, 64, 120, 46, 121]
    = [34, 97, 32, 98, 92, 34, 92, 92, 92, 13, 34, 64, 120, 46, 121] := by decide
example : parse [34, 97, 32, 98, 92, 34, 92, 92, 92, 13, 34, 64, 120, 46, 121]
    = some [.quote [97, 32, 98, 34, 92, 13], .at, .atom [120], .dot, .atom [121]] := by decide
example : saneDomain [120, 46, 121] = true := by decide
example : saneDomain [91, 49, 46, 50, 46, 51, 46, 52, 93] = true := by decide
example : smtpDomain [120, 46, 121] = true := by decide
example : isLocalLiteral { liphost := some [108], ipme := [[127, 0, 0, 1]] } [120, 46, 121] = false := by decide
/-- `[127.0.0.1]` IS a local literal for that configuration (the excluded case) -/
example : isLocalLiteral { liphost := some [108], ipme := [[127, 0, 0, 1]] } [91, 49, 50, 55, 46, 48, 46, 48, 46, 49, 93] = true := by decide
/-- `a.b@x` needs no quoting and has the dot-atom shape -/
example : parse (quote2 [97, 46, 98, 64, 120]) = some [.atom [97], .dot, .atom [98], .at, .atom [120]] := by decide

/-- `To: a@b, c` as tokens; the callback sees `c` first, then `a@b` (reversed: b @ a) -/
example : (addrlist id [.atom [84, 111], .colon, .atom [97], .at, .atom [98], .comma, .atom [99]]).got
    = [[.atom [99]], [.atom [98], .at, .atom [97]]] := by decide
example : bodyRev [[.atom [99]], [.atom [98], .at, .atom [97]]] = [.atom [99], .comma, .atom [98], .at, .atom [97]] := by decide
example : sepOk true [.atom [98], .at, .atom [97]] = true := by decide
/-- `a@b+` with plusdomain `.p.q` becomes `a@b.p.q` -/
example : rwgeneric { defaulthost := [.at, .atom [104]], defaultdomain := [.dot, .atom [100]],
                      plusdomain := [.dot, .atom [112], .dot, .atom [113]] } [.atom [98, 43], .at, .atom [97]]
    = [.atom [113], .dot, .atom [112], .dot, .atom [98], .at, .atom [97]] := by decide

/-- `To: a@b, J (x) <(c)@r:u@h>`: the callback gets `@r:u@h` (reversed) without the comment `(c)`, then `a@b` -/
example : (addrlist id [.atom [84, 111], .colon, .atom [97], .at, .atom [98], .comma, .atom [74], .comment [120], .left,
      .comment [99], .at, .atom [114], .colon, .atom [117], .at, .atom [104], .right]).got
    = [[.atom [104], .at, .atom [117], .colon, .atom [114], .at], [.atom [98], .at, .atom [97]]] := by decide
example : (Item.angle [.atom [104], .at, .atom [117], .colon, .atom [114], .at, .comment [99]] [.comment [120], .atom [74]]).toks
    = [.right, .atom [104], .at, .atom [117], .colon, .atom [114], .at, .comment [99], .left, .comment [120], .atom [74]] := by decide
/-- with qmail-inject's callback the route is stripped and the host qualified: `u@h.d` -/
example : rwgeneric { defaulthost := [.at, .atom [104]], defaultdomain := [.dot, .atom [100]], plusdomain := [.dot, .atom [112]] }
      [.atom [104], .at, .atom [117], .colon, .atom [114], .at]
    = [.atom [100], .dot, .atom [104], .at, .atom [117]] := by decide

/-! non-vacuity of the extended envelope theorems -/

/-- a legal rendering: `To:` SP `(c(n)\))` LF SP `"q\""<a@` TAB `[1]>` LF — nested comment with a quoted-pair,
fold, quoted-pair in a quoted string, literal -/
def exCts : List (Bytes × CTok) :=
  [([], .atom [84, 111]), ([], .special 58), ([32], .comment [.ch 99 false, .op, .ch 110 false, .cl, .ch 41 true]),
   ([10, 32], .quote [(113, false), (34, true)]), ([], .special 60), ([], .atom [97]), ([], .special 64),
   ([9], .literal [(49, false)]), ([], .special 62)]
example : exCts.all (fun p => p.2.ok) = true ∧ sepsOk false exCts = true := by decide
example : render exCts [10]
    = [84, 111, 58, 32, 40, 99, 40, 110, 41, 92, 41, 41, 10, 32, 34, 113, 92, 34, 34, 60, 97, 64, 9, 91, 49, 93, 62, 10] := by decide
example : parse (render exCts [10])
    = some [.atom [84, 111], .colon, .comment [99, 110, 41], .quote [113, 34], .left, .atom [97], .at, .literal [49], .right] := by decide

/-- `To: g: a@b c;, J <@r:u@h> d` right to left: `d`, missing comma, `J <@r:u@h>`, comma, `;`, `c`, missing
comma, `a@b`, `: g` -/
def exEls : List El :=
  [.mbox (.plain [.atom [100]]), .mbox (.angle [.atom [104], .at, .atom [117], .colon, .atom [114], .at] [.atom [74]]),
   .comma, .gclose, .mbox (.plain [.atom [99]]), .mbox (.plain [.atom [98], .at, .atom [97]]), .gopen [.atom [103]]]
example : validEls false .fresh exEls = true := by decide
example : ∀ el ∈ exEls, el.ok := by
  intro el h
  simp only [exEls, List.mem_cons, List.not_mem_nil, or_false] at h
  rcases h with rfl | rfl | rfl | rfl | rfl | rfl | rfl <;>
    simp [El.ok, Item.ok, sepOkC, notComment, isWordTok, isSepTok, isPhraseTok]
example : (exEls.flatMap El.toks).reverse
    = [.atom [103], .colon, .atom [97], .at, .atom [98], .atom [99], .semi, .comma, .atom [74], .left,
       .at, .atom [114], .colon, .atom [117], .at, .atom [104], .right, .atom [100]] := by decide
example : mboxes exEls = [[.atom [100]], [.atom [104], .at, .atom [117], .colon, .atom [114], .at], [.atom [99]],
    [.atom [98], .at, .atom [97]]] := by decide
/-- the same field with comments sprinkled in (between the words of an address, inside `<…>`, in the group
name): same callbacks -/
example : (addrlist id [.atom [84, 111], .colon, .atom [103], .comment [120], .colon, .atom [97], .comment [121], .at, .atom [98], .atom [99], .semi,
      .comma, .atom [74], .left, .at, .atom [114], .colon, .comment [122], .atom [117], .at, .atom [104], .right, .atom [100]]).got
    = [[.atom [100]], [.atom [104], .at, .atom [117], .colon, .atom [114], .at], [.atom [99]], [.atom [98], .at, .atom [97]]] := by decide
/-- the tree `g: a@b, c;, J <@r:u@h>` (right to left: the angle address, then the group with members c, a@b) -/
def exTree : List Addr :=
  [.mbox (.angle [.atom [104], .at, .atom [117], .colon, .atom [114], .at] [.atom [74]]),
   .group [.atom [103]] [.plain [.atom [99]], .plain [.atom [98], .at, .atom [97]]]]
example : ((flatAddrs exTree).flatMap El.toks).reverse
    = [.atom [103], .colon, .atom [97], .at, .atom [98], .comma, .atom [99], .semi, .comma, .atom [74], .left,
       .at, .atom [114], .colon, .atom [117], .at, .atom [104], .right] := by decide
example : exTree.flatMap Addr.mailboxes
    = [[.atom [104], .at, .atom [117], .colon, .atom [114], .at], [.atom [99]], [.atom [98], .at, .atom [97]]] := by decide
example : ∀ a ∈ exTree, a.ok := by
  intro a h
  simp only [exTree, List.mem_cons, List.not_mem_nil, or_false] at h
  rcases h with rfl | rfl <;>
    simp [Addr.ok, Item.ok, sepOkC, notComment, isWordTok, isSepTok, isPhraseTok]
/-- folding at a short line length: `a,b,c` with line length 3 is written `a,` LF SP SP `b,` LF SP SP `c` LF …
and parses back -/
example : unparse 3 [.atom [97], .comma, .atom [98], .comma, .atom [99]] = [97, 44, 10, 32, 32, 98, 44, 10, 32, 32, 99, 10] := by decide
example : unparse 80 [.atom [97], .comma, .atom [98], .comma, .atom [99]] = [97, 44, 32, 98, 44, 32, 99, 10] := by decide
example : parse [97, 44, 10, 32, 32, 98, 44, 10, 32, 32, 99, 10] = some [.atom [97], .comma, .atom [98], .comma, .atom [99]] := by decide

/-- the field `To:a@b, c` LF contributes `c@h.d`, `a@b.d` to `hrlist` and nothing to `hrrlist` -/
example : hrContribution { defaulthost := [.at, .atom [104]], defaultdomain := [.dot, .atom [100]], plusdomain := [.dot, .atom [112]] } 1
    [84, 111, 58, 97, 64, 98, 44, 32, 99, 10] = [[99, 64, 104, 46, 100], [97, 64, 98, 46, 100]] := by decide
example : hrContribution { defaulthost := [.at, .atom [104]], defaultdomain := [.dot, .atom [100]], plusdomain := [.dot, .atom [112]] } 2
    [84, 111, 58, 97, 64, 98, 44, 32, 99, 10] = [] := by decide
/-- `@r:u@h`: same result as `u@h` -/
example : rwgeneric { defaulthost := [.at, .atom [104]], defaultdomain := [.dot, .atom [100]], plusdomain := [.dot, .atom [112]] }
      ([Tok.at, .atom [114], .colon, .atom [117], .at, .atom [104]].reverse)
    = [.atom [100], .dot, .atom [104], .at, .atom [117]] := by decide
/-- `u@h` with defaultdomain `d`: tokens of host `h` are a legal dot-atom host; result `u@h.d` -/
example : ([] ++ [Tok.atom [104]]).all hostTok = true := by decide
example : addrString (rwgeneric { defaulthost := [.at, .atom [104]], defaultdomain := [.dot, .atom [100]], plusdomain := [.dot, .atom [112]] }
      [.atom [104], .at, .atom [117]]) = [117, 64, 104, 46, 100] := by decide
example : rewriteMailbox { defaulthost := [104], defaultdomain := [100], plusdomain := [112] } [117] (some [104]) = [117, 64, 104, 46, 100] := by decide

/-! non-vacuity of the audit-repair theorems -/

/-- the configuration `defaulthost = h`, `defaultdomain = d`, `plusdomain = p` meets `CfgSpec` and `CleanCfg` -/
def exCfg : RwCfg := { defaulthost := [.at, .atom [104]], defaultdomain := [.dot, .atom [100]], plusdomain := [.dot, .atom [112]] }
def exSp : RwSpec := { defaulthost := [104], defaultdomain := [100], plusdomain := [112] }
example : CfgSpec exCfg exSp :=
  ⟨by decide, ⟨[.atom [112]], rfl, by decide, by decide⟩, ⟨[], [104], rfl, by decide, by decide⟩⟩
example : CleanCfg exCfg := ⟨by decide, by decide, by decide⟩
/-- `Resent-To:x` is a Resent- field, by number and by name; `Bcc :x` is hidden by name -/
example : isResentField [82, 101, 115, 101, 110, 116, 45, 84, 111, 58, 120, 10] = true ∧
    nameIn resentFields [82, 101, 115, 101, 110, 116, 45, 84, 111, 58, 120, 10] = true ∧
    nameIn hiddenFields [66, 99, 99, 32, 58, 120, 10] = true ∧ hfieldKnown [66, 99, 99, 32, 58, 120, 10] = Gen.H_BCC := by decide
/-- the field `To: a@b,` LF SP `c@x+` LF as a legal rendering of the tree (right to left) `c@x+` (plus domain), `a@b` (default domain) -/
def exCts2 : List (Bytes × CTok) :=
  [([], .atom [84, 111]), ([], .special 58), ([32], .atom [97]), ([], .special 64), ([], .atom [98]), ([], .special 44),
   ([10, 32], .atom [99]), ([], .special 64), ([], .atom [120, 43])]
def exTree2 : List Addr := [.mbox (.plain [.atom [120, 43], .at, .atom [99]]), .mbox (.plain [.atom [98], .at, .atom [97]])]
example : exCts2.all (fun p => p.2.ok) = true ∧ sepsOk false exCts2 = true := by decide
example : nameIn rcptFields (render exCts2 [10]) = true := by decide
example : exTree2.flatMap Addr.mailboxes = [[.atom [120, 43], .at, .atom [99]], [.atom [98], .at, .atom [97]]] := by decide
example : ∀ m ∈ ([[.atom [120, 43], .at, .atom [99]], [.atom [98], .at, .atom [97]]] : List (List Tok)),
    specShape (rwroute m) = true ∧ ∀ y, m ≠ .literal [] :: .at :: y := by
  intro m hm
  simp only [List.mem_cons, List.not_mem_nil, or_false] at hm
  rcases hm with rfl | rfl <;> exact ⟨by decide, fun y h => by simp at h⟩
example : (exTree2.flatMap Addr.mailboxes).map (fun m => specString exSp (rwroute m)) = [[99, 64, 120, 46, 112], [97, 64, 98, 46, 100]] := by decide
/-- a routed mailbox `J <@r:u@h>` (callback argument `h @ u : r @`): the route is stripped, then `u@h.d` -/
example : specShape (rwroute [.atom [104], .at, .atom [117], .colon, .atom [114], .at]) = true ∧
    specString exSp (rwroute [.atom [104], .at, .atom [117], .colon, .atom [114], .at]) = [117, 64, 104, 46, 100] ∧
    addrString (rwgeneric exCfg [.atom [104], .at, .atom [117], .colon, .atom [114], .at]) = [117, 64, 104, 46, 100] := by decide
example : hrContribution exCfg 1 (render exCts2 [10]) = [[99, 64, 120, 46, 112], [97, 64, 98, 46, 100]] := by decide
/-- good tokens: `To: a@b+` -/
example : ([.atom [84, 111], .colon, .atom [97], .at, .atom [98, 43]] : List Tok).all goodTok = true := by decide
/-- a command-line recipient `a b@x` (local part needs quoting): `a b@x.d` -/
example : argAddress exCfg [97, 32, 98, 64, 120] = some [97, 32, 98, 64, 120, 46, 100] := by decide
example : rewriteMailbox exSp [97, 32, 98] (some [120]) = [97, 32, 98, 64, 120, 46, 100] := by decide
/-- `RCPT TO:<a@x>` CR LF -/
example : rcptToLine [97, 64, 120] = [82, 67, 80, 84, 32, 84, 79, 58, 60, 97, 64, 120, 62, 13, 10] := by decide

/-! ### Session 4: headerbody.c / getln.c against an independent description (`Nq.Spec.HeaderBody`) -/

section HeaderBody
open Nq.Spec.HeaderBody Nq.Lemmas.C17HB

/-- **getln/getsa: the lines of the message.**  The model's left-to-right accumulator loop delivers exactly
the lines of the right-to-left description `linesOf`; and these are characterised declaratively: concatenated
they give the input back with a final LF supplied when it was missing (`norm`, the first documented
alteration), and each holds exactly one LF, at its end. -/
theorem C17_lines_spec (inp : Bytes) :
    splitLines inp = linesOf inp ∧ (linesOf inp).flatten = norm inp ∧ ∀ l ∈ linesOf inp, isLine l = true :=
  ⟨splitLines_eq inp, linesOf_flatten inp, linesOf_isLine inp⟩

example : linesOf [97, 58, 10, 32, 98, 10, 10, 99] = [[97, 58, 10], [32, 98, 10], [10], [99, 10]] := by decide
example : norm [97, 58, 10, 32, 98, 10, 10, 99] = [97, 58, 10, 32, 98, 10, 10, 99, 10] := by decide
example : norm [97, 10] = [97, 10] ∧ norm [] = [] := by decide

/-- **headerbody() = its description, for EVERY input.**  The fields handed to `dohf` are: take the longest
prefix of the lines that begins with a field start (`From ` line or `hfield_valid`) and consists of field
starts and continuation lines (`hdr`: it ends before the first empty line or the first line that is neither),
cut it into the maximal groups "line + the continuation lines that follow" (`groups`), concatenate each group
and put `MBOX-Line: ` in front of a `From ` line (`fieldOf`); the pieces handed to `dobl` are the remaining
lines, preceded by an inserted empty line when the first of them is not one (`bodyOf`). -/
theorem C17_headerbody_spec (inp : Bytes) :
    (headerbody inp).fields = specFields inp ∧ (headerbody inp).body = specBody inp := by
  rw [headerbody_eq]; exact ⟨rfl, rfl⟩

/-- `a:` LF SP `b` LF LF `c`: one field `a:\n b\n`, body = the empty line and `c\n` (LF supplied) -/
example : specFields [97, 58, 10, 32, 98, 10, 10, 99] = [[97, 58, 10, 32, 98, 10]] ∧
    specBody [97, 58, 10, 32, 98, 10, 10, 99] = [[10], [99, 10]] := by decide +kernel
/-- `From x` LF `a:` LF `zz` LF: fields `MBOX-Line: From x\n`, `a:\n`; the line `zz` ends the header and an
empty line is inserted -/
example : specFields [70, 114, 111, 109, 32, 120, 10, 97, 58, 10, 122, 122, 10]
      = [[77, 66, 79, 88, 45, 76, 105, 110, 101, 58, 32, 70, 114, 111, 109, 32, 120, 10], [97, 58, 10]] ∧
    specBody [70, 114, 111, 109, 32, 120, 10, 97, 58, 10, 122, 122, 10] = [[10], [122, 122, 10]] := by decide +kernel

/-- **Partition laws of the description** (on the lines `ls` of any input): (1) order preserved, nothing
lost or duplicated — the groups of the header, concatenated, followed by the rest, are the lines; (2) every
group is a field start followed by continuation lines only (so, a field start not being a continuation line,
the groups are maximal); (3) maximality of the header — the first line after it is not a field start, and it is
a continuation line only when there is no header at all (a message beginning with SP/TAB). -/
theorem C17_headerbody_partition (inp : Bytes) :
    (groups (hdr (linesOf inp))).flatten ++ rest (linesOf inp) = linesOf inp ∧
    (∀ g ∈ groups (hdr (linesOf inp)), ∃ s cs, g = s :: cs ∧ isStart s = true ∧ ∀ c ∈ cs, isCont c = true) ∧
    (∀ s, isStart s = true → isCont s = false) ∧
    (∀ x, (rest (linesOf inp)).head? = some x → isStart x = false ∧ (isCont x = true → hdr (linesOf inp) = [])) :=
  ⟨groups_hdr_rest _, groups_shape _, start_not_cont, rest_head _⟩

/-- **Concatenation law and shape of the fields, on what `headerbody` delivers.**  For every input:
(1) `reassembles` — walking along the input (final LF supplied), each field, or for a field
`MBOX-Line: From …` the `From …` line it was made from, is the next piece, in order, and what is left is the
body, the body having one extra LF in front exactly when that remainder is non-empty and does not begin with
an empty line; (2) the same as an equation on the un-altered groups; (3) every field begins with a valid field
name (`hfield_valid` accepts it — so qmail-inject's "bad header field" exit is unreachable from `headerbody`)
and (4) is ONE logical line: it ends in LF and every other LF in it is followed by SP or TAB — in particular
no field contains an empty line or a second field. -/
theorem C17_headerbody_laws (inp : Bytes) :
    reassembles inp (headerbody inp).fields (headerbody inp).body = true ∧
    ((groups (hdr (linesOf inp))).map List.flatten).flatten ++ (rest (linesOf inp)).flatten = norm inp ∧
    (∀ f ∈ (headerbody inp).fields, hfieldValid f = true ∧ logicalLine f = true ∧ f.getLast? = some LF ∧
      ∀ pre post, f = pre ++ LF :: post → post = [] ∨ post.head? = some SP ∨ post.head? = some TAB) := by
  rw [headerbody_eq]
  refine ⟨spec_reassembles inp, spec_concat inp, ?_⟩
  intro f hf
  simp only [specFields, List.mem_map] at hf
  obtain ⟨g, hg, rfl⟩ := hf
  have := fields_ok (linesOf inp) (linesOf_isLine inp) g hg
  exact ⟨this.1, this.2, logicalLine_lf _ this.2⟩

example : reassembles [70, 114, 111, 109, 32, 120, 10, 97, 58, 10, 122, 122, 10]
    [[77, 66, 79, 88, 45, 76, 105, 110, 101, 58, 32, 70, 114, 111, 109, 32, 120, 10], [97, 58, 10]] [[10], [122, 122, 10]] = true := by
  decide +kernel
/-- complement: a field list that drops a field, or a body without the inserted empty line, is refused -/
example : reassembles [70, 114, 111, 109, 32, 120, 10, 97, 58, 10, 122, 122, 10]
    [[77, 66, 79, 88, 45, 76, 105, 110, 101, 58, 32, 70, 114, 111, 109, 32, 120, 10], [97, 58, 10]] [[122, 122, 10]] = false := by
  decide +kernel
example : logicalLine [97, 58, 10, 32, 98, 10] = true ∧ logicalLine [97, 58, 10, 10] = false ∧ logicalLine [97, 58, 10, 98, 58, 10] = false := by
  decide

/-- **The envelope, from the raw input bytes** (`C17_envelope_inject` composed with `C17_headerbody_spec`):
for every message and option set with which qmail-inject exits 0 and queues, the recipients handed to
qmail-queue are the rewritten arguments followed by the concatenation of the contributions of the fields of the
DESCRIPTION `specFields inp` — the header lines of the input bytes, grouped — the Resent- ones if any of these
fields is one of the eight Resent- fields, else the To/Cc/Bcc/Apparently-To ones. -/
theorem C17_envelope_from_bytes (e : Env) (a : Args) (inp : Bytes) (dd dh pd : List Tok)
    (hdd : parse ([46] ++ e.defaultdomain) = some dd) (hdh : parse ([AT] ++ e.defaulthost) = some dh)
    (hpd : parse ([46] ++ e.plusdomain) = some pd)
    (hex : (inject e a inp).exit = 0) (hq : a.queue = true) :
    (inject e a inp).recips =
      ((if effStrategy a = 3 then [] else a.recips.filterMap (argAddress ⟨dh, dd, pd⟩)) ++
       (if effStrategy a = 2 then []
        else if (specFields inp).any isResentField then (specFields inp).flatMap (hrContribution ⟨dh, dd, pd⟩ 2)
        else (specFields inp).flatMap (hrContribution ⟨dh, dd, pd⟩ 1))).map cstr := by
  have := (C17_envelope_inject e a inp dd dh pd hdd hdh hpd hex hq).2
  rw [(C17_headerbody_spec inp).1] at this
  exact this

end HeaderBody

/-! ### Session 4: Bcc removal on the final TEXT, reduced to the line structure of the rewritten pieces -/

section HiddenText
open Nq.Spec.HeaderBody Nq.Spec.Hidden Nq.Lemmas.C17HB Nq.Lemmas.C17Hid

/-- **A field that qmail-inject keeps verbatim cannot smuggle a hidden field** (uses `C17_headerbody_laws`): a
field text that `hfield_valid` accepts, that is one logical line, and whose own name is not
Bcc/Resent-Bcc/Return-Path/Content-Length is a *safe piece* — it ends in LF, and each of its lines, as the
independent reader `Spec.Addr.splitLF` cuts them, is a continuation line or does not carry a hidden name (the
first physical line carries the field's own name, every other line begins with SP/TAB). -/
theorem C17_verbatim_field_safe (h : Bytes) (hv : hfieldValid h = true) (hl : logicalLine h = true)
    (hn : nameIn hiddenFields h = false) : pieceSafe h = true :=
  verbatim_safe h hv hl hn

/-- `Subject: a` LF SP `Bcc: x` LF — the second line looks like a Bcc field but is a continuation line -/
example : pieceSafe [83, 117, 98, 106, 101, 99, 116, 58, 32, 97, 10, 32, 66, 99, 99, 58, 32, 120, 10] = true := by decide +kernel
/-- complement: the same without the SP is not one logical line, and not a safe piece -/
example : logicalLine [83, 117, 98, 106, 101, 99, 116, 58, 32, 97, 10, 66, 99, 99, 58, 32, 120, 10] = false ∧
    pieceSafe [83, 117, 98, 106, 101, 99, 116, 58, 32, 97, 10, 66, 99, 99, 58, 32, 120, 10] = false := by decide +kernel

/-- **Bcc removal on the final text, PARTIAL** (extends `C17_bcc_message_partial`; the full statement is the same
without the hypotheses `hfrom` and `hrw`).  For every message and option set with which qmail-inject exits 0 and
queues: if the Date and Message-ID texts of the environment are safe pieces (input-level), and the generated From
field and every REWRITTEN field text (fields of class ≠ 0: the address-bearing fields, re-written by
`token822_unparse`) are safe pieces, then the independent reader `Spec.Addr.fieldNames` finds NO
Bcc/Resent-Bcc/Return-Path/Content-Length name in the message handed to qmail-queue.  Proved here, not assumed:
the message is header pieces followed by nothing or by a body that begins with an empty line (`headerbody` always
delivers one: `bodyOf`), so the reader's header is made of lines of the pieces only; every field kept VERBATIM
(class 0, e.g. Subject, Received, unknown names — whatever LF/continuations it holds) is a safe piece by
`C17_headerbody_laws` + `C17_verbatim_field_safe`; dropped fields contribute nothing; the generated
`Cc: recipient list not shown: ;` is safe.  NOT proved (so `_partial`, and still oracle `Ihidden` on every produced
message): `pieceSafe (token822_unparse …)` for the rewritten fields and the generated From, i.e. the line structure
of `token822_unparse`'s output (a quoted string may hold `\` LF) and that its first line carries the field's name. -/
theorem C17_bcc_text_partial (e : Env) (a : Args) (inp : Bytes) (dd dh pd : List Tok)
    (hdd : parse ([46] ++ e.defaultdomain) = some dd) (hdh : parse ([AT] ++ e.defaulthost) = some dh)
    (hpd : parse ([46] ++ e.plusdomain) = some pd)
    (hex : (inject e a inp).exit = 0) (hq : a.queue = true)
    (hdate : pieceSafe e.date = true ∧ pieceSafe (str "Resent-" ++ e.date) = true)
    (hmsgid : pieceSafe (msgid e) = true ∧ pieceSafe (str "Resent-" ++ msgid e) = true)
    (hfrom : ∀ t, defaultFrom e ⟨dh, dd, pd⟩ = some t → pieceSafe t = true ∧ pieceSafe (str "Resent-" ++ t) = true)
    (hrw : ∀ h ∈ specFields inp, (fieldClass (hfieldKnown h)).1 ≠ 0 →
      ∀ p ∈ savedContribution e ⟨dh, dd, pd⟩ h, pieceSafe p = true) :
    ∀ n ∈ fieldNames (inject e a inp).msg, n ∉ hiddenFields := by
  obtain ⟨⟨rp, d, m, f, cc, hrp, hmsg, hd, hm, hf, hcc⟩, _⟩ := C17_bcc_message_partial e a inp dd dh pd hdd hdh hpd hex
  have hrp0 := hrp hq
  subst hrp0
  have hfields := (C17_headerbody_spec inp).1
  have hlaws := (C17_headerbody_laws inp).2.2
  have hbody : (headerbody inp).body.flatten = [] ∨ ∃ b', (headerbody inp).body.flatten = LF :: b' := by
    rw [(C17_headerbody_spec inp).2]; exact bodyOf_head _
  have hre : (inject e a inp).msg =
      ([d, m, f, cc] ++ (headerbody inp).fields.flatMap (savedContribution e ⟨dh, dd, pd⟩)).flatten ++ (headerbody inp).body.flatten := by
    rw [hmsg]; simp
  rw [hre]
  apply fieldNames_safe _ _ ?_ hbody
  intro p hp
  simp only [List.mem_append, List.mem_cons, List.mem_flatMap, List.not_mem_nil, or_false] at hp
  rcases hp with (hp | hp | hp | hp) | ⟨h, hh, hp⟩
  · subst hp
    rcases hd with hd | hd | hd <;> subst hd
    · exact cc_safe.2.2
    · exact hdate.1
    · exact hdate.2
  · subst hp
    rcases hm with hm | hm | hm <;> subst hm
    · exact cc_safe.2.2
    · exact hmsgid.1
    · exact hmsgid.2
  · subst hp
    rcases hf with hf | ⟨t, ht, hf | hf⟩
    · rw [hf]; exact cc_safe.2.2
    · rw [hf]; exact (hfrom t ht).1
    · rw [hf]; exact (hfrom t ht).2
  · subst hp
    rcases hcc with hcc | hcc | hcc <;> subst hcc
    · exact cc_safe.2.2
    · exact cc_safe.1
    · exact cc_safe.2.1
  · by_cases hcls : (fieldClass (hfieldKnown h)).1 = 0
    · unfold savedContribution at hp
      simp only [hcls, if_true] at hp
      split at hp
      · simp at hp
      · split at hp
        · simp at hp
        · rename_i hdrop
          simp only [List.mem_singleton] at hp
          subst hp
          have hl := hlaws p hh
          have hn : nameIn hiddenFields p = false := by
            rw [← dropped_name p]; simpa using hdrop
          exact verbatim_safe p hl.1 hl.2.1 hn
    · exact hrw h (hfields ▸ hh) hcls p hp

/-- non-vacuity of `C17_bcc_text_partial`: `To: a@b` / `Bcc: k@l` / `Subject: s` LF SP `Bcc: x` / empty line / `z` -/
def exEnv4 : Env :=
  { mailuser := [117]
    defaultdomain := [100]
    defaulthost := [104]
    plusdomain := [112]
    idhost := [105]
    date := [68, 97, 116, 101, 58, 32, 120, 10]
    stamp := [49] }
def exInp4 : Bytes := [84, 111, 58, 32, 97, 64, 98, 10, 66, 99, 99, 58, 32, 107, 64, 108, 10,
  83, 117, 98, 106, 101, 99, 116, 58, 32, 115, 10, 32, 66, 99, 99, 58, 32, 120, 10, 10, 122, 10]
example :
    parse ([46] ++ exEnv4.defaultdomain) = some exCfg.defaultdomain ∧ parse ([AT] ++ exEnv4.defaulthost) = some exCfg.defaulthost ∧
    parse ([46] ++ exEnv4.plusdomain) = some exCfg.plusdomain ∧
    (inject exEnv4 {} exInp4).exit = 0 ∧
    pieceSafe exEnv4.date = true ∧ pieceSafe (msgid exEnv4) = true ∧
    (defaultFrom exEnv4 exCfg).all (fun t => pieceSafe t) = true ∧
    (∀ h ∈ specFields exInp4, (fieldClass (hfieldKnown h)).1 ≠ 0 → ∀ p ∈ savedContribution exEnv4 exCfg h, pieceSafe p = true) ∧
    (inject exEnv4 {} exInp4).recips = [[97, 64, 98, 46, 100], [107, 64, 108, 46, 100]] ∧
    fieldNames (inject exEnv4 {} exInp4).msg = [[100, 97, 116, 101], [109, 101, 115, 115, 97, 103, 101, 45, 105, 100], [102, 114, 111, 109], [116, 111], [115, 117, 98, 106, 101, 99, 116]] := by
  decide +kernel

end HiddenText

/-! ### Session 4: the converse of the header splitting, and the envelope from the raw bytes of a well-formed message -/

section WellFormed
open Nq.Spec.HeaderBody Nq.Lemmas.C17HB

/-- **Every well-formed message is split into exactly its fields.**  Write a message as field texts, each
well-formed (`wfField`: one logical line — it ends in LF and every other LF is followed by SP/TAB —, accepted by
`hfield_valid`, not a `From ` line), followed by nothing or by an empty line and ANY bytes.  Then `headerbody`
hands `dohf` exactly these texts, in order, and `dobl` the empty line and the bytes after it (a final LF supplied
if missing).  With `C17_headerbody_laws` (every delivered field IS well-formed up to the `From ` case) this makes
the description an exact inverse of concatenation. -/
theorem C17_headerbody_wellformed (texts : List Bytes) (tail : Bytes) (hw : ∀ t ∈ texts, wfField t = true)
    (htail : tail = [] ∨ ∃ b, tail = LF :: b) :
    (headerbody (texts.flatten ++ tail)).fields = texts ∧
    (headerbody (texts.flatten ++ tail)).body = linesOf tail ∧
    (headerbody (texts.flatten ++ tail)).body.flatten = norm tail := by
  obtain ⟨h1, h2⟩ := spec_wellformed texts tail hw htail
  have hb : (headerbody (texts.flatten ++ tail)).body = linesOf tail := by
    rw [(C17_headerbody_spec _).2, specBody, h2]
    rcases htail with h | ⟨b, h⟩
    · subst h; rfl
    · subst h; simp [linesOf, bodyOf]
  refine ⟨by rw [(C17_headerbody_spec _).1]; exact h1, hb, ?_⟩
  rw [hb, linesOf_flatten]

/-- `To: a` LF SP `b` LF and `X:` LF are well-formed -/
example : wfField [84, 111, 58, 32, 97, 10, 32, 98, 10] = true ∧ wfField [88, 58, 10] = true := by decide +kernel
/-- complements: a text holding two fields, a `From ` line, a text without colon are not -/
example : wfField [84, 111, 58, 32, 97, 10, 98, 58, 10] = false ∧ wfField [70, 114, 111, 109, 32, 58, 10] = false ∧
    wfField [97, 10] = false := by decide +kernel
/-- … and `To: a` LF `b:` LF is indeed delivered as two fields -/
example : specFields [84, 111, 58, 32, 97, 10, 98, 58, 10] = [[84, 111, 58, 32, 97, 10], [98, 58, 10]] := by decide +kernel

/-- description of one header field for `C17_envelope_end_to_end`: its text and what it must contribute to the
To/Cc/Bcc/Apparently-To list (`c1`) and to the Resent-To/Cc/Bcc list (`c2`) -/
structure FieldD where
  text : Bytes
  c1 : List Bytes
  c2 : List Bytes

/-- the field is EITHER a legal rendering (any quoting, white space, comments: the hypotheses of
`C17_field_end_to_end`) of `name : address-list tree L` whose own name is To/Cc/Bcc/Apparently-To (`cls = 1`) or
Resent-To/Cc/Bcc (`cls = 2`), and then contributes, to the list of its class, the tree's mailboxes rewritten by the
documented string-level rule and nothing to the other list; OR its name is none of these seven, and it contributes nothing -/
def FieldD.ok (c : RwCfg) (sp : RwSpec) (d : FieldD) : Prop :=
  (∃ (cls : Nat) (L : List Addr) (cts : List (Bytes × CTok)) (tr : Bytes) (name colon : Tok) (body : List Tok),
      d.text = render cts tr ∧ (∀ a ∈ L, a.ok) ∧ cts.all (fun p => p.2.ok) = true ∧ sepsOk false cts = true ∧ tr.all isWs = true ∧
      cts.map (fun p => p.2.tok) = name :: colon :: body ∧
      body.filter notComment = (((flatAddrs L).flatMap El.toks).reverse).filter notComment ∧
      (∀ m ∈ L.flatMap Addr.mailboxes, specShape (rwroute m) = true ∧ ∀ y, m ≠ .literal [] :: .at :: y) ∧
      ((cls = 1 ∧ nameIn rcptFields d.text = true ∧
          d.c1 = (L.flatMap Addr.mailboxes).map (fun m => specString sp (rwroute m)) ∧ d.c2 = []) ∨
       (cls = 2 ∧ nameIn resentRcptFields d.text = true ∧
          d.c2 = (L.flatMap Addr.mailboxes).map (fun m => specString sp (rwroute m)) ∧ d.c1 = []))) ∨
  (nameIn rcptFields d.text = false ∧ nameIn resentRcptFields d.text = false ∧ d.c1 = [] ∧ d.c2 = [])

/-- **The envelope from the raw bytes of a well-formed message** (`C17_headerbody_wellformed` ∘
`C17_envelope_from_bytes` ∘ `C17_field_end_to_end`): the input is the concatenation of well-formed field texts,
each described by a `FieldD` (a legal rendering of a recipient field, or not a recipient field), followed by nothing
or by an empty line and any body; the control values are sane (`CfgSpec`).  If qmail-inject exits 0 and queues, the
recipients handed to qmail-queue are the rewritten command-line arguments (per strategy) followed by the
concatenation, in field order, of the DOCUMENTED string-level rewritings of the listed mailboxes — those of the
Resent-To/Cc/Bcc fields if any field is one of the eight Resent- fields, else those of the
To/Cc/Bcc/Apparently-To fields.  No model function of headerbody.c / token822.c / the rewriting code appears in the
conclusion. -/
theorem C17_envelope_end_to_end (e : Env) (a : Args) (fs : List FieldD) (tail : Bytes) (dd dh pd : List Tok) (sp : RwSpec)
    (hdd : parse ([46] ++ e.defaultdomain) = some dd) (hdh : parse ([AT] ++ e.defaulthost) = some dh)
    (hpd : parse ([46] ++ e.plusdomain) = some pd) (hc : CfgSpec ⟨dh, dd, pd⟩ sp)
    (hwf : ∀ d ∈ fs, wfField d.text = true) (hok : ∀ d ∈ fs, d.ok ⟨dh, dd, pd⟩ sp)
    (htail : tail = [] ∨ ∃ b, tail = LF :: b)
    (hex : (inject e a ((fs.map (·.text)).flatten ++ tail)).exit = 0) (hq : a.queue = true) :
    (inject e a ((fs.map (·.text)).flatten ++ tail)).recips =
      ((if effStrategy a = 3 then [] else a.recips.filterMap (argAddress ⟨dh, dd, pd⟩)) ++
       (if effStrategy a = 2 then []
        else if (fs.map (·.text)).any (nameIn resentFields) then fs.flatMap (·.c2)
        else fs.flatMap (·.c1))).map cstr := by
  have hcontrib : ∀ d ∈ fs, hrContribution ⟨dh, dd, pd⟩ 1 d.text = d.c1 ∧ hrContribution ⟨dh, dd, pd⟩ 2 d.text = d.c2 := by
    intro d hd
    rcases hok d hd with ⟨cls, L, cts, tr, name, colon, body, ht, hL, hokc, hsep, htr, htoks, hskel, hshape, hcls⟩ | ⟨h1, h2, e1, e2⟩
    · rcases hcls with ⟨rfl, hn, e1, e2⟩ | ⟨rfl, hn, e2, e1⟩
      · have := C17_field_end_to_end ⟨dh, dd, pd⟩ sp hc 1 L cts tr name colon body hL hokc hsep htr htoks hskel hshape
          (Or.inl ⟨rfl, ht ▸ hn⟩)
        rw [ht, e1, e2]; exact this
      · have := C17_field_end_to_end ⟨dh, dd, pd⟩ sp hc 2 L cts tr name colon body hL hokc hsep htr htoks hskel hshape
          (Or.inr ⟨rfl, ht ▸ hn⟩)
        rw [ht, e1, e2]; exact ⟨this.2, this.1⟩
    · have n1 : ¬ (fieldClass (hfieldKnown d.text)).1 = 1 := fun h => by
        have := (rcpt_class_name d.text).mp h; rw [h1] at this; exact absurd this (by simp)
      have n2 : ¬ (fieldClass (hfieldKnown d.text)).1 = 2 := fun h => by
        have := (resent_class_name d.text).mp h; rw [h2] at this; exact absurd this (by simp)
      simp [hrContribution, n1, n2, e1, e2]
  have hflat : ∀ (k : Nat) (g : FieldD → List Bytes), (∀ d ∈ fs, hrContribution ⟨dh, dd, pd⟩ k d.text = g d) →
      (fs.map (·.text)).flatMap (hrContribution ⟨dh, dd, pd⟩ k) = fs.flatMap g := by
    intro k g hg
    rw [List.flatMap_map]
    exact flatMap_congr' _ _ _ hg
  have hfields := (spec_wellformed (fs.map (·.text)) tail (by
    intro t ht
    simp only [List.mem_map] at ht
    obtain ⟨d, hd, rfl⟩ := ht
    exact hwf d hd) htail).1
  have := C17_envelope_from_bytes e a _ dd dh pd hdd hdh hpd hex hq
  rw [this]
  simp only [specFields, hfields]
  rw [hflat 1 (·.c1) (fun d hd => (hcontrib d hd).1), hflat 2 (·.c2) (fun d hd => (hcontrib d hd).2)]
  have hany : (fs.map (·.text)).any isResentField = (fs.map (·.text)).any (nameIn resentFields) := by
    congr 1; funext h; exact isResentField_name h
  rw [hany]

/-- non-vacuity of `C17_envelope_end_to_end`: the message `To: a@b,` LF SP `c@x+` LF `Subject: s` LF LF `z` -/
def exFieldTo : FieldD := ⟨render exCts2 [10], [[99, 64, 120, 46, 112], [97, 64, 98, 46, 100]], []⟩
def exFieldSubj : FieldD := ⟨[83, 117, 98, 106, 101, 99, 116, 58, 32, 115, 10], [], []⟩
example : wfField exFieldTo.text = true ∧ wfField exFieldSubj.text = true := by decide +kernel
example : exFieldSubj.ok exCfg exSp := Or.inr (by decide +kernel)
example : exFieldTo.ok exCfg exSp :=
  Or.inl ⟨1, exTree2, exCts2, [10], .atom [84, 111], .colon, _, rfl,
    (by intro a h
        simp only [exTree2, List.mem_cons, List.not_mem_nil, or_false] at h
        rcases h with rfl | rfl <;> simp [Addr.ok, Item.ok, sepOkC, notComment, isWordTok, isSepTok]),
    by decide, by decide, by decide, rfl, by decide,
    (by intro m hm
        have : exTree2.flatMap Addr.mailboxes = [[.atom [120, 43], .at, .atom [99]], [.atom [98], .at, .atom [97]]] := by decide
        rw [this] at hm
        simp only [List.mem_cons, List.not_mem_nil, or_false] at hm
        rcases hm with rfl | rfl <;> exact ⟨by decide, fun y h => by simp at h⟩),
    Or.inl ⟨rfl, by decide, by decide, rfl⟩⟩
example : (inject exEnv4 {} (([exFieldTo, exFieldSubj].map (·.text)).flatten ++ [10, 122])).exit = 0 ∧
    (inject exEnv4 {} (([exFieldTo, exFieldSubj].map (·.text)).flatten ++ [10, 122])).recips = [[99, 64, 120, 46, 112], [97, 64, 98, 46, 100]] := by
  decide +kernel

end WellFormed

/-! ### Session 4: the line structure of `token822_unparse`'s output, and Bcc removal on the final text from token-level conditions -/

section UnparseLines
open Nq.Spec.HeaderBody Nq.Spec.Hidden Nq.Lemmas.C17HB Nq.Lemmas.C17Hid Nq.Lemmas.C17UL

/-- **`token822_unparse` writes ONE logical line** — for every line length (whatever the `NSUW` folding macro
deletes or keeps) and every token list in which no token holds a LF: the output ends in LF and every other LF in it
is followed by SP (the folds).  Invariant of the second pass: "every LF written so far is followed by SP, and `linee`
points at such a pair", preserved by the macro's deletion of a tentative fold. -/
theorem C17_unparse_logical_line (n : Nat) (ts : List Tok) (h : ts.all lfFree = true) :
    logicalLine (unparse n ts) = true :=
  unparse_logical n ts h

example : unparse 3 [.atom [97], .comma, .atom [98], .comma, .atom [99]] = [97, 44, 10, 32, 32, 98, 44, 10, 32, 32, 99, 10] ∧
    logicalLine [97, 44, 10, 32, 32, 98, 44, 10, 32, 32, 99, 10] = true := by decide
/-- complement: a quoted string holding LF `B` is written `"\` LF `B"` — the second line begins with `B`; the
hypothesis cannot be dropped -/
example : lfFree (.quote [10, 66]) = false ∧ unparse 80 [.atom [84], .colon, .quote [10, 66]] = [84, 58, 32, 34, 92, 10, 66, 34, 10] ∧
    logicalLine [84, 58, 32, 34, 92, 10, 66, 34, 10] = false := by decide

/-- **… and for `name : tokens` it is a safe piece**: if moreover the token list begins with an atom and a colon
and the atom's text (optionally with `pre`, e.g. `Resent-`, in front) is not a hidden field name (`toksSafe`), then no
line of `pre ++ token822_unparse(tokens)` can be taken for a Bcc/Resent-Bcc/Return-Path/Content-Length field by the
independent reader: its first line carries that name, every other line begins with SP. -/
theorem C17_unparse_safe (pre : Bytes) (hpre : LF ∉ pre) (n : Nat) (ts : List Tok) (h : toksSafe pre ts = true) :
    pieceSafe (pre ++ unparse n ts) = true :=
  unparse_safe_pre pre hpre n ts h

example : toksSafe [] [.atom [84, 111], .colon, .atom [97], .at, .quote [98, 32, 99]] = true := by decide +kernel
/-- complement: `Bcc : x` as tokens is not `toksSafe` (hidden name), nor is a list that does not begin `atom :` -/
example : toksSafe [] [.atom [66, 99, 99], .colon, .atom [120]] = false ∧ toksSafe [] [.quote [84], .colon] = false := by decide +kernel

/-- **Bcc removal on the final text from TOKEN-level conditions, PARTIAL** (strengthens `C17_bcc_text_partial`: the
hypotheses about the TEXT of the rewritten fields and of the generated From are replaced by conditions on the token
lists handed to `token822_unparse`).  For every message and option set with which qmail-inject exits 0 and queues:
if the Date and Message-ID texts of the environment are safe pieces, and for the generated From field (`fromOk`) and
for every address-bearing field of the input that is not itself dropped (`rewrittenOk`; class ≠ 0, name not hidden) the token list that `token822_addrlist`
produces — when it accepts — begins with `atom :`, holds no LF in any token and names no hidden field, then the
independent reader finds no Bcc/Resent-Bcc/Return-Path/Content-Length name in the message handed to qmail-queue.
Still NOT proved (hence `_partial`; oracle `Ihidden` covers it on every produced message): (i) that
`token822_addrlist`/`rwgeneric` keep the field's first two tokens and put no LF into a token — i.e. `rewrittenOk` from
a condition on the INPUT field text; (ii) the case of a token that does hold a LF (a quoted-pair `\` LF in a quoted
string, comment, literal, or after an atom), where `token822_unparse` writes `\` LF and the next line begins with
whatever follows. -/
theorem C17_bcc_text_tokens_partial (e : Env) (a : Args) (inp : Bytes) (dd dh pd : List Tok)
    (hdd : parse ([46] ++ e.defaultdomain) = some dd) (hdh : parse ([AT] ++ e.defaulthost) = some dh)
    (hpd : parse ([46] ++ e.plusdomain) = some pd)
    (hex : (inject e a inp).exit = 0) (hq : a.queue = true)
    (hdate : pieceSafe e.date = true ∧ pieceSafe (str "Resent-" ++ e.date) = true)
    (hmsgid : pieceSafe (msgid e) = true ∧ pieceSafe (str "Resent-" ++ msgid e) = true)
    (hfrom : fromOk e ⟨dh, dd, pd⟩ = true)
    (hrw : ∀ h ∈ specFields inp, (fieldClass (hfieldKnown h)).1 ≠ 0 → nameIn hiddenFields h = false →
      rewrittenOk ⟨dh, dd, pd⟩ h = true) :
    ∀ n ∈ fieldNames (inject e a inp).msg, n ∉ hiddenFields := by
  apply C17_bcc_text_partial e a inp dd dh pd hdd hdh hpd hex hq hdate hmsgid
  · exact fun t ht => defaultFrom_safe e _ hfrom t ht
  · intro h hh hcls p hp
    have hl := (C17_headerbody_laws inp).2.2 h ((C17_headerbody_spec inp).1 ▸ hh)
    unfold savedContribution at hp
    simp only [hcls, if_false] at hp
    split at hp
    · simp at hp
    · split at hp
      · simp at hp
      · rename_i hdrop
        simp only [List.mem_singleton] at hp
        subst hp
        have hn : nameIn hiddenFields h = false := by
          rw [← dropped_name h]; simpa using hdrop
        exact rewriteField_safe _ _ h hl.1 hl.2.1 hn (hrw h hh hcls hn)

/-- non-vacuity (the message of `exInp4`): the token-level conditions hold -/
example : fromOk exEnv4 exCfg = true ∧
    (∀ h ∈ specFields exInp4, (fieldClass (hfieldKnown h)).1 ≠ 0 → nameIn hiddenFields h = false → rewrittenOk exCfg h = true) :=
  ⟨by decide +kernel, by decide +kernel⟩

end UnparseLines

end Nq.Props.C17
