/-
  C02 — Every queue entry is always in a documented state under any interleaving.

  Model: `Nq.QueueSys` (any number of qmail-queue instances, qmail-send with its qmail-clean, further
  qmail-send instances, the clock, crashes; one event per system call).  Invariant and its
  preservation: `Nq/Lemmas/QueueSysInv.lean`.  Tie: `harness/c02_queuesys.c` runs the real
  qmail-queue (up to three instances), qmail-send (two instances) and qmail-clean as threads under
  qsim with a schedule decision before every queue-directory system call, faults, kills, clock jumps,
  crashes and restarts; `Drv/C02.lean` abstracts each trace to `QueueSys.Ev`, replays it through
  `QueueSys.accept`, and evaluates the predicates below on the concrete directory contents.

  "Reachable" = reached from the empty queue by any accepted event sequence: no bound on the number of
  messages, instances, steps, restarts or crashes.
-/
import Nq.QueueSys
import Nq.Lemmas.QueueSysInv

namespace Nq.Props.C02
open Nq Nq.QueueSys

def Reach (s : St) : Prop := ∃ es, acceptAll {} es = some s

theorem reach_inv {s : St} (h : Reach s) : Inv s := by
  obtain ⟨es, he⟩ := h
  exact inv_acceptAll {} s es inv_init he

theorem reach_step {s s' : St} {e : Ev} (h : Reach s) (ha : accept s e = some s') : Reach s' := by
  obtain ⟨es, he⟩ := h
  refine ⟨es ++ [e], ?_⟩
  have : ∀ (t : St) (l : List Ev), acceptAll t l = some s → acceptAll t (l ++ [e]) = some s' := by
    intro t l
    induction l generalizing t with
    | nil => intro h0; simp [acceptAll] at h0; subst h0; simp [acceptAll, ha]
    | cons x xs ih =>
      intro h0
      simp only [acceptAll, List.cons_append] at h0 ⊢
      split at h0
      next t1 h1 => exact ih t1 h0
      · cases h0
  exact this {} es he

/-- **States.** At every instant - after any interleaving of any number of injectors with the daemon
and its cleaner, any clock behaviour, and any number of crashes and restarts at any instant - every
message number is in one of the states S1-S5 of INTERNALS.md. -/
theorem C02_states {s : St} (h : Reach s) (n : Nat) : (s.fl n).documented = true :=
  (reach_inv h).doc n

/-- **Name = inode.** If mess/n exists, it names inode n. -/
theorem C02_inode {s : St} (h : Reach s) (n : Nat) (hm : (s.fl n).mess = true) : s.messIno n = n :=
  (reach_inv h).ino n hm

/-- **Numbers are not shared (1).** When qmail-queue links its pid file to mess/m, message m is in
state S1: none of the seven files exists, so no other message has that number. -/
theorem C02_unique_link {s s' : St} (h : Reach s) (i m : Nat) (ha : accept s (.iLinkMess i m) = some s') :
    s.fl m = {} ∧ s'.messIno m = m := by
  have hi := reach_inv h
  simp only [accept] at ha
  split at ha
  next t0 n hpc =>
    split at ha
    next hg =>
      obtain ⟨hal, rfl, hp, hm⟩ := hg
      cases ha
      exact ⟨doc_nomess (hi.doc m) hm, by simp⟩
    · cases ha
  all_goals cases ha

/-- **Numbers are not shared (2).** Two running qmail-queue instances never work on the same number. -/
theorem C02_unique_owners {s : St} (h : Reach s) (i j n : Nat) (hij : i ≠ j)
    (hi : (s.inj i).num = some n) (hj : (s.inj j).num = some n)
    (ai : s.alive (s.inj i).t0 = true) (aj : s.alive (s.inj j).t0 = true) : False :=
  (reach_inv h).distinct i j n hij hi hj ai aj

/-- a running qmail-queue's number carries exactly the files its control point says (S1, S2 or S3) -/
theorem C02_owner_state {s : St} (h : Reach s) (i n : Nat) (hi : (s.inj i).num = some n)
    (ai : s.alive (s.inj i).t0 = true) : s.fl n = (s.inj i).flags :=
  ((reach_inv h).own i n hi ai).1

/-! ### documented moves only -/

/-- which file of which message an event creates (`true`) or removes (`false`) -/
def touch : Ev → Option (Nat × File × Bool)
  | .iLinkMess _ m => some (m, .mess, true)
  | .iCreatIntd _ m => some (m, .intd, true)
  | .iLinkTodo _ m => some (m, .todo, true)
  | .iUnIntd _ m => some (m, .intd, false)
  | .iUnMess _ m => some (m, .mess, false)
  | .dUnlink n f => some (n, f, false)
  | .dCreat n f => some (n, f, true)
  | .cUnlink n f _ => some (n, f, false)
  | _ => none

/-- every event changes at most one file of one message, the one it names -/
theorem step_touch (s s' : St) (e : Ev) (ha : accept s e = some s') :
    s'.fl = match touch e with
            | none => s.fl
            | some (n, f, b) => upd s.fl n ((s.fl n).set f b) := by
  cases e with
  | tick t => simp only [accept] at ha; split at ha <;> cases ha; rfl
  | iStart i d => simp only [accept] at ha; split at ha <;> cases ha; rfl
  | iOpenPid i n => simp only [accept] at ha; (repeat' split at ha) <;> cases ha; rfl
  | iLinkMess i m =>
    simp only [accept] at ha; (repeat' split at ha) <;> try cases ha
    rename_i hg; obtain ⟨_, rfl, _⟩ := hg; rfl
  | iUnlinkPid i => simp only [accept] at ha; (repeat' split at ha) <;> cases ha; rfl
  | iCreatIntd i m =>
    simp only [accept] at ha; (repeat' split at ha) <;> try cases ha
    rename_i hg; obtain ⟨_, rfl, _⟩ := hg; rfl
  | iLinkTodo i m =>
    simp only [accept] at ha; (repeat' split at ha) <;> try cases ha
    rename_i hg; obtain ⟨_, rfl, _⟩ := hg; rfl
  | iUnIntd i m =>
    simp only [accept] at ha; (repeat' split at ha) <;> try cases ha
    rename_i hg; obtain ⟨_, rfl, _⟩ := hg; rfl
  | iUnMess i m =>
    simp only [accept] at ha; (repeat' split at ha) <;> try cases ha
    all_goals (rename_i hg; obtain ⟨_, rfl, _⟩ := hg; rfl)
  | iDie i => simp only [accept] at ha; cases ha; rfl
  | dStart => simp only [accept] at ha; split at ha <;> cases ha; rfl
  | dRefused => simp only [accept] at ha; split at ha <;> cases ha; rfl
  | dDie => simp only [accept] at ha; split at ha <;> cases ha; rfl
  | dObs n f p => simp only [accept] at ha; (repeat' split at ha) <;> cases ha <;> rfl
  | dOpenTodo n => simp only [accept] at ha; split at ha <;> cases ha; rfl
  | dAbortTodo => simp only [accept] at ha; split at ha <;> cases ha; rfl
  | dUnlink n f =>
    simp only [accept] at ha; (repeat' split at ha) <;> try cases ha
    all_goals first | rfl | (rename_i hg; subst hg; rfl)
  | dCreat n f =>
    simp only [accept] at ha; (repeat' split at ha) <;> try cases ha
    all_goals first | rfl | (rename_i hg; obtain ⟨rfl, _⟩ := hg; rfl)
  | dReq b n =>
    cases b <;> simp only [accept] at ha <;> (repeat' split at ha) <;> cases ha <;> rfl
  | cUnlink n f ok =>
    simp only [accept] at ha; (repeat' split at ha) <;> try cases ha
    all_goals (rename_i hg; obtain ⟨rfl, _⟩ := hg; rfl)
  | cDone plus => simp only [accept] at ha; (repeat' split at ha) <;> cases ha <;> rfl
  | cUnlinkPid n => simp only [accept] at ha; split at ha <;> cases ha; rfl
  | crash => simp only [accept] at ha; cases ha; rfl

theorem forall_file (p : File → Prop) :
    (∀ x, p x) ↔ p .mess ∧ p .intd ∧ p .todo ∧ p .info ∧ p .loc ∧ p .rem ∧ p .bounce :=
  ⟨fun h => ⟨h _, h _, h _, h _, h _, h _, h _⟩, fun ⟨h1, h2, h3, h4, h5, h6, h7⟩ x => by cases x <;> assumption⟩

instance (p : File → Prop) [DecidablePred p] : Decidable (∀ x, p x) := decidable_of_iff _ (forall_file p).symm

theorem move_ok : ∀ (a b c d e g k : Bool) (x : File) (v : Bool),
    (Flags.mk a b c d e g k).documented = true → ((Flags.mk a b c d e g k).set x v).documented = true →
    (x = .todo → v = true → (Flags.mk a b c d e g k).isS3 = true) →
    (x = .todo → v = false → (Flags.mk a b c d e g k).info = true) →
    (x = .info → v = true → (Flags.mk a b c d e g k).todo = true) →
    allowedMove (Flags.mk a b c d e g k).cls ((Flags.mk a b c d e g k).set x v).cls = true := by
  decide

/-- qmail-send itself neither creates nor removes todo/ entries -/
theorem daemon_no_todo (s s' : St) (n : Nat) :
    accept s (.dCreat n .todo) ≠ some s' ∧ accept s (.dUnlink n .todo) ≠ some s' := by
  constructor <;> intro ha <;> simp only [accept] at ha <;> split at ha <;> try cases ha
  all_goals
    cases hm : s.mode <;> simp only [hm] at ha <;> try cases ha
  all_goals
    rename_i m b; cases b <;> simp only at ha <;> cases ha

/-- todo/m is created only by the qmail-queue that owns m, from S3 -/
theorem todo_add (s s' : St) (e : Ev) (hi : Inv s) (ha : accept s e = some s') (m : Nat)
    (ht : touch e = some (m, .todo, true)) : (s.fl m).isS3 = true := by
  cases e with
  | iLinkTodo i m' =>
    simp only [touch, Option.some.injEq, Prod.mk.injEq, and_true] at ht; subst ht
    simp only [accept] at ha
    split at ha
    next t0 n' hpc =>
      split at ha
      next hg =>
        obtain ⟨hal, rfl, _⟩ := hg
        have := (hi.own i m' (by simp [hpc, IPc.num]) (by simpa [hpc, IPc.t0] using hal)).1
        rw [this]; simp [hpc, IPc.flags]; decide
      · cases ha
    all_goals cases ha
  | dCreat n f =>
    simp only [touch, Option.some.injEq, Prod.mk.injEq, and_true] at ht
    obtain ⟨rfl, rfl⟩ := ht
    exact absurd ha (daemon_no_todo s s' n).1
  | _ => simp [touch] at ht

/-- todo/m is removed only by qmail-clean, after info/m exists -/
theorem todo_del (s s' : St) (e : Ev) (hi : Inv s) (ha : accept s e = some s') (m : Nat)
    (ht : touch e = some (m, .todo, false)) : (s.fl m).info = true := by
  cases e with
  | dUnlink n f =>
    simp only [touch, Option.some.injEq, Prod.mk.injEq, and_true] at ht
    obtain ⟨rfl, rfl⟩ := ht
    exact absurd ha (daemon_no_todo s s' n).2
  | cUnlink n f ok =>
    simp only [touch, Option.some.injEq, Prod.mk.injEq, and_true] at ht
    obtain ⟨rfl, rfl⟩ := ht
    simp only [accept] at ha
    have hmi := hi.mode
    cases hm : s.mode <;> simp only [hm] at ha <;> try cases ha
    rw [ModeInv, hm] at hmi
    split at ha
    next hg => obtain ⟨rfl, _⟩ := hg; exact hmi.2.2.2.2.1
    · cases ha
  | _ => simp [touch] at ht

/-- info/m is created only by todo_do, while todo/m exists -/
theorem info_add (s s' : St) (e : Ev) (hi : Inv s) (ha : accept s e = some s') (m : Nat)
    (ht : touch e = some (m, .info, true)) : (s.fl m).todo = true := by
  cases e with
  | dCreat n f =>
    simp only [touch, Option.some.injEq, Prod.mk.injEq, and_true] at ht
    obtain ⟨rfl, rfl⟩ := ht
    simp only [accept] at ha
    have hmi := hi.mode
    split at ha
    · cases hm : s.mode <;> simp only [hm] at ha <;> try cases ha
      rename_i m' b
      rw [ModeInv, hm] at hmi
      cases b <;> simp only at ha
      · split at ha
        next hg => obtain ⟨rfl, _⟩ := hg; exact hmi.2.2.1
        · cases ha
      · cases ha
    · cases ha
  | _ => simp [touch] at ht

/-- **Documented moves only.** Every step of every actor leaves every message where it was or moves
it along an arrow of INTERNALS.md sections 3-6 (S1→S2→S3→S4→S5→S2→S1, S3→S2); in particular files
of a message disappear only in the documented order. -/
theorem C02_moves {s s' : St} {e : Ev} (h : Reach s) (ha : accept s e = some s') (n : Nat) :
    allowedMove (s.fl n).cls (s'.fl n).cls = true := by
  have hi := reach_inv h
  have hi' := reach_inv (reach_step h ha)
  have hd := hi.doc n
  have hd' := hi'.doc n
  have hst := step_touch s s' e ha
  have hstay : ∀ f : Flags, f.documented = true → allowedMove f.cls f.cls = true := by
    intro ⟨a, b, c, d, e, g, k⟩; revert a b c d e g k; decide
  cases ht : touch e with
  | none => rw [ht] at hst; rw [hst]; exact hstay _ hd
  | some t =>
    obtain ⟨m, x, v⟩ := t
    rw [ht] at hst
    by_cases hn : n = m
    · subst hn
      have hfl : s'.fl n = (s.fl n).set x v := by rw [hst]; simp
      rw [hfl] at hd' ⊢
      have h1 : x = .todo → v = true → (s.fl n).isS3 = true := by
        intro hx hv; subst hx hv; exact todo_add s s' e hi ha n ht
      have h2 : x = .todo → v = false → (s.fl n).info = true := by
        intro hx hv; subst hx hv; exact todo_del s s' e hi ha n ht
      have h3 : x = .info → v = true → (s.fl n).todo = true := by
        intro hx hv; subst hx hv; exact info_add s s' e hi ha n ht
      rcases hf : s.fl n with ⟨a, b, c, d, e', g, k⟩
      rw [hf] at hd hd' h1 h2 h3
      exact move_ok a b c d e' g k x v hd hd' h1 h2 h3
    · have : s'.fl n = s.fl n := by rw [hst]; simp [upd, hn]
      rw [this]; exact hstay _ hd

/-- **Order of removal (bounce record).** qmail-send removes bounce/n only when local/n and remote/n
are gone. -/
theorem C02_order_bounce {s s' : St} (h : Reach s) (n : Nat) (ha : accept s (.dUnlink n .bounce) = some s') :
    (s.fl n).loc = false ∧ (s.fl n).rem = false ∧ (s.fl n).todo = false ∧ (s.fl n).info = true := by
  have hi := reach_inv h
  simp only [accept] at ha
  split at ha
  · cases hm : s.mode <;> simp only [hm] at ha <;> try cases ha
    · split at ha
      next hg =>
        obtain ⟨hcur, hl, hr, ht, hip⟩ := hg
        have h1 := hi.kn.locAbs hl; have h2 := hi.kn.remAbs hr; have h4 := hi.kn.infoPres hip
        have h3 := hi.kn.todoAbs ht (Or.inl h4)
        rw [hcur] at h1 h2 h3 h4
        exact ⟨h1, h2, h3, h4⟩
      · cases ha
  · cases ha

/-- **Order of removal (info).** Outside re-preprocessing (todo/n absent) qmail-send removes info/n only
when local/n, remote/n and bounce/n are gone. -/
theorem C02_order_info {s s' : St} (h : Reach s) (n : Nat) (ha : accept s (.dUnlink n .info) = some s')
    (hnt : (s.fl n).todo = false) :
    (s.fl n).loc = false ∧ (s.fl n).rem = false ∧ (s.fl n).bounce = false := by
  have hi := reach_inv h
  simp only [accept] at ha
  split at ha
  · cases hm : s.mode <;> simp only [hm] at ha <;> try cases ha
    · split at ha
      next hg =>
        obtain ⟨hcur, hl, hr, ht, hip, hb⟩ := hg
        have h1 := hi.kn.locAbs hl; have h2 := hi.kn.remAbs hr; have h3 := hi.kn.bounceAbs hb
        rw [hcur] at h1 h2 h3
        exact ⟨h1, h2, h3⟩
      · cases ha
    · rename_i m b
      have hmi := hi.mode; rw [ModeInv, hm] at hmi
      cases b <;> simp only at ha
      · split at ha
        next hg => subst hg; rw [hmi.2.2.1] at hnt; cases hnt
        · cases ha
      · cases ha
  · cases ha

/-- **Order of removal (message body last).** mess/n is removed only when nothing else of n exists. -/
theorem C02_order_mess {s s' : St} {e : Ev} (h : Reach s) (ha : accept s e = some s') (n : Nat)
    (hm : (s.fl n).mess = true) (hm' : (s'.fl n).mess = false) : s'.fl n = {} :=
  doc_nomess ((reach_inv (reach_step h ha)).doc n) hm'

/-- **Stale leftovers.** qmail-send asks qmail-clean to remove intd/n and mess/n ("foop/n") only
(a) right after it removed info/n itself (elimination of a finished message), or (b) when inode n is
more than OSSIFIED = 36 hours old and it saw that neither info/n nor todo/n exists - and these facts
still hold at that moment; in both cases no running qmail-queue is working on n. -/
theorem C02_stale {s s' : St} (h : Reach s) (n : Nat) (ha : accept s (.dReq false n) = some s') :
    (s.fl n).info = false ∧ (s.fl n).todo = false ∧ noLiveOwner s n ∧
    (s.k.unlinkedInfo = true ∨ s.atime n + 36 * 3600 < s.now) := by
  have hi := reach_inv h
  simp only [accept] at ha
  split at ha
  all_goals first | cases ha | skip
  split at ha
  next hg =>
    obtain ⟨hup, hcur, hc⟩ := hg
    rcases hc with hu | ⟨hmp, hia, hta, hst⟩
    · have := hi.kn.unlinkedInfo hu
      rw [hcur] at this
      rw [this.1]; exact ⟨rfl, rfl, this.2, Or.inl hu⟩
    · have h2 := hi.kn.infoAbs hia; have h3 := hi.kn.todoAbs hta
      rw [hcur] at h2 h3
      refine ⟨h2, h3 (Or.inr hst), noLiveOwner_of s hi n (Or.inr (Or.inr hst)), Or.inr ?_⟩
      have : OSSIFIED = 36 * 3600 := by decide
      simpa [St.stale, this] using hst
  · cases ha

/-- while qmail-clean works on "foop/n" no running qmail-queue owns n, and n has neither info nor todo -/
theorem C02_stale_window {s : St} (h : Reach s) (n : Nat) (hm : s.mode = .foopC1 n ∨ s.mode = .foopC2 n) :
    noLiveOwner s n ∧ (s.fl n).info = false ∧ (s.fl n).todo = false := by
  have hmi := (reach_inv h).mode
  rcases hm with hm | hm <;> rw [ModeInv, hm] at hmi
  · exact ⟨hmi.2.2.2.2, hmi.2.2.2.1, hmi.2.2.1⟩
  · rw [hmi.2.1]; exact ⟨hmi.2.2, rfl, rfl⟩

/-- the injector's suicide timer fires well before anything of it can be considered stale -/
theorem C02_timer : DEATH < OSSIFIED ∧ OSSIFIED = 36 * 3600 ∧ Nq.Gen.OSSIFIED_clean = Nq.Gen.OSSIFIED_send := by decide

/-- **One daemon.** A qmail-send instance gets the lock only if no other holds it; one that finds it
taken changes nothing at all. -/
theorem C02_mutex (s s' : St) :
    (accept s .dStart = some s' → s.up = false) ∧ (accept s .dRefused = some s' → s.up = true ∧ s' = s) := by
  constructor
  · intro ha; simp only [accept] at ha; split at ha
    · assumption
    · cases ha
  · intro ha; simp only [accept] at ha; split at ha
    · next hu => cases ha; exact ⟨hu, rfl⟩
    · cases ha

/-- every queue-changing event of the daemon and its cleaner needs the lock to be held -/
theorem C02_mutex_needed (s s' : St) (h : Reach s) (e : Ev) (ha : accept s e = some s')
    (hd : match e with
          | .dUnlink _ _ | .dCreat _ _ | .cUnlink _ _ _ | .dReq _ _ | .dOpenTodo _ => True
          | _ => False) : s.up = true := by
  have hi := reach_inv h
  cases e <;> simp only at hd <;> simp only [accept] at ha
  · split at ha
    · next hg => exact hg.1
    · cases ha
  · split at ha
    · next hg => exact hg.1
    · cases ha
  · split at ha
    · assumption
    · cases ha
  · rename_i b n
    cases b <;> simp only at ha <;> split at ha
    all_goals first | cases ha | skip
    · split at ha
      · next hg => exact hg.1
      · cases ha
    · split at ha
      · next hg => exact hg.2
      · cases ha
  · have hmi := hi.mode
    split at ha
    all_goals first | cases ha | skip
    all_goals
      rename_i hm
      rw [ModeInv, hm] at hmi
      exact hmi.1

/-- **Crash.** A crash (every process dies at an arbitrary instant) changes no file name; the state it
leaves is reachable, so everything above holds after it and after any restart. -/
theorem C02_crash {s : St} (h : Reach s) :
    ∃ s', accept s .crash = some s' ∧ s'.fl = s.fl ∧ Reach s' ∧ s'.up = false ∧
      ∀ i, (s'.inj i).num = none := by
  obtain ⟨s', hacc, h1, h2, h3⟩ : ∃ s', accept s .crash = some s' ∧ s'.fl = s.fl ∧ s'.up = false ∧
      ∀ i, s'.inj i = crashPc (s.inj i) := ⟨_, rfl, rfl, rfl, fun _ => rfl⟩
  refine ⟨s', hacc, h1, reach_step h hacc, h2, ?_⟩
  intro i; rw [h3]; cases s.inj i <;> simp [crashPc, IPc.num]

/-! ### non-vacuity: a complete life of message 7 (and a refused second daemon, a stale leftover 9) is accepted -/

def life : List Ev :=
  [ .dStart, .dRefused, .iStart 0 86400, .iOpenPid 0 7, .iLinkMess 0 7, .iUnlinkPid 0, .iCreatIntd 0 7, .iLinkTodo 0 7,
    .iStart 1 86400, .iOpenPid 1 9, .iLinkMess 1 9, .iUnlinkPid 1, .iCreatIntd 1 9, .iDie 1,
    .dOpenTodo 7, .dObs 7 .loc false, .dObs 7 .rem false, .dObs 7 .info false, .dCreat 7 .info, .dCreat 7 .loc,
    .dReq true 7, .cUnlink 7 .intd true, .cUnlink 7 .todo true, .cDone true,
    .dCreat 7 .bounce, .dUnlink 7 .loc,
    .dObs 7 .loc false, .dObs 7 .rem false, .dObs 7 .todo false, .dObs 7 .info true,
    .dUnlink 7 .bounce, .dUnlink 7 .info, .dReq false 7, .cUnlink 7 .intd false, .cUnlink 7 .mess true, .cDone true,
    .tick 200000, .dObs 9 .mess true, .dObs 9 .info false, .dObs 9 .todo false,
    .dReq false 9, .cUnlink 9 .intd true, .cUnlink 9 .mess true, .cDone true, .crash, .dStart ]

example : (acceptAll {} life).isSome = true := by decide
example : ((acceptAll {} life).map fun s => ((s.fl 7).isS1, (s.fl 9).isS1, s.up)) = some (true, true, true) := by decide
/-- the cleanup of leftover 9 is refused before it is 36 hours old -/
example : (acceptAll {} ((life.take 36) ++ [.tick 100000, .dObs 9 .mess true, .dObs 9 .info false, .dObs 9 .todo false,
    .dReq false 9])).isSome = false := by decide
/-- removing info/7 while local/7 still exists is refused -/
example : (acceptAll {} ((life.take 25) ++ [.dObs 7 .rem false, .dObs 7 .todo false, .dObs 7 .info true, .dUnlink 7 .info])).isSome = false := by decide

end Nq.Props.C02
