/-
  C13 — Delivery instructions are interpreted as documented and loops are cut.

  Model: `Nq.Local` (qmail-local.c: safeext, qmesearch/qmeexists, checkhome, bouncexf, the Delivered-To /
  Return-Path lines, the -owner sender, the instruction loop, mailprogram's exit switch, main() as `run`),
  tied to the source by the translator (exit switch, conf-patrn, sticky / x bits, exit codes of the fixed
  diagnostics: `Nq.Gen.LocalExit`) and by the differential harness `harness/c13_local.c`, which runs the
  real `main()` in generated home directories.  `Nq.LocalSpec` is the documentation (dot-qmail(5),
  qmail-local(8), qmail-command(8)) written independently; compiled, it is the oracle of the check.
-/
import Nq.Lemmas.Local
import Nq.Lemmas.LocalOutcome
import Nq.Lemmas.LocalEnv
import Nq.Lemmas.LocalEnvRun

namespace Nq.Props.C13
open Nq Nq.Local Nq.Gen.LocalExit Nq.Lemmas.Local

/-! ### Which file controls the address -/

/-- **Search order.** For every `dash` and every extension the candidate names are exactly the documented
list: `.qmail<dash><ext>` (lower-cased, dots replaced by colons), then `.qmail<dash><prefix>default` for
the prefixes that are empty or end in a dash, longest first. -/
theorem C13_search_order (dash ext : Bytes) :
    (qmeCandidates dash (safeext ext)).map Cand.name = LocalSpec.candidates dash ext :=
  candidates_eq_spec dash ext

/-- …the `-default` candidates are indexed by strictly decreasing cut positions, each at a dash boundary, and
every boundary occurs (this is the loop of `qmesearch` itself, without reference to the specification). -/
theorem C13_search_boundaries (sx : Bytes) :
    (defIdx sx).Pairwise (· > ·) ∧ ∀ i, i ∈ defIdx sx ↔ i ≤ sx.length ∧ (i = 0 ∨ sx.getD (i - 1) 0 = DASH) :=
  ⟨defIdxFrom_sorted sx sx.length, fun i => mem_defIdxFrom sx sx.length i⟩

/-- **Selection.** A file is used iff it is the first candidate, in that order, that exists as a regular
file — and then only if it is not writable by others. -/
theorem C13_search (fs : Bytes → FStat) (cs : List Cand) (c : Cand) (mode : Nat) (content : Bytes) :
    qmeSelect fs cs = .found c mode content ↔
      ∃ pre post, cs = pre ++ c :: post ∧ (∀ x ∈ pre, fs x.name = .absent) ∧
        fs c.name = .reg mode content ∧ mode &&& patrn = 0 :=
  qmeSelect_found_iff fs c mode content cs

/-- the first candidate that is not absent decides — also when it cannot be read (defer) or is writable (defer) -/
theorem C13_search_decides (fs : Bytes → FStat) (pre post : List Cand) (c : Cand)
    (hpre : ∀ x ∈ pre, fs x.name = .absent) (hc : fs c.name ≠ .absent) :
    qmeSelect fs (pre ++ c :: post) =
      (match fs c.name with
       | .temp => .temp c.name
       | .reg m ct => if m &&& patrn ≠ 0 then .writable c.name else .found c m ct
       | .absent => .nofile) :=
  qmeSelect_decides fs c post pre hpre hc

/-- no file is selected iff none of the candidates exists -/
theorem C13_search_none (fs : Bytes → FStat) (cs : List Cand) :
    qmeSelect fs cs = .nofile ↔ ∀ x ∈ cs, fs x.name = .absent :=
  qmeSelect_nofile_iff fs cs

/-- the names the agent opens are exactly those the documented procedure has to look at, in order -/
theorem C13_search_opens (fs : Bytes → FStat) (look : Bytes → LocalSpec.Entry)
    (hl : ∀ n, look n = .missing ↔ fs n = .absent) (dash ext : Bytes) :
    qmeTried fs (qmeCandidates dash (safeext ext)) = LocalSpec.mustOpen look (LocalSpec.candidates dash ext) := by
  rw [← candidates_eq_spec]; exact qmeTried_eq_spec fs look hl _

/-- **Confinement.** Every name looked up is `.qmail` ++ dash ++ s where s contains no dot and no
upper-case letter, whatever bytes the extension contains (slashes included). -/
theorem C13_confined (dash ext : Bytes) (c : Cand) (hc : c ∈ qmeCandidates dash (safeext ext)) :
    ∃ s, c.name = dotQmail ++ dash ++ s ∧ DOT ∉ s ∧ ∀ b ∈ s, ¬ (65 ≤ b ∧ b ≤ 90) :=
  candidate_shape dash ext c hc

/-- …hence, `dash` being dot-free (it is "" or "-" in every standard configuration), the name is relative,
begins with ".qmail" and contains no "..": the lookup cannot climb out of the home directory. -/
theorem C13_confined_nodotdot (dash ext : Bytes) (hd : DOT ∉ dash) (c : Cand)
    (hc : c ∈ qmeCandidates dash (safeext ext)) : LocalSpec.confined c.name = true := by
  obtain ⟨s, e, hs, _⟩ := candidate_shape dash ext c hc
  rw [e, List.append_assoc]
  exact confined_of_no_dot (dash ++ s) (fun h => by rcases List.mem_append.1 h with h | h; exact hd h; exact hs h)

/-- **Confinement of a whole run.** Every name `main()` opens while searching for the control file *and* every name it
gives to `stat` for the `-owner` / `-owner-default` test (these are built from the same lower-cased, dot-free extension)
begins with ".qmail" and contains no "..". `tried` and `stats` are compared with the names the implementation passes
to `open_read` and `stat` on every generated case. -/
theorem C13_run_confined (a : Args) (w : World) (hd : DOT ∉ a.dash) :
    (∀ n ∈ (run a w).tried, LocalSpec.confined n = true) ∧ (∀ n ∈ (run a w).stats, LocalSpec.confined n = true) := by
  obtain ⟨ht, hs⟩ := run_tried_stats a w
  constructor
  · intro n hn
    rcases ht with h | h
    · rw [h] at hn; simp at hn
    · rw [h] at hn
      obtain ⟨c, hc, e⟩ := qmeTried_sub _ _ _ hn
      rw [← e]; exact C13_confined_nodotdot a.dash a.ext hd c hc
  · intro n hn
    rcases hs with h | h
    · rw [h] at hn; simp at hn
    · rw [h] at hn; exact ueoStats_confined a.dash a.ext a.sender w.ex hd n hn

/-- the names examined for the owner test are the documented ones (`LocalSpec.ownerNames`), and the envelope sender
depends on the home directory through these names only -/
theorem C13_owner_names (a : Args) (w : World) (hm : Nat) (ex' : Bytes → Option Bool) :
    ueoStats a.dash (safeext a.ext) a.sender w.ex = LocalSpec.ownerNames (settingOf a w hm) ∧
    ((∀ n ∈ ueoStats a.dash (safeext a.ext) a.sender w.ex, ex' n = w.ex n) →
      ueoOf a.loc a.dash (safeext a.ext) a.host a.sender ex' = ueoOf a.loc a.dash (safeext a.ext) a.host a.sender w.ex) :=
  ⟨(ownerNames_eq a w hm).symm, ueoOf_congr a.loc a.dash (safeext a.ext) a.host a.sender w.ex ex'⟩

/-- **$DEFAULT** (qmail-command(8)): for whichever candidate is selected, the variable is set iff the file name
ends in "default", to the part of the original (not lower-cased) extension that the word stands for. -/
theorem C13_default_env (dash ext : Bytes) (c : Cand) (hc : c ∈ qmeCandidates dash (safeext ext)) :
    c.dflt.map (fun i => ext.drop i) = LocalSpec.defaultVar dash ext c.name :=
  default_eq_spec dash ext c hc

/-- no mailbox: with a non-empty `dash` the message bounces (100) and nothing is delivered -/
theorem C13_nofile (a : Args) (w : World) (hh : HomeOK a w) (hn : NoLoop a)
    (hs : qmeSelect w.fs (qmeCandidates a.dash (safeext a.ext)) = .nofile) (hd : a.dash ≠ []) :
    Refused (run a w) 100 ∧ (run a w).why = some .noMailbox :=
  run_nofile_dash a w hh hn hs hd

/-- …with an empty `dash` (the user's own address) the default delivery instructions are followed -/
theorem C13_nofile_default (a : Args) (w : World) (hh : HomeOK a w) (hn : NoLoop a)
    (hs : qmeSelect w.fs (qmeCandidates a.dash (safeext a.ext)) = .nofile) (hd : a.dash = []) (u : Bytes)
    (hu : ueoOf a.loc a.dash (safeext a.ext) a.host a.sender w.ex = .ok u) :
    ∃ r0, run a w = deliver a w a.aliasempty false r0 ∧ r0.ueo = some u ∧ Fresh r0 :=
  run_nofile_nodash' a w hh hn hs hd u hu

/-- a selected file is followed (with the x-bit restriction); a 0-byte file means the default instructions. The record
`r0` the loop starts from is fresh (`Fresh`: exit code 0, no diagnostic, nothing done yet), so the exit code of the
run is the one `C13_exit_code` gives with `r.code = 0`. -/
theorem C13_found (a : Args) (w : World) (hh : HomeOK a w) (hn : NoLoop a) (c : Cand) (mode : Nat) (content u : Bytes)
    (hs : qmeSelect w.fs (qmeCandidates a.dash (safeext a.ext)) = .found c mode content)
    (hu : ueoOf a.loc a.dash (safeext a.ext) a.host a.sender w.ex = .ok u) :
    ∃ r0, r0.ueo = some u ∧ r0.sel = some c ∧ Fresh r0 ∧
      run a w = if content = [] then deliver a w a.aliasempty false r0 else deliver a w content (mode &&& xBit ≠ 0) r0 :=
  run_found' a w hh hn c mode content u hs hu

/-! ### Permissions -/

/-- a home directory writable by others (`conf-patrn` bits): defer (111); nothing opened, delivered or printed -/
theorem C13_perm_home (a : Args) (w : World) (m : Nat) (hm : w.home = some m) (hw : m &&& patrn ≠ 0) :
    Refused (run a w) 111 ∧ (run a w).tried = [] :=
  ⟨(run_home_writable a w m hm hw).1, by simp [run, checkhome, hm, hw]⟩

/-- a sticky home directory: defer (111) when delivering -/
theorem C13_perm_sticky (a : Args) (w : World) (m : Nat) (hm : w.home = some m) (hs : m &&& stickyBit ≠ 0)
    (hd : a.doit = true) : Refused (run a w) 111 ∧ (run a w).tried = [] ∧ (run a w).stats = [] := by
  refine ⟨run_home_sticky a w m hm hs hd, ?_⟩
  by_cases hw : m &&& patrn = 0
  · simp [run, checkhome, hm, hw, hs, hd]
  · simp [run, checkhome, hm, hw]

/-- a control file writable by others: defer (111), nothing delivered — even if a later candidate is fine -/
theorem C13_perm_file (a : Args) (w : World) (hh : HomeOK a w) (hn : NoLoop a) (pre post : List Cand) (c : Cand)
    (m : Nat) (ct : Bytes) (hc : qmeCandidates a.dash (safeext a.ext) = pre ++ c :: post)
    (hpre : ∀ x ∈ pre, w.fs x.name = .absent) (hf : w.fs c.name = .reg m ct) (hm : m &&& patrn ≠ 0) :
    Refused (run a w) 111 ∧ (run a w).why = some .qmailWritable := by
  apply run_qmail_writable a w hh hn c.name
  rw [hc, qmeSelect_decides w.fs c post pre hpre (by rw [hf]; simp), hf]
  simp [hm]

/-- a control file that cannot be read for a temporary reason: defer (111), no fallback to a later candidate -/
theorem C13_perm_unreadable (a : Args) (w : World) (hh : HomeOK a w) (hn : NoLoop a) (pre post : List Cand) (c : Cand)
    (hc : qmeCandidates a.dash (safeext a.ext) = pre ++ c :: post)
    (hpre : ∀ x ∈ pre, w.fs x.name = .absent) (hf : w.fs c.name = .temp) : Refused (run a w) 111 := by
  apply run_qmail_temp a w hh hn c.name
  rw [hc, qmeSelect_decides w.fs c post pre hpre (by rw [hf]; simp), hf]

/-- the bits are the ones in the tree: others-write, sticky, owner-execute; and all these refusals are deferrals -/
theorem C13_perm_bits : patrn = 0o002 ∧ stickyBit = 0o1000 ∧ xBit = 0o100 ∧
    Why.homeWritable.code = 111 ∧ Why.homeSticky.code = 111 ∧ Why.qmailWritable.code = 111 ∧
    Why.xbitFile.code = 111 ∧ Why.xbitProg.code = 111 ∧ Why.blankFirst.code = 111 := by decide

/-- **Executable .qmail / `+list`**: in forward-only state no file or program instruction is ever acted on… -/
theorem C13_xbit (px : Bytes → PRes) (dx : Instr → Option Why) (lines : List Bytes) (first : Bool) :
    ∀ i ∈ (dispatch px dx first true lines).did, isForward i = true :=
  dispatch_forwardonly px dx lines first

/-- …and the first such line ends the run with the x-bit diagnostic (111) -/
theorem C13_xbit_refuses (px : Bytes → PRes) (dx : Instr → Option Why) (pre : List Bytes) (raw : Bytes) (post : List Bytes)
    (i : Instr) (hpre : ∀ l ∈ pre, ∀ j, classify l = .act j → isForward j = true)
    (hfirst : ∀ l ∈ pre.head?, classify l ≠ .blank) (hc : classify raw = .act i) (hi : isForward i = false) :
    (dispatch px dx true true (pre ++ raw :: post)).fin = .die (if isProgram i then .xbitProg else .xbitFile) :=
  dispatch_forwardonly_refuses px dx pre raw post true i hpre (fun _ => hfirst) hc hi

/-- **`+list` anywhere.** The same for a file that becomes forward-only in the middle: if the loop ran through the lines
`pre` and the state after them is forward-only (x bit, or `+list` among them), then whatever follows, only forward
lines are acted upon after `pre`… -/
theorem C13_list_forwardonly (px : Bytes → PRes) (dx : Instr → Option Why) (pre rest : List Bytes) (first fo : Bool)
    (hpre : (dispatch px dx first fo pre).fin = .done) (hfo : foAfter fo pre = true) :
    ∃ d, (dispatch px dx first fo (pre ++ rest)).did = instrsOf pre ++ d ∧ ∀ i ∈ d, isForward i = true :=
  dispatch_after_list px dx pre rest first fo hpre hfo

/-- …and a file or program line directly after `pre` ends the run with the x-bit diagnostic; neither it nor anything
after it is acted upon (this is `C13_xbit_refuses` without the restriction that the state is forward-only from the
first line and that the lines before are forward lines) -/
theorem C13_list_refuses (px : Bytes → PRes) (dx : Instr → Option Why) (pre : List Bytes) (raw : Bytes)
    (post : List Bytes) (first fo : Bool) (i : Instr)
    (hpre : (dispatch px dx first fo pre).fin = .done) (hfo : foAfter fo pre = true)
    (hc : classify raw = .act i) (hi : isForward i = false) :
    dispatch px dx first fo (pre ++ raw :: post) = ⟨instrsOf pre, .die (if isProgram i then .xbitProg else .xbitFile)⟩ :=
  dispatch_after_list_refuses px dx pre raw post first fo i hpre hfo hc hi

/-- for `main()` as a whole: an executable, non-empty control file never causes a file or program delivery -/
theorem C13_xbit_run (a : Args) (w : World) (c : Cand) (mode : Nat) (content : Bytes)
    (hs : qmeSelect w.fs (qmeCandidates a.dash (safeext a.ext)) = .found c mode content)
    (hne : content ≠ []) (hx : mode &&& xBit ≠ 0) :
    ∀ e ∈ (run a w).effects, ∃ s rs, e = .queue s rs := by
  rcases run_found_cases a w c mode content hs hne with ⟨code, _, _, he, _, _⟩ | ⟨r0, h⟩
  · rw [he]; simp
  · rw [h, deliver_effects]
    intro e he
    have hf : ∀ i ∈ (dtrace a w content (decide (mode &&& xBit ≠ 0))).did, isForward i = true := by
      have hx' : decide (mode &&& xBit ≠ 0) = true := by simpa using hx
      rw [hx']
      unfold dtrace
      split <;> exact dispatch_forwardonly _ _ _ _
    rcases List.mem_append.1 he with he | he
    · split at he
      · obtain ⟨i, hi, _⟩ := List.mem_map.1 he
        have := hf i (List.mem_filter.1 hi).1
        have h2 := (List.mem_filter.1 hi).2
        simp [this] at h2
      · simp at he
    · split at he
      · simp at he; exact ⟨_, _, he⟩
      · simp at he

/-! ### The instruction loop -/

/-- **Order and type.** Whatever the commands return, the instructions acted upon are an initial segment of the
file's instructions (each classified by its first character), in file order. -/
theorem C13_dispatch_order (px : Bytes → PRes) (dx : Instr → Option Why) (lines : List Bytes) (first fo : Bool) :
    (dispatch px dx first fo lines).did <+: instrsOf lines :=
  dispatch_prefix px dx lines first fo

/-- if the loop reaches the end of the file, every instruction was acted upon -/
theorem C13_dispatch_complete (px : Bytes → PRes) (dx : Instr → Option Why) (lines : List Bytes) (first fo : Bool)
    (h : (dispatch px dx first fo lines).fin = .done) : (dispatch px dx first fo lines).did = instrsOf lines :=
  dispatch_done px dx lines first fo h

/-- **The loop stops at the first line that does not run through.** If the loop does not reach the end of the file
there is a first such line `raw`: the loop ran through all lines before it (`.done`, so by `C13_dispatch_all_ok` every
instruction among them succeeded), what was acted upon is their instructions followed by what `raw` alone does in the
state they leave (not first line any more; forward-only if it was or if `+list` occurred), and the way the loop ends
is the way that single line ends. Nothing after `raw` is looked at. -/
theorem C13_dispatch_first_stop (px : Bytes → PRes) (dx : Instr → Option Why) (lines : List Bytes) (first fo : Bool)
    (h : (dispatch px dx first fo lines).fin ≠ .done) :
    ∃ pre raw post, lines = pre ++ raw :: post ∧ (dispatch px dx first fo pre).fin = .done ∧
      (dispatch px dx (first && pre.isEmpty) (foAfter fo pre) [raw]).fin = (dispatch px dx first fo lines).fin ∧
      (dispatch px dx first fo lines).did =
        instrsOf pre ++ (dispatch px dx (first && pre.isEmpty) (foAfter fo pre) [raw]).did :=
  dispatch_split px dx lines first fo h

/-- **Every instruction acted upon succeeded** unless the loop ended in a failure (then all but the last did, by
`C13_dispatch_failure`): commands ran and exited with a code of the continue / stop class, file deliveries reported
no failure. -/
theorem C13_dispatch_all_ok (px : Bytes → PRes) (dx : Instr → Option Why) (lines : List Bytes) (first fo : Bool)
    (h : (dispatch px dx first fo lines).fin.isDie = false) :
    ∀ i ∈ (dispatch px dx first fo lines).did, Succeeded px dx i :=
  dispatch_all_ok px dx lines first fo h

/-- **Exit code 99.** The loop stops right after that command: the lines before it all ran through (their
instructions succeeded; earlier forward lines are kept), the state was not forward-only, acted upon are exactly the
instructions before the command and the command itself; nothing of the later lines.
(Replaces the earlier statement, which did not say that the lines before the command had succeeded.) -/
theorem C13_dispatch_99 (px : Bytes → PRes) (dx : Instr → Option Why) (lines : List Bytes) (first fo : Bool)
    (h : (dispatch px dx first fo lines).fin = .stop99) :
    ∃ pre raw post c code, lines = pre ++ raw :: post ∧ (dispatch px dx first fo pre).fin = .done ∧
      foAfter fo pre = false ∧ classify raw = .act (.program c) ∧
      px (cstr c) = .exited code ∧ progClass code = .stop99 ∧
      (dispatch px dx first fo lines).did = instrsOf pre ++ [.program c] ∧
      ∀ i ∈ instrsOf pre, Succeeded px dx i := by
  obtain ⟨pre, raw, post, e1, e2, e3, e4⟩ := dispatch_split px dx lines first fo (by rw [h]; simp)
  rw [h] at e3
  obtain ⟨c, code, hc, hfo, hp, hk, hd⟩ := line_stop99 px dx raw _ _ e3
  refine ⟨pre, raw, post, c, code, e1, e2, hfo, hc, hp, hk, by rw [e4, hd], ?_⟩
  intro i hi
  have := dispatch_all_ok px dx pre first fo (by rw [e2]; rfl) i
  rw [dispatch_done px dx pre first fo e2] at this
  exact this hi

/-- **Failure.** A failing line ends the loop. There is a first failing line `raw`; all lines before it ran through
(and their instructions succeeded); the diagnostic `y` and what was acted upon are tied to that line, in exactly one
of four ways: (1) `raw` is blank and is the very first line; (2) `raw` is a file or program line met in forward-only
state — it is *not* acted upon; (3) `raw` is a command that crashed or exited with a code of a failing class — acted
upon, last; (4) `raw` is a file delivery that failed with `y` — acted upon, last. Nothing after `raw`.
(Replaces the earlier statement, in which `y` did not occur and the failing line was not identified: the trace
did = [a, b, c] for `|a,|b,|c` with `a` failing satisfied it.) -/
theorem C13_dispatch_failure (px : Bytes → PRes) (dx : Instr → Option Why) (lines : List Bytes) (first fo : Bool) (y : Why)
    (h : (dispatch px dx first fo lines).fin = .die y) :
    ∃ pre raw post, lines = pre ++ raw :: post ∧ (dispatch px dx first fo pre).fin = .done ∧
      (∀ i ∈ instrsOf pre, Succeeded px dx i) ∧
      ((classify raw = .blank ∧ first = true ∧ pre = [] ∧ y = .blankFirst ∧ (dispatch px dx first fo lines).did = []) ∨
       (∃ i, classify raw = .act i ∧ isForward i = false ∧ foAfter fo pre = true ∧
          y = (if isProgram i then .xbitProg else .xbitFile) ∧ (dispatch px dx first fo lines).did = instrsOf pre) ∨
       (∃ c, classify raw = .act (.program c) ∧ foAfter fo pre = false ∧
          ((px (cstr c) = .crashed ∧ y = .childCrashed) ∨
           (∃ code e, px (cstr c) = .exited code ∧ progClass code = .exit e ∧ y = .progExit e)) ∧
          (dispatch px dx first fo lines).did = instrsOf pre ++ [.program c]) ∨
       (∃ i, classify raw = .act i ∧ isFile i = true ∧ foAfter fo pre = false ∧ dx i = some y ∧
          (dispatch px dx first fo lines).did = instrsOf pre ++ [i])) := by
  obtain ⟨pre, raw, post, e1, e2, e3, e4⟩ := dispatch_split px dx lines first fo (by rw [h]; simp)
  rw [h] at e3
  have hok : ∀ i ∈ instrsOf pre, Succeeded px dx i := by
    intro i hi
    have := dispatch_all_ok px dx pre first fo (by rw [e2]; rfl) i
    rw [dispatch_done px dx pre first fo e2] at this
    exact this hi
  refine ⟨pre, raw, post, e1, e2, hok, ?_⟩
  rcases line_die px dx raw _ _ y e3 with ⟨h1, h2, h3, h4⟩ | ⟨i, h1, h2, h3, h4, h5⟩ | ⟨c, h1, h2, h3, h4⟩ | ⟨i, h1, h2, h3, h4, h5⟩
  · left
    have hf : first = true ∧ pre.isEmpty = true := by simpa using h2
    have hp : pre = [] := by simpa using hf.2
    refine ⟨h1, hf.1, hp, h3, ?_⟩
    rw [e4, h4, hp]; simp [instrsOf]
  · right; left; exact ⟨i, h1, h2, h3, h4, by rw [e4, h5]; simp⟩
  · right; right; left; exact ⟨c, h1, h2, h3, by rw [e4, h4]⟩
  · right; right; right; exact ⟨i, h1, h2, h3, h4, by rw [e4, h5]⟩

/-- **Lines.** The instruction text is cut into lines as documented: every LF ends a line, a missing final LF is
supplied, and a final LF does not start another (blank) line — for every byte string. Hence the trace of
`main()` is `dispatch` over `LocalSpec.instrLines`, to which `C13_walk_spec` applies. -/
theorem C13_lines_spec (text : Bytes) : splitLines (fixup text) = LocalSpec.instrLines text :=
  splitLines_eq_spec text

/-- **The loop is the documented walk (delivering).** For every list of lines, every behaviour of the commands
and of the file deliveries, the C loop and the independently written specification `LocalSpec.walk` (one pass
over the lines: stop at the first failure or exit 99, refuse file/program lines when forward-only, collect
forward addresses) agree on the instructions acted upon, the deliveries made (in order), the addresses
collected (in order) and the way the loop ends. -/
theorem C13_walk_spec (px : Bytes → PRes) (dx : Instr → Option Why) (fileOK : LocalSpec.SInstr → Nat)
    (hfile : ∀ i, isFile i = true → fileOK (specOfInstr i) = match dx i with | some y => y.code | none => 0)
    (hnz : ∀ i y, isFile i = true → dx i = some y → y.code ≠ 0) (lines : List Bytes) (fo : Bool) :
    let W := LocalSpec.walk true fo (fun c => toRan (px c)) fileOK lines
    let t := dispatch px dx true fo lines
    W.shown.reverse = t.did.map specOfInstr ∧ W.effects.reverse = t.did.filterMap effOf ∧
      W.recips.reverse = (t.did.filterMap fwdAddr).map cstr ∧ W.status = finCode t.fin := by
  have h := walk_eq px dx fileOK hfile hnz lines { forwardOnly := fo } rfl
  obtain ⟨h1, h2, h3, h4⟩ := h
  refine ⟨?_, ?_, ?_, h4⟩
  · show (LocalSpec.walk true fo _ fileOK lines).shown.reverse = _
    unfold LocalSpec.walk; rw [h1]; simp
  · show (LocalSpec.walk true fo _ fileOK lines).effects.reverse = _
    unfold LocalSpec.walk; rw [h2]; simp
  · show (LocalSpec.walk true fo _ fileOK lines).recips.reverse = _
    unfold LocalSpec.walk; rw [h3]; simp

/-- **…and with `-n`**: nothing is run, nothing can fail except the x-bit and blank-first-line rules; the
description printed is that of the documented walk. -/
theorem C13_walk_spec_n (run : Bytes → LocalSpec.Ran) (fileOK : LocalSpec.SInstr → Nat) (lines : List Bytes) (fo : Bool) :
    let W := LocalSpec.walk false fo run fileOK lines
    let t := dispatch (fun _ => .exited 0) (fun _ => none) true fo lines
    W.shown.reverse = t.did.map specOfInstr ∧ W.effects = [] ∧
      W.recips.reverse = (t.did.filterMap fwdAddr).map cstr ∧ W.status = finCode t.fin := by
  have h := walk_eq_n run fileOK lines { forwardOnly := fo } rfl
  obtain ⟨h1, h2, h3, h4⟩ := h
  refine ⟨?_, h2, ?_, h4⟩
  · show (LocalSpec.walk false fo run fileOK lines).shown.reverse = _
    unfold LocalSpec.walk; rw [h1]; simp
  · show (LocalSpec.walk false fo run fileOK lines).recips.reverse = _
    unfold LocalSpec.walk; rw [h3]; simp

/-- **Forwarding comes last, and only after everything else succeeded.** The externally visible effects of
following a control file are: the file and program deliveries in file order; then — only when delivering, only
if the loop did not fail, only if forward addresses were collected — one forwarded copy, to exactly the
collected addresses. With `-n` there are no effects at all. -/
theorem C13_forward_last (a : Args) (w : World) (cmds : Bytes) (fo : Bool) (r : Result) :
    (deliver a w cmds fo r).effects =
      (if a.doit then ((dtrace a w cmds fo).did.filter (fun i => !isForward i)).map (fun i => Effect.deliver (cInstr i)) else []) ++
      (if a.doit ∧ (dtrace a w cmds fo).fin.isDie = false ∧ (dtrace a w cmds fo).did.filterMap fwdAddr ≠ []
       then [Effect.queue (r.ueo.getD []) (((dtrace a w cmds fo).did.filterMap fwdAddr).map cstr)] else []) :=
  deliver_effects a w cmds fo r

/-- **Forwarding only after success.** If a forwarded copy is among the effects of following a control file, the agent
was delivering and *every* instruction it acted upon succeeded (`Succeeded`: commands exited with a continue / stop
code, file deliveries reported no failure). Together with `C13_forward_last` (which is an equation: the copy is made
whenever the loop did not fail and addresses were collected) this is clause "forwards only after all other instructions
succeeded". -/
theorem C13_forward_only_after_success (a : Args) (w : World) (cmds : Bytes) (fo : Bool) (r : Result) (sd : Bytes)
    (rs : List Bytes) (hq : Effect.queue sd rs ∈ (deliver a w cmds fo r).effects) :
    a.doit = true ∧ (dtrace a w cmds fo).fin.isDie = false ∧ ∀ i ∈ (dtrace a w cmds fo).did, Succeeded w.px w.dx i := by
  rw [C13_forward_last] at hq
  rcases List.mem_append.1 hq with hq | hq
  · split at hq
    · simp at hq
    · simp at hq
  · split at hq
    · rename_i hc
      obtain ⟨hd, hf, _⟩ := hc
      refine ⟨hd, hf, ?_⟩
      intro i hi
      unfold dtrace at hi hf
      simp only [hd, if_true] at hi hf
      exact dispatch_all_ok w.px w.dx _ _ _ hf i hi
    · simp at hq

/-- **The exit code of following a control file, in all cases.** A failed loop: the code of its diagnostic. Otherwise, if
a copy is forwarded: qmail-queue's verdict — accepted ⇒ the code the loop started with (0 by `C13_found` /
`C13_nofile_default` / `C13_run_cases`: `Fresh`), answer beginning with `D` ⇒ 100, any other answer ⇒ 111 (constants
regenerated from `mailforward`). Otherwise (nothing to forward, or `-n`): the starting code, i.e. 0 — also when a
command stopped the file with exit code 99. -/
theorem C13_exit_code (a : Args) (w : World) (cmds : Bytes) (fo : Bool) (r : Result) :
    (deliver a w cmds fo r).code =
      (match (dtrace a w cmds fo).fin with
       | .die y => y.code
       | _ =>
         if a.doit = true ∧ (dtrace a w cmds fo).did.filterMap fwdAddr ≠ [] then
           (match w.qq with
            | [] => r.code
            | c :: _ => if c = 68 then 100 else 111)
         else r.code) := by
  rw [deliver_code, fwdCodes.1, fwdCodes.2]
  rfl

/-- a failing diagnostic of the loop never has exit code 0 (file deliveries: by hypothesis on the oracle), so "exit 0"
means the loop did not fail -/
theorem C13_failure_nonzero (px : Bytes → PRes) (dx : Instr → Option Why)
    (hnz : ∀ i y, isFile i = true → dx i = some y → y.code ≠ 0) (lines : List Bytes) (first fo : Bool) (y : Why)
    (h : (dispatch px dx first fo lines).fin = .die y) : y.code ≠ 0 :=
  dispatch_die_code px dx hnz lines first fo y h

/-- a failed loop gives the exit code of its diagnostic -/
theorem C13_failure_code (a : Args) (w : World) (cmds : Bytes) (fo : Bool) (r : Result) (y : Why)
    (h : (dtrace a w cmds fo).fin = .die y) : (deliver a w cmds fo r).code = y.code ∧ (deliver a w cmds fo r).why = some y :=
  deliver_code_die a w cmds fo r y h

/-- every run of `main()` either stops before the first instruction (non-zero exit, nothing delivered or printed)
or is the instruction loop on the default instructions or on the selected non-empty control file -/
theorem C13_run_cases (a : Args) (w : World) :
    (∃ code, code ≠ 0 ∧ Refused (run a w) code) ∨
    (∃ r0, Fresh r0 ∧ run a w = deliver a w a.aliasempty false r0) ∨
    (∃ c mode content r0, qmeSelect w.fs (qmeCandidates a.dash (safeext a.ext)) = .found c mode content ∧ content ≠ [] ∧
        Fresh r0 ∧ run a w = deliver a w content (mode &&& xBit ≠ 0) r0) :=
  run_cases' a w

/-! ### One whole delivery = the documented outcome -/

/-- **`deliver` = `LocalSpec.follow`, finalisation included.** Following an instruction text gives exactly the documented
exit code, the documented effects in order (the forwarded copy last, with the documented sender), the documented list
of instructions acted upon and their counts; with `-n` the output is exactly the documented description, when
delivering successfully it begins with the documented counts line. (Closes the gap "the last lines of `follow` are
checked by the oracle only".) -/
theorem C13_follow_spec (a : Args) (w : World) (cmds : Bytes) (fo : Bool) (r : Result)
    (hnz : ∀ i y, isFile i = true → w.dx i = some y → y.code ≠ 0) (hr : r.code = 0) :
    Matches a.doit (deliver a w cmds fo r)
      (LocalSpec.follow a.doit fo cmds (r.ueo.getD []) (fun c => toRan (w.px c)) (fileCode w.dx) (LocalSpec.queueVerdict w.qq)) :=
  matches_deliver a w cmds fo r hnz hr

/-- **`run` = `LocalSpec.outcome`.** For every invocation and every state of the world (home directory mode `hm`, any
directory contents, any behaviour of commands, file deliveries and qmail-queue) the model of `main()` produces
exactly the documented outcome of `LocalSpec.outcome` — the function the driver evaluates on the implementation's
behaviour as the oracle: refusals (home / control file permissions, loop, no such address, owner file not examinable)
with their exit codes and with nothing delivered or printed, else the documented following of the selected text.
`Matches`: exit code, effects in order, instructions acted upon, counts, and the printed text.
Excluded: `stat(".")` failing (`w.home = none`, outside the documentation; the model gives 111, `C13_run_cases`). -/
theorem C13_run_outcome (a : Args) (w : World) (hm : Nat) (hh : w.home = some hm)
    (hnz : ∀ i y, isFile i = true → w.dx i = some y → y.code ≠ 0) :
    Matches a.doit (run a w) (LocalSpec.outcome (settingOf a w hm)) :=
  run_outcome a w hm hh hnz

/-! ### Reading a line; the envelope sender of forwarded copies -/

/-- **Instruction types.** The `switch` on the first character (after removing trailing blanks) reads every line
exactly as dot-qmail(5) documents it: `#` comment, `|` program, `&` or any other character forward, `.` or `/`
mbox — maildir iff the line ends in `/` —, `+list`; for every byte string. -/
theorem C13_line_spec (raw : Bytes) : specOfLine (classify raw) = LocalSpec.readLine raw := classify_eq_spec raw

/-- **-owner / VERP.** Bounces keep their sender; otherwise `local-owner@host` if `.qmail…-owner` exists,
`local-owner-@host-@[]` if `…-owner-default` exists as well, else the original sender — as documented. The
`-owner-default` name is only consulted when `-owner` exists (earlier version: its `stat` result was demanded
unconditionally). -/
theorem C13_owner (loc dash sx host sender : Bytes) (ex : Bytes → Option Bool) (o1 o2 : Bool)
    (h1 : ex (dotQmail ++ dash ++ sx ++ ownerB) = some o1)
    (h2 : o1 = true → ex (dotQmail ++ dash ++ sx ++ ownerDefaultB) = some o2) :
    ueoOf loc dash sx host sender ex = .ok (LocalSpec.forwardSender loc host sender o1 (o1 && o2)) :=
  ueoOf_eq_spec' loc dash sx host sender ex o1 o2 h1 h2

/-! ### Program exit codes -/

/-- **Exit-code map** (table regenerated from `mailprogram`'s switch on every run): for every exit status,
0 continues, 99 stops, 100 and 64, 65, 70, 76, 77, 78, 112 are permanent (exit 100), everything else is
temporary (exit 111) — exactly qmail-command(8). -/
theorem C13_exitmap (code : Nat) :
    progClass code = (match LocalSpec.exitVerdict code with
      | .ok => .ok | .stop => .stop99 | .hard => .exit 100 | .soft => .exit 111) :=
  progClass_spec code

/-- a command that crashed is a temporary failure -/
theorem C13_crash (px : Bytes → PRes) (dx : Instr → Option Why) (raw : Bytes) (rest : List Bytes) (c : Bytes) (first : Bool)
    (hc : classify raw = .act (.program c)) (hp : px (cstr c) = .crashed) :
    dispatch px dx first false (raw :: rest) = ⟨[.program c], .die .childCrashed⟩ ∧ Why.childCrashed.code = 111 := by
  refine ⟨?_, by decide⟩
  rw [dispatch, hc]; simp [hp]

/-! ### Loops -/

/-- the header scan of `bouncexf` is the documented rule, for every message and every recipient -/
theorem C13_loop_spec (loc host msg : Bytes) : bouncexf (dtline loc host) msg = LocalSpec.loops loc host msg :=
  bouncexf_eq_spec loc host msg

/-- **Loop cut.** A message whose header already carries this recipient's Delivered-To line bounces (100)
before any file is looked up and before anything is delivered. -/
theorem C13_loop (a : Args) (w : World) (hh : HomeOK a w) (hd : a.doit = true)
    (hl : LocalSpec.loops a.loc a.host a.msg = true) :
    Refused (run a w) 100 ∧ (run a w).why = some .looping ∧ (run a w).tried = [] := by
  refine ⟨(run_looping a w hh hd hl).1, (run_looping a w hh hd hl).2, ?_⟩
  obtain ⟨warn, hh⟩ := hh
  rw [← bouncexf_eq_spec] at hl
  simp only [run, hh]; simp [hd, hl]

/-- **…and only then.** The looping diagnostic is given only when delivering a message whose header carries this
recipient's Delivered-To line (`DxSane`: the file-delivery oracle reports file-delivery diagnostics). -/
theorem C13_loop_only (a : Args) (w : World) (hdx : DxSane w.dx) (h : (run a w).why = some .looping) :
    a.doit = true ∧ LocalSpec.loops a.loc a.host a.msg = true :=
  run_looping_only a w hdx h

/-! ### Header injection -/

/-- **No injection.** Whatever bytes the envelope addresses contain (newlines, quotes, blanks), the Delivered-To
and Return-Path fields are exactly one line each. -/
theorem C13_noinject (loc host sender : Bytes) :
    LocalSpec.oneLine (dtline loc host) = true ∧ LocalSpec.oneLine (rpline sender) = true :=
  ⟨dtline_oneLine loc host, rpline_oneLine sender⟩

/-- the `From ` line of mbox deliveries (`UFLINE`, up to the date): no newline whatever the sender contains -/
theorem C13_ufline (sender : Bytes) : LF ∉ uflinePrefix sender := uflinePrefix_noLF sender

/-- the line used for loop detection is the documented one -/
theorem C13_dtline (loc host : Bytes) : dtline loc host = LocalSpec.dtline loc host := dtline_eq_spec loc host

/-! ### Non-vacuity (45 = '-', 46 = '.', 97 = 'a', 66 = 'B') -/

/-- ext "a-B.c-": .qmail-a-b:c-, .qmail-a-b:c-default, .qmail-a-default, .qmail-default -/
example : (qmeCandidates [45] (safeext [97, 45, 66, 46, 99, 45])).map Cand.name =
    [[46, 113, 109, 97, 105, 108, 45, 97, 45, 98, 58, 99, 45],
     [46, 113, 109, 97, 105, 108, 45, 97, 45, 98, 58, 99, 45, 100, 101, 102, 97, 117, 108, 116],
     [46, 113, 109, 97, 105, 108, 45, 97, 45, 100, 101, 102, 97, 117, 108, 116],
     [46, 113, 109, 97, 105, 108, 45, 100, 101, 102, 97, 117, 108, 116]] := by decide

/-- "&f@x", "|exit 99", "./mb", "g@x" with the command returning 99: the forward before it is kept, the rest ignored -/
example : dispatch (fun _ => .exited 99) (fun _ => none) true false
    [[38, 102, 64, 120], [124, 101, 120, 105, 116, 32, 57, 57], [46, 47, 109, 98], [103, 64, 120]] =
    ⟨[.forward [102, 64, 120], .program [101, 120, 105, 116, 32, 57, 57]], .stop99⟩ := by decide

/-- "+list" then "./mb": refused -/
example : dispatch (fun _ => .exited 0) (fun _ => none) true false [[43, 108, 105, 115, 116], [46, 47, 109, 98]] =
    ⟨[], .die .xbitFile⟩ := by decide

/-- "./mb", "+list", "|x", "&a": the program line after a mid-file `+list` is refused, the mbox before it was delivered -/
example : dispatch (fun _ => .exited 0) (fun _ => none) true false
    [[46, 47, 109, 98], [43, 108, 105, 115, 116], [124, 120], [38, 97]] = ⟨[.mbox [46, 47, 109, 98]], .die .xbitProg⟩ := by decide

/-- "|a", "|b", "|c" with `a` exiting 1: only `a` is acted upon (the trace [a, b, c] is impossible: `C13_dispatch_failure`) -/
example : dispatch (fun c => if c = [97] then .exited 1 else .exited 0) (fun _ => none) true false
    [[124, 97], [124, 98], [124, 99]] = ⟨[.program [97]], .die (.progExit 111)⟩ := by decide

/-- a header carrying "Delivered-To: a@h" loops for recipient a@h; the same line in the body does not -/
example : LocalSpec.loops [97] [104] ([88, 58, 10] ++ LocalSpec.dtline [97] [104] ++ [10, 98, 10]) = true := by decide
example : LocalSpec.loops [97] [104] ([88, 58, 10, 10] ++ LocalSpec.dtline [97] [104]) = false := by decide

/-- the documented outcome on a concrete setting: recipient u-a@h, home 0700, `.qmail-a` = "&f@x", "|p", "./mb" (mode 0600),
the command exits 99, sender s@x, no owner file: exit 0, the command was run, then one copy to f@x; the mbox line is dropped -/
def exSetting : LocalSpec.Setting :=
  { doit := true, homeMode := 0o700, loc := [117, 45, 97], dash := [45], ext := [97], host := [104], sender := [115, 64, 120],
    dflt := [46, 47, 77], msg := [88, 58, 10, 10],
    look := fun n => if n = [46, 113, 109, 97, 105, 108, 45, 97] then .file 0o600 [38, 102, 64, 120, 10, 124, 112, 10, 46, 47, 109, 98, 10] else .missing,
    present := fun _ => some false, run := fun _ => .exited 99, fileOK := fun _ => 0, queueReply := [] }

example : (LocalSpec.outcome exSetting).code = 0 ∧
    (LocalSpec.outcome exSetting).effects = [.program [112], .queue [115, 64, 120] [[102, 64, 120]]] := by decide
/-- the same with a world-writable home directory: 111 and nothing happens; with no control file at all: 100 -/
example : (LocalSpec.outcome { exSetting with homeMode := 0o702 }).code = 111 ∧
    (LocalSpec.outcome { exSetting with homeMode := 0o702 }).effects = [] := by decide
example : (LocalSpec.outcome { exSetting with look := fun _ => .missing }).code = 100 := by decide

/-- recipient "a\nB" at host "h": the newline becomes '_' -/
example : dtline [97, 10, 66] [104] = [68, 101, 108, 105, 118, 101, 114, 101, 100, 45, 84, 111, 58, 32, 97, 95, 66, 64, 104, 10] := by
  decide

/-! ### Extension round 4: the environment handed to commands (qmail-command(8) "ENVIRONMENT VARIABLES")

Model `Nq.LocalEnv` (env.c's env_put2/env_get, the env_put2 sequence of `main()`, the From_ line with `myctime(now())`),
documentation `Nq.LocalEnvSpec` (one entry per variable of the manual page).  `e0` is the environment qmail-local was
started with, `user`/`home` its first two arguments, `now` the clock. -/

open Nq.LocalEnv Nq.Lemmas.LocalEnv Nq.Lemmas.LocalEnvRun in
/-- **The environment of every command is the documented one**, for every inherited environment, user, home directory,
recipient, extension, host, sender (any bytes: empty parts, no dash, no dot, dashes and dots at the ends, 8-bit bytes,
newlines) and clock: whenever a run gets as far as the instruction loop (`(run a w).ueo = some u`, the only situation
in which a command can be run), the environment exists, every variable of qmail-command(8) has its documented value
(`DEFAULT` is the part of the extension matched by "default" when `run` selected such a file, and otherwise keeps whatever
was inherited — qmail-local does not remove it), and every other variable is inherited unchanged.
Hypothesis `dateOk`: `date` is *the* civil date of `now` (any valid Gregorian date with that day number). -/
theorem C13_env_documented (e0 : Env) (a : Args) (w : World) (user home : Bytes) (now : Nat) (date : Int × Int × Int) (u : Bytes)
    (hu : (run a w).ueo = some u)
    (hd : (givenOf (eargsOf a user home now) date (run a w).dfltEnv u).dateOk) :
    ∃ env, commandEnv e0 a w user home now = some env ∧
      (∀ p ∈ LocalEnvSpec.documented (givenOf (eargsOf a user home now) date (run a w).dfltEnv u),
        envGet env p.1 = (match p.2 with
          | some v => some v
          | none => envGet e0 p.1)) ∧
      (∀ k, k ∉ (LocalEnvSpec.documented (givenOf (eargsOf a user home now) date (run a w).dfltEnv u)).map (fun p => p.1) →
        envGet env k = envGet e0 k) := by
  refine ⟨envFinal e0 (eargsOf a user home now) (run a w).dfltEnv u, ?_, ?_, ?_⟩
  · unfold commandEnv; rw [hu]
  · exact documented_ok e0 _ _ u date hd
  · exact fun k hk => others_inherited e0 _ _ u date k hk

open Nq.LocalEnv Nq.Lemmas.LocalEnvRun in
/-- the complement: a run that does not get that far (refused home, loop, unusable or missing control file, temporary error
on the -owner test) has no command environment and runs no command (no effect at all) -/
theorem C13_env_none (e0 : Env) (a : Args) (w : World) (user home : Bytes) (now : Nat) (hu : (run a w).ueo = none) :
    commandEnv e0 a w user home now = none ∧ (run a w).effects = [] := by
  have h := (run_envFacts a w).2
  rw [hu] at h
  exact ⟨by unfold commandEnv; rw [hu], h⟩

open Nq.Lemmas.LocalEnvRun in
/-- **DEFAULT is put exactly when the selected control file's name ends in "default"**, and then it is the part of the
(original, not lower-cased) extension that the word stands for — `LocalSpec.defaultVar`, qmail-command(8) — for whole runs:
`(run a w).dfltEnv` is what `C13_env_documented` puts under `DEFAULT`. -/
theorem C13_env_default (a : Args) (w : World) :
    (run a w).dfltEnv = (match (run a w).sel with
      | some c => LocalSpec.defaultVar a.dash a.ext c.name
      | none => none) := by
  have h := (run_envFacts a w).1
  cases hs : (run a w).sel with
  | none => rw [hs] at h; exact h
  | some c => rw [hs] at h; rw [h.2]; exact default_eq_spec a.dash a.ext c h.1

open Nq.Lemmas.LocalEnvRun in
/-- **NEWSENDER** is the sender `qmeox`'s -owner / -owner-default tests produce (`ueoOf`), which `C13_owner` proves to be
dot-qmail(5)'s rule (`LocalSpec.forwardSender`: bounces keep their sender; `local-owner@host` if `.qmail…-owner` exists,
the VERP form `local-owner-@host-@[]` if `-owner-default` exists as well; otherwise the original sender). -/
theorem C13_env_newsender (a : Args) (w : World) (u : Bytes) (hu : (run a w).ueo = some u) :
    ueoOf a.loc a.dash (safeext a.ext) a.host a.sender w.ex = .ok u := by
  have h := (run_envFacts a w).2
  rw [hu] at h
  exact h

open Nq.Lemmas.LocalEnv in
/-- **EXT2, EXT3, EXT4 in the manual's words**: `following 45 n ext` (the value documented for `EXT(n+1)`) is exactly what
follows the dash that has `n - 1` dashes before it; with fewer than `n` dashes it is empty. -/
theorem C13_env_ext (n : Nat) (pre r ext : Bytes) :
    (pre.count 45 = n → LocalEnvSpec.following 45 (n + 1) (pre ++ 45 :: r) = r) ∧
    (ext.count 45 ≤ n → LocalEnvSpec.following 45 (n + 1) ext = []) :=
  ⟨following_split 45 r pre n, following_few 45 ext n⟩

open Nq.Lemmas.LocalEnv in
/-- **HOST2, HOST3, HOST4 in the manual's words**: one step of `preceding` removes the last dot and what follows it;
a host without a dot is left as it is (so with fewer dots than asked for, the portion preceding the first dot results). -/
theorem C13_env_host (l r h : Bytes) (n : Nat) :
    (46 ∉ r → LocalEnvSpec.preceding (n + 1) (l ++ 46 :: r) = LocalEnvSpec.preceding n l) ∧
    (46 ∉ h → LocalEnvSpec.preceding n h = h) := by
  constructor
  · intro hr
    have : LocalEnvSpec.precedingLastDot (l ++ 46 :: r) = l := by
      rw [← beforeLastDot_eq_spec]; exact beforeLastDot_split l r hr
    simp [LocalEnvSpec.preceding, this]
  · intro hh
    have : LocalEnvSpec.precedingLastDot h = h := by
      rw [← beforeLastDot_eq_spec]; exact beforeLastDot_nodot h hh
    induction n with
    | zero => rfl
    | succ m ih => simp [LocalEnvSpec.preceding, this, ih]

open Nq.Lemmas.LocalEnv in
/-- **The date in the From_ line (`UFLINE`)** is the Gregorian UTC date and time of the clock value, for every sender and
every `now`: "From " word " " Www Mmm dd hh:mm:ss yyyy "\n" where (yyyy, Mmm, dd) is a valid civil date whose day number is
⌊now/86400⌋ (unique: `Nq.Lemmas.Datetime.tai_unique`), the weekday is (day number + 4) mod 7 and hh:mm:ss is now mod 86400. -/
theorem C13_ufline_date (sender : Bytes) (now : Nat) : LocalEnvSpec.IsUfline sender now (Nq.LocalEnv.ufline sender now) :=
  ufline_isUfline sender now

open Nq.Lemmas.LocalEnv in
/-- the compiled oracle for `UFLINE` accepts only such lines -/
theorem C13_ufline_oracle_sound (sender : Bytes) (now : Nat) (l : Bytes) (h : LocalEnvSpec.uflineOracle sender now l = true) :
    LocalEnvSpec.IsUfline sender now l := uflineOracle_sound sender now l h

open Nq.Lemmas.LocalEnv in
/-- **DTLINE, RPLINE and UFLINE (with its date) are single lines** for every recipient, host, sender and clock value -/
theorem C13_env_lines (loc host sender : Bytes) (now : Nat) :
    LocalSpec.oneLine (dtline loc host) = true ∧ LocalSpec.oneLine (rpline sender) = true ∧
    LocalSpec.oneLine (Nq.LocalEnv.ufline sender now) = true :=
  ⟨dtline_oneLine loc host, rpline_oneLine sender, ufline_oneLine sender now⟩

/-! Non-vacuity of the environment theorems -/

/-- ext "a-b--c": EXT2 "b--c", EXT3 "-c", EXT4 "c"; "-" at the end: EXT2 ""; no dash: "" -/
example : LocalEnvSpec.following 45 1 [97, 45, 98, 45, 45, 99] = [98, 45, 45, 99] ∧
    LocalEnvSpec.following 45 2 [97, 45, 98, 45, 45, 99] = [45, 99] ∧ LocalEnvSpec.following 45 3 [97, 45, 98, 45, 45, 99] = [99] ∧
    LocalEnvSpec.following 45 1 [97, 45] = [] ∧ LocalEnvSpec.following 45 1 [97] = [] := by decide
/-- host "a.b.c": HOST2 "a.b", HOST3 "a", HOST4 "a"; ".x": HOST2 ""; "x.": "x"; "x": "x" -/
example : LocalEnvSpec.preceding 1 [97, 46, 98, 46, 99] = [97, 46, 98] ∧ LocalEnvSpec.preceding 2 [97, 46, 98, 46, 99] = [97] ∧
    LocalEnvSpec.preceding 3 [97, 46, 98, 46, 99] = [97] ∧ LocalEnvSpec.preceding 1 [46, 120] = [] ∧
    LocalEnvSpec.preceding 1 [120, 46] = [120] ∧ LocalEnvSpec.preceding 1 [120] = [120] := by decide
/-- the hypotheses of `C13_env_ext` / `C13_env_host` are satisfiable: "a-b" = "a" ++ '-' :: "b" with no dash in "a" -/
example : ([97] : Bytes).count 45 = 0 ∧ (46 : UInt8) ∉ ([99] : Bytes) := by decide
/-- 2001-09-09 (month index 8) is a valid date with day number 11574 = ⌊1000000000/86400⌋: `dateOk` is satisfiable -/
example : Nq.Datetime.validDate 2001 8 9 ∧ Nq.Datetime.daysFromCivil 2001 8 9 = (1000000000 : Int) / 86400 := by decide
/-- an inherited DEFAULT survives a put of another name and is replaced by a put of its own -/
example : Nq.LocalEnv.envGet (Nq.LocalEnv.envPut [([68], [1]), ([69], [2])] [69] [3]) [68] = some [1] ∧
    Nq.LocalEnv.envGet (Nq.LocalEnv.envPut [([68], [1]), ([69], [2])] [68] [3]) [68] = some [3] := by decide

end Nq.Props.C13
