/- C13 property theorems (in progress) -/
import Nq.Local
import Nq.Spec.LocalSpec

namespace Nq.Props.C13
open Nq Nq.Local

theorem C13_placeholder : safeext [] = [] := rfl

end Nq.Props.C13
