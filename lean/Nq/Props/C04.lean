-- C04 property theorems (in progress)
import Nq.Daemon
