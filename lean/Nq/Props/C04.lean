/-
  C04 — Finished recipients are never retried; at most one attempt in flight.

  Model and tie as for C03 (`Nq.Daemon`, `harness/qsend.c`, `drv_c03`).  The slot table of the
  monitor is the set of delivery commands handed to a spawner and not yet answered.

  The last sections are about the layer `Nq.DaemonOwed` (`accept2`, the monitor the driver actually
  runs): the list of records whose final report (`K`, `D`, or `Z` of an expired message with its bounce
  paragraph) was handled and whose mark has not been seen.  A delivery command for such a record is
  refused — in the same run and after a clean stop and restart; only a crash, a failing system call of
  `markdone` for that very record, or the removal of the file take a record off the list without its
  mark.  `C04_never_again` puts the pieces together over whole traces.

  Which theorems are what: `C04_bound`, `C04_single` are inductive invariants of the slot table;
  `C04_mark_stays`, `C04_fin_step`, `C04_never_again*`, `C04_K_once`, `C04_K_frees`, `C04_exactly_once` are proved over all accepted events /
  traces (frame lemma over the 27 event kinds); `C04_no_retry`, `C04_marked_refused`, `C04_mark_sets`,
  `C04_restart_keeps`, `C04_reported_refused`, `C04_cleanRestart_keeps`, `C04_layer_refines` read back guards
  / definitions of the monitor (they are the building blocks and are tied to the code by trace replay).
-/
import Nq.Lemmas.DaemonSlots
import Nq.Lemmas.DaemonInv
import Nq.Lemmas.DaemonOwed

namespace Nq.Props.C04
open Nq Nq.Daemon Nq.Lemmas.DS

def Reach (cfg : Cfg) (s : St) : Prop := ∃ evs, acceptAll cfg {} evs = some s

/-- the slot invariant -/
structure SlotInv (cfg : Cfg) (s : St) : Prop where
  bound : ∀ c, usedCount s c ≤ cfg.conc c
  slotUnique : (s.slots.map fun x => (x.c, x.delnum)).Nodup
  recUnique : (s.slots.map fun x => (x.m, x.c, x.idx)).Nodup

theorem usedCount_sublist (s s' : St) (c : Ch) (h : s'.slots.Sublist s.slots) : usedCount s' c ≤ usedCount s c := by
  unfold usedCount
  exact (h.filter _).length_le

theorem slotInv_sublist (cfg : Cfg) (s s' : St) (h : s'.slots.Sublist s.slots) (hi : SlotInv cfg s) : SlotInv cfg s' :=
  ⟨fun c => Nat.le_trans (usedCount_sublist s s' c h) (hi.bound c),
   (h.map _).nodup hi.slotUnique, (h.map _).nodup hi.recUnique⟩

theorem slot_step (cfg : Cfg) (s s' : St) (e : Ev) (hi : SlotInv cfg s) (h : accept cfg s e = some s') : SlotInv cfg s' := by
  -- the event is judged in `s.before e`, which has the same slots
  refine (?_ : ∀ t : St, SlotInv cfg t → acceptCore cfg t e = some s' → SlotInv cfg s') (s.before e)
    (slotInv_sublist cfg s _ (by rw [St.before_slots]; exact List.Sublist.refl _) hi) h
  clear h hi s
  intro s hi h
  by_cases h1 : ∃ c d m p r, e = .cmd c d m p r
  · obtain ⟨c, d, m, p, r, rfl⟩ := h1
    simp only [acceptCore] at h
    split at h
    · cases h
    · split at h
      · cases h
      · split at h
        · cases h
        · rename_i idx _
          split at h
          · rename_i hg; cases h
            obtain ⟨_, _, _, _, hfree, hfl, _, hcount⟩ := hg
            refine ⟨?_, ?_, ?_⟩
            · intro c'
              by_cases hc : c' = c
              · subst hc
                have : usedCount { s with slots := ⟨c', d, m, idx, r⟩ :: s.slots, mayMark := [], notes := [] } c' = usedCount s c' + 1 := by
                  simp [usedCount]
                rw [this]; omega
              · have : usedCount { s with slots := ⟨c, d, m, idx, r⟩ :: s.slots, mayMark := [], notes := [] } c' = usedCount s c' := by
                  have hne : (c == c') = false := by
                    cases c <;> cases c' <;> simp_all
                  simp [usedCount, hne]
                rw [this]; exact hi.bound c'
            · simp only [List.map_cons, List.nodup_cons]
              refine ⟨?_, hi.slotUnique⟩
              intro hmem
              obtain ⟨x, hx, hxe⟩ := List.mem_map.1 hmem
              simp only [Prod.mk.injEq] at hxe
              have : (s.slots.any fun y => y.c == c && y.delnum == d) = true :=
                List.any_eq_true.2 ⟨x, hx, by simp [hxe.1, hxe.2]⟩
              simp [slotFree, this] at hfree
            · simp only [List.map_cons, List.nodup_cons]
              refine ⟨?_, hi.recUnique⟩
              intro hmem
              obtain ⟨x, hx, hxe⟩ := List.mem_map.1 hmem
              simp only [Prod.mk.injEq] at hxe
              have : (s.slots.any fun y => y.m == m && y.c == c && y.idx == idx) = true :=
                List.any_eq_true.2 ⟨x, hx, by simp [hxe.1, hxe.2.1, hxe.2.2]⟩
              simp [inFlight, this] at hfl
          · cases h
  · by_cases h2 : ∃ c bs, e = .rbytes c bs
    · obtain ⟨c, bs, rfl⟩ := h2
      simp only [acceptCore] at h
      split at h
      · cases h
      · cases h
        exact slotInv_sublist cfg _ _ (feedReports_slots cfg c bs _) ⟨hi.bound, hi.slotUnique, hi.recUnique⟩
    · by_cases h3 : e = .restart
      · subst h3
        simp only [acceptCore] at h
        cases h
        exact ⟨fun c => by simp [usedCount], by simp, by simp⟩
      · have := slots_unchanged_core cfg s s' e h (fun c d m p r he => h1 ⟨c, d, m, p, r, he⟩) (fun c bs he => h2 ⟨c, bs, he⟩) h3
        exact ⟨fun c => by unfold usedCount; rw [this]; exact hi.bound c, by rw [this]; exact hi.slotUnique, by rw [this]; exact hi.recUnique⟩

theorem reach_slots (cfg : Cfg) (s : St) (h : Reach cfg s) : SlotInv cfg s := by
  obtain ⟨evs, h⟩ := h
  have key : ∀ (evs : List Ev) (s0 s1 : St), SlotInv cfg s0 → acceptAll cfg s0 evs = some s1 → SlotInv cfg s1 := by
    intro evs
    induction evs with
    | nil => intro s0 s1 h0 ha; simp [acceptAll] at ha; subst ha; exact h0
    | cons e es ih =>
      intro s0 s1 h0 ha
      simp only [acceptAll] at ha
      cases h1 : accept cfg s0 e with
      | none => simp [h1] at ha
      | some s2 => simp [h1] at ha; exact ih s2 s1 (slot_step cfg s0 s2 e h0 h1) ha
  exact key evs {} s ⟨fun c => by simp [usedCount], by simp, by simp⟩ h

/-- **Bounded concurrency**: in every reachable state the number of outstanding attempts on a
channel is at most min(configured concurrency, limit announced by the spawner) (`cfg.conc`). -/
theorem C04_bound (cfg : Cfg) (s : St) (h : Reach cfg s) (c : Ch) : usedCount s c ≤ cfg.conc c :=
  (reach_slots cfg s h).bound c

/-- **At most one attempt per recipient in flight**, and a delivery number never names two
outstanding attempts. -/
theorem C04_single (cfg : Cfg) (s : St) (h : Reach cfg s) :
    (s.slots.map fun x => (x.m, x.c, x.idx)).Nodup ∧ (s.slots.map fun x => (x.c, x.delnum)).Nodup :=
  ⟨(reach_slots cfg s h).recUnique, (reach_slots cfg s h).slotUnique⟩

/-- **A finished recipient is never started**: a delivery command is possible only for a record
whose completion mark is not on disk, of a fully preprocessed message, on a free slot. -/
theorem C04_no_retry (cfg : Cfg) (s s' : St) (c : Ch) (d m pos : Nat) (r : Bytes)
    (h : accept cfg s (.cmd c d m pos r) = some s') :
    ∃ rs idx, (s.msg m).chan c = some rs ∧ recIndex rs pos = some idx ∧ (rs.getD idx ⟨true, []⟩).done = false ∧
      (rs.getD idx ⟨true, []⟩).addr = r ∧ (s.msg m).todo = none ∧ inFlight s m c idx = false := by
  refine (?_ : ∀ t : St, acceptCore cfg t (.cmd c d m pos r) = some s' →
      ∃ rs idx, (t.msg m).chan c = some rs ∧ recIndex rs pos = some idx ∧ (rs.getD idx ⟨true, []⟩).done = false ∧
        (rs.getD idx ⟨true, []⟩).addr = r ∧ (t.msg m).todo = none ∧ inFlight t m c idx = false) s.calm h
  clear h s
  intro s h
  simp only [acceptCore] at h
  split at h
  · cases h
  · split at h
    · cases h
    · rename_i rs hch
      split at h
      · cases h
      · rename_i idx hidx
        split at h
        · rename_i hg
          refine ⟨rs, idx, hch, hidx, by simpa using hg.2.2.1, hg.2.2.2.1, ?_, by simpa using hg.2.2.2.2.2.1⟩
          cases ht : (s.msg m).todo with
          | none => rfl
          | some x => have := hg.1; simp [ht] at this
        · cases h

/-- …and conversely: once the `D` byte of a record is on disk, no delivery command for it is
accepted (in the same run, after a clean restart, or after a crash that kept the byte). -/
theorem C04_marked_refused (cfg : Cfg) (s : St) (c : Ch) (d m pos : Nat) (r : Bytes) (rs : List Rec) (idx : Nat)
    (hc : (s.msg m).chan c = some rs) (hi : recIndex rs pos = some idx) (hd : (rs.getD idx ⟨true, []⟩).done = true) :
    accept cfg s (.cmd c d m pos r) = none := by
  refine (?_ : ∀ t : St, (t.msg m).chan c = some rs → acceptCore cfg t (.cmd c d m pos r) = none) s.calm hc
  clear hc s
  intro s hc
  simp only [acceptCore]
  split
  · rfl
  · simp only [hc, hi]
    split
    · rename_i hg
      have h3 := hg.2.2.1
      rw [hd] at h3; cases h3
    · rfl

/-- writing the mark makes the record done -/
theorem C04_mark_sets (cfg : Cfg) (s s' : St) (c : Ch) (m pos : Nat) (h : accept cfg s (.markD m c pos) = some s') :
    ∃ rs idx, (s.msg m).chan c = some rs ∧ recIndex rs pos = some idx ∧ (s'.msg m).chan c = some (setDone rs idx) := by
  refine (?_ : ∀ t : St, acceptCore cfg t (.markD m c pos) = some s' →
      ∃ rs idx, (t.msg m).chan c = some rs ∧ recIndex rs pos = some idx ∧ (s'.msg m).chan c = some (setDone rs idx)) s.calm h
  clear h s
  intro s h
  simp only [acceptCore] at h
  split at h
  · cases h
  · split at h
    · cases h
    · rename_i rs hch
      split at h
      · cases h
      · rename_i idx hidx
        split at h
        · cases h
          refine ⟨rs, idx, hch, hidx, ?_⟩
          rw [St.msg_upd]; simp [Nq.Lemmas.DI.chan_setChan]
        · cases h

/-- only marks written with `markD` and reverted by a machine crash change a record's mark: a
restart of the daemon (clean, or after a process crash) forgets the slots but no file content -/
theorem C04_restart_keeps (cfg : Cfg) (s s' : St) (h : accept cfg s .restart = some s') : s'.tab = s.tab ∧ s'.slots = [] := by
  simp only [accept_restart] at h
  cases h; exact ⟨rfl, rfl⟩


/-! ### Reported recipients, also across clean restarts (layer `Nq.DaemonOwed`) -/

open Nq.Lemmas.DO

/-- **A reported recipient is never started again — in the same run or after a clean restart**:
while a record is on the list of due marks no delivery command for it is accepted. -/
theorem C04_reported_refused (cfg : Cfg) (s : St2) (c : Ch) (d m pos idx : Nat) (r : Bytes)
    (hi : recAt s.base m c pos = some idx) (ho : (m, c, idx) ∈ s.owed) :
    accept2 cfg s (.ev (.cmd c d m pos r)) = none := by
  simp [accept2, blocked, hi, ho]

/-- every record that a read from a spawner adds to `delivered` (a `K` report) is put on the list -/
theorem C04_K_owed (cfg : Cfg) (s s' : St2) (c : Ch) (bs : Bytes) (h : accept2 cfg s (.ev (.rbytes c bs)) = some s') :
    ∀ m c' i, (c', i) ∈ (s'.base.msg m).delivered → (c', i) ∈ (s.base.msg m).delivered ∨ (m, c', i) ∈ s'.owed := by
  simp only [accept2] at h
  split at h
  · cases h
  · split at h
    · rename_i b hb
      cases h
      change acceptCore cfg s.base.calm _ = _ at hb
      simp only [acceptCore] at hb
      split at hb
      · cases hb
      · cases hb
        intro m c' i hd
        rcases (feedReports_delivered cfg c bs { s.base.calm with mayMark := [], notes := [] }).2 m c' i hd with h1 | h1
        · exact Or.inl h1
        · exact Or.inr (List.mem_append_left _ (List.mem_append_left _ h1))
    · cases h

/-- the record of a `D` report (or of a `Z` past the queue lifetime) is put on the list when its bounce
paragraph is appended -/
theorem C04_D_owed (cfg : Cfg) (s s' : St2) (m : Nat) (bs : Bytes) (h : accept2 cfg s (.ev (.appendBounce m bs)) = some s') :
    ∀ c' i, (c', i) ∈ (s'.base.msg m).noted → (c', i) ∈ (s.base.msg m).noted ∨ (m, c', i) ∈ s'.owed := by
  simp only [accept2] at h
  split at h
  · cases h
  · split at h
    · rename_i b hb
      cases h
      change acceptCore cfg s.base.calm _ = _ at hb
      simp only [acceptCore] at hb
      split at hb
      · cases hb
      · split at hb
        · cases hb
        · rename_i n hn
          have hn : s.base.notes.find? (fun n => n.m == m) = some n := hn
          split at hb
          · cases hb
            intro c' i hd
            have hd' : (c', i) ∈ (St.msg (St.upd s.base.calm m (fun ms => { ms with bounce := some ((ms.bounce.getD []) ++ bs), fin := (n.c, n.idx) :: ms.fin, noted := (n.c, n.idx) :: ms.noted, inFile := (n.c, n.idx) :: ms.inFile, lastInject := false })) m).noted := hd
            rw [St.msg_upd] at hd'
            simp only [if_true] at hd'
            rcases List.mem_cons.1 hd' with he | hin
            · right
              cases he
              simp [owedStep, hn]
            · exact Or.inl hin
          · cases hb
    · cases h

/-- the record of a `D` report is put on the list when the report is read (before its bounce paragraph is written) -/
theorem C04_D_owed_report (cfg : Cfg) (s s' : St2) (c : Ch) (bs : Bytes) (h : accept2 cfg s (.ev (.rbytes c bs)) = some s') :
    ∀ n ∈ s'.base.notes, n.final = true → (n.m, n.c, n.idx) ∈ s'.owed := by
  simp only [accept2] at h
  split at h
  · cases h
  · split at h
    · rename_i b hb
      cases h
      intro n hn hf
      simp only [owedStep]
      refine List.mem_append_left _ (List.mem_append_right _ ?_)
      exact List.mem_map.2 ⟨n, List.mem_filter.2 ⟨hn, hf⟩, rfl⟩
    · cases h

/-- a `D` report for an outstanding delivery leaves such a note (`final`) — see also `C03_note_origin` -/
theorem C04_D_noted (cfg : Cfg) (s : St) (c : Ch) (rep : Bytes) (sl : Slot)
    (hs : s.slots.find? (fun x => x.c == c && x.delnum == (rep.headD 0).toNat) = some sl)
    (hl : (rep.headD 0).toNat < cfg.conc c) (hD : rep.getD 1 0 = 68) :
    (⟨sl.m, c, sl.idx, sl.recip, true⟩ : Note) ∈ (handleReport cfg s c rep).notes := by
  simp only [handleReport, hs]
  rw [if_neg (by omega), if_neg (by rw [hD]; decide), if_pos hD]
  simp

/-- **A record leaves the list only with its mark, or for one of the documented reasons**: the mark
was written (`markD` at its position — from then on `C04_marked_refused` applies), a system call of
`markdone` *for this record* failed (`markFail`: "message will be delivered twice"), a crash (`restart`), or its file
is gone (`unlinkChan`; `cUnlinkTodo`/`newmsg`: the message number starts a new life).  In
particular a clean restart keeps it, and a failing `markdone` for another record of the same file keeps it. -/
theorem C04_owed_persists (cfg : Cfg) (s s' : St2) (e : Ev2) (h : accept2 cfg s e = some s')
    (x : Nat × Ch × Nat) (hx : x ∈ s.owed) :
    x ∈ s'.owed ∨
    (∃ pos, e = .ev (.markD x.1 x.2.1 pos) ∧ recAt s.base x.1 x.2.1 pos = some x.2.2) ∨
    (∃ pos, e = .markFail x.1 x.2.1 pos ∧ recAt s.base x.1 x.2.1 pos = some x.2.2) ∨
    e = .ev .restart ∨
    e = .ev (.unlinkChan x.1 x.2.1) ∨
    e = .ev (.cUnlinkTodo x.1) ∨
    (∃ sender rcpts, e = .ev (.newmsg x.1 sender rcpts)) := by
  cases e with
  | cleanRestart =>
    simp only [accept2] at h
    split at h
    · split at h
      · cases h; exact Or.inl hx
      · cases h
    · cases h
  | markFail m c pos =>
    simp only [accept2] at h
    split at h
    · rename_i idx hidx
      split at h
      · cases h
        by_cases hxe : x = (m, c, idx)
        · right; right; left
          refine ⟨pos, ?_, ?_⟩
          · rw [hxe]
          · rw [hxe]; exact hidx
        · left; exact mem_dropRec hx hxe
      · cases h
    · cases h
  | ev e0 =>
    simp only [accept2] at h
    split at h
    · cases h
    · split at h
      · rename_i b hb
        cases h
        cases e0 with
        | rbytes c bs => left; exact List.mem_append_right _ hx
        | appendBounce m bs =>
          left
          simp only [owedStep]
          split
          · exact List.mem_cons_of_mem _ hx
          · exact hx
        | markD m c pos =>
          simp only [owedStep]
          split
          · rename_i idx hidx
            by_cases hxe : x = (m, c, idx)
            · right; left
              refine ⟨pos, ?_, ?_⟩
              · rw [hxe]
              · rw [hxe]; exact hidx
            · left; exact mem_dropRec hx hxe
          · left; exact hx
        | unlinkChan m c =>
          by_cases hm : x.1 = m ∧ x.2.1 = c
          · right; right; right; right; left; rw [hm.1, hm.2]
          · left; exact mem_dropChan hx hm
        | newmsg m sender rcpts =>
          by_cases hm : x.1 = m
          · right; right; right; right; right; right; exact ⟨sender, rcpts, by rw [hm]⟩
          · left; exact mem_dropMsg hx hm
        | cUnlinkTodo m =>
          by_cases hm : x.1 = m
          · right; right; right; right; right; left; rw [hm]
          · left; exact mem_dropMsg hx hm
        | restart => right; right; right; left; rfl
        | _ => left; exact hx
      · cases h

/-- a clean stop happens only when no delivery is in flight (TERM: stop starting, wait for the outstanding reports), and the
restart forgets neither a file nor a due mark -/
theorem C04_cleanRestart_keeps (cfg : Cfg) (s s' : St2) (h : accept2 cfg s .cleanRestart = some s') :
    s.base.slots = [] ∧ s'.owed = s.owed ∧ s'.base.tab = s.base.tab ∧ s'.base.slots = [] := by
  simp only [accept2, accept_restart] at h
  split at h
  · rename_i he
    cases h; exact ⟨by simpa using he, rfl, rfl, rfl⟩
  · cases h

/-- the layer only refuses: whatever `accept2` accepts, the base monitor accepts (so every theorem
about `accept` — C03 and the ones above — applies to the histories the driver validates) -/
theorem C04_layer_refines (cfg : Cfg) (s s' : St2) (e : Ev) (h : accept2 cfg s (.ev e) = some s') :
    accept cfg s.base e = some s'.base := by
  simp only [accept2] at h
  split at h
  · cases h
  · split at h
    · rename_i b hb; cases h; exact hb
    · cases h

/-- the base events an event of the layer stands for: a failing `markdone` is no event of the base monitor; a clean stop and
restart is a `.restart` after which no crash damage is reported — the first thing the new daemon does (here: it reads the
clock, which changes nothing) closes the crash window -/
def baseEvents (s : St2) : Ev2 → List Ev
  | .ev e => [e]
  | .markFail _ _ _ => []
  | .cleanRestart => [.restart, .tick s.base.clock]

/-- … for every event of the layer (not only `.ev e`): the base states of a history `accept2` accepts are a history of the base
monitor, so the theorems about `accept` / `acceptAll` (C03, `C04_bound`, `C04_single`) apply to them -/
theorem C04_layer_refines_all (cfg : Cfg) (s s' : St2) (e : Ev2) (h : accept2 cfg s e = some s') :
    acceptAll cfg s.base (baseEvents s e) = some s'.base := by
  cases e with
  | ev e0 => simp only [baseEvents, acceptAll, C04_layer_refines cfg s s' e0 h]
  | markFail m c pos =>
    simp only [accept2] at h
    split at h
    · split at h
      · cases h; rfl
      · cases h
    · cases h
  | cleanRestart =>
    simp only [accept2, accept_restart] at h
    split at h
    · cases h
      simp only [baseEvents, acceptAll, accept_restart]
      simp [accept, St.before, Ev.inCrashWindow, acceptCore, St.calm]
    · cases h

/-! ### Never again: whole traces -/

/-- **A completion mark on disk stays `D`** under every event the monitor accepts except a machine crash that reverts
THIS un-fsynced mark (`crashMarks` of its file with the record's own byte back to `T` — a `crashMarks` that keeps the byte keeps
the mark), the removal of the file (`unlinkChan`) and a machine crash during preprocessing (`crashTodoFiles`): in particular
across restarts, clean or not.  (Frame lemma over all event kinds.) -/
theorem C04_mark_stays (cfg : Cfg) (s s' : St) (e : Ev) (h : accept cfg s e = some s') (x : Nat × Ch × Nat)
    (hm : markedDone s x = true) :
    markedDone s' x = true ∨ (∃ marks, e = .crashMarks x.1 x.2.1 marks ∧ marks.getD x.2.2 false = false) ∨
      e = .unlinkChan x.1 x.2.1 ∨ e = .crashTodoFiles x.1 :=
  markedDone_step cfg s s' e h x hm

theorem getD_default_irrel {α : Type} (l : List α) (i : Nat) (a b : α) (h : i < l.length) : l.getD i a = l.getD i b := by
  simp [List.getD, List.getElem?_eq_getElem h]

/-- writing the mark makes the record finished -/
theorem C04_markD_fin (cfg : Cfg) (s s' : St) (c : Ch) (m pos : Nat) (h : accept cfg s (.markD m c pos) = some s') :
    ∃ idx, recAt s m c pos = some idx ∧ markedDone s' (m, c, idx) = true := by
  obtain ⟨rs, idx, hc, hi, hc'⟩ := C04_mark_sets cfg s s' c m pos h
  refine ⟨idx, by simp [recAt, hc, hi], ?_⟩
  have hlt := recIndex_lt rs pos idx hi
  simp only [markedDone, hc', Bool.and_eq_true, decide_eq_true_eq, Nq.Lemmas.DI.length_setDone]
  exact ⟨hlt, getD_setDone_self rs idx hlt⟩

/-- **One step**: a finished record (mark on disk, or final report handled and mark due) stays finished under every event
`accept2` accepts, unless the event is one of the excuses (`excuse`: crash / failing `markdone` of this record while the mark
is not on disk; `crashMarks` of its file that reverts THIS record's byte; `unlinkChan` of its file; `crashTodoFiles`,
`cUnlinkTodo`, `newmsg` of its message). -/
theorem C04_fin_step (cfg : Cfg) (s s' : St2) (e : Ev2) (h : accept2 cfg s e = some s') (x : Nat × Ch × Nat) (hf : Fin2 s x) :
    Fin2 s' x ∨ excuse s x e = true := by
  by_cases hmk : markedDone s.base x = true
  · -- the mark is on disk
    cases e with
    | ev e0 =>
      have hb := C04_layer_refines cfg s s' e0 h
      rcases markedDone_step cfg s.base s'.base e0 hb x hmk with h1 | ⟨marks, rfl, hk⟩ | rfl | rfl
      · exact Or.inl (Or.inr h1)
      · right; simp only [excuse, hk]; simp
      · right; simp [excuse]
      · right; simp [excuse]
    | markFail m c pos =>
      simp only [accept2] at h
      split at h
      · split at h
        · cases h; exact Or.inl (Or.inr hmk)
        · cases h
      · cases h
    | cleanRestart =>
      simp only [accept2, accept_restart] at h
      split at h
      · cases h; exact Or.inl (Or.inr hmk)
      · cases h
  · -- the mark is due
    have hx : x ∈ s.owed := hf.resolve_right hmk
    have hmk' : markedDone s.base x = false := by simpa using hmk
    rcases C04_owed_persists cfg s s' e h x hx with h1 | ⟨pos, rfl, hr⟩ | ⟨pos, rfl, hr⟩ | rfl | rfl | rfl | ⟨sd, rc, rfl⟩
    · exact Or.inl (Or.inl h1)
    · left; right
      have hb := C04_layer_refines cfg s s' _ h
      obtain ⟨idx, hi, hd⟩ := C04_markD_fin cfg s.base s'.base x.2.1 x.1 pos hb
      rw [hr] at hi; cases hi; exact hd
    · right; simp [excuse, hr, hmk']
    · right; simp [excuse, hmk']
    · right; simp [excuse]
    · right; simp [excuse]
    · right; simp [excuse]

/-- **No delivery command for a finished record**: refused by the layer (mark due) or by the base monitor (mark on disk) -/
theorem C04_fin_refuses (cfg : Cfg) (s : St2) (x : Nat × Ch × Nat) (hf : Fin2 s x) (e : Ev2) (hc : cmdFor s x e = true) :
    accept2 cfg s e = none := by
  cases e with
  | ev e0 =>
    cases e0 with
    | cmd c d m pos r =>
      simp only [cmdFor, Bool.and_eq_true, beq_iff_eq] at hc
      obtain ⟨⟨hm, hcc⟩, hr⟩ := hc
      subst hm; subst hcc
      rcases hf with ho | hmk
      · exact C04_reported_refused cfg s _ d _ pos x.2.2 r hr ho
      · simp only [accept2]
        split
        · rfl
        · simp only [recAt] at hr
          simp only [markedDone] at hmk
          cases hch : (s.base.msg x.1).chan x.2.1 with
          | none => simp [hch] at hmk
          | some rs =>
            simp only [hch] at hr hmk
            simp only [Bool.and_eq_true, decide_eq_true_eq] at hmk
            have := C04_marked_refused cfg s.base x.2.1 d x.1 pos r rs x.2.2 hch hr
              (by rw [getD_default_irrel rs x.2.2 _ ⟨false, []⟩ hmk.1]; exact hmk.2)
            rw [this]
    | _ => simp [cmdFor] at hc
  | _ => simp [cmdFor] at hc

/-- **Never attempted again** — the temporal clause of C04 over whole traces: from a state in which record `x` is finished
(its `D` byte is on disk, or its `K`/`D` report was handled and the mark is due), along *any* event sequence that `accept2`
accepts — arbitrarily many reports, arrivals, clean stops and restarts, crashes that kept the byte, failing calls that
concern other records — in which no excusing event for `x` occurs (`excuse`, judged in the state where it happens), no
delivery command for `x` is ever issued, and `x` is still finished at the end. -/
theorem C04_never_again (cfg : Cfg) (x : Nat × Ch × Nat) : ∀ (evs : List Ev2) (s s' : St2), Fin2 s x →
    acceptAll2 cfg s evs = some s' → anyAlong cfg (fun t e => excuse t x e) s evs = false →
    anyAlong cfg (fun t e => cmdFor t x e) s evs = false ∧ Fin2 s' x
  | [], s, s', hf, ha, _ => by
    simp only [acceptAll2] at ha; cases ha
    exact ⟨rfl, hf⟩
  | e :: es, s, s', hf, ha, hne => by
    simp only [acceptAll2] at ha
    cases h1 : accept2 cfg s e with
    | none => simp [h1] at ha
    | some s1 =>
      simp only [h1] at ha
      simp only [anyAlong, h1, Bool.or_eq_false_iff] at hne ⊢
      have hnc : cmdFor s x e = false := by
        cases hcf : cmdFor s x e with
        | false => rfl
        | true => rw [C04_fin_refuses cfg s x hf e hcf] at h1; cases h1
      rcases C04_fin_step cfg s s1 e h1 x hf with hf1 | hex
      · have ih := C04_never_again cfg x es s1 s' hf1 ha hne.2
        exact ⟨⟨hnc, ih.1⟩, ih.2⟩
      · rw [hne.1] at hex; cases hex

/-- … after a `K` report: every record a read from a spawner adds to `delivered` is never commanded again in any accepted
continuation without an excusing event -/
theorem C04_never_again_after_K (cfg : Cfg) (s s1 s2 : St2) (c : Ch) (bs : Bytes) (m : Nat) (c' : Ch) (i : Nat) (evs : List Ev2)
    (h : accept2 cfg s (.ev (.rbytes c bs)) = some s1)
    (hd : (c', i) ∈ (s1.base.msg m).delivered) (hnd : (c', i) ∉ (s.base.msg m).delivered)
    (ha : acceptAll2 cfg s1 evs = some s2) (hne : anyAlong cfg (fun t e => excuse t (m, c', i) e) s1 evs = false) :
    anyAlong cfg (fun t e => cmdFor t (m, c', i) e) s1 evs = false :=
  (C04_never_again cfg (m, c', i) evs s1 s2
    (Or.inl ((C04_K_owed cfg s s1 c bs h m c' i hd).resolve_left hnd)) ha hne).1

/-- … after a `D` report (before and after its bounce paragraph is written) -/
theorem C04_never_again_after_D (cfg : Cfg) (s s1 s2 : St2) (c : Ch) (bs : Bytes) (n : Note) (evs : List Ev2)
    (h : accept2 cfg s (.ev (.rbytes c bs)) = some s1) (hn : n ∈ s1.base.notes) (hf : n.final = true)
    (ha : acceptAll2 cfg s1 evs = some s2) (hne : anyAlong cfg (fun t e => excuse t (n.m, n.c, n.idx) e) s1 evs = false) :
    anyAlong cfg (fun t e => cmdFor t (n.m, n.c, n.idx) e) s1 evs = false :=
  (C04_never_again cfg (n.m, n.c, n.idx) evs s1 s2 (Or.inl (C04_D_owed_report cfg s s1 c bs h n hn hf)) ha hne).1

/-- … after the mark was written -/
theorem C04_never_again_after_mark (cfg : Cfg) (s s1 s2 : St2) (m : Nat) (c : Ch) (pos idx : Nat) (evs : List Ev2)
    (h : accept2 cfg s (.ev (.markD m c pos)) = some s1) (hi : recAt s.base m c pos = some idx)
    (ha : acceptAll2 cfg s1 evs = some s2) (hne : anyAlong cfg (fun t e => excuse t (m, c, idx) e) s1 evs = false) :
    anyAlong cfg (fun t e => cmdFor t (m, c, idx) e) s1 evs = false := by
  obtain ⟨idx', hi', hd⟩ := C04_markD_fin cfg s.base s1.base c m pos (C04_layer_refines cfg s s1 _ h)
  rw [hi] at hi'; cases hi'
  exact (C04_never_again cfg (m, c, idx) evs s1 s2 (Or.inr hd) ha hne).1

/-- **At most once**: from a state in which record `x` is finished and has no attempt outstanding — e.g. right after its `K`
report was read (`C04_single`: the report freed the only slot of `x`) — along any accepted event sequence without an excusing
event for `x`: no delivery command for `x` is issued, no further `K` report for `x` is ever read (`delivered` keeps its count),
and `x` stays finished.  Together with `C04_cleanRestart_keeps` (a clean stop happens only with no delivery in flight): without
crashes and failing calls a recipient that succeeds is delivered exactly once. -/
theorem C04_K_once (cfg : Cfg) (x : Nat × Ch × Nat) : ∀ (evs : List Ev2) (s s' : St2), Fin2 s x → inFl s.base x = false →
    acceptAll2 cfg s evs = some s' → anyAlong cfg (fun t e => excuse t x e) s evs = false →
    dcount s'.base x = dcount s.base x ∧ inFl s'.base x = false ∧ Fin2 s' x
  | [], s, s', hf, hi, ha, _ => by
    simp only [acceptAll2] at ha; cases ha
    exact ⟨rfl, hi, hf⟩
  | e :: es, s, s', hf, hi, ha, hne => by
    simp only [acceptAll2] at ha
    cases h1 : accept2 cfg s e with
    | none => simp [h1] at ha
    | some s1 =>
      simp only [h1] at ha
      simp only [anyAlong, h1, Bool.or_eq_false_iff] at hne
      have hnc : cmdFor s x e = false := by
        cases hcf : cmdFor s x e with
        | false => rfl
        | true => rw [C04_fin_refuses cfg s x hf e hcf] at h1; cases h1
      have hst := once_step cfg s s1 e h1 x hi hnc hne.1
      rcases C04_fin_step cfg s s1 e h1 x hf with hf1 | hex
      · have ih := C04_K_once cfg x es s1 s' hf1 hst.1 ha hne.2
        exact ⟨by rw [ih.1, hst.2], ih.2⟩
      · rw [hne.1] at hex; cases hex

/-- **After its `K` report a record has no attempt outstanding** (the report freed the slot, and by `C04_single` there was no
other): the hypothesis of `C04_K_once` holds right after the read -/
theorem C04_K_frees (cfg : Cfg) (s s1 : St2) (hr : Reach cfg s.base) (c : Ch) (bs : Bytes) (m : Nat) (c' : Ch) (i : Nat)
    (h : accept2 cfg s (.ev (.rbytes c bs)) = some s1)
    (hd : (c', i) ∈ (s1.base.msg m).delivered) (hnd : (c', i) ∉ (s.base.msg m).delivered) :
    inFl s1.base (m, c', i) = false := by
  obtain ⟨sb, so⟩ := s1
  have hb : accept cfg s.base (.rbytes c bs) = some sb := C04_layer_refines cfg s _ _ h
  show inFl sb (m, c', i) = false
  change acceptCore cfg s.base.calm _ = _ at hb
  simp only [acceptCore] at hb
  split at hb
  · cases hb
  · cases hb
    have hu := (reach_slots cfg s.base hr).recUnique
    have h0 : dcount s.base (m, c', i) = 0 := by
      simp only [dcount]; exact List.count_eq_zero.2 hnd
    refine feedReports_newK cfg c (m, c', i) 0 bs { s.base.calm with mayMark := [], notes := [] } hu ?_ ?_
    · intro hh
      have : dcount { s.base.calm with mayMark := [], notes := [] } (m, c', i) = dcount s.base (m, c', i) := rfl
      rw [this, h0] at hh; exact absurd hh (Nat.lt_irrefl _)
    · exact List.count_pos_iff.2 hd

/-- **Exactly once without crashes**: a record whose `K` report is read in a reachable state is, along ANY accepted continuation
without an excusing event for it (no crash, no failing `markdone` of it, …; clean stops and restarts allowed), never commanded
again and never reported `K` again. -/
theorem C04_exactly_once (cfg : Cfg) (s s1 s2 : St2) (hr : Reach cfg s.base) (c : Ch) (bs : Bytes) (m : Nat) (c' : Ch) (i : Nat)
    (evs : List Ev2) (h : accept2 cfg s (.ev (.rbytes c bs)) = some s1)
    (hd : (c', i) ∈ (s1.base.msg m).delivered) (hnd : (c', i) ∉ (s.base.msg m).delivered)
    (ha : acceptAll2 cfg s1 evs = some s2) (hne : anyAlong cfg (fun t e => excuse t (m, c', i) e) s1 evs = false) :
    anyAlong cfg (fun t e => cmdFor t (m, c', i) e) s1 evs = false ∧
    dcount s2.base (m, c', i) = dcount s1.base (m, c', i) := by
  have hf : Fin2 s1 (m, c', i) := Or.inl ((C04_K_owed cfg s s1 c bs h m c' i hd).resolve_left hnd)
  exact ⟨(C04_never_again cfg (m, c', i) evs s1 s2 hf ha hne).1,
    (C04_K_once cfg (m, c', i) evs s1 s2 hf (C04_K_frees cfg s s1 hr c bs m c' i h hd hnd) ha hne).1⟩

/-! ### Non-vacuity -/

def cfg0 : Cfg := { conc := fun _ => 1, lifetime := 1000, route := fun a => (.loc, a), doublebounceto := [112] }

/-- with concurrency 1 a second delivery command is refused while the first is in flight -/
example : acceptAll cfg0 {}
    [.newmsg 7 [115] [[97], [98]], .creatInfo 7, .writeInfo 7 [70, 115, 0], .creatChan 7 .loc, .writeChan 7 .loc [84, 97, 0, 84, 98, 0],
     .fsyncInfo 7, .fsyncChan 7 .loc, .cleanReq [116, 111, 100, 111, 47, 55, 0], .cUnlinkIntd 7, .cUnlinkTodo 7, .cleanResp 43,
     .cmd .loc 0 7 0 [97], .cmd .loc 1 7 3 [98]] = none := by
  decide

/-- K report, mark, then a command for the same record is refused, the other record is started -/
example : (acceptAll cfg0 {}
    [.newmsg 7 [115] [[97], [98]], .creatInfo 7, .writeInfo 7 [70, 115, 0], .creatChan 7 .loc, .writeChan 7 .loc [84, 97, 0, 84, 98, 0],
     .fsyncInfo 7, .fsyncChan 7 .loc, .cleanReq [116, 111, 100, 111, 47, 55, 0], .cUnlinkIntd 7, .cUnlinkTodo 7, .cleanResp 43,
     .cmd .loc 0 7 0 [97], .rbytes .loc [0, 75, 0], .markD 7 .loc 0, .restart, .cmd .loc 0 7 3 [98]]).isSome = true ∧
    acceptAll cfg0 {}
    [.newmsg 7 [115] [[97], [98]], .creatInfo 7, .writeInfo 7 [70, 115, 0], .creatChan 7 .loc, .writeChan 7 .loc [84, 97, 0, 84, 98, 0],
     .fsyncInfo 7, .fsyncChan 7 .loc, .cleanReq [116, 111, 100, 111, 47, 55, 0], .cUnlinkIntd 7, .cUnlinkTodo 7, .cleanResp 43,
     .cmd .loc 0 7 0 [97], .rbytes .loc [0, 75, 0], .markD 7 .loc 0, .restart, .cmd .loc 0 7 0 [97]] = none := by
  decide


/-- K report for record 0, TERM, exit 0, start again (no mark was written): the command for record 0
is refused by the layer although the base monitor — which only looks at the bytes on disk — accepts it;
the command for record 1 is accepted; after a crash instead of the clean stop the retry is accepted -/
example :
    let pre : List Ev2 :=
      [.ev (.newmsg 7 [115] [[97], [98]]), .ev (.creatInfo 7), .ev (.writeInfo 7 [70, 115, 0]), .ev (.creatChan 7 .loc),
       .ev (.writeChan 7 .loc [84, 97, 0, 84, 98, 0]), .ev (.fsyncInfo 7), .ev (.fsyncChan 7 .loc),
       .ev (.cleanReq [116, 111, 100, 111, 47, 55, 0]), .ev (.cUnlinkIntd 7), .ev (.cUnlinkTodo 7), .ev (.cleanResp 43),
       .ev (.cmd .loc 0 7 0 [97]), .ev (.rbytes .loc [0, 75, 0])]
    acceptAll2 cfg0 {} (pre ++ [.cleanRestart, .ev (.cmd .loc 0 7 0 [97])]) = none ∧
    (acceptAll2 cfg0 {} (pre ++ [.cleanRestart, .ev (.cmd .loc 0 7 3 [98])])).isSome = true ∧
    (acceptAll2 cfg0 {} (pre ++ [.ev .restart, .ev (.cmd .loc 0 7 0 [97])])).isSome = true ∧
    (acceptAll2 cfg0 {} (pre ++ [.markFail 7 .loc 0, .cleanRestart, .ev (.cmd .loc 0 7 0 [97])])).isSome = true := by
  decide

/-- the audit's probes, now refused: (P1) a `D` report was read, its paragraph not yet written — a second command for the same
record is refused in the same run and after a clean restart; (P2) two `K` reports, `markdone` fails for record 0 only: record 0
may be attempted again, record 1 may not -/
example :
    let pre : List Ev2 :=
      [.ev (.newmsg 7 [115] [[97], [98]]), .ev (.creatInfo 7), .ev (.writeInfo 7 [70, 115, 0]), .ev (.creatChan 7 .loc),
       .ev (.writeChan 7 .loc [84, 97, 0, 84, 98, 0]), .ev (.fsyncInfo 7), .ev (.fsyncChan 7 .loc),
       .ev (.cleanReq [116, 111, 100, 111, 47, 55, 0]), .ev (.cUnlinkIntd 7), .ev (.cUnlinkTodo 7), .ev (.cleanResp 43)]
    let cfg2 : Cfg := { conc := fun _ => 2, lifetime := 1000, route := fun a => (.loc, a), doublebounceto := [112] }
    acceptAll2 cfg2 {} (pre ++ [.ev (.cmd .loc 0 7 0 [97]), .ev (.rbytes .loc [0, 68, 120, 10, 0]), .ev (.cmd .loc 0 7 0 [97])]) = none ∧
    acceptAll2 cfg2 {} (pre ++ [.ev (.cmd .loc 0 7 0 [97]), .ev (.rbytes .loc [0, 68, 120, 10, 0]), .cleanRestart, .ev (.cmd .loc 0 7 0 [97])]) = none ∧
    (acceptAll2 cfg2 {} (pre ++ [.ev (.cmd .loc 0 7 0 [97]), .ev (.cmd .loc 1 7 3 [98]), .ev (.rbytes .loc [0, 75, 0, 1, 75, 0]),
       .markFail 7 .loc 0, .ev (.cmd .loc 0 7 0 [97])])).isSome = true ∧
    acceptAll2 cfg2 {} (pre ++ [.ev (.cmd .loc 0 7 0 [97]), .ev (.cmd .loc 1 7 3 [98]), .ev (.rbytes .loc [0, 75, 0, 1, 75, 0]),
       .markFail 7 .loc 0, .ev (.cmd .loc 1 7 3 [98])]) = none := by
  decide

/-- the second-pass audit's probes (B), now REFUSED: a `crashMarks` with no crash (it reverted a written mark and "excused" a
second delivery — at any idle instant) is refused, and so is the retry; after a crash it is accepted, and then the retry is
legitimate.  A `markFail` for a record whose mark is not due (nothing was reported, or the mark was already written) is refused;
for a record whose mark is due it is accepted and only that record may be retried. -/
example :
    let pre : List Ev2 :=
      [.ev (.newmsg 7 [115] [[97], [98]]), .ev (.creatInfo 7), .ev (.writeInfo 7 [70, 115, 0]), .ev (.creatChan 7 .loc),
       .ev (.writeChan 7 .loc [84, 97, 0, 84, 98, 0]), .ev (.fsyncInfo 7), .ev (.fsyncChan 7 .loc),
       .ev (.cleanReq [116, 111, 100, 111, 47, 55, 0]), .ev (.cUnlinkIntd 7), .ev (.cUnlinkTodo 7), .ev (.cleanResp 43)]
    let cfg2 : Cfg := { conc := fun _ => 2, lifetime := 1000, route := fun a => (.loc, a), doublebounceto := [112] }
    let marked : List Ev2 := pre ++ [.ev (.cmd .loc 0 7 0 [97]), .ev (.rbytes .loc [0, 75, 0]), .ev (.markD 7 .loc 0)]
    (acceptAll2 cfg2 {} marked).isSome = true ∧
    acceptAll2 cfg2 {} (marked ++ [.ev (.crashMarks 7 .loc [false, false])]) = none ∧
    acceptAll2 cfg2 {} (marked ++ [.ev (.cmd .loc 0 7 0 [97])]) = none ∧
    (acceptAll2 cfg2 {} (marked ++ [.ev .restart, .ev (.crashMarks 7 .loc [false, false]), .ev (.cmd .loc 0 7 0 [97])])).isSome = true ∧
    -- a crash-damage event after a CLEAN stop is refused too
    acceptAll2 cfg2 {} (marked ++ [.cleanRestart, .ev (.crashMarks 7 .loc [false, false])]) = none ∧
    -- `markFail` needs a due mark
    acceptAll2 cfg2 {} (marked ++ [.markFail 7 .loc 0]) = none ∧
    acceptAll2 cfg2 {} (marked ++ [.markFail 7 .loc 3]) = none ∧
    (acceptAll2 cfg2 {} (marked ++ [.ev (.cmd .loc 0 7 3 [98]), .ev (.rbytes .loc [0, 75, 0]), .markFail 7 .loc 3,
        .ev (.cmd .loc 0 7 3 [98])])).isSome = true ∧
    acceptAll2 cfg2 {} (marked ++ [.ev (.cmd .loc 0 7 3 [98]), .ev (.rbytes .loc [0, 75, 0]), .markFail 7 .loc 3, .markFail 7 .loc 3]) = none := by
  decide

/-- a `crashMarks` that KEEPS the record's byte is no excuse (finding 3 of the second-pass audit): record 0 marked, crash,
`crashMarks 7 loc [true, false]` — no excusing event for record 0 in this continuation, and (`C04_never_again`) no command for
it; the one that reverts the byte is an excuse -/
example :
    let pre : List Ev2 :=
      [.ev (.newmsg 7 [115] [[97], [98]]), .ev (.creatInfo 7), .ev (.writeInfo 7 [70, 115, 0]), .ev (.creatChan 7 .loc),
       .ev (.writeChan 7 .loc [84, 97, 0, 84, 98, 0]), .ev (.fsyncInfo 7), .ev (.fsyncChan 7 .loc),
       .ev (.cleanReq [116, 111, 100, 111, 47, 55, 0]), .ev (.cUnlinkIntd 7), .ev (.cUnlinkTodo 7), .ev (.cleanResp 43),
       .ev (.cmd .loc 0 7 0 [97]), .ev (.rbytes .loc [0, 75, 0]), .ev (.markD 7 .loc 0)]
    ((acceptAll2 cfg0 {} pre).map fun s =>
       (anyAlong cfg0 (fun t e => excuse t (7, .loc, 0) e) s [.ev .restart, .ev (.crashMarks 7 .loc [true, false]), .ev (.cmd .loc 0 7 3 [98])],
        (acceptAll2 cfg0 s [.ev .restart, .ev (.crashMarks 7 .loc [true, false]), .ev (.cmd .loc 0 7 3 [98])]).isSome,
        (acceptAll2 cfg0 s [.ev .restart, .ev (.crashMarks 7 .loc [true, false]), .ev (.cmd .loc 0 7 0 [97])]).isNone,
        anyAlong cfg0 (fun t e => excuse t (7, .loc, 0) e) s [.ev .restart, .ev (.crashMarks 7 .loc [false, false])]))
      = some (false, true, true, true) := by
  decide

end Nq.Props.C04
