/-
  Nq.SmtpOut — model of qmail-remote.c `blast()`: the outbound SMTP DATA encoder.

  The C function is a loop over `substdio_get(&ssin,&ch,1)` with three places at which the
  next byte is awaited; each is one automaton state:

    top   — `for (;;) { r = substdio_get(...)`           (start of a line; EOF ends the message)
    mid   — the `substdio_get` at the bottom of `while (ch != '\n')`  (EOF = perm_partialline)
    cr    — the look-ahead `substdio_get` after a CR      (EOF = the CR ends the last line)

  `rstep` returns the bytes `substdio_put` to `smtpto` while moving to the next state.
-/
import Nq.Basic

namespace Nq.SmtpOut
open Nq

inductive RSt | top | mid | cr
  deriving DecidableEq, Repr

/-- one input byte -/
def rstep : RSt → Byte → RSt × Bytes
  | .top, c =>
      if c = LF then (.top, [CR, LF])
      else if c = CR then (.cr, [])
      else if c = DOT then (.mid, [DOT, DOT])
      else (.mid, [c])
  | .mid, c =>
      if c = LF then (.top, [CR, LF])
      else if c = CR then (.cr, [])
      else (.mid, [c])
  | .cr, c =>
      if c = LF then (.top, [CR, LF])
      else if c = DOT then (.mid, [CR, LF, DOT, DOT])
      else (.mid, [CR, LF, c])

/-- end of input: `none` is `perm_partialline()` -/
def rfinish : RSt → Option Bytes
  | .top => some [DOT, CR, LF]
  | .mid => none
  | .cr  => some [CR, LF, DOT, CR, LF]

/-- the encoder from a given state; `none` = the message is refused (partial last line) -/
def rrun : RSt → Bytes → Option Bytes
  | s, [] => rfinish s
  | s, c :: m => match rrun (rstep s c).1 m with
      | some e => some ((rstep s c).2 ++ e)
      | none => none

/-- everything `blast()` writes after the DATA command was accepted -/
def rblast (m : Bytes) : Option Bytes := rrun .top m

/-- the state reached (used to say when a message is refused) -/
def rstate : RSt → Bytes → RSt
  | s, [] => s
  | s, c :: m => rstate (rstep s c).1 m

/-! ### The documented line discipline of the encoder (`canon`)

LF ends a line; CR LF ends a line; a CR that is not followed by LF ends a line as well (it is
"converted to a line break") and the byte after it is then taken literally. A CR at the very
end of the message ends the last line. For CR-free messages this is the identity. -/

inductive CSt | n | c
  deriving DecidableEq, Repr

def cstep : CSt → Byte → CSt × Bytes
  | .n, x => if x = CR then (.c, []) else (.n, [x])
  | .c, x => if x = LF then (.n, [LF]) else (.n, [LF, x])

def cfinish : CSt → Bytes
  | .n => []
  | .c => [LF]

def crun : CSt → Bytes → Bytes
  | s, [] => cfinish s
  | s, x :: m => (cstep s x).2 ++ crun (cstep s x).1 m

def canon (m : Bytes) : Bytes := crun .n m

end Nq.SmtpOut
