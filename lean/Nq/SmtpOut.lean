/-
  Nq.SmtpOut — model of qmail-remote.c `blast()`: the outbound SMTP DATA encoder.

  The C function is a loop over `substdio_get(&ssin,&ch,1)` with three places at which the
  next byte is awaited; each is one automaton state:

    top   — `for (;;) { r = substdio_get(...)`           (start of a line; EOF ends the message)
    mid   — the `substdio_get` at the bottom of `while (ch != '\n')`  (EOF = perm_partialline)
    cr    — the look-ahead `substdio_get` after a CR      (EOF = the CR ends the last line)

  `rstep` returns the bytes `substdio_put` to `smtpto` while moving to the next state.
-/
import Nq.Basic

namespace Nq.SmtpOut
open Nq

inductive RSt | top | mid | cr
  deriving DecidableEq, Repr

/-- one input byte -/
def rstep : RSt → Byte → RSt × Bytes
  | .top, c =>
      if c = LF then (.top, [CR, LF])
      else if c = CR then (.cr, [])
      else if c = DOT then (.mid, [DOT, DOT])
      else (.mid, [c])
  | .mid, c =>
      if c = LF then (.top, [CR, LF])
      else if c = CR then (.cr, [])
      else (.mid, [c])
  | .cr, c =>
      if c = LF then (.top, [CR, LF])
      else if c = DOT then (.mid, [CR, LF, DOT, DOT])
      else (.mid, [CR, LF, c])

/-- end of input: `none` is `perm_partialline()` -/
def rfinish : RSt → Option Bytes
  | .top => some [DOT, CR, LF]
  | .mid => none
  | .cr  => some [CR, LF, DOT, CR, LF]

/-- the encoder from a given state; `none` = the message is refused (partial last line) -/
def rrun : RSt → Bytes → Option Bytes
  | s, [] => rfinish s
  | s, c :: m => match rrun (rstep s c).1 m with
      | some e => some ((rstep s c).2 ++ e)
      | none => none

/-- everything `blast()` writes after the DATA command was accepted -/
def rblast (m : Bytes) : Option Bytes := rrun .top m

/-- everything handed to `substdio_put` while the bytes of `m` are consumed, *before* end of input is
seen — defined also when the message is going to be refused (`rrun` forgets it in that case) -/
def rpart : RSt → Bytes → Bytes
  | _, [] => []
  | s, c :: m => (rstep s c).2 ++ rpart (rstep s c).1 m

/-- the state reached (used to say when a message is refused) -/
def rstate : RSt → Bytes → RSt
  | s, [] => s
  | s, c :: m => rstate (rstep s c).1 m

/-- everything `blast()` hands to `substdio_put` on message `m`, whatever the outcome: `rpart`, then the
final `.` CR LF (after CR LF if the message ended in a CR) unless it is refused (`perm_partialline()`).
What is on the wire at any moment — when the connection drops, when a read fails, when the message is
refused — is a prefix of this. -/
def rfull (s : RSt) (m : Bytes) : Bytes := rpart s m ++ (rfinish (rstate s m)).getD []

/-! ### The documented line discipline of the encoder (`canon`)

LF ends a line; CR LF ends a line; a CR that is not followed by LF ends a line as well (it is
"converted to a line break") and the byte after it is then taken literally. A CR at the very
end of the message ends the last line. For CR-free messages this is the identity. -/

inductive CSt | n | c
  deriving DecidableEq, Repr

def cstep : CSt → Byte → CSt × Bytes
  | .n, x => if x = CR then (.c, []) else (.n, [x])
  | .c, x => if x = LF then (.n, [LF]) else (.n, [LF, x])

def cfinish : CSt → Bytes
  | .n => []
  | .c => [LF]

def crun : CSt → Bytes → Bytes
  | s, [] => cfinish s
  | s, x :: m => (cstep s x).2 ++ crun (cstep s x).1 m

def canon (m : Bytes) : Bytes := crun .n m

/-! ### `canon` without a state machine

`canonSpec` reads the message in *tokens*, greedily from the left: a CR together with the byte after it
(CR LF → one line end; CR x → a line end followed by x **taken literally, even when x is itself a CR**),
a CR at the very end (→ a line end), or any other single byte.  `canonDoc` is the rule as documented
("LF → CRLF; CRLF kept; bare CR → CRLF"): every CR that is not followed by LF is a line end, and the byte
after it is examined afresh.  The two differ exactly on messages with two adjacent CRs (`noCRCR`). -/

def canonSpec : Bytes → Bytes
  | [] => []
  | [c] => if c = CR then [LF] else [c]
  | c :: d :: m =>
      if c = CR then
        if d = LF then LF :: canonSpec m
        else LF :: d :: canonSpec m          -- `d` is not looked at again: CR CR LF ↦ LF CR LF
      else c :: canonSpec (d :: m)

def canonDoc : Bytes → Bytes
  | [] => []
  | [c] => if c = CR then [LF] else [c]
  | c :: d :: m =>
      if c = CR then
        if d = LF then LF :: canonDoc m
        else LF :: canonDoc (d :: m)         -- `d` starts the next line and is examined afresh: CR CR LF ↦ LF LF
      else c :: canonDoc (d :: m)

/-- no two adjacent CRs -/
def noCRCR : Bytes → Bool
  | [] => true
  | [_] => true
  | c :: d :: m => !(c == CR && d == CR) && noCRCR (d :: m)

end Nq.SmtpOut
