/-
  Nq.SmtpSession — model of the SMTP transaction logic of qmail-smtpd:

    commands.c    `commands()`            → `readLine`, `parseLine`, `verbOf`
    qmail-smtpd.c `addrparse()`           → `addrStart`, `stripRoute`, `unq`, `lipSubst`, `addrparse`
                  `bmfcheck()`            → `bmfcheck`
                  `smtp_helo/ehlo/rset/mail/rcpt/data/quit/help`, `err_*` → `sstep`
                  `main()` + the command loop, with `blast()` from `Nq.SmtpIn` → `run`
    rcpthosts.c   `rcpthosts()`           → `rcpthostsMatch`
    ip.c          `ip_scanbracket/ip_scan`, scan_ulong.c → `scanBracket`, `scanNum`
    control.c     `control_readfile/readline`, `striptrailingwhitespace` → `readfile`, `readlineC`
    qmail-newmrh.c `main()` key set       → `newmrhKeys`
    constmap.c    case-insensitive exact lookup → `cmLookup` (finite-map abstraction)
    cdb_seek.c    exact lookup            → `List.contains` on the key set (abstraction)
    ipme.c        `ipme_is`               → membership in `Cfg.ipme` (the interface list is a parameter)

  The command table, reply texts and the 900 limit come from `Nq.Gen.SmtpCmds`, regenerated from
  qmail-smtpd.c on every run.  Core Lean only.
-/
import Nq.SmtpIn
import Nq.Gen.SmtpCmds

namespace Nq.SmtpSession
open Nq Nq.SmtpIn

@[reducible] def LTc   : Byte := 60   -- '<'
@[reducible] def GTc   : Byte := 62   -- '>'
@[reducible] def COLON : Byte := 58
@[reducible] def BSL   : Byte := 92   -- '\\'
@[reducible] def DQ    : Byte := 34   -- '"'
@[reducible] def LBR   : Byte := 91   -- '['
@[reducible] def RBR   : Byte := 93   -- ']'
@[reducible] def HASH  : Byte := 35   -- '#'

/-! ### control.c / qmail-newmrh.c: how a control file becomes a list of entries -/

def isWs (c : Byte) : Bool := c == LF || c == SP || c == TAB

/-- `striptrailingwhitespace()` -/
def stripTrail (l : Bytes) : Bytes := (l.reverse.dropWhile isWs).reverse

/-- pieces between separators (n separators give n+1 pieces) -/
def splitOnB (sep : Byte) : Bytes → List Bytes
  | [] => [[]]
  | c :: r =>
    if c = sep then [] :: splitOnB sep r
    else match splitOnB sep r with
      | [] => [[c]]
      | p :: ps => (c :: p) :: ps

def keepLine (l : Bytes) : Bool :=
  match l with
  | [] => false
  | c :: _ => c != NUL && c != HASH

/-- `control_readfile(sa,fn,0)` followed by `constmap_init(..,0)`: lines, trailing blanks removed,
empty and `#` lines dropped; every NUL inside a line separates entries (constmap splits at NUL). -/
def readfile (content : Bytes) : List Bytes :=
  (((splitOnB LF content).map stripTrail).filter keepLine).flatMap (splitOnB NUL)

/-- `control_readline()`: first line, trailing blanks removed -/
def readlineC (content : Bytes) : Bytes := stripTrail (content.takeWhile (· != LF))

/-- keys qmail-newmrh puts into morercpthosts.cdb: lower-cased lines, trailing blanks removed,
empty and `#` lines dropped -/
def newmrhKeys (content : Bytes) : List Bytes :=
  ((splitOnB LF content).map (fun l => stripTrail (lower l))).filter
    (fun l => match l with | [] => false | c :: _ => c != HASH)

abbrev Ip := Byte × Byte × Byte × Byte

/-- Everything `setup()` reads, after parsing. `none` = the file (or variable) is absent. -/
structure Cfg where
  rh : Option (List Bytes) := none        -- control/rcpthosts entries
  more : Option (List Bytes) := none      -- keys of control/morercpthosts.cdb
  bmf : Option (List Bytes) := none       -- control/badmailfrom entries
  liphost : Option Bytes := none          -- control/localiphost (default: control/me)
  ipme : List Ip := []                    -- addresses of this host (ipme.c), 0.0.0.0 included by the caller
  relay : Option Bytes := none            -- $RELAYCLIENT
  greeting : Bytes := []                  -- control/smtpgreeting (default: control/me)
  now : Nat := 0                          -- clock, only for the text of the acceptance reply
  qp : Nat := 0                           -- qmail-queue pid, idem

/-- the configuration `setup()` derives from the raw control files (control/me is present) -/
def Cfg.ofFiles (me : Bytes) (rh more bmf lip relay : Option Bytes) (ipme : List Ip) (now qp : Nat) : Cfg :=
  { rh := rh.map readfile, more := more.map newmrhKeys, bmf := bmf.map readfile,
    liphost := some (match lip with | some f => readlineC f | none => readlineC me),
    ipme := ipme, relay := relay, greeting := readlineC me, now := now, qp := qp }

/-! ### constmap.c -/

/-- `constmap(&m,k,len) != 0` for a map built with `flagcolon = 0`: some entry has the same length
and is equal ignoring ASCII case -/
def cmLookup (entries : List Bytes) (k : Bytes) : Bool := entries.any (fun e => lower e == lower k)

/-! ### addrparse() -/

/-- rest of the string after the first `b` (empty if there is none) -/
def dropThrough (b : Byte) : Bytes → Bytes
  | [] => []
  | c :: r => if c = b then r else dropThrough b r

/-- terminator and start of the address: after the first `<`, else after the first `:` and blanks -/
def addrStart (arg : Bytes) : Byte × Bytes :=
  if LTc ∈ arg then (GTc, dropThrough LTc arg)
  else (SP, ((arg.dropWhile (· != COLON)).drop 1).dropWhile (· == SP))

/-- `if (*arg == '@') while (*arg) if (*arg++ == ':') break;` -/
def stripRoute (a : Bytes) : Bytes :=
  match a with
  | c :: r => if c = AT then dropThrough COLON r else c :: r
  | [] => []

/-- the copy loop: `esc` = flagesc, `q` = flagquoted -/
def unq (term : Byte) : Bool → Bool → Bytes → Bytes
  | _, _, [] => []
  | true, q, c :: r => c :: unq term false q r
  | false, q, c :: r =>
    if !q && c = term then []
    else if c = BSL then unq term true q r
    else if c = DQ then unq term false (!q) r
    else c :: unq term false q r

/-- the address before `localiphost` substitution -/
def addrRaw (arg : Bytes) : Bytes := unq (addrStart arg).1 false false (stripRoute (addrStart arg).2)

/-- `byte_rchr(..,'@')`: (everything up to and including the last `@`, everything after it) -/
def splitLastAt : Bytes → Option (Bytes × Bytes)
  | [] => none
  | c :: r =>
    match splitLastAt r with
    | some (p, d) => some (c :: p, d)
    | none => if c = AT then some ([c], r) else none

/-- value of a digit string as `scan_ulong` computes it and `ip->d[i] = u` truncates it -/
def numVal (ds : Bytes) : Byte := ds.foldl (fun acc d => acc * 10 + (d - 48)) 0

def scanNum (s : Bytes) : Option (Byte × Bytes) :=
  if s.takeWhile isDigit = [] then none else some (numVal (s.takeWhile isDigit), s.dropWhile isDigit)

def expect (b : Byte) : Bytes → Option Bytes
  | [] => none
  | c :: r => if c = b then some r else none

/-- `ip_scanbracket()`: `[a.b.c.d]`, returns the address and what follows the bracket -/
def scanBracket (s : Bytes) : Option (Ip × Bytes) :=
  match expect LBR s with
  | none => none
  | some s1 =>
  match scanNum s1 with
  | none => none
  | some (a, s2) =>
  match expect DOT s2 with
  | none => none
  | some s3 =>
  match scanNum s3 with
  | none => none
  | some (b, s4) =>
  match expect DOT s4 with
  | none => none
  | some s5 =>
  match scanNum s5 with
  | none => none
  | some (c, s6) =>
  match expect DOT s6 with
  | none => none
  | some s7 =>
  match scanNum s7 with
  | none => none
  | some (d, s8) =>
  match expect RBR s8 with
  | none => none
  | some s9 => some ((a, b, c, d), s9)

/-- the `if (liphostok)` block -/
def lipSubst (cfg : Cfg) (a : Bytes) : Bytes :=
  match cfg.liphost with
  | none => a
  | some h =>
    match splitLastAt a with
    | none => a
    | some (p, d) =>
      match scanBracket d with
      | some (ip, []) => if cfg.ipme.contains ip then p ++ h else a
      | _ => a

/-- the address `addrparse()` leaves in `addr` (without the final NUL) -/
def addrCore (cfg : Cfg) (arg : Bytes) : Bytes := lipSubst cfg (addrRaw arg)

/-- `addrparse()`: `none` = return 0 (555). `addr.len` counts the final NUL. -/
def addrparse (cfg : Cfg) (arg : Bytes) : Option Bytes :=
  if (addrCore cfg arg).length + 1 > Gen.ADDRMAX then none else some (addrCore cfg arg)

/-! ### bmfcheck(), rcpthosts() -/

def bmfcheck (cfg : Cfg) (a : Bytes) : Bool :=
  match cfg.bmf with
  | none => false
  | some es =>
    cmLookup es a ||
    (match splitLastAt a with
     | some (_, d) => cmLookup es (AT :: d)
     | none => false)

/-- suffixes that start at a `.` -/
def dotTails : Bytes → List Bytes
  | [] => []
  | c :: r => if c = DOT then (c :: r) :: dotTails r else dotTails r

/-- `for (j = 0;j < len;++j) if (!j || (buf[j] == '.'))` : the strings looked up -/
def candidates (d : Bytes) : List Bytes :=
  match d with
  | [] => []
  | c :: r => (c :: r) :: dotTails r

def rcpthostsMatch (cfg : Cfg) (a : Bytes) : Bool :=
  match cfg.rh with
  | none => true
  | some rh =>
    match splitLastAt a with
    | none => true
    | some (_, dom) =>
      (candidates (lower dom)).any (cmLookup rh) ||
      (match cfg.more with
       | none => false
       | some ks => (candidates (lower dom)).any (fun s => ks.contains s))

/-! ### commands(): lines, verbs -/

/-- bytes up to the first LF, and what follows it; `none` when the stream ends first -/
def readLine : Bytes → Option (Bytes × Bytes)
  | [] => none
  | c :: r =>
    if c = LF then some ([], r)
    else match readLine r with
      | some (l, r') => some (c :: l, r')
      | none => none

inductive Verb | rcpt | mail | data | quit | helo | ehlo | rset | help | noop | vrfy | unimpl
  deriving DecidableEq, Repr

/-- the transcription of each handler function named in `smtpcommands[]` -/
def handlerVerb : Gen.Handler → Verb
  | .smtp_rcpt => .rcpt | .smtp_mail => .mail | .smtp_data => .data | .smtp_quit => .quit
  | .smtp_helo => .helo | .smtp_ehlo => .ehlo | .smtp_rset => .rset | .smtp_help => .help
  | .err_noop => .noop | .err_vrfy => .vrfy | .err_unimpl => .unimpl

/-- first table entry whose text equals the verb ignoring case (`case_equals`), else the
terminating entry -/
def verbOf (v : Bytes) : Verb :=
  match Gen.smtpCommands.find? (fun e => lower e.1 == lower v) with
  | some e => handlerVerb e.2.1
  | none => handlerVerb Gen.smtpDefault.1

def stripCR (l : Bytes) : Bytes := if l.getLast? = some CR then l.dropLast else l

/-- one line (without its LF) → verb and argument; the line is cut at the first NUL (C string) -/
def parseLine (l : Bytes) : Verb × Bytes :=
  let s := (stripCR l).takeWhile (· != NUL)
  (verbOf (s.takeWhile (· != SP)), (s.dropWhile (· != SP)).dropWhile (· == SP))

/-! ### the transaction state machine -/

inductive BlastOut | ok | stray | eof
  deriving DecidableEq, Repr

/-- what the environment does to a DATA command that passes the gates -/
structure DataEnv where
  openFails : Bool := false      -- `qmail_open() == -1`
  blast : BlastOut := .ok        -- how `blast()` ends on the bytes that follow
  close : Bytes := []            -- `qmail_close()`: "" queued, "D…" permanent, otherwise temporary
  deriving DecidableEq, Repr

inductive Cmd
  | helo | ehlo | rset | help | noop | vrfy | unimpl | quit
  | mail (arg : Bytes)
  | rcpt (arg : Bytes)
  | data (env : DataEnv)
  deriving DecidableEq, Repr

inductive Reply
  | helo | ehlo | flushed | mailok | rcptok | syntax | bmf | nogateway | wantmail | wantrcpt | unimpl | noop | vrfy | help | quit
  | go | accepted | qqt | stray
  | qqfail (txt : Bytes)
  deriving DecidableEq, Repr

/-- the envelope handed to the queue (`qmail_from`, then `rcptto`), and `qmail_close()`'s answer -/
structure Submit where
  sender : Bytes
  rcpts : List Bytes
  result : Bytes
  deriving DecidableEq, Repr

structure Out where
  replies : List Reply
  submit : Option Submit := none
  halt : Bool := false             -- `_exit`: the session is over
  deriving DecidableEq, Repr

/-- `seenmail, flagbarf, mailfrom, rcptto` -/
structure Sess where
  seenmail : Bool := false
  flagbarf : Bool := false
  mailfrom : Bytes := []
  rcptto : List Bytes := []
  deriving DecidableEq, Repr

def closeReply (qqx : Bytes) : Reply := if qqx = [] then .accepted else .qqfail qqx

def sstep (cfg : Cfg) (s : Sess) : Cmd → Sess × Out
  | .helo => ({ s with seenmail := false }, { replies := [.helo] })
  | .ehlo => ({ s with seenmail := false }, { replies := [.ehlo] })
  | .rset => ({ s with seenmail := false }, { replies := [.flushed] })
  | .help => (s, { replies := [.help] })
  | .noop => (s, { replies := [.noop] })
  | .vrfy => (s, { replies := [.vrfy] })
  | .unimpl => (s, { replies := [.unimpl] })
  | .quit => (s, { replies := [.quit], halt := true })
  | .mail arg =>
    match addrparse cfg arg with
    | none => (s, { replies := [.syntax] })
    | some a => ({ seenmail := true, flagbarf := bmfcheck cfg a, mailfrom := a, rcptto := [] }, { replies := [.mailok] })
  | .rcpt arg =>
    if !s.seenmail then (s, { replies := [.wantmail] })
    else match addrparse cfg arg with
      | none => (s, { replies := [.syntax] })
      | some a =>
        if s.flagbarf then (s, { replies := [.bmf] })
        else match cfg.relay with
          | some rc => ({ s with rcptto := s.rcptto ++ [a ++ rc] }, { replies := [.rcptok] })
          | none =>
            if rcpthostsMatch cfg a then ({ s with rcptto := s.rcptto ++ [a] }, { replies := [.rcptok] })
            else (s, { replies := [.nogateway] })
  | .data env =>
    if !s.seenmail then (s, { replies := [.wantmail] })
    else if s.rcptto.isEmpty then (s, { replies := [.wantrcpt] })
    else if env.openFails then ({ s with seenmail := false }, { replies := [.qqt] })
    else match env.blast with
      | .eof => ({ s with seenmail := false }, { replies := [.go], halt := true })
      | .stray => ({ s with seenmail := false }, { replies := [.go, .stray], halt := true })
      | .ok => ({ s with seenmail := false },
                { replies := [.go, closeReply env.close], submit := some ⟨s.mailfrom, s.rcptto, env.close⟩ })

/-- the session as a list of (command, outcome); stops at the command that ends the process -/
def trace (cfg : Cfg) : Sess → List Cmd → List (Cmd × Out)
  | _, [] => []
  | s, c :: cs => (c, (sstep cfg s c).2) :: (if (sstep cfg s c).2.halt then [] else trace cfg (sstep cfg s c).1 cs)

/-! ### the byte-level session: `main()` after `setup()` -/

/-- scripted behaviour of the stand-in for qmail.c (C07 models qmail.c itself) -/
structure QQ where
  openFails : Bool := false
  close : Bytes := []

/-- `smtp_data` gets as far as `blast()` -/
def dataGate (s : Sess) : Bool := s.seenmail && !s.rcptto.isEmpty

/-- read one command from the stream: the command and the unread remainder. DATA swallows the
message (through `blast()`, i.e. `dblast` of C05) only when it passes the gates. -/
def nextCmd (qq : QQ) (s : Sess) (inp : Bytes) : Option (Cmd × Bytes) :=
  match readLine inp with
  | none => none
  | some (l, rest) =>
    match (parseLine l).1 with
    | .rcpt => some (.rcpt (parseLine l).2, rest)
    | .mail => some (.mail (parseLine l).2, rest)
    | .quit => some (.quit, rest)
    | .helo => some (.helo, rest)
    | .ehlo => some (.ehlo, rest)
    | .rset => some (.rset, rest)
    | .help => some (.help, rest)
    | .noop => some (.noop, rest)
    | .vrfy => some (.vrfy, rest)
    | .unimpl => some (.unimpl, rest)
    | .data =>
      if dataGate s && !qq.openFails then
        match dblast rest with
        | .accepted _ r => some (.data { blast := .ok, close := qq.close }, r)
        | .stray => some (.data { blast := .stray, close := qq.close }, [])
        | .incomplete => some (.data { blast := .eof, close := qq.close }, [])
      else some (.data { openFails := qq.openFails, close := qq.close }, rest)

def runFuel (cfg : Cfg) (qq : QQ) : Nat → Sess → Bytes → List (Cmd × Out)
  | 0, _, _ => []
  | n + 1, s, inp =>
    match nextCmd qq s inp with
    | none => []
    | some (c, rest) =>
      (c, (sstep cfg s c).2) :: (if (sstep cfg s c).2.halt then [] else runFuel cfg qq n (sstep cfg s c).1 rest)

/-- every command consumes at least its LF, so `length + 1` steps always suffice -/
def run (cfg : Cfg) (qq : QQ) (inp : Bytes) : List (Cmd × Out) := runFuel cfg qq (inp.length + 1) {} inp

/-! ### reply texts -/

def render (cfg : Cfg) : Reply → Bytes
  | .helo => Gen.txt_helo_pre ++ cfg.greeting ++ Gen.txt_helo_tail
  | .ehlo => Gen.txt_ehlo_pre ++ cfg.greeting ++ Gen.txt_ehlo_tail
  | .flushed => Gen.txt_rset
  | .mailok => Gen.txt_mail_ok
  | .rcptok => Gen.txt_rcpt_ok
  | .syntax => Gen.txt_err_syntax
  | .bmf => Gen.txt_err_bmf
  | .nogateway => Gen.txt_err_nogateway
  | .wantmail => Gen.txt_err_wantmail
  | .wantrcpt => Gen.txt_err_wantrcpt
  | .unimpl => Gen.txt_err_unimpl
  | .noop => Gen.txt_err_noop
  | .vrfy => Gen.txt_err_vrfy
  | .help => Gen.txt_smtp_help
  | .quit => Gen.txt_quit_pre ++ cfg.greeting ++ Gen.txt_quit_tail
  | .go => Gen.txt_data_go
  | .accepted => Gen.txt_accept_pre ++ fmtNat cfg.now ++ Gen.txt_accept_qp ++ fmtNat cfg.qp ++ Gen.txt_accept_end
  | .qqt => Gen.txt_err_qqt
  | .stray => Gen.txt_straynewline
  | .qqfail t => (if t.head? = some 68 then str "554 " else str "451 ") ++ t.drop 1 ++ [CR, LF]

def banner (cfg : Cfg) : Bytes := Gen.txt_banner_pre ++ cfg.greeting ++ Gen.txt_banner_tail

/-- everything the server writes during the session -/
def replyStream (cfg : Cfg) (tr : List (Cmd × Out)) : Bytes :=
  banner cfg ++ (tr.flatMap (fun x => x.2.replies.flatMap (render cfg)))

/-- `rcptto` as the C code stores it: `T` address NUL for each recipient -/
def encRcpts (rs : List Bytes) : Bytes := rs.flatMap (fun r => 84 :: r ++ [NUL])

end Nq.SmtpSession
