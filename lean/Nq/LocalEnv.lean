/-
  Nq.LocalEnv — the environment qmail-local.c hands to commands (property C13, extension round 4).

    envPut / envGet     env.c: env_put2 (all entries of that name removed, the new one appended), env_get (first match)
    puts                main(): the env_put2 calls in program order — HOST HOME USER LOCAL RECIPIENT DTLINE SENDER RPLINE
                        UFLINE EXT EXT2 EXT3 EXT4 HOST2 HOST3 HOST4 [DEFAULT] NEWSENDER
    commandEnv          the environment at the point where commands are run, for a whole `Nq.Local.run`
    ufline              "From " sender' " " myctime(now())   (`Nq.LocalDeliver.ufline`, C12's model of myctime.c, imported
                        read-only; it is the same arithmetic as `Nq.Datetime.tai`)

  The environment is a list of (name, value) pairs.  env.c removes an entry by moving the last one into its place, so the
  *order* of `environ` is not the order of this list when an inherited variable is overwritten; the model is compared with
  `environ` as a set (inherited environments with two entries of one name are not generated).  Core Lean only.
-/
import Nq.Local
import Nq.LocalDeliver

namespace Nq.LocalEnv
open Nq Nq.Local

abbrev Env := List (Bytes × Bytes)

/-- env_put2(k,v): `env_unsetlen` removes every entry called `k`, then the new entry is added at the end -/
def envPut (e : Env) (k v : Bytes) : Env := e.filter (fun p => p.1 != k) ++ [(k, v)]

/-- env_get(k): the first entry called `k` -/
def envGet (e : Env) (k : Bytes) : Option Bytes :=
  match e with
  | [] => none
  | p :: r => if p.1 = k then some p.2 else envGet r k

@[reducible] def nHOST : Bytes := [72, 79, 83, 84]
@[reducible] def nHOME : Bytes := [72, 79, 77, 69]
@[reducible] def nUSER : Bytes := [85, 83, 69, 82]
@[reducible] def nLOCAL : Bytes := [76, 79, 67, 65, 76]
@[reducible] def nRECIPIENT : Bytes := [82, 69, 67, 73, 80, 73, 69, 78, 84]
@[reducible] def nDTLINE : Bytes := [68, 84, 76, 73, 78, 69]
@[reducible] def nSENDER : Bytes := [83, 69, 78, 68, 69, 82]
@[reducible] def nRPLINE : Bytes := [82, 80, 76, 73, 78, 69]
@[reducible] def nUFLINE : Bytes := [85, 70, 76, 73, 78, 69]
@[reducible] def nEXT : Bytes := [69, 88, 84]
@[reducible] def nEXT2 : Bytes := [69, 88, 84, 50]
@[reducible] def nEXT3 : Bytes := [69, 88, 84, 51]
@[reducible] def nEXT4 : Bytes := [69, 88, 84, 52]
@[reducible] def nHOST2 : Bytes := [72, 79, 83, 84, 50]
@[reducible] def nHOST3 : Bytes := [72, 79, 83, 84, 51]
@[reducible] def nHOST4 : Bytes := [72, 79, 83, 84, 52]
@[reducible] def nDEFAULT : Bytes := [68, 69, 70, 65, 85, 76, 84]
@[reducible] def nNEWSENDER : Bytes := [78, 69, 87, 83, 69, 78, 68, 69, 82]

/-- the arguments of qmail-local that reach the environment, and the clock -/
structure EArgs where
  user : Bytes
  home : Bytes
  loc : Bytes
  ext : Bytes
  host : Bytes
  sender : Bytes
  now : Nat          -- `starttime = now()`
  deriving Repr

/-- the From_ line: `uflinePrefix` followed by `myctime(starttime)` -/
def ufline (sender : Bytes) (t : Nat) : Bytes := Nq.LocalDeliver.ufline sender t

/-- `main()`: the `env_put2` calls up to `HOST4`, in program order -/
def putsFixed (x : EArgs) : List (Bytes × Bytes) :=
  let e2 := afterDash x.ext
  let e3 := afterDash e2
  let e4 := afterDash e3
  let h2 := beforeLastDot x.host
  let h3 := beforeLastDot h2
  let h4 := beforeLastDot h3
  [ (nHOST, x.host), (nHOME, x.home), (nUSER, x.user), (nLOCAL, x.loc),
    (nRECIPIENT, envrecip x.loc x.host), (nDTLINE, dtline x.loc x.host),
    (nSENDER, x.sender), (nRPLINE, rpline x.sender), (nUFLINE, ufline x.sender x.now),
    (nEXT, x.ext), (nEXT2, e2), (nEXT3, e3), (nEXT4, e4),
    (nHOST2, h2), (nHOST3, h3), (nHOST4, h4) ]

/-- `qmesearch` puts `DEFAULT` only when the selected file name ends in "default"; `NEWSENDER` is put last -/
def putsLate (dflt : Option Bytes) (ueo : Bytes) : List (Bytes × Bytes) :=
  (match dflt with
   | some d => [(nDEFAULT, d)]
   | none => []) ++ [(nNEWSENDER, ueo)]

def puts (x : EArgs) (dflt : Option Bytes) (ueo : Bytes) : List (Bytes × Bytes) := putsFixed x ++ putsLate dflt ueo

def applyPuts (e0 : Env) (ps : List (Bytes × Bytes)) : Env := ps.foldl (fun e p => envPut e p.1 p.2) e0

/-- the environment after all `env_put2` calls of `main()`, starting from the inherited environment `e0` -/
def envFinal (e0 : Env) (x : EArgs) (dflt : Option Bytes) (ueo : Bytes) : Env := applyPuts e0 (puts x dflt ueo)

def eargsOf (a : Args) (user home : Bytes) (now : Nat) : EArgs :=
  { user := user, home := home, loc := a.loc, ext := a.ext, host := a.host, sender := a.sender, now := now }

/-- the environment of every command `main()` runs (and of `main()` itself once `NEWSENDER` is put): defined when the
run gets as far as the instruction loop (`(run a w).ueo` is set exactly then) -/
def commandEnv (e0 : Env) (a : Args) (w : World) (user home : Bytes) (now : Nat) : Option Env :=
  match (run a w).ueo with
  | some u => some (envFinal e0 (eargsOf a user home now) (run a w).dfltEnv u)
  | none => none

end Nq.LocalEnv
