/-
  Nq.QmailC — model of qmail.c: the client side of the qmail-queue interface.

  `Sub` is a substdio output buffer (substdo.c `substdio_flush/put`) in front of a descriptor whose
  `write` may start failing (`wleft`).  `QQ` is `struct qmail`: the failure flag `flagerr`, the
  buffer, and the bytes that have really been written to the message pipe and to the envelope pipe.
  `QOp` are the calls a daemon makes between `qmail_open` and the end (`put/puts/fail/from/to/close`);
  `QQ.run` executes a call sequence.  `closeVerdict` is the `switch` of `qmail_close()`, taken from the
  table the translator regenerates from the source (Nq/Gen/QQClose.lean).
-/
import Nq.Basic
import Nq.Gen.QQClose
import Nq.Gen.C07Consts

namespace Nq.QmailC
open Nq

/-- a C string: the bytes before the first NUL -/
def cstr : Bytes → Bytes
  | [] => []
  | c :: r => if c = 0 then [] else c :: cstr r

/-! ### substdio output -/

structure Sub where
  cap : Nat                       -- size of the buffer
  buf : Bytes := []               -- buffered, not yet written
  out : Bytes := []               -- written to the descriptor so far
  wleft : Option Nat := none      -- `some k`: k more `write` calls succeed, then every one fails; `none`: never fails
  deriving DecidableEq, Repr

/-- one `write()` of the whole chunk (pipes: no short writes) -/
def Sub.wr (s : Sub) (bs : Bytes) : Sub × Bool :=
  match s.wleft with
  | some 0 => (s, false)
  | some (k + 1) => ({ s with wleft := some k, out := s.out ++ bs }, true)
  | none => ({ s with out := s.out ++ bs }, true)

/-- `substdio_flush`: `p = 0` first, then `allwrite` -/
def Sub.flush (s : Sub) : Sub × Bool :=
  if s.buf.isEmpty then (s, true) else Sub.wr { s with buf := [] } s.buf

structure DRes where
  s : Sub
  rest : Bytes
  ok : Bool

/-- the `while (len > s->n)` loop of `substdio_put`: direct writes of min(max(cap,OUTSIZE),len) bytes -/
def Sub.direct : Nat → Sub → Bytes → DRes
  | 0, s, bs => ⟨s, bs, true⟩
  | fuel + 1, s, bs =>
    if bs.length > s.cap then
      let n := min (max s.cap Nq.Gen.C07.substdioOutsize) bs.length
      let r := s.wr (bs.take n)
      if r.2 then Sub.direct fuel r.1 (bs.drop n) else ⟨r.1, [], false⟩
    else ⟨s, bs, true⟩

/-- `substdio_put` -/
def Sub.put (s : Sub) (bs : Bytes) : Sub × Bool :=
  if bs.length > s.cap - s.buf.length then
    let r := s.flush
    if r.2 then
      let d := Sub.direct bs.length r.1 bs
      if d.ok then ({ d.s with buf := d.s.buf ++ d.rest }, true) else (d.s, false)
    else (r.1, false)
  else ({ s with buf := s.buf ++ bs }, true)

/-! ### struct qmail -/

structure QQ where
  flagerr : Bool := false
  inEnv : Bool := false            -- after `qmail_from`: the substdio points at the envelope pipe
  ss : Sub := { cap := Nq.Gen.C07.qqBuf }
  msgDone : Bytes := []            -- after `qmail_from`: everything the message pipe received
  closed : Bool := false           -- `qmail_close` was called
  deriving DecidableEq, Repr

/-- state after `qmail_open`; `wleft` scripts the write fault -/
def QQ.opened (wleft : Option Nat) : QQ := { ss := { cap := Nq.Gen.C07.qqBuf, wleft := wleft } }

/-- what the queue program reads on descriptor 0 / descriptor 1 once the daemon has closed the pipes or has exited -/
def QQ.msgPipe (q : QQ) : Bytes := if q.inEnv then q.msgDone else q.ss.out
def QQ.envPipe (q : QQ) : Bytes := if q.inEnv then q.ss.out else []

/-- `qmail_put` -/
def QQ.put (q : QQ) (bs : Bytes) : QQ :=
  if q.flagerr then q else
  let r := q.ss.put bs
  { q with ss := r.1, flagerr := !r.2 }

/-- `qmail_fail` -/
def QQ.fail (q : QQ) : QQ := { q with flagerr := true }

/-- `qmail_from`: flush the message (even when `flagerr`), close it, switch to the envelope, `F` sender NUL -/
def QQ.from_ (q : QQ) (s : Bytes) : QQ :=
  let r := q.ss.flush
  let q1 : QQ := { q with flagerr := q.flagerr || !r.2, inEnv := true, msgDone := r.1.out,
                          ss := { r.1 with buf := [], out := [] } }
  ((q1.put [70]).put (cstr s)).put [0]

/-- `qmail_to` -/
def QQ.to (q : QQ) (s : Bytes) : QQ := ((q.put [84]).put (cstr s)).put [0]

/-- `qmail_close` up to the `wait`: the terminating NUL, flushed only if nothing has failed -/
def QQ.close (q : QQ) : QQ :=
  let q1 := q.put [0]
  if q1.flagerr then { q1 with closed := true }
  else
    let r := q1.ss.flush
    { q1 with ss := r.1, flagerr := !r.2, closed := true }

inductive QOp
  | put (bs : Bytes)
  | fail
  | from_ (s : Bytes)
  | to (s : Bytes)
  | close
  deriving DecidableEq, Repr

def QQ.apply (q : QQ) : QOp → QQ
  | .put bs => q.put bs
  | .fail => q.fail
  | .from_ s => q.from_ s
  | .to s => q.to s
  | .close => q.close

def QQ.run (q : QQ) (ops : List QOp) : QQ := ops.foldl QQ.apply q

/-! ### the verdict of qmail_close -/

open Nq.Gen.QQClose in
/-- `qmail_errstr`: at most `errMax` bytes are kept; the caller sees a C string -/
def errstr (text : Bytes) : Bytes := cstr (text.take errMax)

open Nq.Gen.QQClose in
/-- the string `qmail_close` returns: `exit` = exit status of the queue program, `crashed` = killed by a signal,
    `text` = what it wrote to descriptor 6 -/
def closeVerdict (exit : Nat) (crashed flagerr : Bool) (text : Bytes) : Bytes :=
  if crashed then crashedText
  else if exit = 0 ∧ (!zeroGuarded || !flagerr) then []
  else match table.lookup exit with
    | some s => s
    | none =>
      if exit = customCode ∧ min text.length errMax > customMinLen then errstr text
      else if permLo ≤ exit ∧ exit ≤ permHi then permText
      else tempText

/-- how the queue program ends (scripted in the correspondence runs) -/
structure QEnd where
  exit : Nat := 0
  crashed : Bool := false
  text : Bytes := []
  deriving DecidableEq, Repr

def QQ.verdict (q : QQ) (e : QEnd) : Bytes := closeVerdict e.exit e.crashed q.flagerr e.text

/-! ### envelope scanner of qmail-queue.c (what "a complete envelope" means for the reader) -/

/-- the envelope parser of qmail-queue.c main(): `F` sender NUL (`T` recipient NUL)* NUL, lengths ignored;
    `some (sender, recipients)` iff it reaches the terminating NUL before the bytes run out -/
def takeZ : Bytes → Option (Bytes × Bytes)
  | [] => none
  | c :: r => if c = 0 then some ([], r) else
    match takeZ r with
    | some (a, rest) => some (c :: a, rest)
    | none => none

def envRcpts : Nat → Bytes → Option (List Bytes)
  | 0, _ => none
  | _ + 1, [] => none
  | fuel + 1, c :: r =>
    if c = 0 then some []
    else if c = 84 then
      match takeZ r with
      | some (a, rest) => (envRcpts fuel rest).map (a :: ·)
      | none => none
    else none

def envParse (e : Bytes) : Option (Bytes × List Bytes) :=
  match e with
  | [] => none
  | c :: r =>
    if c = 70 then
      match takeZ r with
      | some (s, rest) => (envRcpts (rest.length + 1) rest).map (fun rs => (s, rs))
      | none => none
    else none

def envComplete (e : Bytes) : Bool := (envParse e).isSome

/-- the envelope a daemon means to send: `F` sender NUL (`T` rcpt NUL)* NUL -/
def envelope (sender : Bytes) (rcpts : List Bytes) : Bytes :=
  [70] ++ sender ++ [0] ++ (rcpts.map (fun r => [84] ++ r ++ [0])).flatten ++ [0]

end Nq.QmailC
