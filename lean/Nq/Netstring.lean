/-
  Nq.Netstring — session models of the three network daemons as far as property C07 is concerned:

    * `Qmtp`  qmail-qmtpd.c main(): netstring framing, the two body loops, sender / recipient checks,
              the per-recipient replies, several messages per connection, ssout flushing;
    * `Qmqp`  qmail-qmqpd.c main(): getbyte/bytesleft framing, getbuf, the single reply;
    * `Smtp`  qmail-smtpd.c smtp_data() (+ the trivial part of MAIL/RCPT needed to get there):
              blast() through `Nq.SmtpIn.dstep`, put()'s countdown, hop limit, reply selection.

  Every parser returns the calls it makes on qmail.c (`List QOp`, in order, also when the daemon
  exits half-way) so that `QQ.run` gives the bytes the queue program receives.
-/
import Nq.Basic
import Nq.QmailC
import Nq.Received
import Nq.SmtpIn
import Nq.Gen.Consts
import Nq.Gen.C07Consts

namespace Nq.Netstring
open Nq Nq.QmailC Nq.Received

/-- how a daemon process ends: client EOF (`_exit(0)` in saferead), `badproto()`, `resources()`,
    `die_read()`/`straynewline()` of qmail-smtpd (`_exit(1)`), QUIT / end of the QMQP run -/
inductive Exit | eof | badproto | resources | die1 | quit
  deriving DecidableEq, Repr

def Exit.code : Exit → Nat
  | .eof => 0 | .badproto => 100 | .resources => 111 | .die1 => 1 | .quit => 0

/-- result of a reading step: a value and the unread input, or the daemon exits (with the input left after
    the last byte it consumed) -/
inductive R (α : Type)
  | ok (a : α) (rest : Bytes)
  | stop (e : Exit) (rest : Bytes)

def COLON : Byte := 58
def COMMA : Byte := 44

/-- qmail-qmtpd.c `getlen()` -/
def getlen (max : Nat) : Nat → Bytes → R Nat
  | _, [] => .stop .eof []
  | acc, c :: rest =>
    if c = COLON then .ok acc rest
    else if acc > max then .stop .resources rest
    else if c < 48 ∨ c > 57 then .stop .badproto rest
    else getlen max (10 * acc + (c.toNat - 48)) rest

/-- `getcomma()` -/
def getcomma : Bytes → R Unit
  | [] => .stop .eof []
  | c :: rest => if c = COMMA then .ok () rest else .stop .badproto rest

/-- `n` successive one-byte reads -/
def getbytes (n : Nat) (inp : Bytes) : R Bytes :=
  if inp.length < n then .stop .eof [] else .ok (inp.take n) (inp.drop n)

/-! ### rcpthosts() with control/rcpthosts only (no morercpthosts.cdb) -/

def lastAt : Bytes → Option Bytes     -- the bytes after the last '@'
  | [] => none
  | c :: r => match lastAt r with
    | some h => some h
    | none => if c = AT then some r else none

/-- `none`: no control/rcpthosts, everything is allowed; entries are compared case-insensitively -/
def rcpthostsOk (rh : Option (List Bytes)) (addr : Bytes) : Bool :=
  match rh with
  | none => true
  | some l =>
    match lastAt addr with
    | none => true
    | some host =>
      let h := lower host
      (List.range h.length).any (fun j => (j == 0 || h.getD j 0 == DOT) && l.contains (h.drop j))

/-! ### put with the databytes countdown (`if (bytestooverflow) if (!--bytestooverflow) qmail_fail`) -/

def ovfOps (bto : Nat) (c : Byte) : List QOp := if bto = 1 then [.fail, .put [c]] else [.put [c]]
def ovfDec (bto : Nat) : Nat := bto - 1

structure BodyRes where
  ops : List QOp
  bto : Nat
  rest : Option Bytes       -- `none`: the client went away inside the body
  deriving Repr

def BodyRes.pre (o : List QOp) (r : BodyRes) : BodyRes := { r with ops := o ++ r.ops }

namespace Qmtp

structure Cfg where
  databytes : Nat := 0                      -- as set up by main(): 0 = no limit
  relay : Option Bytes := none              -- RELAYCLIENT
  rcpthosts : Option (List Bytes) := none   -- lower-cased lines of control/rcpthosts
  peer : Peer
  now : Nat := 0
  chunk : Nat := 0                          -- how many bytes a read() returns at most (0: as many as fit)
  deriving Repr

/-- the `else` (LF) body loop: `len` bytes copied verbatim -/
def unixBody : Nat → Bytes → BodyRes
  | 0, inp => ⟨[], 0, some inp⟩
  | _ + 1, [] => ⟨[], 0, none⟩
  | len + 1, c :: inp => (unixBody len inp).pre [.put [c]]

/-- the `flagdos` (CR) body loop; `pend` = inside the inner `while ((ch == 13) && len)` with a CR held back -/
def dosBody : Nat → Bool → Nat → Bytes → BodyRes
  | 0, _, bto, inp => ⟨[], bto, some inp⟩
  | _ + 1, _, bto, [] => ⟨[], bto, none⟩
  | len + 1, false, bto, c :: inp =>
    if c = CR ∧ len > 0 then dosBody len true bto inp
    else (dosBody len false (ovfDec bto) inp).pre (ovfOps bto c)
  | len + 1, true, bto, c :: inp =>
    if c = LF then (dosBody len false (ovfDec bto) inp).pre (ovfOps bto LF)
    else if c = CR ∧ len > 0 then (dosBody len true (ovfDec bto) inp).pre (ovfOps bto CR)
    else (dosBody len false (ovfDec (ovfDec bto)) inp).pre (ovfOps bto CR ++ ovfOps (ovfDec bto) c)

/-- `len = 10 * len + (ch - '0')` on an `unsigned long` with a signed `char`, no digit check -/
def wrapLen (acc : Nat) (c : Byte) : Nat :=
  (10 * acc + (c.toNat + 18446744073709551616 - 48 - (if c ≥ 128 then 256 else 0))) % 18446744073709551616

/-- the inner length loop of the recipient list: returns (len, biglen afterwards).  Whether it checks for digits
    (`getlen` does) is read off the source by the translator: `qmtpRcptDigitCheck` is 0 for the code as shipped. -/
def rcptLen (max : Nat) : Nat → Nat → Bytes → R (Nat × Nat)
  | 0, _, inp => .stop .badproto inp
  | _ + 1, _, [] => .stop .eof []
  | big + 1, acc, c :: rest =>
    if c = COLON then .ok (acc, big) rest
    else if acc > max then .stop .resources rest
    else if Nq.Gen.C07.qmtpRcptDigitCheck = 1 ∧ (c < 48 ∨ c > 57) then .stop .badproto rest
    else rcptLen max big (wrapLen acc c) rest

structure RL where
  ops : List QOp := []
  failure : List Byte := []        -- one byte per recipient seen: 0 accepted, 'L' 'N' 'D'
  rcpts : List Bytes := []         -- the accepted ones, as handed to `qmail_to`
  stop : Option Exit := none
  rest : Bytes := []
  deriving Repr

def RL.pre (o : List QOp) (f : Byte) (a : List Bytes) (r : RL) : RL :=
  { r with ops := o ++ r.ops, failure := f :: r.failure, rcpts := a ++ r.rcpts }

def fL : Byte := 76
def fN : Byte := 78
def fD : Byte := 68

/-- failure byte of one recipient -/
def rcptFail (cfg : Cfg) (a : Bytes) : Byte :=
  if a.length + (cfg.relay.getD []).length ≥ Nq.Gen.C07.qmtpAddrMax then fL
  else match cfg.relay with
    | some _ => if a.contains 0 then fN else 0
    | none => if !rcpthostsOk cfg.rcpthosts a then fD else if a.contains 0 then fN else 0

/-- the `while (biglen > 0)` loop -/
def rcptLoop (cfg : Cfg) : Nat → Nat → Bytes → RL
  | 0, _, inp => { stop := some .badproto, rest := inp }
  | _ + 1, 0, inp => { rest := inp }
  | fuel + 1, big, inp =>
    match rcptLen Nq.Gen.C07.qmtpLenMax big 0 inp with
    | .stop e r => { failure := [0], stop := some e, rest := r }
    | .ok (len, big1) r1 =>
      if len ≥ big1 then { failure := [0], stop := some .badproto, rest := r1 }
      else match getbytes len r1 with
        | .stop e r => { failure := [0], stop := some e, rest := r }
        | .ok a r2 =>
          let f := rcptFail cfg a
          let full := a ++ cfg.relay.getD []
          let o : List QOp := if f = 0 then [.to full] else []
          match getcomma r2 with
          | .stop e r => { ops := o, failure := [f], rcpts := if f = 0 then [full] else [], stop := some e, rest := r }
          | .ok _ r3 => (rcptLoop cfg fuel (big1 - (len + 1)) r3).pre o f (if f = 0 then [full] else [])

/-- everything qmail-qmtpd does for one message of the connection -/
structure Msg where
  ops : List QOp := []             -- calls on qmail.c, in order
  opened : Bool := false           -- qmail_open() was reached
  stop : Option Exit := none       -- the daemon exits inside this message
  rest : Bytes := []               -- input after the last byte consumed
  senderok : Bool := true
  overflow : Bool := false         -- `databytes && !bytestooverflow` at the end
  failure : List Byte := []
  stored : Bytes := []             -- the decoded body bytes handed to qmail_put (before any failure)
  sender : Bytes := []
  rcpts : List Bytes := []
  deriving Repr

def putBytes : List QOp → Bytes
  | [] => []
  | .put bs :: r => bs ++ putBytes r
  | _ :: r => putBytes r

def recvOps (cfg : Cfg) : List QOp := (receivedPieces pQMTP cfg.peer none cfg.now).map QOp.put

def msg (cfg : Cfg) (inp : Bytes) : Msg :=
  match getlen Nq.Gen.C07.qmtpLenMax 0 inp with
  | .stop e r => { stop := some e, rest := r }
  | .ok len r0 =>
    if len = 0 then { stop := some .badproto, rest := r0 } else
    match r0 with
    | [] => { opened := true, stop := some .eof }
    | c :: r1 =>
      if c ≠ LF ∧ c ≠ CR then { opened := true, stop := some .badproto, rest := r1 } else
      let len1 := len - 1
      let bto0 := if cfg.databytes = 0 then 0 else cfg.databytes + 1
      let big := c = LF ∧ cfg.databytes ≠ 0 ∧ len1 > cfg.databytes
      let b : BodyRes :=
        if c = CR then dosBody len1 false bto0 r1
        else ((unixBody len1 r1).pre (if big then [.fail] else []))
      let bto := if c = CR then b.bto else if big then 0 else bto0
      let ops1 := recvOps cfg ++ b.ops
      let stored := putBytes b.ops
      match b.rest with
      | none => { ops := ops1, opened := true, stop := some .eof, stored := stored }
      | some r2 =>
        match getcomma r2 with
        | .stop e r => { ops := ops1, opened := true, stop := some e, rest := r, stored := stored }
        | .ok _ r3 =>
          match getlen Nq.Gen.C07.qmtpLenMax 0 r3 with
          | .stop e r => { ops := ops1, opened := true, stop := some e, rest := r, stored := stored }
          | .ok slen r4 =>
            match getbytes slen r4 with
            | .stop e r => { ops := ops1, opened := true, stop := some e, rest := r, stored := stored }
            | .ok sraw r5 =>
              let long := slen ≥ Nq.Gen.C07.qmtpAddrMax
              let sbuf := if long then [] else sraw
              let senderok := !long && !sraw.contains 0
              match getcomma r5 with
              | .stop e r => { ops := ops1, opened := true, stop := some e, rest := r, stored := stored }
              | .ok _ r6 =>
                let ops2 := ops1 ++ [.from_ sbuf] ++ (if senderok then [] else [.fail])
                match getlen Nq.Gen.C07.qmtpLenMax 0 r6 with
                | .stop e r => { ops := ops2, opened := true, stop := some e, rest := r, stored := stored, senderok := senderok, sender := cstr sbuf }
                | .ok biglen r7 =>
                  let rl := rcptLoop cfg (r7.length + 1) biglen r7
                  let ops3 := ops2 ++ rl.ops
                  match rl.stop with
                  | some e => { ops := ops3, opened := true, stop := some e, rest := rl.rest, stored := stored, senderok := senderok,
                                sender := cstr sbuf, failure := rl.failure, rcpts := rl.rcpts }
                  | none =>
                    match getcomma rl.rest with
                    | .stop e r => { ops := ops3, opened := true, stop := some e, rest := r, stored := stored, senderok := senderok,
                                     sender := cstr sbuf, failure := rl.failure, rcpts := rl.rcpts }
                    | .ok _ r8 =>
                      { ops := ops3 ++ (if rl.failure.contains 0 then [] else [.fail]) ++ [.close], opened := true, rest := r8,
                        stored := stored, senderok := senderok, overflow := cfg.databytes ≠ 0 ∧ bto = 0,
                        sender := cstr sbuf, failure := rl.failure, rcpts := rl.rcpts }

def sUnacceptable : Bytes := [68, 117, 110, 97, 99, 99, 101, 112, 116, 97, 98, 108, 101, 32, 115, 101, 110, 100, 101, 114, 32, 40, 35, 53, 46, 49, 46, 55, 41]
def sTooBig : Bytes := [68, 115, 111, 114, 114, 121, 44, 32, 116, 104, 97, 116, 32, 109, 101, 115, 115, 97, 103, 101, 32, 115, 105, 122, 101, 32, 101, 120, 99, 101, 101, 100, 115, 32, 109, 121, 32, 100, 97, 116, 97, 98, 121, 116, 101, 115, 32, 108, 105, 109, 105, 116, 32, 40, 35, 53, 46, 51, 46, 52, 41]
def sKok : Bytes := [75, 111, 107, 32]
def sQp : Bytes := [32, 113, 112, 32]
def sRcpthosts : Bytes := [54, 54, 58, 68, 115, 111, 114, 114, 121, 44, 32, 116, 104, 97, 116, 32, 100, 111, 109, 97, 105, 110, 32, 105, 115, 110, 39, 116, 32, 105, 110, 32, 109, 121, 32, 108, 105, 115, 116, 32, 111, 102, 32, 97, 108, 108, 111, 119, 101, 100, 32, 114, 99, 112, 116, 104, 111, 115, 116, 115, 32, 40, 35, 53, 46, 55, 46, 49, 41, 44]
def sCantHandle : Bytes := [52, 54, 58, 68, 115, 111, 114, 114, 121, 44, 32, 73, 32, 99, 97, 110, 39, 116, 32, 104, 97, 110, 100, 108, 101, 32, 116, 104, 97, 116, 32, 114, 101, 99, 105, 112, 105, 101, 110, 116, 32, 40, 35, 53, 46, 49, 46, 51, 41, 44]

/-- the status string sent for every recipient that was handed to the queue (`result`) -/
def result (m : Msg) (verdict : Bytes) (now pid : Nat) : Bytes :=
  let r1 := if m.senderok then verdict else sUnacceptable
  let r2 := if m.overflow then sTooBig else r1
  if r2.isEmpty then sKok ++ fmtU now ++ sQp ++ fmtU pid else r2

def netstring (s : Bytes) : Bytes := fmtU s.length ++ [COLON] ++ s ++ [COMMA]

/-- the separate substdio_put/puts calls on ssout, one per recipient -/
def replies (m : Msg) (res : Bytes) : List Bytes :=
  m.failure.map (fun f => if f = 0 then netstring res else if f = fD then sRcpthosts else sCantHandle)

/-! #### the connection: messages one after the other, ssout flushed only by saferead -/

structure Done where
  m : Msg
  q : QQ                -- qmail.c state at the end of the message (meaningful when `m.opened`)
  res : Bytes           -- the status string (when the message was closed)
  deriving Repr

structure Sess where
  out : Bytes           -- what the client has received when the daemon exits
  exit : Exit
  msgs : List Done
  deriving Repr

def putAll (s : Sub) : List Bytes → Sub
  | [] => s
  | b :: r => putAll (s.put b).1 r

/-- `ends`/`pids`: how the k-th queue program run ends / its pid (last entry repeats) -/
def session (cfg : Cfg) (total : Nat) : Nat → Nat → Bytes → Sub → Option Nat → List QEnd → List Nat → List Done → Sess
  | 0, _, _, out, _, _, _, acc => ⟨out.out, .badproto, acc.reverse⟩
  | fuel + 1, start, inp, out, wleft, ends, pids, acc =>
    let m := msg cfg inp
    let q := (QQ.opened wleft).run m.ops
    let fin := start + (inp.length - m.rest.length)
    let blk := if cfg.chunk = 0 then Nq.Gen.C07.qmtpInBuf else min cfg.chunk Nq.Gen.C07.qmtpInBuf
    let last := if m.stop = some .eof then total else fin - 1
    -- a saferead happened while this message was being read iff a refill position lies in [start, last]
    let crossed := m.stop = some .eof ∨ (last / blk) * blk ≥ start
    let out1 := if crossed then out.flush.1 else out
    let e := ends.headD {}
    let pid := pids.headD 0
    match m.stop with
    | some ex => ⟨out1.out, ex, (⟨m, q, []⟩ :: acc).reverse⟩
    | none =>
      let res := result m (q.verdict e) cfg.now pid
      let out2 := putAll out1 (replies m res)
      session cfg total fuel fin m.rest out2 q.ss.wleft (if ends.length > 1 then ends.tail else ends)
        (pids.tail) (⟨m, q, res⟩ :: acc)

def run (cfg : Cfg) (wleft : Option Nat) (ends : List QEnd) (pids : List Nat) (inp : Bytes) : Sess :=
  session cfg inp.length (inp.length + 1) 0 inp { cap := Nq.Gen.C07.qmtpOutBuf } wleft ends pids []

end Qmtp

/-! ## qmail-qmqpd -/
namespace Qmqp

structure Cfg where
  peer : Peer
  now : Nat := 0
  deriving Repr

/-- `getlen()` on top of `getbyte()`: `bl` = bytesleft; returns (len, bytesleft afterwards) -/
def getlen (max : Nat) : Nat → Nat → Bytes → R (Nat × Nat)
  | 0, _, inp => .stop .badproto inp
  | _ + 1, _, [] => .stop .eof []
  | bl + 1, acc, c :: rest =>
    if c = COLON then .ok (acc, bl) rest
    else if acc > max then .stop .resources rest
    else if c < 48 ∨ c > 57 then .stop .badproto rest
    else getlen max bl (10 * acc + (c.toNat - 48)) rest

/-- `n` getbyte() calls: (bytes, bytesleft afterwards) -/
def getn : Nat → Nat → Bytes → R (Bytes × Nat)
  | 0, bl, inp => .ok ([], bl) inp
  | _ + 1, 0, inp => .stop .badproto inp
  | _ + 1, _ + 1, [] => .stop .eof []
  | n + 1, bl + 1, c :: rest =>
    match getn n bl rest with
    | .ok (bs, bl') r => .ok (c :: bs, bl') r
    | .stop e r => .stop e r

def getcomma : Nat → Bytes → R Nat
  | 0, inp => .stop .badproto inp
  | _ + 1, [] => .stop .eof []
  | bl + 1, c :: rest => if c = COMMA then .ok bl rest else .stop .badproto rest

/-- `getbuf()`: (buf, return value, bytesleft) -/
def getbuf (bl : Nat) (inp : Bytes) : R (Bytes × Bool × Nat) :=
  match getlen Nq.Gen.C07.qmqpLenMax bl 0 inp with
  | .stop e r => .stop e r
  | .ok (len, bl1) r1 =>
    match getn len bl1 r1 with
    | .stop e r => .stop e r
    | .ok (bs, bl2) r2 =>
      match getcomma bl2 r2 with
      | .stop e r => .stop e r
      | .ok bl3 r3 =>
        if len ≥ Nq.Gen.C07.qmqpAddrMax then .ok ([], false, bl3) r3
        else .ok (bs, !bs.contains 0, bl3) r3

structure Body where
  ops : List QOp
  res : R Nat           -- bytesleft afterwards

/-- the message copy loop: `len` times getbyte + qmail_put -/
def body : Nat → Nat → Bytes → Body
  | 0, bl, inp => ⟨[], .ok bl inp⟩
  | _ + 1, 0, inp => ⟨[], .stop .badproto inp⟩
  | _ + 1, _ + 1, [] => ⟨[], .stop .eof []⟩
  | len + 1, bl + 1, c :: rest =>
    let b := body len bl rest
    ⟨.put [c] :: b.ops, b.res⟩

structure RL where
  ops : List QOp := []
  flagok : Bool := true
  rcpts : List Bytes := []
  stop : Option Exit := none
  rest : Bytes := []
  deriving Repr

/-- `while (bytesleft) if (getbuf()) qmail_to(..) else { qmail_fail; flagok = 0 }` -/
def rcptLoop : Nat → Nat → Bytes → RL
  | 0, _, inp => { stop := some .badproto, rest := inp }
  | _ + 1, 0, inp => { rest := inp }
  | fuel + 1, bl, inp =>
    match getbuf bl inp with
    | .stop e r => { stop := some e, rest := r }
    | .ok (a, ok, bl1) r1 =>
      let t := rcptLoop fuel bl1 r1
      if ok then { t with ops := .to a :: t.ops, rcpts := a :: t.rcpts }
      else { t with ops := .fail :: t.ops, flagok := false }

structure Run where
  ops : List QOp := []
  opened : Bool := false
  stop : Option Exit := none
  flagok : Bool := true
  stored : Bytes := []
  sender : Bytes := []
  rcpts : List Bytes := []
  rest : Bytes := []              -- when the request was read completely: what follows it (never read)
  deriving Repr

def recvOps (cfg : Cfg) : List QOp := (receivedPieces pQMQP cfg.peer none cfg.now).map QOp.put

def parse (cfg : Cfg) (inp : Bytes) : Run :=
  match getlen Nq.Gen.C07.qmqpLenMax Nq.Gen.C07.qmqpOuterDigits 0 inp with
  | .stop e _ => { stop := some e }
  | .ok (outer, _) r0 =>
    match getlen Nq.Gen.C07.qmqpLenMax outer 0 r0 with
    | .stop e _ => { stop := some e }
    | .ok (len, bl1) r1 =>
      let b := body len bl1 r1
      let ops1 := recvOps cfg ++ b.ops
      let stored := Qmtp.putBytes b.ops
      match b.res with
      | .stop e _ => { ops := ops1, opened := true, stop := some e, stored := stored }
      | .ok bl2 r2 =>
        match getcomma bl2 r2 with
        | .stop e _ => { ops := ops1, opened := true, stop := some e, stored := stored }
        | .ok bl3 r3 =>
          match getbuf bl3 r3 with
          | .stop e _ => { ops := ops1, opened := true, stop := some e, stored := stored }
          | .ok (s, sok, bl4) r4 =>
            let ops2 := ops1 ++ (if sok then [.from_ s] else [.from_ [], .fail])
            let rl := rcptLoop (r4.length + 1) bl4 r4
            let ops3 := ops2 ++ rl.ops
            match rl.stop with
            | some e => { ops := ops3, opened := true, stop := some e, stored := stored, flagok := sok && rl.flagok,
                          sender := if sok then s else [], rcpts := rl.rcpts }
            | none =>
              match getcomma 1 rl.rest with
              | .stop e _ => { ops := ops3, opened := true, stop := some e, stored := stored, flagok := sok && rl.flagok,
                               sender := if sok then s else [], rcpts := rl.rcpts }
              | .ok _ r9 => { ops := ops3 ++ [.close], opened := true, stored := stored, flagok := sok && rl.flagok,
                              sender := if sok then s else [], rcpts := rl.rcpts, rest := r9 }

def sCantAccept : Bytes := [68, 115, 111, 114, 114, 121, 44, 32, 73, 32, 99, 97, 110, 39, 116, 32, 97, 99, 99, 101, 112, 116, 32, 97, 100, 100, 114, 101, 115, 115, 101, 115, 32, 108, 105, 107, 101, 32, 116, 104, 97, 116, 32, 40, 35, 53, 46, 49, 46, 51, 41]

def result (flagok : Bool) (verdict : Bytes) (now pid : Nat) : Bytes :=
  if !flagok then sCantAccept
  else if verdict.isEmpty then Qmtp.sKok ++ fmtU now ++ Qmtp.sQp ++ fmtU pid else verdict

structure Out where
  r : Run
  q : QQ
  out : Bytes
  exit : Exit
  deriving Repr

def run (cfg : Cfg) (wleft : Option Nat) (e : QEnd) (pid : Nat) (inp : Bytes) : Out :=
  let r := parse cfg inp
  let q := (QQ.opened wleft).run r.ops
  match r.stop with
  | some ex => ⟨r, q, [], ex⟩
  | none => ⟨r, q, Qmtp.netstring (result r.flagok (q.verdict e) cfg.now pid), .quit⟩

end Qmqp

/-! ## qmail-smtpd: DATA -/
namespace Smtp
open Nq.SmtpIn

structure Cfg where
  databytes : Nat := 0
  relay : Option Bytes := none
  rcpthosts : Option (List Bytes) := none
  peer : Peer
  now : Nat := 0
  deriving Repr

inductive BEnd | done (rest : Bytes) | stray | eof
  deriving Repr

structure Blast where
  ops : List QOp
  bto : Nat
  fin : BEnd
  deriving Repr

def ovfList : Nat → Bytes → List QOp
  | _, [] => []
  | bto, c :: r => ovfOps bto c ++ ovfList (ovfDec bto) r

def decN : Nat → Nat → Nat
  | bto, 0 => bto
  | bto, n + 1 => decN (ovfDec bto) n

/-- `blast()` with `put()`: the automaton of Nq.SmtpIn, every stored byte through the countdown -/
def blast : DSt → Nat → Bytes → Blast
  | _, bto, [] => ⟨[], bto, .eof⟩
  | s, bto, c :: inp =>
    match (dstep s c).2 with
    | .data bs =>
      let b := blast (dstep s c).1 (decN bto bs.length) inp
      { b with ops := ovfList bto bs ++ b.ops }
    | .done => ⟨[], bto, .done inp⟩
    | .stray => ⟨[], bto, .stray⟩

structure Data where
  ops : List QOp := []
  stop : Option Exit := none      -- die_read / straynewline inside DATA
  rest : Bytes := []              -- what follows the terminator
  hopsBad : Bool := false
  overflow : Bool := false
  stored : Bytes := []
  stray : Bool := false           -- the exit was straynewline() (451), not die_read()
  deriving Repr

/-- `fakehelo`: the HELO argument unless it equals TCPREMOTEHOST case-insensitively -/
def fakehelo (p : Peer) (helo : Option Bytes) : Option Bytes :=
  match helo with
  | none => none
  | some h => if lower (cstr h) = lower (cstr p.remotehost) then none else some h

/-- smtp_data() after `qmail_open`: `mailfrom` is mailfrom.s, `rcptto` the bytes of the stralloc -/
def data (cfg : Cfg) (helo : Option Bytes) (mailfrom rcptto : Bytes) (stream : Bytes) : Data :=
  let bto0 := if cfg.databytes = 0 then 0 else cfg.databytes + 1
  let b := blast .s1 bto0 stream
  let ops1 := (receivedPieces pSMTP cfg.peer (fakehelo cfg.peer helo) cfg.now).map QOp.put ++ b.ops
  let stored := Qmtp.putBytes b.ops
  match b.fin with
  | .eof => { ops := ops1, stop := some .die1, stored := stored }
  | .stray => { ops := ops1, stop := some .die1, stored := stored, stray := true }
  | .done rest =>
    let hops := hopsOf (stream.take (stream.length - rest.length))
    let bad := hops ≥ Nq.Gen.MAXHOPS
    { ops := ops1 ++ (if bad then [.fail] else []) ++ [.from_ mailfrom, .put rcptto, .close],
      rest := rest, hopsBad := bad, overflow := cfg.databytes ≠ 0 ∧ b.bto = 0, stored := stored }

def sOk250 : Bytes := [50, 53, 48, 32, 111, 107, 32]                -- "250 ok "
def crlf : Bytes := [13, 10]
def sHops : Bytes := [53, 53, 52, 32, 116, 111, 111, 32, 109, 97, 110, 121, 32, 104, 111, 112, 115, 44, 32, 116, 104, 105, 115, 32, 109, 101, 115, 115, 97, 103, 101, 32, 105, 115, 32, 108, 111, 111, 112, 105, 110, 103, 32, 40, 35, 53, 46, 52, 46, 54, 41, 13, 10]
def sSize : Bytes := [53, 53, 50, 32, 115, 111, 114, 114, 121, 44, 32, 116, 104, 97, 116, 32, 109, 101, 115, 115, 97, 103, 101, 32, 115, 105, 122, 101, 32, 101, 120, 99, 101, 101, 100, 115, 32, 109, 121, 32, 100, 97, 116, 97, 98, 121, 116, 101, 115, 32, 108, 105, 109, 105, 116, 32, 40, 35, 53, 46, 51, 46, 52, 41, 13, 10]
def s554 : Bytes := [53, 53, 52, 32]
def s451 : Bytes := [52, 53, 49, 32]
def D : Byte := 68

/-- the reply smtp_data() sends after `qmail_close` returned `qqx` -/
def reply (d : Data) (qqx : Bytes) (now pid : Nat) : Bytes :=
  if qqx.isEmpty then sOk250 ++ fmtU now ++ Qmtp.sQp ++ fmtU pid ++ crlf
  else if d.hopsBad then sHops
  else if d.overflow then sSize
  else (if qqx.head? = some D then s554 else s451) ++ qqx.drop 1 ++ crlf

end Smtp

end Nq.Netstring
