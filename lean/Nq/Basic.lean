/-
  Nq.Basic — shared vocabulary of every model: bytes, byte strings, byte constants.
  Core Lean only (no Mathlib) so that the drivers link as `lean_exe`.
-/

namespace Nq

abbrev Byte := UInt8
abbrev Bytes := List UInt8

@[reducible] def CR  : Byte := 13
@[reducible] def LF  : Byte := 10
@[reducible] def DOT : Byte := 46
@[reducible] def NUL : Byte := 0
@[reducible] def SP  : Byte := 32
@[reducible] def TAB : Byte := 9
@[reducible] def AT  : Byte := 64

/-- ASCII string literal to bytes (model-side convenience; only used on ASCII literals). -/
def str (s : String) : Bytes := s.toUTF8.toList

/-- ASCII lower-casing of one byte, as `case_lowerb.c` does (`'A'..'Z'` only). -/
def lowerByte (c : Byte) : Byte := if 65 ≤ c ∧ c ≤ 90 then c + 32 else c

def lower (s : Bytes) : Bytes := s.map lowerByte

def isDigit (c : Byte) : Bool := 48 ≤ c && c ≤ 57

/-- decimal value of a digit string (most significant first), unbounded -/
def decVal (ds : Bytes) : Nat := ds.foldl (fun acc d => acc * 10 + (d.toNat - 48)) 0

/-- decimal rendering of a natural number as bytes (`fmt_ulong`) -/
def fmtNat (n : Nat) : Bytes := (toString n).toUTF8.toList

end Nq
