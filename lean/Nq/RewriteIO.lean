/-
  Nq.RewriteIO — control-file I/O errors (property C10, extension round, session 4).

  `Nq.Rewrite` models control.c's readers on a control directory that can always be read.  Here the
  environment may make any call fail:

    control.c   control_readline / control_rldef / control_readfile returning -1
                (open_read fails with errno ≠ ENOENT, read() fails, a stralloc call returns 0)
                                                     `RdFault`, `lineHits`, `fileHits`, `readlineIO`, `rldefIO`, `readfileIO`
    qmail-send.c getcontrols() / main() start-up     `getcontrolsIO`, `startIO`
    qmail-send.c regetcontrols() / reread()          `regetIO`, `Daemon.topIO`
    the calls reread() and start-up make, in order   `Call`, `rereadCall`, `startCall`, `Call.io`
    byte_rchr.c  the forward scan of the C code      `rchrC`

  Core Lean only (the driver `drv_c10` links this file).
-/
import Nq.Rewrite

namespace Nq.Rewrite
open Nq

/-! ### one reader call under a fault -/

/-- what the environment does to ONE call of a control.c reader -/
inductive RdFault
  | openErr             -- `open_read` fails with errno ≠ ENOENT (whether or not the file exists)
  | readErr (k : Nat)   -- the k-th `read()` (k = 0, 1, …) on the opened file fails (errno ≠ EINTR)
  | nomem               -- a stralloc call made by the reader returns 0
  deriving Repr, DecidableEq

/-- the three return values of control.c's readers: -1, 0, 1 (with what was stored in `sa`) -/
inductive Rd
  | err
  | absent
  | ok (b : Bytes)
  deriving Repr, DecidableEq

def Rd.ofOpt : Option Bytes → Rd
  | some b => .ok b
  | none => .absent

/-- `static char inbuf[64]`: `control_readfile` reads the whole file — ⌈n/64⌉ reads that return data and
the one that returns 0 -/
def nreadsFile (s : Bytes) : Nat := (s.length + 63) / 64 + 1

/-- `control_readline` stops feeding once `getln` has seen the first LF (at index `p`: `p/64 + 1`
reads); without LF it reads to end of file -/
def nreadsLine (s : Bytes) : Nat :=
  let p := (s.takeWhile (· != LF)).length
  if p < s.length then p / 64 + 1 else nreadsFile s

/-- does the fault strike `control_readfile` on this file? (`stralloc_copys(sa,"")` is called before
anything else, so `nomem` always does; a read can only fail on a file that was opened) -/
def fileHits (flt : Option RdFault) (f : Option Bytes) : Bool :=
  match flt with
  | none => false
  | some .openErr => true
  | some .nomem => true
  | some (.readErr k) => match f with
    | some s => decide (k < nreadsFile s)
    | none => false

/-- does the fault strike `control_readline` on this file? (no stralloc call is made when the file does
not exist) -/
def lineHits (flt : Option RdFault) (f : Option Bytes) : Bool :=
  match flt with
  | none => false
  | some .openErr => true
  | some .nomem => f.isSome
  | some (.readErr k) => match f with
    | some s => decide (k < nreadsLine s)
    | none => false

/-- `control_readfile(sa,fn,flagme)`: every failing call ends in `return -1` -/
def readfileIO (flt : Option RdFault) (f me : Option Bytes) (flagme : Bool) : Rd :=
  if fileHits flt f then .err else Rd.ofOpt (readfile f me flagme)

/-- `control_readline(sa,fn)` -/
def readlineIO (flt : Option RdFault) (f : Option Bytes) : Rd :=
  if lineHits flt f then .err else Rd.ofOpt (readline f)

/-- `control_rldef(sa,fn,flagme,def)` with a non-null `def` (all callers in qmail-send.c): 1 with the
line / `me` / the default, or -1 (`none`); copying the default is a stralloc call -/
def rldefIO (flt : Option RdFault) (f : Option Bytes) (dflt : Bytes) : Option Bytes :=
  match readlineIO flt f with
  | .err => none
  | .ok l => some l
  | .absent => if flt = some .nomem then none else some dflt

/-! ### getcontrols() and regetcontrols() under faults -/

/-- what the environment does during one run of `getcontrols()` (start-up) or `reread()` (SIGHUP):
any combination of failing calls -/
structure IOEnv where
  chdirHome : Bool := false            -- `chdir(auto_qmail)` fails
  chdirQueue : Bool := false           -- `chdir("queue")` fails (start-up: exit; reread: sleep and retry)
  me : Option RdFault := none          -- fault in the reader of control/me (start-up only)
  env : Option RdFault := none         --   … control/envnoathost (start-up only)
  locals : Option RdFault := none      --   … control/locals
  ph : Option RdFault := none          --   … control/percenthack (start-up only)
  vdoms : Option RdFault := none       --   … control/virtualdomains
  other : Bool := false                -- the reader of a control not modelled here returns -1 (queuelifetime,
                                       -- concurrencylocal/remote, bouncefrom, bouncehost, doublebouncehost, doublebounceto)
  cmNomem : Bool := false              -- `constmap_init` / `stralloc_copy` returns 0 while the tables are installed
  deriving Repr

def IOEnv.quiet : IOEnv := {}

/-- `getcontrols()` under faults: `return 0` ("cannot start: unable to read controls") as soon as a
reader returns -1, `control/locals` is neither there nor defaulted, or `constmap_init` fails -/
def getcontrolsIO (io : IOEnv) (f : Files) : Option RawCfg :=
  match readlineIO io.me f.me with
  | .err => none                                      -- control_init() == -1
  | rme =>
    let me : Option Bytes := match rme with | .ok m => some m | _ => none
    if io.other then none
    else match rldefIO io.env f.env (me.getD ENVDEFAULT) with
      | none => none
      | some env =>
        match readfileIO io.locals f.locals me true with
        | .ok l =>
          if io.cmNomem then none
          else match readfileIO io.ph f.ph me false with
            | .err => none
            | rph => match readfileIO io.vdoms f.vdoms me false with
              | .err => none
              | rv =>
                some { env := env, ph := (match rph with | .ok b => b | _ => []), locals := l,
                       vdoms := (match rv with | .ok b => b | _ => []) }
        | _ => none

/-- start-up of `main()`: `chdir(auto_qmail)`, `getcontrols()`, `chdir("queue")`, each with `_exit(111)` -/
def startIO (io : IOEnv) (f : Files) : Option Daemon :=
  if io.chdirHome then none
  else match getcontrolsIO io f with
    | none => none
    | some c => if io.chdirQueue then none
                else some { me := readline f.me, cfg := c, files := f, flagread := false }

/-- `reread()` + `regetcontrols()` under faults.  `chdir(auto_qmail)` fails: nothing is read.
`control/locals` is read into `newlocals`, `control/virtualdomains` into `newvdoms`; when either reader
fails the function returns BEFORE anything is installed.  Only then are both tables replaced
(`while (!stralloc_copy(…)) nomem(); while (!constmap_init(…)) nomem();` retry until they succeed, as
does `while (chdir("queue") == -1) sleep(10)`: `cmNomem`/`chdirQueue` only delay). -/
def regetIO (io : IOEnv) (me : Option Bytes) (old : RawCfg) (f : Files) : RawCfg :=
  if io.chdirHome then old
  else match readfileIO io.locals f.locals me true with
    | .ok l =>
      match readfileIO io.vdoms f.vdoms me false with
      | .err => old
      | .ok v => { old with locals := l, vdoms := v }
      | .absent => { old with locals := l, vdoms := [] }
    | _ => old

/-- `if (flagreadasap) { flagreadasap = 0; reread(); }` with this environment during `reread()` -/
def Daemon.topIO (d : Daemon) (io : IOEnv) : Daemon :=
  if d.flagread then { d with cfg := regetIO io d.me d.cfg d.files, flagread := false } else d

/-- events: the four of `Ev`, and a loop top during which the environment misbehaves -/
inductive EvF
  | ev (e : Ev)
  | topIO (io : IOEnv)

def acceptF (d : Daemon) : EvF → Option Daemon
  | .ev e => accept d e
  | .topIO io => some (d.topIO io)

def acceptFAll : Daemon → List EvF → Option Daemon
  | d, [] => some d
  | d, e :: es => match acceptF d e with
    | some d' => acceptFAll d' es
    | none => none

/-- `locals` and `vdoms` as the readers produce them from ONE control directory (`me` = the start-up
`me`); `none` = control/locals neither there nor defaulted -/
def tablesAt (me : Option Bytes) (f : Files) : Option (Bytes × Bytes) :=
  match readfile f.locals me true with
  | some l => some (l, (readfile f.vdoms me false).getD [])
  | none => none

/-- the control directories looked at after start-up: what was on disk each time the loop passed its
top with a HUP pending (whether or not that re-read then succeeded) -/
def servedAt (files : Files) (pending : Bool) : List EvF → List Files
  | [] => []
  | .ev (.edit f) :: es => servedAt f pending es
  | .ev .hup :: es => servedAt files true es
  | .ev .top :: es => if pending then files :: servedAt files false es else servedAt files pending es
  | .topIO _ :: es => if pending then files :: servedAt files false es else servedAt files pending es
  | .ev (.msg _ _) :: es => servedAt files pending es

/-! ### the sequence of calls (what the harness's k-th failing call is) -/

inductive Ctl | me | env | locals | ph | vdoms | other
  deriving Repr, DecidableEq

/-- a call that goes through the harness's gate -/
inductive Call
  | chdirHome
  | openf (c : Ctl)
  | readf (c : Ctl) (k : Nat)
  | closef (c : Ctl)
  | chdirQueue
  | past                 -- the run makes fewer calls
  deriving Repr, DecidableEq

/-- calls one reader makes on a file: `open_read`, its reads, `close` (a file that does not exist: the
failing `open_read` only) -/
def callsOf (f : Option Bytes) (nreads : Bytes → Nat) : Nat :=
  match f with
  | some s => nreads s + 2
  | none => 1

/-- the j-th call of a reader -/
def callIn (c : Ctl) (f : Option Bytes) (nreads : Bytes → Nat) (j : Nat) : Call :=
  if j = 0 then .openf c
  else match f with
    | some s => if j ≤ nreads s then .readf c (j - 1) else .closef c
    | none => .past

/-- walk a list of readers: (control, file, reads) -/
def callSeq : List (Ctl × Option Bytes × (Bytes → Nat)) → Nat → Call → Call
  | [], j, last => if j = 0 then last else .past
  | (c, f, nr) :: rest, j, last =>
    if j < callsOf f nr then callIn c f nr j else callSeq rest (j - callsOf f nr) last

/-- the k-th gated call of `reread()` (k = 0 is `chdir(auto_qmail)`); `me` = the start-up `me` -/
def rereadCall (me : Option Bytes) (f : Files) (k : Nat) : Call :=
  match k with
  | 0 => .chdirHome
  | k + 1 =>
    -- control/locals unreadable without error (absent, no `me`): regetcontrols() returns after that reader
    if (readfile f.locals me true).isNone then callSeq [(.locals, f.locals, nreadsFile)] k .chdirQueue
    else callSeq [(.locals, f.locals, nreadsFile), (.vdoms, f.vdoms, nreadsFile)] k .chdirQueue

/-- the k-th gated call of start-up when the seven other controls do not exist (the harness's directory) -/
def startCall (f : Files) (k : Nat) : Call :=
  match k with
  | 0 => .chdirHome
  | k + 1 =>
    let o : Ctl × Option Bytes × (Bytes → Nat) := (.other, none, nreadsFile)
    callSeq [(.me, f.me, nreadsLine), o, o, o, (.env, f.env, nreadsLine), o, o, o, o,
             (.locals, f.locals, nreadsFile), (.ph, f.ph, nreadsFile), (.vdoms, f.vdoms, nreadsFile)] k .chdirQueue

/-- the environment in which exactly this call fails (`close` failing is not looked at by the code) -/
def Call.io : Call → IOEnv
  | .chdirHome => { chdirHome := true }
  | .chdirQueue => { chdirQueue := true }
  | .openf .me => { me := some .openErr }
  | .openf .env => { env := some .openErr }
  | .openf .locals => { locals := some .openErr }
  | .openf .ph => { ph := some .openErr }
  | .openf .vdoms => { vdoms := some .openErr }
  | .openf .other => { other := true }
  | .readf .me k => { me := some (.readErr k) }
  | .readf .env k => { env := some (.readErr k) }
  | .readf .locals k => { locals := some (.readErr k) }
  | .readf .ph k => { ph := some (.readErr k) }
  | .readf .vdoms k => { vdoms := some (.readErr k) }
  | .readf .other _ => { other := true }
  | .closef _ => {}
  | .past => {}

/-! ### byte_rchr.c as written: one forward pass remembering the last match

    t = s; u = 0;
    for (;;) { if (!n) break; if (*t == ch) u = t; ++t; --n;  (four times) }
    if (!u) u = t;
    return u - s;
-/

/-- the loop: `pos` = `t - s`, `u` = the remembered match -/
def rchrScan (c : Byte) : Bytes → Nat → Option Nat → Option Nat
  | [], _, u => u
  | x :: r, pos, u => rchrScan c r (pos + 1) (if x = c then some pos else u)

def rchrC (c : Byte) (s : Bytes) : Nat :=
  match rchrScan c s 0 none with
  | some i => i
  | none => s.length

end Nq.Rewrite
