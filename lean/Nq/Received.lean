/-
  Nq.Received — model of received.c (`issafe`, `safeput`, `received`), date822fmt.c and datetime.c
  (`datetime_tai`): the trace field every network daemon prepends to a message.

  `received()` hands the field to `qmail_put` in pieces (string literals in one call, every byte that
  comes from the environment in a call of its own, the date in one call); `receivedPieces` keeps that
  granularity because qmail.c's buffering — and therefore what reaches the pipe before a failure —
  depends on it.  `received` is the concatenation.
-/
import Nq.Basic
import Nq.QmailC
import Nq.Gen.Safe
import Nq.Datetime

namespace Nq.Received
open Nq Nq.QmailC

/-- received.c `issafe()` (table regenerated from the source) -/
def issafe (c : Byte) : Bool := Nq.Gen.Safe.safeList.contains c.toNat

def QMARK : Byte := 63

/-- one iteration of `safeput()` -/
def sanitize (c : Byte) : Byte := if issafe c then c else QMARK

/-- `safeput()` — what it writes, and as the separate one-byte `qmail_put` calls it makes -/
def safeput (s : Bytes) : Bytes := (cstr s).map sanitize
def safeputPieces (s : Bytes) : List Bytes := (cstr s).map (fun c => [sanitize c])

/-! ### fmt_uint / fmt_uint0 -/

def digitsAux : Nat → Nat → Bytes → Bytes
  | 0, _, acc => acc
  | fuel + 1, n, acc =>
    if n < 10 then UInt8.ofNat (48 + n % 10) :: acc
    else digitsAux fuel (n / 10) (UInt8.ofNat (48 + n % 10) :: acc)

/-- `fmt_ulong` / `fmt_uint`: decimal, no padding -/
def fmtU (n : Nat) : Bytes := digitsAux (n + 1) n []

/-- `fmt_uint0(s,u,n)`: decimal, zero-padded to at least `n` digits -/
def fmtU0 (u n : Nat) : Bytes := List.replicate (n - (fmtU u).length) 48 ++ fmtU u

/-! ### datetime_tai (for non-negative times)

The statement-by-statement model of datetime.c is `Nq.Datetime.tai` (over ℤ, with `wday`/`yday`); it is proved to be the
proleptic Gregorian calendar in `Nq/Lemmas/Datetime.lean`.  `received()` calls it with `now()`; this is the same function
restricted to `t ≥ 0` (all fields are then non-negative, `Nq.Lemmas.C07Date.datetimeTai_fields`) with the fields
`date822fmt` reads. -/

structure DT where
  hour : Nat
  min : Nat
  sec : Nat
  mday : Nat
  mon : Nat
  year : Nat      -- the calendar year (the C field holds year - 1900 and date822fmt adds 1900 back)
  deriving DecidableEq, Repr

def datetimeTai (t : Nat) : DT :=
  let d := Nq.Datetime.tai (Int.ofNat t)
  { hour := d.hour.toNat, min := d.min.toNat, sec := d.sec.toNat, mday := d.mday.toNat, mon := d.mon.toNat,
    year := d.year.toNat }

def months : List Bytes := [[74, 97, 110], [70, 101, 98], [77, 97, 114], [65, 112, 114], [77, 97, 121], [74, 117, 110],
  [74, 117, 108], [65, 117, 103], [83, 101, 112], [79, 99, 116], [78, 111, 118], [68, 101, 99]]

def lZone : Bytes := [32, 45, 48, 48, 48, 48, 10]  -- " -0000\n"

/-- date822fmt() -/
def date822 (dt : DT) : Bytes :=
  fmtU dt.mday ++ [SP] ++ months.getD dt.mon [] ++ [SP] ++ fmtU dt.year ++ [SP] ++
  fmtU0 dt.hour 2 ++ [58] ++ fmtU0 dt.min 2 ++ [58] ++ fmtU0 dt.sec 2 ++ lZone

/-! ### received() -/

def lFrom : Bytes := [82, 101, 99, 101, 105, 118, 101, 100, 58, 32, 102, 114, 111, 109, 32]  -- "Received: from "
def lHelo : Bytes := [32, 40, 72, 69, 76, 79, 32]  -- " (HELO "
def lClose : Bytes := [41]                          -- ")"
def lParen : Bytes := [32, 40]                      -- " ("
def lAt : Bytes := [64]                             -- "@"
def lBy : Bytes := [41, 10, 32, 32, 98, 121, 32]    -- ")\n  by "
def lWith : Bytes := [32, 119, 105, 116, 104, 32]   -- " with "
def lSemi : Bytes := [59, 32]                       -- "; "
def pSMTP : Bytes := [83, 77, 84, 80]
def pQMTP : Bytes := [81, 77, 84, 80]
def pQMQP : Bytes := [81, 77, 81, 80]
def unknown : Bytes := [117, 110, 107, 110, 111, 119, 110]

/-- the peer as the daemons read it from the environment (`none` = variable unset) -/
structure Peer where
  host : Option Bytes      -- TCPREMOTEHOST
  ip : Option Bytes        -- TCPREMOTEIP
  info : Option Bytes      -- TCPREMOTEINFO
  lhost : Option Bytes     -- TCPLOCALHOST
  lip : Option Bytes       -- TCPLOCALIP
  deriving DecidableEq, Repr

def Peer.remotehost (p : Peer) : Bytes := p.host.getD unknown
def Peer.remoteip (p : Peer) : Bytes := p.ip.getD unknown
def Peer.loc (p : Peer) : Bytes := match p.lhost with
  | some l => l
  | none => p.lip.getD unknown

/-- the successive `qmail_put` calls of `received(qqt,protocol,local,remoteip,remotehost,remoteinfo,helo)` at time `t` -/
def receivedPieces (proto : Bytes) (p : Peer) (helo : Option Bytes) (t : Nat) : List Bytes :=
  [lFrom] ++ safeputPieces p.remotehost ++
  (match helo with
   | some h => [lHelo] ++ safeputPieces h ++ [lClose]
   | none => []) ++
  [lParen] ++
  (match p.info with
   | some i => safeputPieces i ++ [lAt]
   | none => []) ++
  safeputPieces p.remoteip ++ [lBy] ++ safeputPieces p.loc ++ [lWith] ++ [proto] ++ [lSemi] ++
  [date822 (datetimeTai t)]

/-- the Received field as one byte string -/
def received (proto : Bytes) (p : Peer) (helo : Option Bytes) (t : Nat) : Bytes :=
  lFrom ++ safeput p.remotehost ++
  (match helo with
   | some h => lHelo ++ safeput h ++ lClose
   | none => []) ++
  lParen ++
  (match p.info with
   | some i => safeput i ++ lAt
   | none => []) ++
  safeput p.remoteip ++ lBy ++ safeput p.loc ++ lWith ++ proto ++ lSemi ++ date822 (datetimeTai t)

end Nq.Received
