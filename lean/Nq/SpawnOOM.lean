/-
  Nq.SpawnOOM — spawn.c `getcmd()` with `flagabort` (session 4): a `stralloc_append(&messid/&sender/&recip,&ch)`
  that fails (out of memory) sets `flagabort = 1`; the byte is not stored, the stage machine goes on
  (`if (ch) break;` looks at the byte read, not at the field), and at the NUL that ends the recipient
  `docmd()` answers `err("Zqmail-spawn out of memory. (#4.3.0)\n")` and returns before looking at any
  field; `flagabort = 0; stage = 0`.  Which `stralloc_append` calls fail is an input (`oom` = ordinals
  of the failing calls, counted over the whole run of the program).  The fields of an aborted command are
  garbage and never read (`messid.len = 0` at the next delnum byte, `sender.len = 0` / `recip.len = 0`
  at the stage changes), so the model leaves them alone.

  Layered on `Nq.Spawn` (whose `St`/`cstep`/`ostep` are unchanged): `StA` = its state + `flagabort` +
  the number of `stralloc_append` calls made so far.  Core Lean only.
-/
import Nq.Spawn

namespace Nq.SpawnOOM
open Nq Nq.Spawn Nq.Gen.SpawnTexts

structure StA where
  st : St := {}
  abort : Bool := false     -- `flagabort`
  calls : Nat := 0          -- `stralloc_append` calls of `getcmd()` so far
  deriving Repr

/-- one byte on descriptor 0 (`getcmd()` loop body) with failing `stralloc_append` calls -/
def cstepA (oom : List Nat) (s : StA) (ch : Byte) : StA × List Ev :=
  match s.st.stage with
  | .delnum => ({ s with st := (cstep s.st ch).1 }, (cstep s.st ch).2)      -- no allocation in stage 0
  | .messid =>
      if s.abort || oom.contains s.calls then
        ({ st := if ch = 0 then { s.st with stage := .sender } else s.st, abort := true, calls := s.calls + 1 }, [])
      else ({ st := (cstep s.st ch).1, abort := false, calls := s.calls + 1 }, (cstep s.st ch).2)
  | .sender =>
      if s.abort || oom.contains s.calls then
        ({ st := if ch = 0 then { s.st with stage := .recip } else s.st, abort := true, calls := s.calls + 1 }, [])
      else ({ st := (cstep s.st ch).1, abort := false, calls := s.calls + 1 }, (cstep s.st ch).2)
  | .recip =>
      if s.abort || oom.contains s.calls then
        (if ch = 0 then
          -- `docmd()`: `if (flagabort) { err("Zqmail-spawn out of memory. (#4.3.0)\n"); return; }`, then `flagabort = 0; stage = 0`
          ({ st := { s.st with stage := .delnum }, abort := false, calls := s.calls + 1 }, [.report s.st.delnum E_NOMEM0])
         else ({ st := s.st, abort := true, calls := s.calls + 1 }, []))
      else ({ st := (cstep s.st ch).1, abort := false, calls := s.calls + 1 }, (cstep s.st ch).2)

def cfeedA (oom : List Nat) : StA → Bytes → StA × List Ev
  | s, [] => (s, [])
  | s, c :: rest =>
      let r := cstepA oom s c
      let r2 := cfeedA oom r.1 rest
      (r2.1, r.2 ++ r2.2)

/-- the select loop: commands go through `cfeedA`, every other event is `Spawn.ostep` -/
def ostepA (k : Kind) (oom : List Nat) (s : StA) : Op → StA × List Ev
  | .cmd bytes => if s.st.reading then cfeedA oom s bytes else (s, [])
  | op => ({ s with st := (ostep k s.st op).1 }, (ostep k s.st op).2)

def orunA (k : Kind) (oom : List Nat) : StA → List Op → StA × List Ev
  | s, [] => (s, [])
  | s, op :: rest =>
      let r := ostepA k oom s op
      let r2 := orunA k oom r.1 rest
      (r2.1, r.2 ++ r2.2)

def consumedA (k : Kind) (oom : List Nat) : StA → List Op → Nat
  | _, [] => 0
  | s, op :: rest => if exited s.st then 0 else consumedA k oom (ostepA k oom s op).1 rest + 1

/-- one whole run of the program -/
def runA (k : Kind) (oom : List Nat) (plan : List Nat) (script : List Op) : StA × List Ev :=
  let r := orunA k oom { st := { plan := plan } } script
  let r2 := drain k (stopReading r.1.st) Nq.Gen.auto_spawn 0
  ({ r.1 with st := r2.1 }, .hello Nq.Gen.auto_spawn :: r.2 ++ r2.2)

def runConsumedA (k : Kind) (oom : List Nat) (plan : List Nat) (script : List Op) : Nat :=
  consumedA k oom { st := { plan := plan } } script

end Nq.SpawnOOM
