/-
  Nq.RspawnReport — model of qmail-rspawn.c `report(ss,wstat,s,len)`: how the spawner folds
  qmail-remote's exit status and output (NUL-terminated reports) into the one report line relayed
  to qmail-send for the delivery.

  `s` is the collected output (`d[i].output`, a stralloc: *not* NUL-terminated). The first text is
  copied with `substdio_puts(ss,s + 1)` only after a NUL at an index ≥ 1 was found, so it ends inside
  `s`; the second one with `substdio_put(ss,s + k + 1,byte_chr(s + k + 1,len - k - 1,0))`: up to the
  next NUL or, if the child's output does not end with one, up to `len` — never beyond it
  (`cstr` on the remaining bytes of `s`).
-/
import Nq.Basic
import Nq.RemoteSmtp

namespace Nq.RspawnReport
open Nq Nq.RemoteSmtp

@[reducible] def cK : Byte := 75
@[reducible] def cZ : Byte := 90
@[reducible] def cD : Byte := 68
@[reducible] def lH : Byte := 104
@[reducible] def lS : Byte := 115
@[reducible] def lR : Byte := 114

/-- the scan `for (k = 0;k < len;++k) if (!s[k]) {...}`: where the current record stands -/
inductive RSc | start | inK | inZ | inD | skip
  deriving DecidableEq, Repr

/-- `result`: 1 = K, 0 = Z, -1 = D or nothing found. Only NUL-terminated records count. -/
def scan : RSc → Bytes → Int
  | _, [] => -1
  | .start, c :: r =>
      if c = NUL then scan .start r else if c = cK then scan .inK r else if c = cZ then scan .inZ r
      else if c = cD then scan .inD r else scan .skip r
  | .inK, c :: r => if c = NUL then 1 else scan .inK r
  | .inZ, c :: r => if c = NUL then 0 else scan .inZ r
  | .inD, c :: r => if c = NUL then -1 else scan .inD r
  | .skip, c :: r => if c = NUL then scan .start r else scan .skip r

/-- C string starting at the head of `m` -/
def cstr : Bytes → Bytes
  | [] => []
  | c :: r => if c = NUL then [] else c :: cstr r

/-- the bytes after the first NUL of `m`, if there is one -/
def afterNul : Bytes → Option Bytes
  | [] => none
  | c :: r => if c = NUL then some r else afterNul r

def letterOf (v : Int) : Bytes := if v = 1 then [cK] else if v = 0 then [cZ] else if v = -1 then [cD] else []

def orrOf (s : Bytes) (result : Int) : Int :=
  match s with
  | c :: _ => if c = lS then 0 else if c = lH then -1 else result
  | [] => result

/-- the text part: first record without its letter, then (if the message result is not better than
    the recipient's) the text of the record that follows, when that starts with Z, D or K -/
def tailOf (s : Bytes) (result orr : Int) : Bytes :=
  match s with
  | [] => []
  | _ :: s1 =>
    match afterNul s1 with
    | none => []
    | some rest =>
      cstr s1 ++
      (if result ≤ orr then
        match rest with
        | c :: rest' => if c = cZ ∨ c = cD ∨ c = cK then cstr rest' else []
        | [] => []
       else [])

/-- `report()`; `wstat` is the wait status (`wait_crashed` = low 7 bits, `wait_exitcode` = `>> 8`) -/
def rreport (wstat : Nat) (s : Bytes) : Bytes :=
  if wstat % 128 ≠ 0 then lit "Zqmail-remote crashed.\n"
  else if wstat / 256 = 111 then lit "ZUnable to run qmail-remote.\n"
  else if wstat / 256 ≠ 0 then lit "DUnable to run qmail-remote.\n"
  else if s = [] then lit "Zqmail-remote produced no output.\n"
  else
    let result := scan .start s
    let orr := orrOf s result
    letterOf orr ++ tailOf s result orr

end Nq.RspawnReport
