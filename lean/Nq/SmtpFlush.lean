/-
  Nq.SmtpFlush — the reply side of commands() in qmail-smtpd: when do reply bytes reach the wire?

    commands.c      `c[i].fun(arg); if (c[i].flush) c[i].flush();`                → `cmdsEvFuel` (flag per table entry)
    qmail-smtpd.c   `saferead()`: `flush(); r = timeoutread(...)`                 → `readEv` (the read op of `ssin`: flush, then read)
                    `out(s)` = `substdio_puts(&ssout,s)`, `flush()`               → `putO`, `flushO`
    substdo.c       `substdio_put` (does it fit? else flush, long strings written directly), `substdio_flush`

  The input side is `Nq.Substdio.ISt` / `SmtpIO.get1` exactly as in `Nq.SmtpCmdIO`: a `read()` of the connection
  happens when `substdio_get` finds the buffer empty (`s.p = 0`).  The handlers are a parameter (state, call ↦ state,
  number of reply bytes, exits?); byte counts only — the discipline is about how much has been written when.
  Abstractions: a reply is handed to `substdio_put` in one piece and a string longer than the buffer is written by one
  `write` (the C splits at 8192); neither changes the totals at reads and flushes, which is what is compared with the C.
  Core Lean only.
-/
import Nq.SmtpCmdIO

namespace Nq.SmtpFlush
open Nq Nq.Substdio Nq.SmtpIO Nq.SmtpCmdIO

inductive FEv
  | gen (n : Nat)     -- a handler handed n reply bytes to `ssout`
  | wr (n : Nat)      -- `write(1, …, n)`
  | rd                -- `read(0, …)`: the server waits for the client
  | cmd (i : Nat)     -- handler of table entry i returned
  | fl                -- the entry's flush callback ran
  deriving DecidableEq, Repr

/-- `substdio_flush(&ssout)` with `pend` bytes buffered -/
def flushO (pend : Nat) : List FEv := if pend = 0 then [] else [.wr pend]

/-- `substdio_put(&ssout, reply, n)`: events and the new fill of the buffer -/
def putO (size pend n : Nat) : List FEv × Nat :=
  if n > size - pend then
    if n > size then (flushO pend ++ [.wr n], 0) else (flushO pend, n)
  else ([], pend + n)

/-- `substdio_get(&ssin,&ch,1)` with `saferead` as the read op -/
def readEv (s : ISt) (pend : Nat) : (ISt × G1) × List FEv × Nat :=
  if s.p = 0 then (get1 s, flushO pend ++ [.rd], 0) else (get1 s, [], pend)

/-- the inner loop of commands() -/
def getLineEv : Nat → ISt → Nat → LineRes × List FEv × Nat
  | 0, s, pend => (.eof s, [], pend)
  | fuel + 1, s, pend =>
    match readEv s pend with
    | ((s', .byte c), evs, pend') =>
      if c = LF then (.line [] s', evs, pend')
      else ((getLineEv fuel s' pend').1.cons c, evs ++ (getLineEv fuel s' pend').2.1, (getLineEv fuel s' pend').2.2)
    | ((s', .eof), evs, pend') => (.eof s', evs, pend')
    | ((s', .err), evs, pend') => (.err s', evs, pend')

abbrev Handler (σ : Type) := σ → Nat × Bytes → σ × Nat × Bool

/-- commands(): `flags i` = entry i has a flush callback; a handler that exits flushes first (smtp_quit, die_*) -/
def cmdsEvFuel {σ : Type} (table : List Bytes) (flags : Nat → Bool) (h : Handler σ) (size : Nat) :
    Nat → σ → ISt → Nat → List FEv
  | 0, _, _, _ => []
  | fuel + 1, st, s, pend =>
    match getLineEv ((pending s).length + 1) s pend with
    | (.line l s', evs, pend') =>
      let call := callOf table l
      let r := h st call
      let p := putO size pend' r.2.1
      if r.2.2 then evs ++ .gen r.2.1 :: p.1 ++ flushO p.2
      else if flags call.1 then
        evs ++ .gen r.2.1 :: p.1 ++ .cmd call.1 :: flushO p.2 ++ .fl :: cmdsEvFuel table flags h size fuel r.1 s' 0
      else evs ++ .gen r.2.1 :: p.1 ++ .cmd call.1 :: cmdsEvFuel table flags h size fuel r.1 s' p.2
    | (_, evs, _) => evs

/-- the whole session: `banner` bytes are in `ssout` when commands() starts (smtp_greet) -/
def cmdsEv {σ : Type} (table : List Bytes) (flags : Nat → Bool) (h : Handler σ) (size : Nat) (st : σ) (s : ISt) (banner : Nat) : List FEv :=
  .gen banner :: ((putO size 0 banner).1 ++ cmdsEvFuel table flags h size ((pending s).length + 1) st s (putO size 0 banner).2)

/-! ### the discipline (also the oracle, evaluated on the implementation's event log) -/

/-- `out` = reply bytes generated and not yet written.  A write takes them in order; at a read of the connection and
after a flush callback nothing is outstanding. -/
def disciplinedB : Nat → List FEv → Bool
  | _, [] => true
  | out, .gen n :: r => disciplinedB (out + n) r
  | out, .wr n :: r => decide (n ≤ out) && disciplinedB (out - n) r
  | out, .rd :: r => decide (out = 0) && disciplinedB 0 r
  | out, .fl :: r => decide (out = 0) && disciplinedB 0 r
  | out, .cmd _ :: r => disciplinedB out r

/-- what the client has received when the server blocks: bytes written before each read = bytes generated before it -/
def written : List FEv → Nat
  | [] => 0
  | .wr n :: r => n + written r
  | _ :: r => written r

def generated : List FEv → Nat
  | [] => 0
  | .gen n :: r => n + generated r
  | _ :: r => generated r

/-- the comparable skeleton of an event list: reads and flush callbacks with the bytes written so far, handler returns -/
inductive Mark | rd (w : Nat) | fl (w : Nat) | cmd (i : Nat)
  deriving DecidableEq, Repr

/-- outstanding bytes after a (disciplined) event list -/
def outAfter : Nat → List FEv → Nat
  | out, [] => out
  | out, .gen n :: r => outAfter (out + n) r
  | out, .wr n :: r => outAfter (out - n) r
  | _, .rd :: r => outAfter 0 r
  | _, .fl :: r => outAfter 0 r
  | out, .cmd _ :: r => outAfter out r

def marks : Nat → List FEv → List Mark
  | _, [] => []
  | w, .wr n :: r => marks (w + n) r
  | w, .rd :: r => .rd w :: marks w r
  | w, .fl :: r => .fl w :: marks w r
  | w, .cmd i :: r => .cmd i :: marks w r
  | w, .gen _ :: r => marks w r

end Nq.SmtpFlush
