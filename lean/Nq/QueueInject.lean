/-
  Nq.QueueInject — model of qmail-queue.c.

  * `scan`  : the two envelope loops of `main`, as a resumable scanner over the bytes read so far.
  * `accept`: an *acceptor* of system-call traces.  One control point per place where `main`
              issues a call; an event that the program may not issue there — or the omission of
              one it must issue — is a rejection.  Buffer sizes are deliberately not modelled: a
              `write` is legal iff it continues the byte stream the program has `put` so far, so
              every chunking, short write and EINTR retry is covered by one rule.
  * `FS`, `apply`, `CrashOf`: the abstract file system of one queue entry (DESIGN.md §1.4) and the
              crash relation (file data not fsynced since its last change is arbitrary).
-/
import Nq.Basic
import Nq.Gen.Consts

namespace Nq.QueueInject
open Nq

/-! ### Envelope scanner -/

inductive SSt
  | expectF               -- before the 'F'
  | inAddr (len : Nat)    -- inside an address, `len` bytes read so far (`len < ADDR`)
  | expectT               -- after an address: 'T', or the terminating NUL
  | done | bad | long
  deriving DecidableEq, Repr

/-- one envelope byte: new state and the bytes `put` to the intd file -/
def sstep (addr : Nat) : SSt → Byte → SSt × Bytes
  | .expectF, c => if c = 70 then (.inAddr 0, [c]) else (.bad, [])
  | .inAddr len, c =>
      if c = 0 then (.expectT, [c])
      else if len + 1 = addr then (.long, [c])
      else (.inAddr (len + 1), [c])
  | .expectT, c => if c = 0 then (.done, []) else if c = 84 then (.inAddr 0, [c]) else (.bad, [])
  | s, _ => (s, [])     -- terminal states consume nothing more

/-- scan a prefix of the envelope stream: final state and everything emitted -/
def scanFrom (addr : Nat) : SSt → Bytes → SSt × Bytes
  | s, [] => (s, [])
  | s, c :: rest =>
    let r := sstep addr s c
    let q := scanFrom addr r.1 rest
    (q.1, r.2 ++ q.2)

def scan (env : Bytes) : SSt × Bytes := scanFrom Gen.ADDR .expectF env

/-- The limit the property states: addresses of up to 1002 bytes are accepted, 1003 and more are
refused (exit 11). `Gen.ADDR` is what the source says now; `C01_addr_limit` ties the two. -/
def ADDR_DOC : Nat := 1003

/-- the documented verdict on an envelope (used by the oracle, independent of the source) -/
def scanDoc (env : Bytes) : SSt × Bytes := scanFrom ADDR_DOC .expectF env

/-! ### Events (one per traced system call) -/

inductive FileId | mess | intd
  deriving DecidableEq, Repr

/-- the two kinds of signal qmail-queue catches: SIGALRM (`sigalrm`, the 24 h timer) and the
"bug" signals of `sig_bugcatch` (`sigbug`: SIGILL, SIGABRT, SIGFPE, SIGBUS, SIGSEGV, SIGSYS) -/
inductive Sig | alrm | bug
  deriving DecidableEq, Repr

/-- what the handler of the signal passes to `die`: neither handler calls `cleanup()` -/
def sigCode : Sig → Nat
  | .alrm => 52
  | .bug => 81

inductive Ev
  | alarm (n : Nat)
  | openPid (seq : Nat) (ok : Bool)
  | fstatPid (ok : Bool)
  | linkMess (ok : Bool)
  | unlinkPid (ok : Bool)
  | read (fd : Nat) (n : Nat)            -- successful read of n bytes (0 = end of input)
  | readErr (fd : Nat) (intr : Bool)
  | write (f : FileId) (bs : Bytes)      -- bs were written (possibly fewer than requested)
  | writeErr (f : FileId) (intr : Bool)
  | fsync (f : FileId) (ok : Bool)
  | openIntd (ok : Bool)
  | linkTodo (ok : Bool)
  | ftrunc (f : FileId) (ok : Bool)      -- result ignored by the program
  | unlinkF (f : FileId) (ok : Bool)
  | trigOpen (ok : Bool)
  | trigWrite
  | trigClose
  | signal (g : Sig)                     -- a caught signal is delivered: the handler runs
  | exit (code : Nat)
  deriving DecidableEq, Repr

/-- control points of `main` -/
inductive PC
  | start | pidOpen (seq : Nat) | fstat | linkMess | unlinkPid
  | messCopy | intdOpen | envCopy | linkTodo | trig | trigW | trigC
  | clIntdTrunc (code : Nat) | clIntdUnlink (code : Nat) | clMessTrunc (code : Nat) | clMessUnlink (code : Nat)
  | dying (code : Nat) | exited (code : Nat)
  | handler (code : Nat)       -- inside `sigalrm()` / `sigbug()`: `die(code)` and nothing else
  deriving DecidableEq, Repr

structure Params where
  msg : Bytes
  env : Bytes
  received : Bytes     -- the Received: line qmail-queue prepends
  hdr : Bytes          -- "u<uid>\0p<pid>\0"

structure St where
  pc : PC := .start
  msgRead : Nat := 0
  msgEof : Bool := false
  messW : Bytes := []
  envRead : Nat := 0
  intdW : Bytes := []
  madeMess : Bool := false
  madeIntd : Bool := false
  deriving DecidableEq, Repr

/-- entry of `cleanup()` followed by `die(code)` -/
def cleanupFrom (s : St) (code : Nat) : St :=
  if s.madeIntd then { s with pc := .clIntdTrunc code }
  else if s.madeMess then { s with pc := .clMessTrunc code }
  else { s with pc := .dying code }

def isPrefix (a b : Bytes) : Bool := a.length ≤ b.length && b.take a.length == a

def accept (p : Params) (s : St) : Ev → Option St
  | .alarm n => if s.pc = .start ∧ n = Gen.DEATH then some { s with pc := .pidOpen 1 } else none
  | .openPid seq ok =>
    match s.pc with
    | .pidOpen k =>
      if seq ≠ k then none
      else if ok then some { s with pc := .fstat }
      else if k + 1 < 10 then some { s with pc := .pidOpen (k + 1) }
      else some { s with pc := .dying 63 }
    | _ => none
  | .fstatPid ok => if s.pc = .fstat then some { s with pc := if ok then .linkMess else .dying 63 } else none
  | .linkMess ok => if s.pc = .linkMess then some { s with pc := if ok then .unlinkPid else .dying 64 } else none
  | .unlinkPid ok =>
    if s.pc = .unlinkPid then some (if ok then { s with pc := .messCopy, madeMess := true } else { s with pc := .dying 63 })
    else none
  | .read fd n =>
    if fd = 0 then
      if s.pc = .messCopy ∧ !s.msgEof ∧ s.msgRead + n ≤ p.msg.length ∧ (n = 0 → s.msgRead = p.msg.length) then
        some { s with msgRead := s.msgRead + n, msgEof := n == 0 }
      else none
    else if fd = 1 then
      if s.pc = .envCopy ∧ s.envRead + n ≤ p.env.length ∧ (n = 0 → s.envRead = p.env.length) then
        if n = 0 then
          -- end of the envelope stream: `die_read` unless the scanner needs nothing more (then the
          -- program would not have read)
          match (scan (p.env.take s.envRead)).1 with
          | .done | .bad | .long => none
          | _ => some (cleanupFrom s 54)
        else some { s with envRead := s.envRead + n }
      else none
    else none
  | .readErr fd intr =>
    if fd = 0 ∧ s.pc = .messCopy ∧ !s.msgEof then some (if intr then s else cleanupFrom s 54)
    else if fd = 1 ∧ s.pc = .envCopy then some (if intr then s else cleanupFrom s 54)
    else none
  | .write .mess bs =>
    if s.pc = .messCopy ∧ bs ≠ [] ∧ isPrefix (s.messW ++ bs) (p.received ++ p.msg.take s.msgRead) then
      some { s with messW := s.messW ++ bs }
    else none
  | .write .intd bs =>
    if s.pc = .envCopy ∧ bs ≠ [] ∧ isPrefix (s.intdW ++ bs) (p.hdr ++ (scan (p.env.take s.envRead)).2) then
      some { s with intdW := s.intdW ++ bs }
    else none
  | .writeErr .mess intr => if s.pc = .messCopy then some (if intr then s else cleanupFrom s 53) else none
  | .writeErr .intd intr => if s.pc = .envCopy then some (if intr then s else cleanupFrom s 53) else none
  | .fsync .mess ok =>
    if s.pc = .messCopy ∧ s.msgEof ∧ s.messW = p.received ++ p.msg then
      some (if ok then { s with pc := .intdOpen } else cleanupFrom s 53)
    else none
  | .openIntd ok =>
    if s.pc = .intdOpen then some (if ok then { s with pc := .envCopy, madeIntd := true } else { s with pc := .dying 65 })
    else none
  | .fsync .intd ok =>
    if s.pc = .envCopy ∧ (scan (p.env.take s.envRead)).1 = .done ∧ s.intdW = p.hdr ++ (scan (p.env.take s.envRead)).2 then
      some (if ok then { s with pc := .linkTodo } else cleanupFrom s 53)
    else none
  | .linkTodo ok => if s.pc = .linkTodo then some { s with pc := if ok then .trig else .dying 66 } else none
  | .trigOpen ok => if s.pc = .trig then some { s with pc := if ok then .trigW else .dying 0 } else none
  | .trigWrite => if s.pc = .trigW then some { s with pc := .trigC } else none
  | .trigClose => if s.pc = .trigC then some { s with pc := .dying 0 } else none
  | .ftrunc .intd _ =>
    match s.pc with
    | .clIntdTrunc c => some { s with pc := .clIntdUnlink c }
    | _ => none
  | .unlinkF .intd ok =>
    match s.pc with
    | .clIntdUnlink c => some (if ok then (if s.madeMess then { s with pc := .clMessTrunc c } else { s with pc := .dying c })
                              else { s with pc := .dying c })
    | _ => none
  | .ftrunc .mess _ =>
    match s.pc with
    | .clMessTrunc c => some { s with pc := .clMessUnlink c }
    | _ => none
  | .unlinkF .mess ok =>
    match s.pc with
    | .clMessUnlink c => some { s with pc := .dying c }
    | _ => none
  | .signal g =>
    -- the handlers are installed just before `alarm(DEATH)`; a signal may arrive at any later point,
    -- also between two calls of `cleanup()` or right before `_exit`.  (Before that point the default
    -- action kills the process: the trace simply stops, which prefix-closure covers.)
    match s.pc with
    | .start | .handler _ | .exited _ => none
    | _ => some { s with pc := .handler (sigCode g) }
  | .exit code =>
    match s.pc with
    | .dying c => if code = c then some { s with pc := .exited code } else none
    -- `sigalrm()` / `sigbug()`: "thou shalt not clean up here" - `_exit` is the only thing that follows
    | .handler c => if code = c then some { s with pc := .exited code } else none
    -- before `alarm(DEATH)`: `chdir(auto_qmail)` failed (61), `chdir("queue")` failed (62), or the
    -- allocation of the Received line failed (51); these library calls are not traced, the trace
    -- shows the exit only.  Nothing has been created.
    | .start => if code = 61 ∨ code = 62 ∨ code = 51 then some { s with pc := .exited code } else none
    -- `pidopen()`: the allocation of the pid file name failed, before the first `open_excl`
    | .pidOpen k => if k = 1 ∧ code = 51 then some { s with pc := .exited 51 } else none
    -- `fnnum()` after the successful `fstat`: allocation failure, `die(51)` WITHOUT cleanup - the pid
    -- file stays
    | .linkMess => if code = 51 then some { s with pc := .exited 51 } else none
    | .envCopy =>
      -- `die(91)` / `die(11)`: no cleanup
      match (scan (p.env.take s.envRead)).1 with
      | .bad => if code = 91 then some { s with pc := .exited 91 } else none
      | .long => if code = 11 then some { s with pc := .exited 11 } else none
      | _ => none
    | _ => none

def acceptAll (p : Params) : St → List Ev → Option St
  | s, [] => some s
  | s, e :: es => match accept p s e with
    | some s' => acceptAll p s' es
    | none => none

/-! ### The documented exit code of a run in which nothing fails -/

/-- qmail-queue.8: 0 = accepted, 91 = "envelope format error", 11 = "address too long",
54 = "unable to read the message or envelope" (here: the envelope stream ends before its
terminator) -/
def docCode : SSt → Nat
  | .done => 0
  | .bad => 91
  | .long => 11
  | _ => 54

/-- events that report a failure which decides the exit code by itself: a failing call other than
EINTR (which is retried), other than `ftruncate`/`unlink` inside `cleanup()` (they only decide what
stays behind) and other than the trigger pull (best effort); the ninth failing `open_excl` of the
pid file (the first eight are retried under the next name); a caught signal; the exits 51/61/62
(allocation or `chdir` failure - library calls the trace does not show). -/
def Faulty : Ev → Bool
  | .openPid seq ok => !ok && decide (9 ≤ seq)
  | .fstatPid ok => !ok
  | .linkMess ok => !ok
  | .unlinkPid ok => !ok
  | .readErr _ intr => !intr
  | .writeErr _ intr => !intr
  | .fsync _ ok => !ok
  | .openIntd ok => !ok
  | .linkTodo ok => !ok
  | .signal _ => true
  | .exit code => code == 51 || code == 61 || code == 62
  | _ => false

/-! ### Abstract file system of one queue entry, and crashes -/

structure File where
  cur : Bytes := []
  synced : Bool := true     -- nothing changed since the last fsync (or creation)
  deriving DecidableEq, Repr

structure FS where
  pidName : Bool := false
  messName : Bool := false
  intdName : Bool := false
  todoName : Bool := false
  messF : File := {}       -- the inode created as pid/… and linked as mess/<n>
  intdF : File := {}       -- the inode created as intd/<n> and linked as todo/<n>
  deriving DecidableEq, Repr

def apply (fs : FS) : Ev → FS
  | .openPid _ true => { fs with pidName := true, messF := {} }
  | .linkMess true => { fs with messName := true }
  | .unlinkPid true => { fs with pidName := false }
  | .write .mess bs => { fs with messF := { cur := fs.messF.cur ++ bs, synced := false } }
  | .write .intd bs => { fs with intdF := { cur := fs.intdF.cur ++ bs, synced := false } }
  | .fsync .mess true => { fs with messF := { fs.messF with synced := true } }
  | .fsync .intd true => { fs with intdF := { fs.intdF with synced := true } }
  | .openIntd true => { fs with intdName := true, intdF := {} }
  | .linkTodo true => { fs with todoName := true }
  | .ftrunc .mess true => { fs with messF := { cur := [], synced := false } }
  | .ftrunc .intd true => { fs with intdF := { cur := [], synced := false } }
  | .unlinkF .mess true => { fs with messName := false }
  | .unlinkF .intd true => { fs with intdName := false }
  | _ => fs

def applyAll : FS → List Ev → FS
  | fs, [] => fs
  | fs, e :: es => applyAll (apply fs e) es

/-- `fs'` is a possible state after a process or machine crash in state `fs`: names are
unaffected (directory operations are synchronous); a file that was fsynced since its last change
keeps its content; the content of any other file is arbitrary. -/
def CrashOf (fs fs' : FS) : Prop :=
  fs'.pidName = fs.pidName ∧ fs'.messName = fs.messName ∧ fs'.intdName = fs.intdName ∧ fs'.todoName = fs.todoName ∧
  (fs.messF.synced = true → fs'.messF.cur = fs.messF.cur) ∧
  (fs.intdF.synced = true → fs'.intdF.cur = fs.intdF.cur)

end Nq.QueueInject
