/-
  Nq.FixedBuf — the index arithmetic of the fixed-size buffers that network / child input is copied
  into: qmail-qmqpd.c getbuf() `buf[1000]`, qmail-qmtpd.c `buf[1000]` (sender, recipient + RELAYCLIENT),
  `buf2[100]` and the reply composed in `buf`, qmail-getpw.c userext() `username[32]`, qmail.c
  qmail_errstr() `errstr[256]`.  Each function lists the indices the C code stores to, as a function of
  the *guard constant* in the source; the guard constants and the array sizes are regenerated from
  /repo into Nq.Gen.C20Bounds on every run.  Core Lean only.
-/
import Nq.Basic

namespace Nq.FixedBuf

/-- qmail-qmqpd.c getbuf() for a declared length `len` when `avail` more bytes arrive before end of file
(`avail > len`: all `len` data bytes and the comma arrived).  `len >= guard` → every byte is read into `buf[0]`,
then (after the comma) `buf[0] = 0`; otherwise `getbyte(buf + i)` for `i < len`, then `buf[len] = 0`. -/
def qmqpdStores (guard len avail : Nat) : List Nat :=
  if len ≥ guard then (if min len avail > 0 then [0] else []) ++ (if avail > len then [0] else [])
  else List.range (min len avail) ++ (if avail > len then [len] else [])

/-- getbuf()'s return value for NUL-free data: `none` = the daemon exits (end of file) -/
def qmqpdRet (guard len avail : Nat) : Option Bool :=
  if avail > len then some (decide (len < guard)) else none

/-- qmail-qmtpd.c, the sender: `len >= guard` → `buf[0] = 0`; otherwise `buf + i`, `buf[len] = 0`. -/
def qmtpdSenderStores (guard len : Nat) : List Nat :=
  if len ≥ guard then [0] else List.range len ++ [len]

/-- qmail-qmtpd.c, one recipient: skipped when `len + relayclientlen >= guard`; otherwise `buf + i`,
`buf[len] = 0` and, with RELAYCLIENT, `str_copy(buf + len,relayclient)` (relayclientlen + 1 bytes). -/
def qmtpdRcptStores (guard len rcl : Nat) (relay : Bool) : List Nat :=
  if len + rcl ≥ guard then []
  else List.range len ++ [len] ++ (if relay then (List.range (rcl + 1)).map (len + ·) else [])

/-- bytes of `buf2` written for "Kok <now> qp <qp>\0" when the two numbers have `d1`, `d2` digits -/
def qmtpdKokLen (d1 d2 : Nat) : Nat := 4 + d1 + 4 + d2 + 1

/-- bytes of `buf` written for the reply netstring `<d digits>:<result>,` -/
def qmtpdReplyLen (d resultLen : Nat) : Nat := d + 1 + resultLen + 1

/-- qmail-getpw.c userext(): for `k = extension - local`, `k < guard` → `byte_copy(username,k,local);
username[k] = 0` -/
def getpwStores (guard k : Nat) : List Nat :=
  if k < guard then List.range k ++ [k] else []

/-- userext(): the values of `k = extension - local` for which the copy + getpwnam() happens, in the order the
loop visits them (`extension` walks from the end of `local` down to its start): `k < guard` and `local[k]` is
the terminating NUL or the break character.  No user exists (the loop runs to the end). -/
def getpwProbes (guard : Nat) (brk : Byte) (loc : Bytes) : List Nat :=
  ((List.range (loc.length + 1)).reverse).filter
    (fun k => decide (k < guard) && (k == loc.length || loc.getD k 0 == brk))

/-- qmail.c qmail_errstr(): `while (substdio_get(&ss,s+len,1) > 0 && len < guard) len++; s[len] = 0;`
with `avail` bytes coming from the child; returns (indices stored by the reads, final `len`). -/
def errstrLoop (guard : Nat) : Nat → Nat → List Nat × Nat
  | 0, len => ([], len)                           -- substdio_get returns 0: nothing stored
  | avail + 1, len =>
      if len < guard then
        let r := errstrLoop guard avail (len + 1)
        (len :: r.1, r.2)
      else ([len], len)                           -- the byte is stored at s[len], then the loop ends

def errstrStores (guard avail : Nat) : List Nat :=
  let r := errstrLoop guard avail 0
  r.1 ++ [r.2]

/-- qmail-remote.c get(): `if (*ch != '\r') if (smtptext.len < HUGESMTPTEXT) stralloc_append(&smtptext,ch)` -/
def smtptextStep (cap : Nat) (t : Bytes) (ch : Byte) : Bytes :=
  if ch ≠ CR ∧ t.length < cap then t ++ [ch] else t

/-- sorted, duplicate-free view of an index list (what the harness can observe of the stores) -/
def indexSet (l : List Nat) : List Nat :=
  (List.range (l.foldl max 0 + 1)).filter (fun i => l.contains i)

end Nq.FixedBuf
