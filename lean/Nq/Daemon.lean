/-
  Nq.Daemon — a monitor ("acceptor") for the observable protocol of qmail-send + qmail-clean:
  every filesystem-mutating system call of the two programs, every delivery command written to a
  spawner, every byte read from a spawner, every bounce injection, crashes and restarts.

  `accept s e = none` means: a correct qmail-send may not do `e` in state `s`.  The guards are the
  enabling conditions that the code establishes through its volatile bookkeeping (`numtodo`,
  `flaghiteof`, `refs`, slot tables, pass positions …): e.g. a channel file may be unlinked only when
  every record in it is finished; a record may be marked `D` only right after a `K` report for its
  delivery slot, or after a `D` report once the bounce paragraph has been appended.  The tie to the
  C code is that every trace of the real programs (under qsim, `harness/qsend.c`) is accepted; the
  theorems (Props/C03, C04) are about all accepted event sequences.

  A crash is the event `.restart`; what it did to the files (`crashMarks`, `crashBounce`, `crashTodoFiles`) can be reported only
  in the crash window right after it (mode flag `St.crashed`, section "crash mode"): `accept` judges every other event in the
  state with the window closed.

  Positions of recipient records are byte offsets in `local/<m>` / `remote/<m>`, as in the code
  (`mpos`); the state keeps each file as its list of records.
-/
import Nq.Basic
import Nq.Gen.Consts

namespace Nq.Daemon
open Nq

inductive Ch | loc | rem
  deriving DecidableEq, Repr

structure Rec where
  done : Bool
  addr : Bytes
  deriving DecidableEq, Repr

/-- bytes a record occupies: mark, address, NUL -/
def Rec.size (r : Rec) : Nat := r.addr.length + 2

/-- index of the record starting at byte offset `pos` -/
def recIndex : List Rec → Nat → Option Nat
  | [], _ => none
  | r :: rs, pos =>
    if pos = 0 then some 0
    else if pos < r.size then none
    else (recIndex rs (pos - r.size)).map (· + 1)

def setDone : List Rec → Nat → List Rec
  | [], _ => []
  | r :: rs, 0 => { r with done := true } :: rs
  | r :: rs, i + 1 => r :: setDone rs i

/-- parse appended channel-file bytes `T addr NUL …` into records; `none` if malformed -/
def parseRecs : Bytes → Bytes → Option (List Rec)
  | [], [] => some []
  | _ :: _, [] => none            -- unterminated record
  | cur, c :: rest =>
    if c = 0 then
      match cur.reverse with
      | m :: addr => if m = 84 then (parseRecs [] rest).map (⟨false, addr⟩ :: ·) else none
      | [] => none
    else parseRecs (c :: cur) rest

structure MsgSt where
  mess : Bool := false
  intd : Bool := false
  todo : Option (Bytes × List Bytes) := none        -- envelope (sender, recipients) in todo/<m>
  info : Option Bytes := none                        -- content of info/<m> if the file exists
  infoSynced : Bool := false
  birth : Nat := 0                                   -- mtime of info/<m>
  loc : Option (List Rec) := none
  rem : Option (List Rec) := none
  locSynced : Bool := false
  remSynced : Bool := false
  bounce : Option Bytes := none                      -- content of bounce/<m> if it exists
  -- ghost history
  accepted : Option (Bytes × List Bytes) := none     -- envelope as accepted by qmail-queue
  placedLoc : List Bytes := []                       -- records written to local/<m> at preprocessing
  placedRem : List Bytes := []
  fin : List (Ch × Nat) := []                        -- finished records: reported K, or bounce paragraph appended
  delivered : List (Ch × Nat) := []                  -- reported K
  noted : List (Ch × Nat) := []                      -- paragraph appended to bounce/<m>
  inFile : List (Ch × Nat) := []                     -- paragraphs currently in bounce/<m>
  bounced : List (Ch × Nat) := []                    -- named in a bounce that was queued successfully
  discarded : Bool := false                          -- bounce of a #@[] message discarded (documented)
  lost : Bool := false                               -- bounce/<m> content lost in a machine crash (documented exemption)
  lastInject : Bool := false                         -- the last injection of the current bounce file succeeded
  -- the two documented exemptions, per record (the flags `discarded` / `lost` above are message-wide summaries
  -- kept for C14's daemon layer; the accounting theorems of C03 use these lists)
  droppedRecs : List (Ch × Nat) := []                -- paragraphs that were in bounce/<m> of a `#@[]` message when the file was discarded
  lostRecs : List (Ch × Nat) := []                   -- paragraphs that were in bounce/<m> when a crash damaged the file

def MsgSt.chan (m : MsgSt) : Ch → Option (List Rec)
  | .loc => m.loc
  | .rem => m.rem
def MsgSt.setChan (m : MsgSt) (c : Ch) (v : Option (List Rec)) : MsgSt :=
  match c with
  | .loc => { m with loc := v }
  | .rem => { m with rem := v }
def MsgSt.chanSynced (m : MsgSt) : Ch → Bool
  | .loc => m.locSynced
  | .rem => m.remSynced
def MsgSt.setChanSynced (m : MsgSt) (c : Ch) (v : Bool) : MsgSt :=
  match c with
  | .loc => { m with locSynced := v }
  | .rem => { m with remSynced := v }

structure Slot where
  c : Ch
  delnum : Nat
  m : Nat
  idx : Nat
  recip : Bytes
  deriving DecidableEq, Repr

/-- a report that was parsed and whose bounce paragraph may / must still be appended -/
structure Note where
  m : Nat
  c : Ch
  idx : Nat
  recip : Bytes
  final : Bool := false        -- the report letter was `D` (paragraph and mark follow at once); false: a `Z` that may be turned into `D`
  deriving DecidableEq, Repr

inductive CleanReq | todo (m : Nat) | foop (m : Nat) | finished
  deriving DecidableEq, Repr

structure Cfg where
  conc : Ch → Nat                       -- min(configured concurrency, spawner byte)
  lifetime : Nat
  route : Bytes → Ch × Bytes            -- qmail-send `rewrite()` (C10): channel and rewritten address
  doublebounceto : Bytes

structure St where
  tab : List (Nat × MsgSt) := []        -- per-message state (association list; absent = no files, no history)
  slots : List Slot := []
  dlineLoc : Bytes × Nat := ([], 0)     -- report line buffer (reversed) and its length
  dlineRem : Bytes × Nat := ([], 0)
  notes : List Note := []               -- D (or dying Z) reports awaiting their bounce paragraph
  mayMark : List (Nat × Ch × Nat) := [] -- records that may be marked D now
  clean : Option CleanReq := none
  clock : Nat := 0
  cut : List Nat := []                  -- messages with a report awaiting its bounce paragraph when the daemon died in the crash
                                        -- whose dump is being read (`addbounce` may have been cut short: bounce/<m> created or
                                        -- partly written); emptied together with `crashed`
  crashed : Bool := false               -- mode flag: the daemon has just died in a crash (`.restart`) and nothing has happened since
                                        -- but the reading of the queue as the crash left it (the crash events below) and arrivals

def tabGet : List (Nat × MsgSt) → Nat → MsgSt
  | [], _ => {}
  | (k, v) :: rest, m => if k = m then v else tabGet rest m

def tabSet : List (Nat × MsgSt) → Nat → MsgSt → List (Nat × MsgSt)
  | [], m, v => [(m, v)]
  | (k, w) :: rest, m, v => if k = m then (k, v) :: rest else (k, w) :: tabSet rest m v

/-- state of message number `m` -/
def St.msg (s : St) (m : Nat) : MsgSt := tabGet s.tab m

def St.upd (s : St) (m : Nat) (f : MsgSt → MsgSt) : St :=
  { s with tab := tabSet s.tab m (f (s.msg m)) }

theorem tabGet_set (t : List (Nat × MsgSt)) (m k : Nat) (v : MsgSt) :
    tabGet (tabSet t m v) k = if k = m then v else tabGet t k := by
  induction t with
  | nil =>
    by_cases h : m = k
    · subst h; simp [tabSet, tabGet]
    · have h' : ¬ k = m := fun e => h e.symm
      simp [tabSet, tabGet, h, h']
  | cons kv rest ih =>
    obtain ⟨a, w⟩ := kv
    by_cases h : a = m
    · subst h
      by_cases h2 : a = k
      · subst h2; simp [tabSet, tabGet]
      · have h2' : ¬ k = a := fun e => h2 e.symm
        simp [tabSet, tabGet, h2, h2']
    · simp only [tabSet, h, if_false, tabGet]
      by_cases h2 : a = k
      · subst h2; simp [h]
      · simp only [h2, if_false, ih]

theorem St.msg_upd (s : St) (m k : Nat) (f : MsgSt → MsgSt) :
    (s.upd m f).msg k = if k = m then f (s.msg m) else s.msg k := by
  simp [St.upd, St.msg, tabGet_set]

def St.dline (s : St) : Ch → Bytes × Nat
  | .loc => s.dlineLoc
  | .rem => s.dlineRem
def St.setDline (s : St) (c : Ch) (v : Bytes × Nat) : St :=
  match c with
  | .loc => { s with dlineLoc := v }
  | .rem => { s with dlineRem := v }

inductive Ev
  | newmsg (m : Nat) (sender : Bytes) (rcpts : List Bytes)     -- qmail-queue linked todo/<m>
  | unlinkChan (m : Nat) (c : Ch)
  | unlinkInfo (m : Nat)
  | creatInfo (m : Nat)
  | writeInfo (m : Nat) (bs : Bytes)
  | fsyncInfo (m : Nat)
  | creatChan (m : Nat) (c : Ch)
  | writeChan (m : Nat) (c : Ch) (bs : Bytes)
  | fsyncChan (m : Nat) (c : Ch)
  | cleanReq (bs : Bytes)                                       -- request written to qmail-clean
  | cUnlinkIntd (m : Nat) | cUnlinkTodo (m : Nat) | cUnlinkMess (m : Nat)
  | cleanResp (b : Byte)
  | cmd (c : Ch) (delnum : Nat) (m : Nat) (pos : Nat) (recip : Bytes)   -- delivery command handed to a spawner
  | rbytes (c : Ch) (bs : Bytes)                                -- bytes read from a spawner
  | appendBounce (m : Nat) (bs : Bytes)
  | markD (m : Nat) (c : Ch) (pos : Nat)
  | bounceInject (m : Nat) (ok : Bool) (env body : Bytes)
  | unlinkBounce (m : Nat)
  | utimes (m : Nat) (c : Ch) (t : Nat)
  | tick (clock : Nat)
  | restart                                                     -- CRASH: the daemon (and cleaner, spawners) died and restarted
  -- what the crash did to the files; accepted only in the crash window (`St.crashed`, see "crash mode" below):
  | crashMarks (m : Nat) (c : Ch) (marks : List Bool)           -- machine crash: un-fsynced D bytes may have reverted
  | crashBounce (m : Nat) (content : Bytes)                     -- crash: bounce/<m> (never fsynced) has this content now
  | crashTodoFiles (m : Nat)                                    -- machine crash: files being rebuilt from todo/<m> are garbage

/-! ### helpers -/

def isInfix (pat s : Bytes) : Bool :=
  match s with
  | [] => pat.isEmpty
  | _ :: t => pat.isPrefixOf s || isInfix pat t

def sanitizeLF (b : Bytes) : Bytes := b.map (fun c => if c = 10 then 95 else c)

/-- `fmt_ulong`: decimal digits of `m` (kernel-reducible, unlike `toString`) -/
def fmtDec (m : Nat) : Bytes := (Nat.toDigits 10 m).map (fun ch => ch.toNat.toUInt8)

def allT (rs : List Rec) : Bool := rs.all (fun r => !r.done)
def addrs (rs : List Rec) : List Bytes := rs.map (·.addr)
def optAddrs : Option (List Rec) → List Bytes
  | some rs => addrs rs
  | none => []

/-- a channel file (if the message has one) consists of `T` records only and is fsynced -/
def chanReady (o : Option (List Rec)) (synced : Bool) : Bool :=
  match o with
  | some rs => allT rs && synced
  | none => true

/-- every recipient of the envelope, routed by `route`, is exactly the records of its channel file, in order -/
def routedOk (cfg : Cfg) (rcpts : List Bytes) (l r : List Bytes) : Bool :=
  ((rcpts.map cfg.route).filter (·.1 == .loc)).map (·.2) == l &&
  ((rcpts.map cfg.route).filter (·.1 == .rem)).map (·.2) == r

def slotFree (s : St) (c : Ch) (delnum : Nat) : Bool := !s.slots.any (fun x => x.c == c && x.delnum == delnum)
def inFlight (s : St) (m : Nat) (c : Ch) (idx : Nat) : Bool := s.slots.any (fun x => x.m == m && x.c == c && x.idx == idx)
def chanBusy (s : St) (m : Nat) (c : Ch) : Bool := s.slots.any (fun x => x.m == m && x.c == c)
def usedCount (s : St) (c : Ch) : Nat := (s.slots.filter (fun x => x.c == c)).length

/-- every record of the file is finished: marked on disk or finished in this or an earlier pass -/
def allFinished (ms : MsgSt) (c : Ch) (rs : List Rec) : Bool :=
  (List.range rs.length).all (fun i => (rs.getD i ⟨false, []⟩).done || ms.fin.contains (c, i))

/-- sender and recipient a bounce of a message from `sender` must have (qmail-send injectbounce) -/
def bounceEnvelope (cfg : Cfg) (sender : Bytes) : Bytes :=
  let s := if sender.length ≥ 4 ∧ sender.drop (sender.length - 4) == [45, 64, 91, 93] then sender.take (sender.length - 4) else sender
  if s.isEmpty then [70, 35, 64, 91, 93, 0, 84] ++ cfg.doublebounceto ++ [0]
  else [70, 0, 84] ++ s ++ [0]

/-! ### the report reader of `del_dochan` (one byte at a time) -/

/-- Result of feeding one byte. The line buffer is kept reversed with its length (`dline.len`);
`stralloc_append` followed by the `REPORTMAX` cut drops the new byte when the line is full. -/
def reportByte (rev : Bytes) (len : Nat) (ch : Byte) : (Bytes × Nat) × Option Bytes :=
  let full := len ≥ Gen.REPORTMAX
  let rev' := if full then rev else ch :: rev
  let len' := if full then len else len + 1
  if ch = 0 ∧ len' > 1 then (([], 0), some rev'.reverse)
  else ((rev', len'), none)

/-- handle one complete report (including its trailing NUL unless truncated) -/
def handleReport (cfg : Cfg) (s : St) (c : Ch) (rep : Bytes) : St :=
  let delnum := (rep.headD 0).toNat
  match s.slots.find? (fun x => x.c == c && x.delnum == delnum) with
  | none => s                               -- out of range or unused: ignored
  | some sl =>
    if delnum ≥ cfg.conc c then s else
    let s1 := { s with slots := s.slots.filter (fun x => !(x.c == c && x.delnum == delnum)) }
    let letter := rep.getD 1 0
    let ms := s.msg sl.m
    if letter = 75 then       -- K
      { (s1.upd sl.m fun ms => { ms with fin := (c, sl.idx) :: ms.fin, delivered := (c, sl.idx) :: ms.delivered })
        with mayMark := (sl.m, c, sl.idx) :: s1.mayMark }
    else if letter = 68 then  -- D
      { s1 with notes := s1.notes ++ [⟨sl.m, c, sl.idx, sl.recip, true⟩] }
    else if letter = 90 ∧ s.clock > ms.birth + cfg.lifetime then   -- Z for a message past its lifetime may be turned into D
      { s1 with notes := s1.notes ++ [⟨sl.m, c, sl.idx, sl.recip, false⟩] }
    else s1

def feedReports (cfg : Cfg) (s : St) (c : Ch) : Bytes → St
  | [] => s
  | b :: bs =>
    let r := reportByte (s.dline c).1 (s.dline c).2 b
    let s1 := s.setDline c r.1
    let s2 := match r.2 with
      | some rep => handleReport cfg s1 c rep
      | none => s1
    feedReports cfg s2 c bs

/-! ### the monitor -/

/-- The guards and effects of the events, for a state whose crash mode (`crashed`, `cut`) is already what the event is judged
in — see `accept` below, which is the monitor. -/
def acceptCore (cfg : Cfg) (s : St) : Ev → Option St
  | .newmsg m sender rcpts =>
    let ms := s.msg m
    if s.clean.isNone ∧ !ms.mess ∧ !ms.intd ∧ ms.todo.isNone ∧ ms.info.isNone ∧ ms.loc.isNone ∧ ms.rem.isNone ∧ ms.bounce.isNone
       ∧ !chanBusy s m .loc ∧ !chanBusy s m .rem then
      some { (s.upd m fun _ => { mess := true, intd := true, todo := some (sender, rcpts), accepted := some (sender, rcpts) })
             with notes := [], mayMark := [] }
    else none
  | .unlinkChan m c =>
    let ms := s.msg m
    if s.clean.isSome then none else
    match ms.chan c with
    | none => none
    | some rs =>
      if ms.todo.isSome then
        -- todo_do: files left by an interrupted earlier preprocessing are rebuilt from todo/<m>
        some (s.upd m fun ms => ms.setChan c none)
      else if !chanBusy s m c ∧ allFinished ms c rs then
        -- job_close: everything in this file is finished
        some (s.upd m fun ms => ms.setChan c none)
      else none
  | .unlinkInfo m =>
    let ms := s.msg m
    if s.clean.isSome ∨ ms.info.isNone then none
    else if ms.todo.isSome then some (s.upd m fun ms => { ms with info := none, infoSynced := false })
    else if ms.loc.isNone ∧ ms.rem.isNone ∧ ms.bounce.isNone then
      some (s.upd m fun ms => { ms with info := none, infoSynced := false })     -- messdone
    else none
  | .creatInfo m =>
    let ms := s.msg m
    if s.clean.isNone ∧ ms.todo.isSome ∧ ms.info.isNone then some (s.upd m fun ms => { ms with info := some [], infoSynced := false, birth := s.clock })
    else none
  | .writeInfo m bs =>
    let ms := s.msg m
    match ms.info with
    | some cur => if s.clean.isNone ∧ ms.todo.isSome then some (s.upd m fun ms => { ms with info := some (cur ++ bs), infoSynced := false, birth := s.clock }) else none
    | none => none
  | .fsyncInfo m =>
    let ms := s.msg m
    if s.clean.isNone ∧ ms.todo.isSome ∧ ms.info.isSome then some (s.upd m fun ms => { ms with infoSynced := true }) else none
  | .creatChan m c =>
    let ms := s.msg m
    if s.clean.isNone ∧ ms.todo.isSome ∧ (ms.chan c).isNone then some (s.upd m fun ms => (ms.setChan c (some [])).setChanSynced c false)
    else none
  | .writeChan m c bs =>
    let ms := s.msg m
    match ms.chan c, parseRecs [] bs with
    | some cur, some rs =>
      if s.clean.isNone ∧ ms.todo.isSome then some (s.upd m fun ms => (ms.setChan c (some (cur ++ rs))).setChanSynced c false) else none
    | _, _ => none
  | .fsyncChan m c =>
    let ms := s.msg m
    if s.clean.isNone ∧ ms.todo.isSome ∧ (ms.chan c).isSome then some (s.upd m fun ms => ms.setChanSynced c true) else none
  | .cleanReq bs =>
    if s.clean.isSome then none else
    -- find the message the request names
    let isTodo := bs.take 5 == [116, 111, 100, 111, 47]     -- "todo/"
    let isFoop := bs.take 5 == [102, 111, 111, 112, 47]     -- "foop/"
    let digits := (bs.drop 5).dropLast
    let m := decVal digits
    if bs.getLast? ≠ some 0 ∨ digits.isEmpty ∨ !digits.all isDigit ∨ fmtDec m ≠ digits then none
    else
      let ms := s.msg m
      if isTodo then
        match ms.todo with
        | none => none
        | some (sender, rcpts) =>
          -- preprocessing is complete and durable: info and the channel files hold the whole envelope
          if ms.info = some (70 :: sender ++ [0]) ∧ ms.infoSynced = true ∧
             chanReady ms.loc ms.locSynced = true ∧ chanReady ms.rem ms.remSynced = true ∧
             routedOk cfg rcpts (optAddrs ms.loc) (optAddrs ms.rem) = true ∧
             ms.loc ≠ some [] ∧ ms.rem ≠ some [] then
            some { s with clean := some (.todo m) }
          else none
      else if isFoop then
        -- the message is finished (messdone), or it is a stale leftover (cleanup_do)
        if ms.todo.isNone ∧ ms.info.isNone ∧ ms.loc.isNone ∧ ms.rem.isNone ∧ ms.bounce.isNone then some { s with clean := some (.foop m) }
        else none
      else none
  | .cUnlinkIntd m =>
    match s.clean with
    | some (.todo k) => if k = m then some (s.upd m fun ms => { ms with intd := false }) else none
    | some (.foop k) => if k = m then some (s.upd m fun ms => { ms with intd := false }) else none
    | _ => none
  | .cUnlinkTodo m =>
    match s.clean with
    | some (.todo k) =>
      if k = m then
        some { (s.upd m fun ms => { ms with todo := none, placedLoc := optAddrs ms.loc, placedRem := optAddrs ms.rem,
                                            fin := [], delivered := [], noted := [], inFile := [], bounced := [] })
               with notes := [], mayMark := [], clean := some .finished }
      else none
    | _ => none
  | .cUnlinkMess m =>
    match s.clean with
    | some (.foop k) => if k = m then some { (s.upd m fun ms => { ms with mess := false }) with clean := some .finished } else none
    | _ => none
  | .cleanResp _ => if s.clean.isSome then some { s with clean := none } else none
  | .cmd c delnum m pos recip =>
    let ms := s.msg m
    if s.clean.isSome then none else
    match ms.chan c with
    | none => none
    | some rs =>
      match recIndex rs pos with
      | none => none
      | some idx =>
        let r := rs.getD idx ⟨true, []⟩
        if ms.todo.isNone ∧ ms.info.isSome ∧ !r.done ∧ r.addr = recip ∧ slotFree s c delnum ∧ !inFlight s m c idx ∧
           delnum < cfg.conc c ∧ usedCount s c < cfg.conc c then
          some { s with slots := ⟨c, delnum, m, idx, recip⟩ :: s.slots, mayMark := [], notes := [] }
        else none
  | .rbytes c bs => if s.clean.isSome then none else some (feedReports cfg { s with mayMark := [], notes := [] } c bs)
  | .appendBounce m bs =>
    if s.clean.isSome then none else
    match s.notes.find? (fun n => n.m == m) with
    | none => none
    | some n =>
      let ms := s.msg m
      -- the paragraph names the recipient of that report (LF made harmless); its text is C14's business
      let hdr := [60] ++ sanitizeLF n.recip ++ [62, 58, 10]
      if ms.todo.isNone ∧ ms.info.isSome ∧ bs.take hdr.length == hdr ∧ bs.getLast? = some 10 then
        some { (s.upd m fun ms => { ms with bounce := some ((ms.bounce.getD []) ++ bs), fin := (n.c, n.idx) :: ms.fin,
                                            noted := (n.c, n.idx) :: ms.noted, inFile := (n.c, n.idx) :: ms.inFile, lastInject := false })
               with notes := s.notes.erase n, mayMark := (m, n.c, n.idx) :: s.mayMark }
      else none
  | .markD m c pos =>
    let ms := s.msg m
    if s.clean.isSome then none else
    match ms.chan c with
    | none => none
    | some rs =>
      match recIndex rs pos with
      | none => none
      | some idx => if s.mayMark.contains (m, c, idx) then some (s.upd m fun ms => ms.setChan c (some (setDone rs idx))) else none
  | .bounceInject m ok env body =>
    let ms := s.msg m
    if s.clean.isSome then none else
    match ms.info, ms.bounce with
    | some info, some file =>
      let sender := (info.drop 1).dropLast
      if ms.todo.isNone ∧ ms.loc.isNone ∧ ms.rem.isNone ∧ sender ≠ [35, 64, 91, 93] ∧
         (ok → (isInfix file body ∧ env = bounceEnvelope cfg sender)) then
        some (s.upd m fun ms => { ms with lastInject := ok })
      else none
    | _, _ => none
  | .unlinkBounce m =>
    let ms := s.msg m
    if s.clean.isSome then none else
    match ms.info, ms.bounce with
    | some info, some _ =>
      let sender := (info.drop 1).dropLast
      if ms.todo.isNone ∧ ms.loc.isNone ∧ ms.rem.isNone then
        if sender = [35, 64, 91, 93] then
          some (s.upd m fun ms => { ms with bounce := none, inFile := [], discarded := true, droppedRecs := ms.inFile ++ ms.droppedRecs })
        else if ms.lastInject then some (s.upd m fun ms => { ms with bounce := none, bounced := ms.inFile ++ ms.bounced, inFile := [] })
        else none
      else none
    | _, _ => none
  | .utimes m c _ => if s.clean.isNone ∧ ((s.msg m).chan c).isSome then some s else none
  | .tick t => if s.clock ≤ t then some { s with clock := t } else none
  | .restart => some { s with slots := [], dlineLoc := ([], 0), dlineRem := ([], 0), notes := [], mayMark := [], clean := none,
                              cut := s.notes.map (·.m), crashed := true }
  | .crashMarks m c marks =>
    let ms := s.msg m
    match ms.chan c with
    | none => none
    | some rs =>
      -- only un-fsynced single-byte D marks may revert to T; nothing else changes
      -- (only while the dump taken right after a crash is read: `crashed`)
      if s.crashed = true ∧ s.clean.isNone ∧ s.slots.isEmpty ∧ marks.length = rs.length ∧ (List.range rs.length).all (fun i => !(marks.getD i false) || (rs.getD i ⟨false, []⟩).done) then
        some (s.upd m fun ms => ms.setChan c (some ((rs.zip marks).map fun (r, d) => { r with done := d })))
      else none
  | .crashBounce m content =>
    -- after a crash bounce/<m> (never fsynced) has this content.  The file exists in the model, or the daemon died between a
    -- `D` report and the end of its `addbounce` (then the file may just have been created / partly written).  The paragraphs
    -- that were in the file are exempt (`lostRecs`) unless the old content is still there as a prefix (nothing was lost).
    -- Only while the dump taken right after a crash is read (`crashed`; `cut` is of that crash).
    if s.crashed = true ∧ s.clean.isNone ∧ s.slots.isEmpty ∧
       ((s.msg m).bounce.isSome ∨ ((s.msg m).todo.isNone ∧ (s.msg m).info.isSome ∧ s.cut.contains m)) then
      some (s.upd m fun ms => { ms with bounce := some content, lost := true, lastInject := false,
                                         lostRecs := (if (ms.bounce.getD []).isPrefixOf content then [] else ms.inFile) ++ ms.lostRecs })
    else none
  | .crashTodoFiles m =>
    if s.crashed = true ∧ s.clean.isNone ∧ s.slots.isEmpty ∧ (s.msg m).todo.isSome then
      some (s.upd m fun ms => { ms with infoSynced := false, locSynced := false, remSynced := false,
                                         info := ms.info.map (fun _ => []), loc := ms.loc.map (fun _ => []), rem := ms.rem.map (fun _ => []) })
    else none

/-! ### crash mode

A crash is the event `.restart`; what the crash did to the files is reported by `crashMarks` / `crashBounce` /
`crashTodoFiles`, which are possible only *right after* it: `.restart` sets the flag `crashed`, the three crash-damage events
require it, and every other event — except the arrival of a message: qmail-queue runs independently of the daemon, also while
it is down — clears it together with `cut` (the interrupted `addbounce` calls of that crash) before it is judged.  So
"damaged by a crash" in the theorems means: in the window between a crash and the first thing the restarted daemon (or
qmail-clean) does. -/

/-- events that leave the crash mode as it is: the crash, the damage found in its dump, and arrivals -/
def Ev.inCrashWindow : Ev → Bool
  | .restart => true
  | .crashMarks _ _ _ => true
  | .crashBounce _ _ => true
  | .crashTodoFiles _ => true
  | .newmsg _ _ _ => true
  | _ => false

/-- what a crash did to the files -/
def Ev.isDamage : Ev → Bool
  | .crashMarks _ _ _ => true
  | .crashBounce _ _ => true
  | .crashTodoFiles _ => true
  | _ => false

/-- the crash window is closed -/
def St.calm (s : St) : St := { s with crashed := false, cut := [] }

/-- the state an event is judged in -/
def St.before (s : St) (e : Ev) : St := if e.inCrashWindow then s else s.calm

/-- **The monitor.** -/
def accept (cfg : Cfg) (s : St) (e : Ev) : Option St := acceptCore cfg (s.before e) e

theorem St.calm_tab (s : St) : s.calm.tab = s.tab := rfl
theorem St.calm_msg (s : St) (m : Nat) : s.calm.msg m = s.msg m := rfl
theorem St.calm_slots (s : St) : s.calm.slots = s.slots := rfl
theorem St.calm_notes (s : St) : s.calm.notes = s.notes := rfl
theorem St.calm_mayMark (s : St) : s.calm.mayMark = s.mayMark := rfl
theorem St.calm_clean (s : St) : s.calm.clean = s.clean := rfl
theorem St.calm_clock (s : St) : s.calm.clock = s.clock := rfl

theorem St.before_tab (s : St) (e : Ev) : (s.before e).tab = s.tab := by unfold St.before; split <;> rfl
theorem St.before_msg (s : St) (e : Ev) (m : Nat) : (s.before e).msg m = s.msg m := by unfold St.before; split <;> rfl
theorem St.before_slots (s : St) (e : Ev) : (s.before e).slots = s.slots := by unfold St.before; split <;> rfl
theorem St.before_notes (s : St) (e : Ev) : (s.before e).notes = s.notes := by unfold St.before; split <;> rfl
theorem St.before_mayMark (s : St) (e : Ev) : (s.before e).mayMark = s.mayMark := by unfold St.before; split <;> rfl
theorem St.before_clean (s : St) (e : Ev) : (s.before e).clean = s.clean := by unfold St.before; split <;> rfl

/-- outside the crash window an event is judged in the calm state … -/
theorem accept_calm (cfg : Cfg) (s : St) (e : Ev) (h : e.inCrashWindow = false) : accept cfg s e = acceptCore cfg s.calm e := by
  simp [accept, St.before, h]
/-- … inside it, in the state as it is -/
theorem accept_window (cfg : Cfg) (s : St) (e : Ev) (h : e.inCrashWindow = true) : accept cfg s e = acceptCore cfg s e := by
  simp [accept, St.before, h]

theorem accept_restart (cfg : Cfg) (s : St) :
    accept cfg s .restart = some { s with slots := [], dlineLoc := ([], 0), dlineRem := ([], 0), notes := [], mayMark := [], clean := none,
                                          cut := s.notes.map (·.m), crashed := true } := rfl

def acceptAll (cfg : Cfg) : St → List Ev → Option St
  | s, [] => some s
  | s, e :: es => match accept cfg s e with
    | some s' => acceptAll cfg s' es
    | none => none

end Nq.Daemon
