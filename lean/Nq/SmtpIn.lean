/-
  Nq.SmtpIn — model of qmail-smtpd.c `blast()`: the inbound SMTP DATA decoder and the
  hop (Received:/Delivered-To:) counter that runs over the same byte stream.

  States are the values of the C variable `state`:
    s0  inside a line            s1  at the start of a line (after CR LF)
    s2  after CR LF "."          s3  after CR LF "." CR        s4  after a CR
-/
import Nq.Basic

namespace Nq.SmtpIn
open Nq

inductive DSt | s0 | s1 | s2 | s3 | s4
  deriving DecidableEq, Repr

/-- what one input byte does -/
inductive DOut
  | data (bs : Bytes)   -- bytes handed to `put` (i.e. `qmail_put`, subject to `databytes`)
  | done                -- `return`: the terminating ".\r\n" was seen
  | stray               -- `straynewline()`: 451, `_exit(1)`
  deriving DecidableEq, Repr

def dstep : DSt → Byte → DSt × DOut
  | .s0, c =>
      if c = LF then (.s0, .stray)
      else if c = CR then (.s4, .data [])
      else (.s0, .data [c])
  | .s1, c =>
      if c = LF then (.s1, .stray)
      else if c = DOT then (.s2, .data [])
      else if c = CR then (.s4, .data [])
      else (.s0, .data [c])
  | .s2, c =>
      if c = LF then (.s2, .stray)
      else if c = CR then (.s3, .data [])
      else (.s0, .data [c])
  | .s3, c =>
      if c = LF then (.s3, .done)
      else if c = CR then (.s4, .data [CR])
      else (.s0, .data [CR, c])
  | .s4, c =>
      if c = LF then (.s1, .data [LF])
      else if c = CR then (.s4, .data [CR])
      else (.s0, .data [CR, c])

/-- result of decoding a whole stream -/
inductive DRes
  | accepted (body rest : Bytes)   -- stored bytes, and the unread remainder of the stream
  | stray                          -- bare LF: 451, nothing queued
  | incomplete                     -- stream ended before the terminator (`die_read`)
  deriving DecidableEq, Repr

def emit (bs : Bytes) : DRes → DRes
  | .accepted b r => .accepted (bs ++ b) r
  | r => r

def drun : DSt → Bytes → DRes
  | _, [] => .incomplete
  | s, c :: inp =>
      match (dstep s c).2 with
      | .data bs => emit bs (drun (dstep s c).1 inp)
      | .done => .accepted [] inp
      | .stray => .stray

/-- `blast()` starts in state 1 -/
def dblast (inp : Bytes) : DRes := drun .s1 inp

/-! ### The reference decoder (RFC 5321 §4.5.2), written line by line, independently of the
five-state automaton: split at CR LF; a line consisting of a single dot ends the data; otherwise
one leading dot is removed; a LF that is not part of a CR LF is an error; a CR that is not
followed by LF is data. -/

/-- first line up to (excluding) the first CR LF, and what follows it -/
def takeLine : Bytes → Option (Bytes × Bytes)
  | [] => none
  | c :: rest =>
    match rest with
    | [] => none
    | d :: rest2 =>
      if c = CR ∧ d = LF then some ([], rest2)
      else match takeLine rest with
        | some (l, r) => some (c :: l, r)
        | none => none

theorem takeLine_length : ∀ (inp l r : Bytes), takeLine inp = some (l, r) → r.length < inp.length
  | [], _, _, h => by simp [takeLine] at h
  | [_], _, _, h => by simp [takeLine] at h
  | c :: d :: rest2, l, r, h => by
    unfold takeLine at h
    simp only at h
    split at h
    · simp at h; obtain ⟨_, rfl⟩ := h; simp; omega
    · cases h2 : takeLine (d :: rest2) with
      | none => simp [h2] at h
      | some p =>
        obtain ⟨l', r'⟩ := p
        simp [h2] at h
        obtain ⟨_, rfl⟩ := h
        have := takeLine_length (d :: rest2) l' r' h2
        simp at this ⊢; omega

def unstuff : Bytes → Bytes
  | [] => []
  | c :: l => if c = DOT then l else c :: l

def rfcDecode (inp : Bytes) : DRes :=
  match h : takeLine inp with
  | none => if LF ∈ inp then .stray else .incomplete
  | some (l, rest) =>
    if LF ∈ l then .stray
    else if l = [DOT] then .accepted [] rest
    else emit (unstuff l ++ [LF]) (rfcDecode rest)
termination_by inp.length
decreasing_by exact takeLine_length inp l rest h

/-! ### The hop counter: the `flaginheader/pos/flagmaybe*` part of `blast()` -/

structure HSt where
  inHeader : Bool := true
  pos : Nat := 0
  mx : Bool := true   -- flagmaybex: line may still match "received"
  my : Bool := true   -- flagmaybey: line may still match "\r\n"
  mz : Bool := true   -- flagmaybez: line may still match "delivered"
  hops : Nat := 0
  deriving DecidableEq, Repr

-- explicit byte lists (not `str "…"`): `String.toUTF8` does not reduce in proofs
def receivedLo : Bytes := [114, 101, 99, 101, 105, 118, 101, 100]          -- "received"
def receivedUp : Bytes := [82, 69, 67, 69, 73, 86, 69, 68]                 -- "RECEIVED"
def deliveredLo : Bytes := [100, 101, 108, 105, 118, 101, 114, 101, 100]   -- "delivered"
def deliveredUp : Bytes := [68, 69, 76, 73, 86, 69, 82, 69, 68]            -- "DELIVERED"

def hstep (h : HSt) (ch : Byte) : HSt :=
  if !h.inHeader then h else
  let h1 : HSt :=
    if h.pos < 9 then
      let mz := h.mz && (ch == deliveredLo.getD h.pos 0 || ch == deliveredUp.getD h.pos 0)
      let hops1 := if mz && h.pos == 8 then h.hops + 1 else h.hops
      let mx := if h.pos < 8 then h.mx && (ch == receivedLo.getD h.pos 0 || ch == receivedUp.getD h.pos 0) else h.mx
      let hops2 := if mx && h.pos == 7 then hops1 + 1 else hops1
      let my := if h.pos < 2 then h.my && (ch == [CR, LF].getD h.pos 0) else h.my
      let inH := if my && h.pos == 1 then false else h.inHeader
      { inHeader := inH, pos := h.pos + 1, mx := mx, my := my, mz := mz, hops := hops2 }
    else h
  if ch = LF then { h1 with pos := 0, mx := true, my := true, mz := true } else h1

/-- hop count after the bytes consumed by `blast()` -/
def hopsOf (consumed : Bytes) : Nat := (consumed.foldl hstep {}).hops

end Nq.SmtpIn
