/-
  Nq.BounceDaemon — C14 at DAEMON level: a ghost layer on the monitor `Nq.Daemon` (C03/C04, read-only
  here) that remembers, per message, *what* was injected and *what* was in `bounce/<m>` at that time,
  and the bridge between the monitor's abstract `bounceInject` / `unlinkBounce` events and the
  `injectbounce()` model `Nq.Bounce.inject` / `bounceOf`.

  The layer never refuses anything: `gaccept` accepts exactly what `Daemon.accept` accepts and only
  records history (like `DaemonOwed.owedStep`).  All theorems about it (Props/C14, `C14_daemon_*`)
  therefore hold for every event sequence the monitor accepts, i.e. (by the tie of C03's driver) for
  every observed run of the real qmail-send under qsim, and (by `drv_c14`) for the event sequences
  that the real `addbounce()`/`injectbounce()` produce in `harness/c14_bounce.c`.

  Core Lean only (the driver `drv_c14` links this file).
-/
import Nq.Daemon
import Nq.Bounce

namespace Nq.BounceDaemon
open Nq Nq.Daemon

/-- the envelope sender stored in `info/<m>` (`F` sender NUL), as the monitor reads it -/
def senderOf (info : Bytes) : Bytes := (info.drop 1).dropLast

/-- one injection that qmail-queue accepted (`bounceInject m true env body`) -/
structure Sent where
  sender : Bytes              -- envelope sender of message m at that moment (from info/<m>)
  env : Bytes                 -- envelope handed to qmail-queue
  body : Bytes                -- text handed to qmail-queue
  file : Bytes                -- content of bounce/<m> at that moment
  paras : List (Ch × Nat)     -- the monitor's `inFile` at that moment: which records the file names
  parts : List Bytes          -- the texts appended to make up that file, newest first (parallel to `paras`)
  deriving DecidableEq, Repr

/-- history of the bounce record of one message -/
structure GMsg where
  parts : List Bytes := []            -- texts appended to the *current* bounce/<m>, newest first (parallel to `inFile`)
  last : Option Sent := none          -- set iff the most recent event on bounce/<m> is a successful injection
  committed : List Sent := []         -- successful injections after which bounce/<m> was unlinked, newest first
  attempts : List Sent := []          -- every successful injection (a failing unlink makes qmail-send inject again)
  dropped : List (Ch × Nat) := []     -- paragraphs discarded with the bounce file of a `#@[]` message
  deriving DecidableEq, Repr

abbrev Ghost := Nat → GMsg

def gset (g : Ghost) (m : Nat) (v : GMsg) : Ghost := fun k => if k = m then v else g k

/-- how an event (about to be accepted in monitor state `s`) changes the history -/
def gstep (s : St) (g : Ghost) : Ev → Ghost
  | .newmsg m _ _ => gset g m {}
  | .appendBounce m bs => gset g m { g m with parts := bs :: (g m).parts, last := none }
  | .bounceInject m ok env body =>
    if ok then
      let snt : Sent := { sender := senderOf ((s.msg m).info.getD []), env := env, body := body,
                          file := (s.msg m).bounce.getD [], paras := (s.msg m).inFile, parts := (g m).parts }
      gset g m { g m with last := some snt, attempts := snt :: (g m).attempts }
    else gset g m { g m with last := none }
  | .unlinkBounce m =>
    if senderOf ((s.msg m).info.getD []) = Bounce.DBSENDER then
      gset g m { g m with parts := [], last := none, dropped := (s.msg m).inFile ++ (g m).dropped }
    else gset g m { g m with parts := [], last := none, committed := (g m).last.toList ++ (g m).committed }
  | .crashBounce m _ => gset g m { g m with last := none }
  | _ => g

/-- the monitor with history: accepts exactly what `Daemon.accept` accepts -/
def gaccept (cfg : Cfg) (sg : St × Ghost) (e : Ev) : Option (St × Ghost) :=
  match accept cfg sg.1 e with
  | some s' => some (s', gstep sg.1 sg.2 e)
  | none => none

def gacceptAll (cfg : Cfg) : St × Ghost → List Ev → Option (St × Ghost)
  | sg, [] => some sg
  | sg, e :: es => match gaccept cfg sg e with
    | some sg' => gacceptAll cfg sg' es
    | none => none

def ginit : St × Ghost := ({}, fun _ => {})

/-- events that touch `bounce/<m>` or start a new life of message number `m` -/
def bounceEvent (m : Nat) : Ev → Bool
  | .newmsg k _ _ => k == m
  | .appendBounce k _ => k == m
  | .bounceInject k _ _ _ => k == m
  | .unlinkBounce k => k == m
  | .crashBounce k _ => k == m
  | _ => false

/-- the texts of a bounce file, oldest first, concatenated -/
def fileOf (parts : List Bytes) : Bytes := parts.reverse.flatten

/-! ### bridge to the `injectbounce()` model -/

/-- the envelope as qmail-queue receives it: `F` sender NUL, then `T` recipient NUL for each recipient -/
def envBytes (q : Bounce.Msg) : Bytes :=
  70 :: q.sender ++ [0] ++ (q.rcpts.map (fun r => 84 :: r ++ [0])).flatten

/-- faults after which `qmail_close` is reached and refuses (the only failures a trace shows as an
injection event) -/
def closeFails (f : Bounce.Fault) : Bool :=
  f == .bounceOpen || f == .bounceRead || f == .messOpen || f == .messRead || f == .qqClose

/-- the monitor events of one `injectbounce(m)` call whose result is `r`, for a message with envelope
sender `sender` whose bounce file was `before` -/
def injectEvents (m : Nat) (f : Bounce.Fault) (sender : Bytes) (before : Option Bytes) (r : Bounce.Res) : List Ev :=
  match before with
  | none => []
  | some _ =>
    (match r.queued with
     | some q => [Ev.bounceInject m true (envBytes q) q.body]
     | none => if closeFails f ∧ Bounce.decideBounce sender ≠ .discard then [Ev.bounceInject m false [] []] else [])
    ++ (if r.bounce.isNone then [Ev.unlinkBounce m] else [])

/-- The executable form of the monitor's guard for a successful injection, used as oracle on the
implementation's output: the notice contains the bounce file, and goes where `bounceEnvelope` says. -/
def injectGuard (cfg : Cfg) (sender file env body : Bytes) : Bool :=
  sender != Bounce.DBSENDER && isInfix file body && env == bounceEnvelope cfg sender

/-! ### a whole life of one message, as events (used by `drv_c14` to replay what the real
`addbounce()` / `injectbounce()` did through the monitor, and by the non-vacuity examples) -/

/-- decimal request `todo/<m>` NUL / `foop/<m>` NUL -/
def reqTodo (m : Nat) : Bytes := [116, 111, 100, 111, 47] ++ fmtDec m ++ [0]
def reqFoop (m : Nat) : Bytes := [102, 111, 111, 112, 47] ++ fmtDec m ++ [0]

/-- byte offset of record `i` in a channel file holding `addrs` -/
def recPos (addrs : List Bytes) (i : Nat) : Nat := ((addrs.take i).map (fun a => a.length + 2)).sum

/-- arrival and preprocessing of message `m` (all recipients on the local channel) -/
def evArrive (m : Nat) (sender : Bytes) (addrs : List Bytes) : List Ev :=
  [.newmsg m sender addrs, .creatInfo m, .writeInfo m (70 :: sender ++ [0]), .creatChan m .loc,
   .writeChan m .loc (addrs.map (fun a => 84 :: a ++ [0])).flatten, .fsyncInfo m, .fsyncChan m .loc,
   .cleanReq (reqTodo m), .cUnlinkIntd m, .cUnlinkTodo m, .cleanResp 43]

/-- record `i` (address `addr`) is attempted, reported `D` with text `report`, the paragraph `para`
is appended to `bounce/<m>`, the record is marked -/
def evFail (m : Nat) (addrs : List Bytes) (i : Nat) (report para : Bytes) : List Ev :=
  [.cmd .loc 0 m (recPos addrs i) (addrs.getD i []), .rbytes .loc ([0, 68] ++ report.filter (· != 0) ++ [0]),
   .appendBounce m para, .markD m .loc (recPos addrs i)]

/-- the message is removed after `injectbounce` returned 1 -/
def evDone (m : Nat) : List Ev :=
  [.unlinkInfo m, .cleanReq (reqFoop m), .cUnlinkIntd m, .cUnlinkMess m, .cleanResp 43]

end Nq.BounceDaemon
