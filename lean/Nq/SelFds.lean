/-
  Nq.SelFds — the NUMERIC side of qmail-send.c's select preparation (property C16, extension round, session 4):
  which descriptor numbers end up in `rfds` / `wfds` and what `nfds` is passed to `select`.

  `Nq.SelPrep` says WHICH of the symbolic descriptors (`Fd.commOut c`, `Fd.delIn c`, `Fd.trigger`) are `FD_SET`; this file adds
  the descriptor numbers (`chanfdout[c]`, `chanfdin[c]`, trigger.c's `fd`) and the `*nfds` bookkeeping, transcribed statement by
  statement:

    main():           `FD_ZERO(&rfds); FD_ZERO(&wfds); nfds = 1;`                                   → `nfds` starts from 1
    comm_selprep():   `FD_SET(chanfdout[c],wfds); if (*nfds <= chanfdout[c]) *nfds = chanfdout[c] + 1;`  → `commNfds` (`bump`)
    del_selprep():    `FD_SET(chanfdin[c],rfds);  if (*nfds <= chanfdin[c])  *nfds = chanfdin[c] + 1;`   → `delNfds`  (`bump`)
    trigger_selprep(): `if (fd != -1) { FD_SET(fd,rfds); if (*nfds < fd + 1) *nfds = fd + 1; }`        → `trigNfds` (`bumpT`)
      (called from todo_selprep after `if (flagexitasap) return;`)

  `select(nfds, …)` examines only descriptors `< nfds`: a descriptor that is in a set but `≥ nfds` is NOT watched (`watched`).
  Core Lean only (the driver links this file).
-/
import Nq.SelPrep

namespace Nq.SelFds
open Nq.SelPrep

/-- the descriptor numbers: `chanfdout[c]`, `chanfdin[c]`, and trigger.c's `fd` (meaningful while `Snap.triggerFd`) -/
structure FdNums where
  out : Nat → Nat
  inn : Nat → Nat
  trig : Nat

/-- number of a symbolic descriptor -/
def num (f : FdNums) : Fd → Nat
  | .commOut c => f.out c
  | .delIn c => f.inn c
  | .trigger => f.trig

/-- `if (*nfds <= fd) *nfds = fd + 1;` (comm_selprep, del_selprep) -/
def bump (nfds fd : Nat) : Nat := if nfds ≤ fd then fd + 1 else nfds

/-- `if (*nfds < fd + 1) *nfds = fd + 1;` (trigger_selprep) -/
def bumpT (nfds fd : Nat) : Nat := if nfds < fd + 1 then fd + 1 else nfds

/-- `*nfds` through the loop of comm_selprep (channel index `i` upwards) -/
def commNfds (f : FdNums) : Nat → Nat → List Chan → Nat
  | n, _, [] => n
  | n, i, c :: cs => commNfds f (if c.spawnAlive && c.commPending then bump n (f.out i) else n) (i + 1) cs

/-- `*nfds` through the loop of del_selprep -/
def delNfds (f : FdNums) : Nat → Nat → List Chan → Nat
  | n, _, [] => n
  | n, i, c :: cs => delNfds f (if c.spawnAlive then bump n (f.inn i) else n) (i + 1) cs

/-- `*nfds` through todo_selprep: `if (flagexitasap) return; trigger_selprep(nfds,rfds);` -/
def trigNfds (s : Snap) (f : FdNums) (n : Nat) : Nat :=
  if !s.exitasap && s.triggerFd then bumpT n f.trig else n

/-- the first argument of `select` as main() leaves it: `nfds = 1; comm_selprep; del_selprep; … todo_selprep` -/
def nfds (s : Snap) (f : FdNums) : Nat :=
  trigNfds s f (delNfds f (commNfds f 1 0 s.chans) 0 s.chans)

/-- the numbers `FD_SET` in `rfds` / `wfds` (same `FD_SET` calls as `SelPrep.rfds` / `SelPrep.wfds`, by number) -/
def rset (s : Snap) (f : FdNums) : List Nat := (rfds s).map (num f)
def wset (s : Snap) (f : FdNums) : List Nat := (wfds s).map (num f)

/-- what `select(nfds, set, …)` really examines of a set: the members below `nfds` -/
def watched (nfds : Nat) (set : List Nat) : List Nat := set.filter (fun fd => decide (fd < nfds))

/-! ## the declarative side: the descriptors the daemon must wake up on -/

/-- read side: the report pipe of every live spawner (in particular while deliveries are outstanding on it), and the trigger
FIFO while it is armed (open, exit not requested) -/
def mustRead (s : Snap) (f : FdNums) : List Nat :=
  (s.chans.zipIdx.filterMap fun (c, i) => if c.spawnAlive then some (f.inn i) else none)
  ++ (if !s.exitasap && s.triggerFd then [f.trig] else [])

/-- write side: the command pipe of every live spawner while commands are buffered for it -/
def mustWrite (s : Snap) (f : FdNums) : List Nat :=
  s.chans.zipIdx.filterMap fun (c, i) => if c.spawnAlive && c.commPending then some (f.out i) else none

/-- executable form of the property (the driver's oracle, evaluated on the IMPLEMENTATION's `nfds` and sets): every descriptor
the daemon must wake up on is in the right set and below `nfds`; `none` = holds -/
def wakeOracle (s : Snap) (f : FdNums) (nf : Nat) (rs ws : List Nat) : Option String :=
  match (mustRead s f).find? (fun fd => !(rs.contains fd && decide (fd < nf))) with
  | some fd => some s!"descriptor_{fd}_must_wake_the_daemon_but_is_{if rs.contains fd then "not_below_nfds" else "not_in_rfds"}"
  | none =>
    match (mustWrite s f).find? (fun fd => !(ws.contains fd && decide (fd < nf))) with
    | some fd => some s!"command_pipe_{fd}_has_buffered_commands_but_is_{if ws.contains fd then "not_below_nfds" else "not_in_wfds"}"
    | none => none

end Nq.SelFds
