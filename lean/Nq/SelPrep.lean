/-
  Nq.SelPrep — the select preparation of qmail-send.c `main()` as a pure function of a snapshot of the
  daemon's globals (property C16: no busy loop, never sleeps past the earliest due event).

  Transcribed from the C sources:
    qmail-send.c  main(): `while (!flagexitasap || !del_canexit())`            → `loopContinues`
                          `wakeup = recent + SLEEP_FOREVER; … *_selprep …`     → `wakeup`
                          `if (wakeup <= recent) tv.tv_sec = 0;
                           else tv.tv_sec = wakeup - recent + SLEEP_FUZZ;`     → `timeout`
    qmail-send.c  comm_canwrite / del_avail / del_canexit / job_avail         → `commCanwrite` `delAvail` `delCanexit` `jobAvail`
    qmail-send.c  comm_selprep / del_selprep (+ trigger.c trigger_selprep)    → `wfds` / `rfds`
    qmail-send.c  pass_selprep                                               → `passSelprep` (`lower`, `passChans`)
    qmail-send.c  todo_selprep                                               → `todoSelprep`
    qmail-send.c  cleanup_selprep                                            → `cleanupSelprep`
    guards of comm_do / del_do / todo_do / pass_do (pass_dochan) / cleanup_do → `bodyActs`
      (does at least one of the five `*_do` calls of the loop body get past its early `return`s?)

  `datetime_sec` is a C `long`; times are modelled as `Int` (no overflow: `recent + SLEEP_FOREVER` and
  `wakeup - recent + SLEEP_FUZZ` fit as long as the clock is within ±2^62).  `*wakeup = 0` in the C code is the
  literal 0 (the epoch), *not* `recent` — see `C16_pre_epoch`.
  Core Lean only (the driver links this file).  Constants come from the regenerated `Nq.Gen.Consts`.
-/
import Nq.Basic
import Nq.Gen.Consts

namespace Nq.SelPrep

def SLEEP_FOREVER : Int := (Nq.Gen.SLEEP_FOREVER : Nat)
def SLEEP_FUZZ : Int := (Nq.Gen.SLEEP_FUZZ : Nat)

/-- per-channel globals (index c = 0 local, 1 remote) -/
structure Chan where
  spawnAlive : Bool := true        -- flagspawnalive[c]
  commPending : Bool := false      -- comm_buf[c].s && comm_buf[c].len
  used : Nat := 0                  -- concurrencyused[c]
  conc : Nat := 0                  -- concurrency[c]
  passOpen : Bool := false         -- pass[c].id != 0
  pqMin : Option Int := none       -- prioq_min(&pqchan[c],&pe) ? some pe.dt : none
  deriving Repr, DecidableEq

/-- the globals read between `recent = now()` and `select()` -/
structure Snap where
  recent : Int
  exitasap : Bool := false         -- flagexitasap
  chans : List Chan := []          -- c = 0 .. CHANNELS-1
  jobRefs : List Nat := []         -- jo[j].refs, j = 0 .. numjobs-1
  pqfailMin : Option Int := none   -- prioq_min(&pqfail,&pe)
  pqdoneMin : Option Int := none   -- prioq_min(&pqdone,&pe)
  triggerFd : Bool := true         -- trigger.c: fd != -1
  tododir : Bool := false          -- tododir != 0 (a todo scan is in progress)
  nexttodorun : Int := 0
  flagcleanup : Bool := false      -- a cleanup scan of mess/ is in progress
  cleanuptime : Int := 0
  deriving Repr

/-- `comm_canwrite(c)` -/
def commCanwrite (c : Chan) : Bool := !c.commPending

/-- `del_avail(c)`: `flagspawnalive[c] && comm_canwrite(c) && (concurrencyused[c] < concurrency[c])` -/
def delAvail (c : Chan) : Bool := c.spawnAlive && commCanwrite c && decide (c.used < c.conc)

/-- `del_canexit()`: `for c: if (flagspawnalive[c]) if (concurrencyused[c]) return 0; return 1` -/
def delCanexit (s : Snap) : Bool := s.chans.all fun c => !c.spawnAlive || c.used == 0

/-- `job_avail()`: `for j < numjobs: if (!jo[j].refs) return 1; return 0` -/
def jobAvail (s : Snap) : Bool := s.jobRefs.any (· == 0)

/-- the condition of `while (!flagexitasap || !del_canexit())` -/
def loopContinues (s : Snap) : Bool := !s.exitasap || !delCanexit s

/-! ## the descriptor sets -/

inductive Fd where
  | commOut (c : Nat)              -- chanfdout[c] in wfds
  | delIn (c : Nat)                -- chanfdin[c] in rfds
  | trigger                        -- the FIFO in rfds
  deriving DecidableEq, Repr

/-- `comm_selprep`: `if (flagspawnalive[c]) if (comm_buf[c].s && comm_buf[c].len) FD_SET(chanfdout[c],wfds)` -/
def commSelprep : Nat → List Chan → List Fd
  | _, [] => []
  | i, c :: cs => (if c.spawnAlive && c.commPending then [Fd.commOut i] else []) ++ commSelprep (i + 1) cs

/-- `del_selprep`: `if (flagspawnalive[c]) FD_SET(chanfdin[c],rfds)` -/
def delSelprep : Nat → List Chan → List Fd
  | _, [] => []
  | i, c :: cs => (if c.spawnAlive then [Fd.delIn i] else []) ++ delSelprep (i + 1) cs

/-- the descriptor part of `todo_selprep`: `if (flagexitasap) return; trigger_selprep(nfds,rfds);` -/
def todoWatch (s : Snap) : List Fd := if !s.exitasap && s.triggerFd then [Fd.trigger] else []

def wfds (s : Snap) : List Fd := commSelprep 0 s.chans
def rfds (s : Snap) : List Fd := delSelprep 0 s.chans ++ todoWatch s

/-! ## the wake-up time -/

/-- `if (prioq_min(&q,&pe)) if (*wakeup > pe.dt) *wakeup = pe.dt;` (also the `if (*wakeup > t) *wakeup = t;` of
todo_selprep / cleanup_selprep with `some t`) -/
def lower (w : Int) : Option Int → Int
  | none => w
  | some dt => if w > dt then dt else w

/-- `for (c = 0;c < CHANNELS;++c) if (!pass[c].id) if (prioq_min(&pqchan[c],&pe)) if (*wakeup > pe.dt) *wakeup = pe.dt;` -/
def passChans (w : Int) : List Chan → Int
  | [] => w
  | c :: cs => passChans (if c.passOpen then w else lower w c.pqMin) cs

/-- `pass_selprep(&wakeup)` -/
def passSelprep (s : Snap) (w : Int) : Int :=
  if s.exitasap then w
  else if s.chans.any (fun c => c.passOpen && delAvail c) then 0
  else lower (lower (if jobAvail s then passChans w s.chans else w) s.pqfailMin) s.pqdoneMin

/-- the wake-up part of `todo_selprep` -/
def todoSelprep (s : Snap) (w : Int) : Int :=
  if s.exitasap then w
  else lower (if s.tododir then 0 else w) (some s.nexttodorun)

/-- `cleanup_selprep(&wakeup)` (not guarded by flagexitasap) -/
def cleanupSelprep (s : Snap) (w : Int) : Int :=
  lower (if s.flagcleanup then 0 else w) (some s.cleanuptime)

/-- `wakeup` as `main()` leaves it after the five `*_selprep` calls -/
def wakeup (s : Snap) : Int :=
  cleanupSelprep s (todoSelprep s (passSelprep s (s.recent + SLEEP_FOREVER)))

/-- `tv.tv_sec` -/
def timeout (s : Snap) : Int :=
  if wakeup s ≤ s.recent then 0 else wakeup s - s.recent + SLEEP_FUZZ

/-! ## the guards of the loop body -/

/-- `dt <= recent` for the minimum of a heap -/
def due (recent : Int) : Option Int → Bool
  | none => false
  | some dt => decide (dt ≤ recent)

/-- `comm_do`: `if (flagspawnalive[c]) if (comm_buf[c].s && comm_buf[c].len) if (FD_ISSET(chanfdout[c],wfds))` → write -/
def commDoActs (ready : Fd → Bool) : Nat → List Chan → Bool
  | _, [] => false
  | i, c :: cs => (c.spawnAlive && c.commPending && ready (.commOut i)) || commDoActs ready (i + 1) cs

/-- `del_do`: `if (flagspawnalive[c]) if (FD_ISSET(chanfdin[c],rfds)) del_dochan(c)` -/
def delDoActs (ready : Fd → Bool) : Nat → List Chan → Bool
  | _, [] => false
  | i, c :: cs => (c.spawnAlive && ready (.delIn i)) || delDoActs ready (i + 1) cs

/-- `todo_do` gets past `if (flagexitasap) return; if (!tododir) { if (!trigger_pulled(rfds)) if (recent < nexttodorun) return; …` -/
def todoDoActs (s : Snap) (ready : Fd → Bool) : Bool :=
  !s.exitasap && (s.tododir || (s.triggerFd && ready .trigger) || decide (s.nexttodorun ≤ s.recent))

/-- `pass_dochan(c)` gets past its early returns: with a pass open it needs `del_avail(c)`; with none it needs
`job_avail()`, a heap minimum, and `pe.dt <= recent` -/
def passChanActs (s : Snap) (c : Chan) : Bool :=
  !s.exitasap && (if c.passOpen then delAvail c else jobAvail s && due s.recent c.pqMin)

/-- `pass_do`: the channels, then pqfail and pqdone (these two are *not* guarded by flagexitasap) -/
def passDoActs (s : Snap) : Bool :=
  s.chans.any (passChanActs s) || due s.recent s.pqfailMin || due s.recent s.pqdoneMin

/-- `cleanup_do` gets past `if (!flagcleanup) { if (recent < cleanuptime) return; …` -/
def cleanupDoActs (s : Snap) : Bool := s.flagcleanup || decide (s.cleanuptime ≤ s.recent)

/-- at least one of `comm_do del_do todo_do pass_do cleanup_do` does something, given the descriptors that
select reported ready -/
def bodyActs (s : Snap) (ready : Fd → Bool) : Bool :=
  commDoActs ready 0 s.chans || delDoActs ready 0 s.chans || todoDoActs s ready || passDoActs s || cleanupDoActs s

/-! ## the declarative side (what the theorems of C16 say about `timeout`) -/

/-- the timer events the daemon can act on: retry times at the head of a channel heap (only for a channel
without an open pass, and only if a job slot is free), pqfail / pqdone retries, the forced todo rescan — none
of these once exit was requested — and the next cleanup run -/
def dueTimes (s : Snap) : List Int :=
  (if s.exitasap then []
   else (if jobAvail s then s.chans.filterMap (fun c => if c.passOpen then none else c.pqMin) else [])
        ++ s.pqfailMin.toList ++ s.pqdoneMin.toList ++ [s.nexttodorun])
  ++ [s.cleanuptime]

/-- work that needs no event at all: a pass with a free delivery slot, a todo scan in progress, a cleanup
scan in progress (the three `*wakeup = 0` of the C code) -/
def immediate (s : Snap) : Bool :=
  (!s.exitasap && s.chans.any (fun c => c.passOpen && delAvail c)) || (!s.exitasap && s.tododir) || s.flagcleanup

/-- executable form of "something is pending now" -/
def pending (s : Snap) : Bool := immediate s || (dueTimes s).any (fun t => decide (t ≤ s.recent))

end Nq.SelPrep
