/-
  Nq.Local — executable model of qmail-local.c (the delivery agent), as far as property C13 needs it:

    safeext            main():  case_lowerb + '.' -> ':'
    qmeCandidates      qmesearch(): exact name, then "-default" at each dash boundary from the right
    qmeSelect/qmeTried qmeexists() over a home-directory oracle (absent / temporary error / regular file)
    checkhome          checkhome()
    dtline, rpline     main(): Delivered-To / Return-Path construction (newline -> '_', quote2)
    bouncexf           bouncexf(): header scan for an identical Delivered-To line
    ueoOf              main(): -owner / -owner-default (VERP) envelope sender of forwarded copies
    classify/dispatch  main(): the instruction loop
    progVerdict        mailprogram(): exit-code switch (table regenerated from the source)
    run                main() as a whole: exit code, diagnostic, files tried, actions, forward envelope, stdout

  Core Lean only.  C strings: arguments come from argv and contain no NUL; the bytes of a .qmail file
  may contain NUL, and the C code then sees a truncated string (`cstr`) wherever it passes `char *`.
-/
import Nq.Basic
import Nq.Gen.LocalExit

namespace Nq.Local
open Nq Nq.Gen.LocalExit

@[reducible] def DASH : Byte := 45
@[reducible] def COLON : Byte := 58
@[reducible] def SLASH : Byte := 47
@[reducible] def HASH : Byte := 35
@[reducible] def BAR : Byte := 124
@[reducible] def PLUS : Byte := 43
@[reducible] def AMP : Byte := 38
@[reducible] def USCORE : Byte := 95
@[reducible] def DQ : Byte := 34
@[reducible] def BSL : Byte := 92

/-! ## 1. Which control file -/

/-- one byte of `safeext`: `case_lowerb`, then `.` becomes `:` -/
def safeByte (c : Byte) : Byte := if lowerByte c = DOT then COLON else lowerByte c

def safeext (ext : Bytes) : Bytes := ext.map safeByte

/-- ".qmail" -/
def dotQmail : Bytes := [46, 113, 109, 97, 105, 108]
/-- "default" -/
def defaultB : Bytes := [100, 101, 102, 97, 117, 108, 116]

/-- the `for (i = n; i >= 0; --i) if (!i || safeext.s[i-1] == '-')` loop of `qmesearch`: the values of
`i` at which a "-default" name is built, in the order the loop visits them -/
def defIdxFrom (sx : Bytes) : Nat → List Nat
  | 0 => [0]
  | i + 1 => if sx.getD i 0 = DASH then (i + 1) :: defIdxFrom sx i else defIdxFrom sx i

def defIdx (sx : Bytes) : List Nat := defIdxFrom sx sx.length

/-- a candidate file name, and the index from which `ext` becomes `$DEFAULT` if it is selected -/
structure Cand where
  name : Bytes
  dflt : Option Nat
  deriving DecidableEq, Repr

/-- exact match: `DEFAULT` is set only when the name ends in "default" -/
def exactDflt (sx : Bytes) : Option Nat :=
  if 7 ≤ sx.length ∧ sx.drop (sx.length - 7) = defaultB then some (sx.length - 7) else none

def qmeCandidates (dash sx : Bytes) : List Cand :=
  ⟨dotQmail ++ dash ++ sx, exactDflt sx⟩ ::
    (defIdx sx).map (fun i => ⟨dotQmail ++ dash ++ sx.take i ++ defaultB, some i⟩)

/-- what `open_read` + `fstat` report for a name (the home-directory oracle) -/
inductive FStat
  | absent                              -- open fails with a non-temporary error, or not a regular file
  | temp                                -- temporary error, EPERM, EACCES, or fstat failure
  | reg (mode : Nat) (content : Bytes)  -- regular file
  deriving DecidableEq, Repr

inductive Sel
  | found (c : Cand) (mode : Nat) (content : Bytes)
  | nofile
  | temp (name : Bytes)        -- temp_qmail(): exit 111
  | writable (name : Bytes)    -- ".qmail file is writable": exit 111
  deriving DecidableEq, Repr

/-- `qmesearch` over the candidate list: the first name that is not `absent` decides -/
def qmeSelect (fs : Bytes → FStat) : List Cand → Sel
  | [] => .nofile
  | c :: rest =>
    match fs c.name with
    | .absent => qmeSelect fs rest
    | .temp => .temp c.name
    | .reg mode content => if mode &&& patrn ≠ 0 then .writable c.name else .found c mode content

/-- the names `qmesearch` opens, in order -/
def qmeTried (fs : Bytes → FStat) : List Cand → List Bytes
  | [] => []
  | c :: rest =>
    match fs c.name with
    | .absent => c.name :: qmeTried fs rest
    | _ => [c.name]

/-! ## 2. Diagnostics -/

inductive Why
  | homeStat | homeWritable | homeSticky | looping
  | qmailTemp (name : Bytes) | qmailWritable | noMailbox
  | blankFirst | xbitFile | xbitProg
  | progExit (code : Nat)            -- mailprogram: `_exit(code)`
  | childCrashed
  | fileFail (code : Nat) (text : Bytes)   -- mbox / maildir delivery failed (C12's domain; oracle-supplied)
  | fwdFail (code : Nat) (text : Bytes)    -- qmail-queue refused the forwarded copy
  deriving DecidableEq, Repr

def Why.code : Why → Nat
  | .homeStat => 111
  | .homeWritable => homeWritableCode
  | .homeSticky => homeStickyCode
  | .looping => loopingCode
  | .qmailTemp _ => 111
  | .qmailWritable => qmailWritableCode
  | .noMailbox => noMailboxCode
  | .blankFirst => blankFirstCode
  | .xbitFile => xbitFileCode
  | .xbitProg => xbitProgCode
  | .progExit c => c
  | .childCrashed => childCrashedCode
  | .fileFail c _ => c
  | .fwdFail c _ => c

/-- `checkhome()`: `home` is `st_mode` of ".", `none` if `stat` failed.  Returns the fatal diagnostic
(if any) and whether the sticky *warning* is printed (`-n` only). -/
def checkhome (doit : Bool) (home : Option Nat) : Option Why × Bool :=
  match home with
  | none => (some .homeStat, false)
  | some m =>
    if m &&& patrn ≠ 0 then (some .homeWritable, false)
    else if m &&& stickyBit ≠ 0 then (if doit then (some .homeSticky, false) else (none, true))
    else (none, false)

/-! ## 3. Header lines -/

/-- "Delivered-To: " -/
def deliveredTo : Bytes := [68, 101, 108, 105, 118, 101, 114, 101, 100, 45, 84, 111, 58, 32]
/-- "Return-Path: <" -/
def returnPath : Bytes := [82, 101, 116, 117, 114, 110, 45, 80, 97, 116, 104, 58, 32, 60]

def noLF (c : Byte) : Byte := if c = LF then USCORE else c

def envrecip (loc host : Bytes) : Bytes := loc ++ [AT] ++ host

def dtline (loc host : Bytes) : Bytes := (deliveredTo ++ envrecip loc host).map noLF ++ [LF]

def quoteOkB (c : Byte) : Bool := c < 128 && quoteOk.getD c.toNat 0 != 0

def hasDotDot : Bytes → Bool
  | a :: b :: r => (a == DOT && b == DOT) || hasDotDot (b :: r)
  | _ => false

def quoteNeed (s : Bytes) : Bool :=
  s.isEmpty || s.any (fun c => !quoteOkB c) || s.head? == some DOT || s.getLast? == some DOT || hasDotDot s

def quoteByte (c : Byte) : Bytes := if c = CR ∨ c = LF ∨ c = DQ ∨ c = BSL then [BSL, c] else [c]

def quoteDoit (s : Bytes) : Bytes := [DQ] ++ s.flatMap quoteByte ++ [DQ]

def quote (s : Bytes) : Bytes := if quoteNeed s then quoteDoit s else s

/-- index of the last `c` in `s` (`str_rchr`), `none` if there is none -/
def rindex (c : Byte) : Bytes → Option Nat
  | [] => none
  | x :: r => match rindex c r with
    | some j => some (j + 1)
    | none => if x = c then some 0 else none

/-- `quote2`: quote the local part (everything before the last `@`) -/
def quote2 (s : Bytes) : Bytes :=
  if s = [] then [] else
  match rindex AT s with
  | none => quote s
  | some j => quote (s.take j) ++ s.drop j

def rpline (sender : Bytes) : Bytes := (returnPath ++ quote2 sender).map noLF ++ [62, LF]

/-- "From " ++ sender with blanks/newlines replaced (or MAILER-DAEMON) ++ " "; the date follows -/
def uflinePrefix (sender : Bytes) : Bytes :=
  [70, 114, 111, 109, 32] ++
  (if sender = [] then [77, 65, 73, 76, 69, 82, 45, 68, 65, 69, 77, 79, 78]
   else sender.map (fun c => if c = SP ∨ c = TAB ∨ c = LF then DASH else c)) ++ [SP]

/-- `bouncexf()`: `racc` is the current line read so far, reversed.  The scan ends at the first
empty line ("\n"), at an unterminated last line, or when a line equal to `dt` is found (`true`). -/
def bxScan (dt : Bytes) : Bytes → Bytes → Bool
  | _, [] => false
  | racc, c :: rest =>
    if c = LF then
      if racc = [] then false
      else if racc.reverse ++ [LF] = dt then true
      else bxScan dt [] rest
    else bxScan dt (c :: racc) rest

def bouncexf (dt msg : Bytes) : Bool := bxScan dt [] msg

/-! ## 4. Environment helpers (`EXTn`, `HOSTn`) -/

/-- `x += str_chr(x,'-'); if (*x) ++x;` -/
def afterDash : Bytes → Bytes
  | [] => []
  | c :: r => if c = DASH then r else afterDash r

/-- `byte_rchr(host,i,'.')` then copy `i` bytes: the part before the last dot (all of it if none) -/
def beforeLastDot (h : Bytes) : Bytes :=
  match rindex DOT h with
  | some j => h.take j
  | none => h

/-! ## 5. Envelope sender of forwarded copies -/

/-- "-owner" / "-owner-default" -/
def ownerB : Bytes := [45, 111, 119, 110, 101, 114]
def ownerDefaultB : Bytes := ownerB ++ [DASH] ++ defaultB
/-- "#@[]" -/
def bounceVerp : Bytes := [35, 64, 91, 93]

/-- `ex name`: does `stat(name)` succeed?  `none` = temporary error (exit 111). Result: `Except name ueo` -/
def ueoOf (loc dash sx host sender : Bytes) (ex : Bytes → Option Bool) : Except Bytes Bytes :=
  if sender = [] ∨ sender = bounceVerp then .ok sender
  else
    let o1 := dotQmail ++ dash ++ sx ++ ownerB
    match ex o1 with
    | none => .error o1
    | some false => .ok sender
    | some true =>
      let o2 := dotQmail ++ dash ++ sx ++ ownerDefaultB
      match ex o2 with
      | none => .error o2
      | some true => .ok (loc ++ ownerB ++ [DASH, AT] ++ host ++ [DASH, AT, 91, 93])
      | some false => .ok (loc ++ ownerB ++ [AT] ++ host)

/-- the names `qmeox` gives to `stat`, in order: none for bounces; `…-owner`; `…-owner-default` only if the
first `stat` succeeded -/
def ueoStats (dash sx sender : Bytes) (ex : Bytes → Option Bool) : List Bytes :=
  if sender = [] ∨ sender = bounceVerp then []
  else
    let o1 := dotQmail ++ dash ++ sx ++ ownerB
    match ex o1 with
    | some true => [o1, dotQmail ++ dash ++ sx ++ ownerDefaultB]
    | _ => [o1]

/-! ## 6. The instruction loop -/

inductive Instr
  | mbox (fn : Bytes)
  | maildir (fn : Bytes)
  | program (cmd : Bytes)
  | forward (addr : Bytes)
  deriving DecidableEq, Repr

inductive Line
  | blank | comment | list | plusOther
  | act (i : Instr)
  deriving DecidableEq, Repr

def isSpTab (c : Byte) : Bool := c == SP || c == TAB
/-- `while (k > i && (s[k-1] == ' ' || s[k-1] == '\t')) s[--k] = 0;` -/
def stripTrail (l : Bytes) : Bytes := (l.reverse.dropWhile isSpTab).reverse
/-- what C sees through a `char *` -/
def cstr (l : Bytes) : Bytes := l.takeWhile (fun c => c != NUL)
/-- "list" -/
def listB : Bytes := [108, 105, 115, 116]

/-- the `switch(cmds.s[i])` of `main()` on one line (without its LF) -/
def classify (raw : Bytes) : Line :=
  match stripTrail raw with
  | [] => .blank
  | c :: rest =>
    if c = NUL then .blank
    else if c = HASH then .comment
    else if c = DOT ∨ c = SLASH then
      (if (c :: rest).getLast? = some SLASH then .act (.maildir (c :: rest)) else .act (.mbox (c :: rest)))
    else if c = BAR then .act (.program rest)
    else if c = PLUS then (if cstr rest = listB then .list else .plusOther)
    else if c = AMP then .act (.forward rest)
    else .act (.forward (c :: rest))

/-- result of a command run by `mailprogram` -/
inductive PRes
  | exited (code : Nat)
  | crashed
  deriving DecidableEq, Repr

/-- the `switch(wait_exitcode(wstat))` of `mailprogram`, from the regenerated table -/
def progClass (code : Nat) : PClass :=
  match progCases.lookup code with
  | some c => c
  | none => progDefault

inductive Fin
  | done
  | stop99
  | die (w : Why)
  deriving DecidableEq, Repr

def Fin.isDie : Fin → Bool
  | .die _ => true
  | _ => false

/-- `did`: the instructions acted upon, in order (a failing one is the last); `fin`: how the loop ended -/
structure Trace where
  did : List Instr
  fin : Fin
  deriving DecidableEq, Repr

def Trace.cons (i : Instr) (t : Trace) : Trace := { t with did := i :: t.did }

/-- The loop of `main()` over the lines of `cmds`.
`px cmd` is what running `sh -c cmd` yields, `dx i` the failure (if any) of a file delivery;
with `-n` nothing is run: use `fun _ => .exited 0` and `fun _ => none`.
`first`: this is the first line (`i == 0`); `fo`: `flagforwardonly`. -/
def dispatch (px : Bytes → PRes) (dx : Instr → Option Why) : Bool → Bool → List Bytes → Trace
  | _, _, [] => ⟨[], .done⟩
  | first, fo, raw :: rest =>
    match classify raw with
    | .blank => if first then ⟨[], .die .blankFirst⟩ else dispatch px dx false fo rest
    | .comment => dispatch px dx false fo rest
    | .plusOther => dispatch px dx false fo rest
    | .list => dispatch px dx false true rest
    | .act (.forward a) => (dispatch px dx false fo rest).cons (.forward a)
    | .act (.program c) =>
      if fo then ⟨[], .die .xbitProg⟩
      else match px (cstr c) with
        | .crashed => ⟨[.program c], .die .childCrashed⟩
        | .exited code =>
          match progClass code with
          | .ok => (dispatch px dx false fo rest).cons (.program c)
          | .stop99 => ⟨[.program c], .stop99⟩
          | .exit e => ⟨[.program c], .die (.progExit e)⟩
    | .act (.mbox f) =>
      if fo then ⟨[], .die .xbitFile⟩
      else match dx (.mbox f) with
        | none => (dispatch px dx false fo rest).cons (.mbox f)
        | some w => ⟨[.mbox f], .die w⟩
    | .act (.maildir f) =>
      if fo then ⟨[], .die .xbitFile⟩
      else match dx (.maildir f) with
        | none => (dispatch px dx false fo rest).cons (.maildir f)
        | some w => ⟨[.maildir f], .die w⟩

/-- the instruction (if any) a line stands for, and the instructions of a file in file order -/
def instrOf (raw : Bytes) : Option Instr :=
  match classify raw with
  | .act i => some i
  | _ => none

def instrsOf (lines : List Bytes) : List Instr := lines.filterMap instrOf

/-- split at LF; the last element is the unterminated remainder -/
def splitAux : Bytes → List Bytes
  | [] => [[]]
  | c :: r =>
    if c = LF then [] :: splitAux r
    else match splitAux r with
      | h :: t => (c :: h) :: t
      | [] => [[c]]

/-- the LF-terminated lines (terminator removed) -/
def splitLines (c : Bytes) : List Bytes := (splitAux c).dropLast

/-- `if (!cmds.len || cmds.s[cmds.len-1] != '\n') cats("\n")` -/
def fixup (c : Bytes) : Bytes := if c.getLast? = some LF then c else c ++ [LF]

def fwdAddr : Instr → Option Bytes
  | .forward a => some a
  | _ => none

def isForward : Instr → Bool
  | .forward _ => true
  | _ => false
def isProgram : Instr → Bool
  | .program _ => true
  | _ => false
def isFile : Instr → Bool
  | .mbox _ => true
  | .maildir _ => true
  | _ => false

/-- `sayit` -/
def say : Instr → Bytes
  | .mbox f => [109, 98, 111, 120, 32] ++ f ++ [LF]
  | .maildir f => [109, 97, 105, 108, 100, 105, 114, 32] ++ f ++ [LF]
  | .program c => [112, 114, 111, 103, 114, 97, 109, 32] ++ c ++ [LF]
  | .forward a => [102, 111, 114, 119, 97, 114, 100, 32] ++ a ++ [LF]

/-- `count_print` without the qp line: "did f+w+p\n" -/
def didLine (did : List Instr) : Bytes :=
  [100, 105, 100, 32] ++ fmtNat (did.filter isFile).length ++ [PLUS] ++ fmtNat (did.filter isForward).length ++
    [PLUS] ++ fmtNat (did.filter isProgram).length ++ [LF]

/-! ## 7. `main()` -/

structure Args where
  doit : Bool
  loc : Bytes
  dash : Bytes
  ext : Bytes
  host : Bytes
  sender : Bytes
  aliasempty : Bytes
  msg : Bytes

structure World where
  home : Option Nat                   -- st_mode of the home directory
  fs : Bytes → FStat                  -- open_read + fstat
  ex : Bytes → Option Bool            -- stat (for -owner files)
  px : Bytes → PRes                   -- running a command
  dx : Instr → Option Why             -- performing a file delivery
  qq : Bytes                          -- what qmail_close returns for the forwarded copy ("" = accepted)
  qp : Nat                            -- pid of qmail-queue

/-- a side effect visible outside the process (`doit` mode) -/
inductive Effect
  | deliver (i : Instr)                           -- mbox / maildir / program, C-string arguments
  | queue (sender : Bytes) (recips : List Bytes)  -- the forwarded copy
  deriving DecidableEq, Repr

structure Result where
  code : Nat := 0
  why : Option Why := none
  stickyWarn : Bool := false
  tried : List Bytes := []           -- names opened by qmesearch
  stats : List Bytes := []           -- names given to stat by qmeox (-owner files)
  sel : Option Cand := none          -- the control file selected
  dfltEnv : Option Bytes := none     -- $DEFAULT
  ueo : Option Bytes := none         -- $NEWSENDER
  did : List Instr := []
  effects : List Effect := []
  out : Bytes := []                  -- stdout
  deriving DecidableEq, Repr

def cInstr : Instr → Instr
  | .mbox f => .mbox (cstr f)
  | .maildir f => .maildir (cstr f)
  | .program c => .program (cstr c)
  | .forward a => .forward (cstr a)

def fwdVerdict (qq : Bytes) : Option Why :=
  match qq with
  | [] => none
  | c :: t => some (.fwdFail (if c = 68 then fwdHardCode else fwdSoftCode) t)

/-- the trace of the instruction loop: with `-n` nothing is run, so nothing can fail or stop -/
def dtrace (a : Args) (w : World) (cmds : Bytes) (fo : Bool) : Trace :=
  if a.doit then dispatch w.px w.dx true fo (splitLines (fixup cmds))
  else dispatch (fun _ => .exited 0) (fun _ => none) true fo (splitLines (fixup cmds))

/-- the instruction loop and what follows it, given the instruction text and `flagforwardonly` -/
def deliver (a : Args) (w : World) (cmds : Bytes) (fo : Bool) (r : Result) : Result :=
  let t := dtrace a w cmds fo
  let recips := (t.did.filterMap fwdAddr).map cstr
  let said : Bytes := if a.doit then [] else (t.did.map say).flatten
  let eff : List Effect := if a.doit then ((t.did.filter (fun i => !isForward i)).map (fun i => .deliver (cInstr i))) else []
  match t.fin with
  | .die y => { r with code := y.code, why := some y, did := t.did, effects := eff, out := said }
  | _ =>
    if a.doit ∧ recips ≠ [] then
      let eff2 := eff ++ [.queue (r.ueo.getD []) recips]
      match fwdVerdict w.qq with
      | some y => { r with code := y.code, why := some y, did := t.did, effects := eff2, out := said }
      | none => { r with did := t.did, effects := eff2,
                         out := didLine t.did ++ (if w.qp ≠ 0 then [113, 112, 32] ++ fmtNat w.qp ++ [LF] else []) }
    else { r with did := t.did, effects := eff, out := said ++ didLine t.did }

def run (a : Args) (w : World) : Result :=
  match checkhome a.doit w.home with
  | (some y, _) => { code := y.code, why := some y }
  | (none, warn) =>
    if a.doit ∧ bouncexf (dtline a.loc a.host) a.msg then
      { code := Why.looping.code, why := some .looping }
    else
      let sx := safeext a.ext
      let cands := qmeCandidates a.dash sx
      let tried := qmeTried w.fs cands
      match qmeSelect w.fs cands with
      | .temp n => { code := 111, why := some (.qmailTemp n), stickyWarn := warn, tried := tried }
      | .writable _ => { code := Why.qmailWritable.code, why := some .qmailWritable, stickyWarn := warn, tried := tried }
      | .nofile =>
        if a.dash ≠ [] then { code := Why.noMailbox.code, why := some .noMailbox, stickyWarn := warn, tried := tried }
        else match ueoOf a.loc a.dash sx a.host a.sender w.ex with
          | .error n => { code := 111, why := some (.qmailTemp n), stickyWarn := warn, tried := tried,
                          stats := ueoStats a.dash sx a.sender w.ex }
          | .ok u => deliver a w a.aliasempty false { stickyWarn := warn, tried := tried,
                                                      stats := ueoStats a.dash sx a.sender w.ex, ueo := some u }
      | .found c mode content =>
        let de := c.dflt.map (fun i => a.ext.drop i)
        match ueoOf a.loc a.dash sx a.host a.sender w.ex with
        | .error n => { code := 111, why := some (.qmailTemp n), stickyWarn := warn, tried := tried,
                        stats := ueoStats a.dash sx a.sender w.ex, sel := some c, dfltEnv := de }
        | .ok u =>
          let r : Result := { stickyWarn := warn, tried := tried, stats := ueoStats a.dash sx a.sender w.ex,
                              sel := some c, dfltEnv := de, ueo := some u }
          if content = [] then deliver a w a.aliasempty false r
          else deliver a w content (mode &&& xBit ≠ 0) r

end Nq.Local
