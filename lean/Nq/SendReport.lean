/-
  Nq.SendReport — model of qmail-send.c `del_dochan()`: the reader of the delivery reports that
  qmail-lspawn / qmail-rspawn write, with everything it calls: `markdone`, `addbounce` (text
  construction for an empty virtualdomains map), `job_close`, `del_status`, and the log lines of
  qsutil.c (`logsafe`).

  `step` is the body of `for (i = 0;i < r;++i)` for one byte.  The report line `dline[c]` is kept
  reversed (`drev`, newest byte first) with its length (`dlen`) so that a step is O(1).

  The outcome of the system calls `open_write` / `unlink` / `stat` is an input (`plan`, one number
  per call in order): 0 = open_write ok / unlink ok / stat says ENOENT; 1 = open_write fails / unlink
  fails / stat succeeds; 2 = stat fails with another errno.

  Core Lean only.
-/
import Nq.Basic
import Nq.Gen.Consts
import Nq.Clean
import Nq.Gen.SpawnTexts

namespace Nq.SendReport
open Nq Nq.Clean

structure Job where
  id : Nat
  refs : Int
  numtodo : Int
  hiteof : Bool
  dying : Bool
  retry : Nat
  channel : Nat
  deriving Repr, DecidableEq

structure Slot where
  j : Nat
  delid : Nat
  mpos : Nat
  recip : Bytes
  deriving Repr, DecidableEq

inductive Ev
  | log (text : Bytes)
  | mark (path : Bytes) (pos : Nat) (b : Bytes)   -- open_write(path) ok; lseek(pos); write(b); close
  | openWriteFail (path : Bytes)                 -- open_write(path) failed
  | stray                                        -- never emitted by the model: a write/seek outside that pattern
  | openAppend (path : Bytes)
  | bounce (text : Bytes)
  | unlink (path : Bytes)
  | stat (path : Bytes)
  | pq (which : Nat) (id : Nat) (dt : Nat)      -- which: 0/1 = pqchan[0/1], 2 = pqdone
  deriving Repr, DecidableEq

structure St where
  drev : Bytes := []
  dlen : Nat := 0
  slots : List (Option Slot) := []
  jobs : List Job := []
  plan : List Nat := []
  deriving Repr

/-- environment that does not change during a run -/
structure Env where
  chan : Nat          -- the channel whose descriptor is being read
  now : Nat
  otherUsed : Nat     -- concurrencyused / concurrency of the other channel (for the status line)
  otherConc : Nat

def chanaddr (c : Nat) : Bytes := if c = 0 then str "local/" else str "remote/"

def nextPlan (st : St) : Nat × St := (st.plan.headD 0, { st with plan := st.plan.tail })

/-! ### qsutil.c -/
def issafe (ch : Byte) : Bool := !(ch = 37 || ch < 33 || ch > 126)
def logsafe (s : Bytes) : Bytes := s.map (fun ch => if ch = LF then 47 else if issafe ch then ch else 95)

/-! ### `markdone` -/
def markdone (c : Nat) (st : St) (id pos : Nat) : St × List Ev :=
  let path := fmtqfn (chanaddr c) id true
  let (p, st) := nextPlan st
  if p = 1 then
    (st, [.openWriteFail path, .log (str "warning: trouble marking " ++ path ++ str "; message will be delivered twice!\n")])
  else (st, [.mark path pos [68]])

/-! ### `addbounce` (virtualdomains empty, so `stripvdomprepend` is the identity) -/
def squashGo (prev : Byte) : Bytes → Bytes
  | [] => []
  | [c] => [c]
  | c :: r => (if c = LF ∧ prev = LF then 47 else c) :: squashGo c r

/-- `for (pos = len - 2;pos > 0;--pos) if (s[pos] == '\n' && s[pos-1] == '\n') s[pos] = '/'` -/
def squash : Bytes → Bytes
  | [] => []
  | c :: r => c :: squashGo c r

def bounceText (recip report : Bytes) : Bytes :=
  let head := (60 :: recip).map (fun ch => if ch = LF then 95 else ch)
  let t := head ++ str ">:\n" ++ report ++
    (if report ≠ [] ∧ report.getLast? ≠ some LF then [LF] else [])
  squash t ++ [LF]

def addbounce (id : Nat) (recip report : Bytes) : List Ev :=
  [.openAppend (fmtqfn (str "bounce/") id false), .bounce (bounceText recip report)]

/-! ### `job_close` -/
def otherChannels (c : Nat) : List Nat := [0, 1].filter (· ≠ c)

/-- the `for (c = 0;c < CHANNELS;++c) if (c != jo[j].channel)` loop: `true` = "more channels going" -/
def statOthers (id : Nat) : List Nat → St → St × List Ev × Bool
  | [], st => (st, [], false)
  | c :: cs, st =>
      let path := fmtqfn (chanaddr c) id true
      let (p, st) := nextPlan st
      if p = 1 then (st, [.stat path], true)
      else if p = 2 then (st, [.stat path, .log (str "warning: unable to stat " ++ path ++ str "\n")], false)
      else
        let r := statOthers id cs st
        (r.1, .stat path :: r.2.1, r.2.2)

def setJob (st : St) (j : Nat) (jb : Job) : St := { st with jobs := st.jobs.set j jb }

def jobClose (env : Env) (st : St) (j : Nat) : St × List Ev :=
  match st.jobs[j]? with
  | none => (st, [])
  | some jb =>
    let jb := { jb with refs := jb.refs - 1 }
    let st := setJob st j jb
    if 0 < jb.refs then (st, [])
    else if jb.hiteof ∧ jb.numtodo = 0 then
      let path := fmtqfn (chanaddr jb.channel) jb.id true
      let (p, st) := nextPlan st
      if p = 1 then
        (st, [.unlink path, .log (str "warning: unable to unlink " ++ path ++ str "; will try again later\n"),
              .pq jb.channel jb.id (env.now + Nq.Gen.SLEEP_SYSFAIL)])
      else
        let r := statOthers jb.id (otherChannels jb.channel) st
        if r.2.2 then (r.1, .unlink path :: r.2.1)
        else (r.1, .unlink path :: r.2.1 ++ [.pq 2 jb.id env.now])
    else (st, [.pq jb.channel jb.id jb.retry])

/-! ### `del_status` -/
def usedCount (st : St) : Nat := (st.slots.filter Option.isSome).length

def statusLine (env : Env) (st : St) : Bytes :=
  let mine := fmtUlong (usedCount st) ++ [47] ++ fmtUlong st.slots.length
  let other := fmtUlong env.otherUsed ++ [47] ++ fmtUlong env.otherConc
  str "status: local " ++ (if env.chan = 0 then mine else other) ++
  str " remote " ++ (if env.chan = 0 then other else mine) ++ [LF]

/-! ### one complete report line -/
def DYINGMSG : Bytes := Nq.Gen.SpawnTexts.DYINGMSG     -- regenerated from qmail-send.c

def cstr2 (s : Bytes) : Bytes := s.takeWhile (· != 0)

/-- the `switch(dline[c].s[1])` of `del_dochan` for a delivery slot in use -/
def reportCore (env : Env) (st : St) (sl : Slot) (jb : Job) (letter : Byte) (text : Bytes) : St × List Ev :=
  let pre := str "delivery " ++ fmtUlong sl.delid
  let dec (st : St) : St := setJob st sl.j { jb with numtodo := jb.numtodo - 1 }
  if letter = 75 then
    let m := markdone env.chan st jb.id sl.mpos
    (dec m.1, .log (pre ++ str ": success: " ++ logsafe text ++ [LF]) :: m.2)
  else if letter = 90 then
    (st, [.log (pre ++ str ": deferral: " ++ logsafe text ++ [LF])])
  else if letter = 68 then
    let m := markdone env.chan st jb.id sl.mpos
    (dec m.1, .log (pre ++ str ": failure: " ++ logsafe text ++ [LF]) :: addbounce jb.id sl.recip text ++ m.2)
  else (st, [.log (pre ++ str ": report mangled, will defer\n")])

/-- `job_close(d[c][delnum].j); d[c][delnum].used = 0; --concurrencyused[c]; del_status();` -/
def finishReport (env : Env) (r : St × List Ev) (delnum j : Nat) : St × List Ev :=
  let c := jobClose env r.1 j
  let st := { c.1 with slots := c.1.slots.set delnum none }
  (st, r.2 ++ c.2 ++ [.log (statusLine env st)])

/-- `dl` = `dline[c].s[0..len)` at the moment the NUL has been appended (and the line cut to REPORTMAX) -/
def processLine (env : Env) (st : St) (dl : Bytes) : St × List Ev :=
  let delnum := (dl.headD 0).toNat
  match st.slots.getD delnum none with
  | none => (st, [.log (str "warning: internal error: delivery report out of range\n")])
  | some sl =>
    let jb := st.jobs.getD sl.j ⟨0, 0, 0, false, false, 0, 0⟩
    let letter0 := dl.getD 1 0
    let dyingZ := letter0 = 90 ∧ jb.dying
    let letter := if dyingZ then 68 else letter0
    let text := if dyingZ then dl.dropLast.drop 2 ++ DYINGMSG else cstr2 (dl.drop 2)
    finishReport env (reportCore env st sl jb letter text) delnum sl.j

/-- one byte read from the report descriptor -/
def step (env : Env) (st : St) (ch : Byte) : St × List Ev :=
  let st := if st.dlen < Nq.Gen.REPORTMAX then { st with drev := ch :: st.drev, dlen := st.dlen + 1 } else st
  if ch = 0 ∧ st.dlen > 1 then
    processLine env { st with drev := [], dlen := 0 } st.drev.reverse
  else (st, [])

def feed (env : Env) : St → Bytes → St × List Ev
  | st, [] => (st, [])
  | st, c :: rest =>
      let r := step env st c
      let r2 := feed env r.1 rest
      (r2.1, r.2 ++ r2.2)

end Nq.SendReport
