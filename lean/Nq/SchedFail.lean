/-
  Nq.SchedFail — the failure paths of qmail-send.c's scheduler that `Nq.SchedHist.step` did not have, as further
  events of the same history model (same state `HSt`, same atomic passes):

    qmail-send.c  messdone(id)                       → `messdone s id f` (`MdFault` = which call fails)
    qmail-send.c  pass_do(), pqdone part             → `doneSt s f`     (min of pqdone, `pe.dt <= recent`, delmin, messdone)
    qmail-send.c  pass_dochan "trouble reading" /
                  "unknown record type" exits        → `passCutSt s c letters k` (the pass ends at record `k`; job_close with
                                                       flaghiteof = 0: back into pqchan[c] at jo.retry whatever numtodo is)
    qmail-send.c  pqfinish() with failing utimes     → `finFSt s bad` (the files in `bad` keep the mtime they had)

  The unlink-failure path of job_close is `Fault.unlink` of `Nq.SchedHist` already.  `fstep` runs the old and the new events.
  Core Lean only.
-/
import Nq.SchedHist

namespace Nq.SchedFail
open Nq Nq.Sched Nq.SchedHist

/-- which system call of `messdone(id)` fails (with an error other than ENOENT): `stat` of local/<id>, of remote/<id>,
of todo/<id>, of info/<id>; `injectbounce` returns 0; `unlink` of info/<id> -/
inductive MdFault where
  | none | statLoc | statRem | statTodo | statInfo | bounce | unlinkInfo
  deriving DecidableEq, Repr

/-- `fail: pe.id = id; pe.dt = now() + SLEEP_SYSFAIL; prioq_insert(&pqdone,&pe)` -/
def failDone (s : HSt) (id : Nat) : HSt := { s with done := s.done.insert { dt := s.clock + SLEEP_SYSFAIL, id := id } }

/-- `stat` of the channel file of message `id` -/
def chanStat (s : HSt) (id : Nat) (c : Chan) : StatRes :=
  match s.find id with
  | none => .noent
  | some m => statOf m c

/-- info/<id> unlinked (and mess/<id> handed to qmail-clean): the message is gone from the disk -/
def removeMsg (s : HSt) (id : Nat) : HSt := { s with msgs := s.msgs.filter fun m => m.id != id }

/-- `messdone(id)`: for c = 0,1 `stat(chan file)`: exists → return ("false alarm; consequence of HOPEFULLY"), error → fail;
`stat(todo/<id>)` (never exists in this model): error → fail; `stat(info/<id>)`: ENOENT → return, error → fail;
`injectbounce` fails → fail; `unlink(info/<id>)` fails → fail; otherwise the message is gone. -/
def messdone (s : HSt) (id : Nat) (f : MdFault) : HSt :=
  match (if f = .statLoc then StatRes.err else chanStat s id .loc) with
  | .found _ => s
  | .err => failDone s id
  | .noent =>
    match (if f = .statRem then StatRes.err else chanStat s id .rem) with
    | .found _ => s
    | .err => failDone s id
    | .noent =>
      if f = .statTodo ∨ f = .statInfo then failDone s id
      else match s.find id with
        | none => s
        | some _ => if f = .bounce ∨ f = .unlinkInfo then failDone s id else removeMsg s id

/-- the pqdone part of `pass_do()`: `if (prioq_min(&pqdone,&pe)) if (pe.dt <= recent) { prioq_delmin(&pqdone); messdone(pe.id); }` -/
def doneSt (s : HSt) (f : MdFault) : HSt :=
  match passStart s.clock true s.done with
  | none => s
  | some (pe, d') => messdone { s with done := d' } pe.id f

/-- the message `doneSt` works on (0 = none) -/
def doneId (s : HSt) : Nat :=
  match passStart s.clock true s.done with
  | none => 0
  | some (pe, _) => pe.id

/-- the message record after a pass that was cut short at record `k` -/
def cutMsg (m : Msg) (c : Chan) (recs : List Bool) (k : Nat) (a : List Bool × Nat × Nat × Nat) : Msg :=
  { m with npar := m.npar + a.2.2.1, ntoo := m.ntoo + a.2.2.2 }.setRecs c (some (a.1 ++ recs.drop k))

/-- `pass_dochan(c)` + the pass it opens when reading record number `k` fails (`getln` returns -1: "trouble reading") or
that record has an unknown type: the records before `k` are handled as usual (reports answered by `letters`), then
`job_close` with `flaghiteof = 0` — the message goes back into `pqchan[c]` at `jo.retry`, even if no recipient is left to do;
the file is not removed.  If the file has no record `k` the pass runs to EOF (`passSt`). -/
def passCutSt (s : HSt) (c : Chan) (letters : List Byte) (k : Nat) : HSt :=
  match passStart s.clock true (s.q c) with
  | none => s
  | some (pe, q') =>
    match s.find pe.id with
    | none => s
    | some m =>
      match m.recs c with
      | none => s
      | some recs =>
        if recs.length ≤ k then passSt s c letters .none
        else
          let job := jobOpen s.clock s.lifetime m.birth c
          let a := answer job.dying letters (recs.take k) 0
          let cl := jobCloseF job pe.id false ((a.1.filter id).length) true (statOf m (other c)) s.clock q' s.done
          ({ (s.setQ c cl.chan) with done := cl.done }).update (cutMsg m c recs k a)

def passCutEv (s : HSt) (c : Chan) (letters : List Byte) (k : Nat) : Ev :=
  let s' := passCutSt s c letters k
  match passStart s.clock true (s.q c) with
  | none => .pass 0 0 false 0 "" 0 0 s'.q0.toList s'.q1.toList s'.done.toList
  | some (pe, _) =>
    match s.find pe.id with
    | none => .plain "bad"
    | some m =>
      match m.recs c with
      | none => .plain "bad"
      | some recs =>
        if recs.length ≤ k then passEv s c letters .none
        else
          let job := jobOpen s.clock s.lifetime m.birth c
          let a := answer job.dying letters (recs.take k) 0
          let m'' := cutMsg m c recs k a
          .pass pe.id job.retry job.dying a.2.1 (recsString (m''.recs c)) m''.npar m''.ntoo
            s'.q0.toList s'.q1.toList s'.done.toList

/-- does `utimes` on the channel-`c` file of `e.id` succeed -/
def utOk (bad : List (Chan × Nat)) (c : Chan) (e : Elt) : Bool := decide ((c, e.id) ∉ bad)

/-- `pqfinish()` when `utimes` fails on the files in `bad` ("warning: unable to utime …; message will be retried too soon"):
the heaps are drained all the same, the failing files keep the mtime they had -/
def finFSt (s : HSt) (bad : List (Chan × Nat)) : HSt :=
  let s1 := finWrite .loc s ((pqfinish (s.q .loc).size (s.q .loc)).filter (utOk bad .loc))
  let s2 := finWrite .rem s1 ((pqfinish (s1.q .rem).size (s1.q .rem)).filter (utOk bad .rem))
  { s2 with q0 := #[], q1 := #[] }

/-- the larger event set: everything `Nq.SchedHist.step` has, plus the failure paths -/
inductive FStep where
  | old (x : Step)
  | done (f : MdFault)                                   -- pass_do's pqdone part → messdone
  | passCut (c : Chan) (letters : List Byte) (k : Nat)    -- trouble reading / unknown record type at record k
  | finF (bad : List (Chan × Nat))                        -- pqfinish with failing utimes
  deriving Repr

def fstep (s : HSt) : FStep → HSt × Ev
  | .old x => step s x
  | .done f =>
    let s' := doneSt s f
    (s', .done (doneId s) (decide ((s'.find (doneId s)).isNone)) s'.done.toList)
  | .passCut c l k => (passCutSt s c l k, passCutEv s c l k)
  | .finF bad =>
    let s' := finFSt s bad
    (s', .fin (mtList s' .loc) (mtList s' .rem))

def frun (s : HSt) (l : List FStep) : HSt := l.foldl (fun s x => (fstep s x).1) s

end Nq.SchedFail
