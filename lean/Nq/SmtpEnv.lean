/-
  Nq.SmtpEnv — the SMTP envelope commands qmail-remote.c writes around `blast()`:

    main():        addrmangle(&sender,argv[2]);  addrmangle(reciplist.sa + i,argv[3+i]);
    smtp():        "MAIL FROM:<" sender ">\r\n" flush;  "RCPT TO:<" recip ">\r\n" flush;  "DATA\r\n"
    addrmangle():  j = str_rchr(s,'@');  no '@': the string as it is;
                   else  quote(box = s[0..j))  "@"  s[j+1..]          (the host part is copied as it is)
    quote.c:       quote_need(box) ? doit(box) : box;   doit = '"' … '"' with a backslash before CR, LF, '"', '\'

  Addresses are C strings (argv): NUL-free.  Core Lean only (linked into drv_c06).
-/
import Nq.Basic

namespace Nq.SmtpEnv
open Nq

@[reducible] def AT : Byte := 64
@[reducible] def DQ : Byte := 34
@[reducible] def BSL : Byte := 92
@[reducible] def GT : Byte := 62

/-- `j = str_rchr(s,'@')`: the part before the last '@' and the part after it; `none` = no '@' -/
def lastAt : Bytes → Option (Bytes × Bytes)
  | [] => none
  | c :: s => match lastAt s with
      | some (b, h) => some (c :: b, h)
      | none => if c = AT then some ([], s) else none

/-- quote.c `ok[128]` (non-zero entries), transcribed; the harness runs every byte value through the real table -/
def okByte (c : Byte) : Bool :=
  (c == 33) || (35 ≤ c && c ≤ 39) || c == 42 || c == 43 || c == 45 || c == 46 || c == 47 || (48 ≤ c && c ≤ 57) ||
  c == 61 || c == 63 || (65 ≤ c && c ≤ 90) || c == 94 || c == 95 || (96 ≤ c && c ≤ 126)

/-- two adjacent dots -/
def dotdot : Bytes → Bool
  | [] => false
  | [_] => false
  | c :: d :: m => (c == DOT && d == DOT) || dotdot (d :: m)

/-- quote.c `quote_need` -/
def quoteNeed (b : Bytes) : Bool :=
  b.isEmpty || !(b.all okByte) || b.head? == some DOT || b.getLast? == some DOT || dotdot b

/-- quote.c `doit`, the loop body: a backslash before CR, LF, '"' and '\'; **the byte itself is kept** -/
def escape : Bytes → Bytes
  | [] => []
  | c :: m => (if c = CR ∨ c = LF ∨ c = DQ ∨ c = BSL then [BSL, c] else [c]) ++ escape m

/-- quote.c `quote` -/
def quote (b : Bytes) : Bytes := if quoteNeed b then DQ :: (escape b ++ [DQ]) else b

/-- qmail-remote.c `addrmangle` -/
def mangle (a : Bytes) : Bytes :=
  match lastAt a with
  | none => a
  | some (b, h) => quote b ++ AT :: h

/-- one envelope command as handed to `smtpto` and flushed: `pre` is "MAIL FROM:<" or "RCPT TO:<" -/
def cmdLine (pre a : Bytes) : Bytes := pre ++ mangle a ++ [GT, CR, LF]

def mailPre : Bytes := [77, 65, 73, 76, 32, 70, 82, 79, 77, 58, 60]      -- "MAIL FROM:<"
def rcptPre : Bytes := [82, 67, 80, 84, 32, 84, 79, 58, 60]              -- "RCPT TO:<"
def dataCmd : Bytes := [68, 65, 84, 65, 13, 10]                          -- "DATA\r\n"
def quitCmd : Bytes := [81, 85, 73, 84, 13, 10]                          -- "QUIT\r\n"
def heloCmd (h : Bytes) : Bytes := [72, 69, 76, 79, 32] ++ h ++ [CR, LF] -- "HELO " helohost "\r\n"

/-- "the command is one line": it ends in CR LF and there is no other CR or LF in it -/
def isOneLine (l : Bytes) : Bool :=
  match l.reverse with
  | lf :: cr :: body => lf == LF && cr == CR && !body.contains CR && !body.contains LF
  | _ => false

/-- the address brings no CR and no LF -/
def cleanAddr (a : Bytes) : Bool := !a.contains CR && !a.contains LF

/-- an adjacent CR LF somewhere: where a peer that ends lines at CR LF only (RFC 5321) would end a line -/
def hasCRLF : Bytes → Bool
  | [] => false
  | [_] => false
  | c :: d :: m => (c == CR && d == LF) || hasCRLF (d :: m)

/-- where the mangled address has an adjacent CR LF: only what is copied as it is can bring one - the whole address when
it has no '@', otherwise the part after the last '@' (in the quoted part every CR and LF gets a backslash in front) -/
def crlfSpec (a : Bytes) : Bool :=
  match lastAt a with
  | none => hasCRLF a
  | some (_, h) => hasCRLF h

end Nq.SmtpEnv
