/-
  Nq.CleanIO — qmail-clean.c `main` with the behaviour of its two descriptors (session 4):

  * the request pipe: every `read()` that `getln(subfdinsmall,…)` → `substdio_feed` → `oneread` issues
    returns some bytes (a short read), 0 (end of file), -1/EINTR (`oneread` calls `read` again) or
    -1 with another errno (`getln` returns -1: `break`, `return 0`).  `arrived` = the bytes the
    request loop gets to see; the requests are the complete NUL-terminated lines among them
    (`Clean.splitReqs`), an unterminated tail is never acted on (`if (!match) break`).
  * the answer pipe: `respond(s)` = `substdio_putflush(subfdoutsmall,s,1)` → `allwrite`: every
    `write()` of the one status byte succeeds, fails with EINTR (`continue`: the same byte is written
    again) or fails with another errno (`return -1` → `_exit(100)`: nothing further happens, in
    particular no further `unlink`).  (`write` returning 0 makes `allwrite` spin for ever; not modelled.)

  The program is deterministic and the outcome of a write only decides between "go on" and "exit", so
  the run with I/O faults is the fault-free run `Clean.run` on the bytes that arrived, every status
  byte sent through `respond`, cut at the first failing write (`emitT`).

  Core Lean only.
-/
import Nq.Clean

namespace Nq.CleanIO
open Nq Nq.Clean

/-- the outcome of one `read(0,buf,256)` call -/
inductive Rd
  | data (bs : Bytes)    -- returns `bs.length` bytes (`[]`: returns 0 = end of file)
  | eintr                -- returns -1, errno = EINTR
  | err                  -- returns -1, another errno
  deriving DecidableEq, Repr

/-- the bytes `getln` gets to see: `oneread` retries after EINTR, end of file and a read error end
the input (`if (getln(...) == -1) break; if (!match) break;`) -/
def arrived : List Rd → Bytes
  | [] => []
  | .data bs :: r => if bs = [] then [] else bs ++ arrived r
  | .eintr :: r => arrived r
  | .err :: _ => []

/-- events of the program with write attempts: `ev e` = an event of the fault-free vocabulary
(`ev (status b)` = a `write()` that delivered the byte), `wintr b` = a `write()` of `b` that failed
with EINTR, `wfail b` = a `write()` of `b` that failed for good (followed by `_exit(100)`) -/
inductive IOEv
  | ev (e : Ev)
  | wintr (b : Byte)
  | wfail (b : Byte)
  deriving DecidableEq, Repr

/-- `respond(b)`: the `write()` calls of `allwrite(write,1,&b,1)`; `w` = outcome of the `write()`
calls still to come (0 = writes the byte, 1 = EINTR, other = error; none left = writes the byte) -/
def respT (b : Byte) : List Nat → List IOEv
  | [] => [.ev (.status b)]
  | r :: w => if r = 0 then [.ev (.status b)] else if r = 1 then .wintr b :: respT b w else [.wfail b]

/-- the write outcomes left after `respond(b)` -/
def respRest (b : Byte) : List Nat → List Nat
  | [] => []
  | r :: w => if r = 0 then w else if r = 1 then respRest b w else w

/-- `respond(b)` returned (false: it called `_exit(100)`) -/
def respAlive (b : Byte) : List Nat → Bool
  | [] => true
  | r :: w => if r = 0 then true else if r = 1 then respAlive b w else false

/-- the trace of the program whose fault-free trace is the first argument -/
def emitT : List Ev → List Nat → List IOEv
  | [], _ => []
  | .status b :: r, w => if respAlive b w then respT b w ++ emitT r (respRest b w) else respT b w
  | .unlink p :: r, w => .ev (.unlink p) :: emitT r w
  | .cleanup :: r, w => .ev .cleanup :: emitT r w
  | .cleanupEnd :: r, w => .ev .cleanupEnd :: emitT r w

/-- the program reached `return 0` (false: `_exit(100)` in `respond`) -/
def emitAlive : List Ev → List Nat → Bool
  | [], _ => true
  | .status b :: r, w => if respAlive b w then emitAlive r (respRest b w) else false
  | .unlink _ :: r, w => emitAlive r w
  | .cleanup :: r, w => emitAlive r w
  | .cleanupEnd :: r, w => emitAlive r w

/-- qmail-clean on the read outcomes `rds`, unlink outcomes `plan`, `pid/` listings `scans` and write
outcomes `wplan`: the trace -/
def runT (rds : List Rd) (plan : List Nat) (scans : List Scan) (wplan : List Nat) : List IOEv :=
  emitT (Clean.run (arrived rds) plan scans) wplan

/-- … and the exit code (0 = `return 0` at end of input / read error, 100 = `_exit(100)` in `respond`) -/
def runCode (rds : List Rd) (plan : List Nat) (scans : List Scan) (wplan : List Nat) : Nat :=
  if emitAlive (Clean.run (arrived rds) plan scans) wplan then 0 else 100

/-- the events without the write attempts that delivered nothing -/
def erase : List IOEv → List Ev
  | [] => []
  | .ev e :: r => e :: erase r
  | .wintr _ :: r => erase r
  | .wfail _ :: r => erase r

end Nq.CleanIO
