/-
  Nq.Pop3Fault — qmail-pop3d when system calls FAIL on files that exist (session 4). Core Lean only.
  `Nq.Pop3` (the fault-free model, shared with C20) is left untouched; this file transcribes the same C
  functions once more with the failure branches, and `Nq.Lemmas.Pop3FaultL` proves that without faults the
  two coincide.

    scanDirF / getlistF   maildir.c append(): `if (stat(...) == 0) if (st.st_mtime < time)` — a failing stat
                          leaves the name in `filenames` but not in the heap: the file gets no number;
                          qmail-pop3d.c getlist(): `if (stat(m[i].fn,&st) == -1) m[i].size = 0;`
    execF (RETR/TOP)      dotop(): `fd = open_read(m[i].fn); if (fd == -1) { err_nosuch(); return; }`
    blastF                blast(): `if (getln(ssfrom,&line,&match,'\n') != 0) die();` — die() is _exit(0) WITHOUT
                          flushing ssout: what the client gets is what substdio_put had already written
                          (`flushed`: ssoutbuf is 1024 bytes, SUBSTDIO_OUTSIZE 8192, ssmsgbuf 1024 bytes per read)
    quitLoopF             pop3_quit(): `if (unlink(m[i].fn) == -1) err_nounlink();` and
                          `rename(m[i].fn,line.s); /* if it fails, bummer */`
  errno (EIO, EACCES, ENOMEM, …) is never looked at by this code (only EINTR is, in substdio's oneread).
-/
import Nq.Pop3

namespace Nq.Pop3F
open Nq Nq.Pop3

/-- which calls fail. `a`, `g`: paths whose stat() fails in append() / in getlist(); `u`, `n`: the ordinals
(0, 1, 2, … in call order) of the unlink() / rename() calls of pop3_quit that fail. -/
structure Faults where
  a : List Bytes := []
  g : List Bytes := []
  u : List Nat := []
  n : List Nat := []
  deriving Repr

/-! ### start-up -/

def scanDirF (A : List Bytes) (now : Nat) : List File → List Bytes → List Elt → List Bytes × List Elt
  | [], names, pq => (names, pq)
  | f :: rest, names, pq =>
    if (baseName f).head? = some DOT then scanDirF A now rest names pq
    else
      let pq' := if A.contains f.path = false ∧ f.mtime < now then pqInsert pq ⟨f.mtime, names.length⟩ else pq
      scanDirF A now rest (names ++ [f.path]) pq'

def getlistF (A G : List Bytes) (now : Nat) (fs : FS) : List Msg :=
  let r1 := scanDirF A now (fs.filter (inDir newSl)) [] []
  let r2 := scanDirF A now (fs.filter (inDir curSl)) r1.1 r1.2
  (pqDrain r2.2.length r2.2).map (fun e =>
    let fn := r2.1.getD e.id []
    { fn := fn,
      size := if G.contains fn then 0 else match fsFind fs fn with | some f => f.data.length | none => 0,
      del := false })

/-! ### blast() with a failing read -/

def BUF : Nat := 1024          -- sizeof ssoutbuf = sizeof ssmsgbuf
def OUTSIZE : Nat := 8192      -- SUBSTDIO_OUTSIZE

/-- substdio_put on ssout: number of bytes left in the buffer after putting `len` bytes when `pend` were pending.
Too big for the free space: flush; what is longer than the buffer is written directly in pieces of 8192
(`while (len > s->n) { if (n > len) n = len; allwrite(n) … }`), the rest is copied into the buffer. -/
def putStep (pend len : Nat) : Nat :=
  if len > BUF - pend then
    (if len > BUF then (if len % OUTSIZE ≤ BUF then len % OUTSIZE else 0) else len)
  else pend + len

def pendAfter (puts : List Bytes) : Nat := puts.foldl (fun p b => putStep p b.length) 0

/-- what has reached descriptor 1 after these put() calls (the buffer was empty before: okay() flushes) -/
def flushed (puts : List Bytes) : Bytes := puts.flatten.take (puts.flatten.length - pendAfter puts)

/-- the put() calls of one pass through blast()'s loop -/
def linePuts (l : Bytes) : List Bytes := (if l.head? = some DOT then [[DOT]] else []) ++ [l, [CR, LF]]

/-- blast()'s loop when only the first `n` lines can be read before the failing read: (put() calls, died).
`died = false`: the loop ended by itself (limit reached) before that read was needed. -/
def blastLoopF : Nat → Nat → Bool → List (Bytes × Bool) → List Bytes × Bool
  | 0, _, _, _ => ([], true)
  | _ + 1, _, _, [] => ([], false)
  | n + 1, limit, inh, (l, mt) :: rest =>
    if limit ≠ 0 ∧ inh = false ∧ limit = 1 then ([], false)
    else
      let limit' := if limit ≠ 0 ∧ inh = false then limit - 1 else limit
      let inh' := if l = [] then false else inh
      if mt then
        let r := blastLoopF n limit' inh' rest
        (linePuts l ++ r.1, r.2)
      else (linePuts l, false)

/-- blast(ssfrom, limit) on a file with contents `data` when read number `k` (0, 1, 2, …; 1024 bytes each, the
last one returns 0) fails: (bytes that reach the client after the "+OK", the process died).
A read beyond the one that returns 0 never happens; complete lines in the first 1024·k bytes are all getln
can deliver before read number k. -/
def blastF (limit : Nat) (data : Bytes) (k : Nat) : Bytes × Bool :=
  if k > (data.length + (BUF - 1)) / BUF then (blast limit data, false)
  else
    let r := blastLoopF ((data.take (BUF * k)).count LF) limit true (getlns [] data)
    if r.2 then (flushed r.1, true) else (r.1.flatten ++ blastEnd, false)

/-! ### QUIT with failing unlink / rename -/

def errU : Bytes := errLine "unable to unlink all deleted messages"

/-- pop3_quit's loop; `ju`, `jn` count the unlink() and rename() calls made so far -/
def quitLoopF (U N : List Nat) : Nat → Nat → List Msg → FS → Bytes → FS × Bytes
  | _, _, [], fs, out => (fs, out)
  | ju, jn, m :: rest, fs, out =>
    if m.del then
      if U.contains ju then quitLoopF U N (ju + 1) jn rest fs (out ++ errU)
      else match fsFind fs m.fn with
        | some _ => quitLoopF U N (ju + 1) jn rest (fsUnlink fs m.fn) out
        | none => quitLoopF U N (ju + 1) jn rest fs (out ++ errU)
    else if m.fn.take 4 == newSl then
      if N.contains jn then quitLoopF U N ju (jn + 1) rest fs out
      else quitLoopF U N ju (jn + 1) rest (fsRename fs m.fn (curSl ++ m.fn.drop 4 ++ seenSuffix)) out
    else quitLoopF U N ju jn rest fs out

/-! ### one command -/

def errOpen : Bytes := errLine "unable to open that message"

/-- one dispatched command. `armO`: the next open_read() fails; `armR = some k`: read number k of the next
message opened successfully fails. Result: (state, bytes that reach descriptor 1, exit code), and the two
arms afterwards. -/
def execF (F : Faults) (s : Sess) (armO : Bool) (armR : Option Nat) (verb arg : Bytes) :
    (Sess × Bytes × Option Nat) × Bool × Option Nat :=
  if verbIs vQuit verb then
    let r := quitLoopF F.u F.n 0 0 s.msgs s.fs []
    (({ s with fs := r.1 }, r.2 ++ okLine, some 0), armO, armR)
  else if verbIs vRetr verb ∨ verbIs vTop verb then
    match msgno s arg with
    | .err r => ((s, r, none), armO, armR)
    | .ok i => match s.msgs[i]? with
      | none => ((s, [], none), armO, armR)
      | some m =>
        if armO then ((s, errOpen, none), false, armR)
        else match fsFind s.fs m.fn with
          | none => ((s, errOpen, none), false, armR)
          | some f => match armR with
            | none => ((s, okLine ++ blast (limitFor verb arg) f.data, none), false, none)
            | some k =>
              ((s, okLine ++ (blastF (limitFor verb arg) f.data k).1,
                if (blastF (limitFor verb arg) f.data k).2 then some 0 else none), false, none)
  else (exec s verb arg, armO, armR)

/-! ### the session -/

inductive EvF
  | data (b : Bytes)
  | vanish (p : Bytes)
  | armOpen
  | armRead (k : Nat)
  deriving Repr

structure RunF where
  r : Run
  armO : Bool := false
  armR : Option Nat := none

def feedByteF (F : Faults) (x : RunF) (c : Byte) : RunF :=
  match x.r.exit with
  | some _ => x
  | none =>
    if c = LF then
      let e := execF F x.r.s x.armO x.armR (parseLine x.r.cmd.reverse).1 (parseLine x.r.cmd.reverse).2
      { r := { s := e.1.1, cmd := [], out := x.r.out ++ e.1.2.1, exit := e.1.2.2 }, armO := e.2.1, armR := e.2.2 }
    else { x with r := { x.r with cmd := c :: x.r.cmd } }

def feedEvF (F : Faults) (x : RunF) : EvF → RunF
  | .data b => b.foldl (feedByteF F) x
  | .vanish p => match x.r.exit with
    | some _ => x
    | none => { x with r := { x.r with s := { x.r.s with fs := fsUnlink x.r.s.fs p } } }
  | .armOpen => { x with armO := true }
  | .armRead k => { x with armR := some k }

/-- main() with the failing calls of `F` and the arming events in `evs` -/
def mainF (F : Faults) (uid : Nat) (havedir : Bool) (now : Nat) (fs : FS) (evs : List EvF) : Result :=
  if uid = 0 then { out := [], err := rootMsg, code := 1, fs := fs }
  else if !havedir then { out := errLine "this user has no $HOME/Maildir", err := [], code := 0, fs := fs }
  else
    let fs1 := cleanTmp now fs
    let s0 : Sess := { msgs := getlistF F.a F.g now fs1, last := 0, fs := fs1 }
    let x := evs.foldl (feedEvF F) { r := { s := s0, out := okLine } }
    { out := x.r.out, err := [], code := 0, fs := x.r.s.fs }

/-! ### messages too big to keep in memory

The driver does not materialise the contents of a multi-gigabyte (sparse) file: it hands over its `st_size` in
`big` (path ↦ size; the `data` field of such a file is a short marker). getlist() only stat()s the files, so the
session is the fault-free one started from a table in which these sizes are `st_size` — any natural number;
`m[i].size` is `unsigned long`, LIST prints it with fmt_ulong, STAT adds modulo 2^64. (RETR/TOP of such a file are
not meaningful here and are not generated.) -/

def getlistS (big : List (Bytes × Nat)) (now : Nat) (fs : FS) : List Msg :=
  (getlist now fs).map (fun m => match big.lookup m.fn with | some n => { m with size := n } | none => m)

def mainS (big : List (Bytes × Nat)) (uid : Nat) (havedir : Bool) (now : Nat) (fs : FS) (evs : List Ev) : Result :=
  if uid = 0 then { out := [], err := rootMsg, code := 1, fs := fs }
  else if !havedir then { out := errLine "this user has no $HOME/Maildir", err := [], code := 0, fs := fs }
  else
    let fs1 := cleanTmp now fs
    let s0 : Sess := { msgs := getlistS big now fs1, last := 0, fs := fs1 }
    let r := evs.foldl feedEv { s := s0, out := okLine }
    { out := r.out, err := [], code := 0, fs := r.s.fs }

end Nq.Pop3F
