/-
  Nq.Getln — getln2.c / getln.c / byte_chr.c over the substdio input model (Nq.Substdio) and the stralloc length
  model (Nq.Stralloc), property C20.

  `getln2` returns a pointer `*cont` INTO the substdio buffer and a length `*clen`; the caller (`getln`, and
  qmail-smtpd / qmail-inject / … through it) then copies `clen` bytes from there.  Buffer positions are offsets from
  `ss->x`; the model logs every offset `byte_chr` reads (`rd`) and every range of `sa->s` stored to together with
  the allocated size at that moment (`sast`).  Core Lean only.
-/
import Nq.Substdio
import Nq.Stralloc

namespace Nq.Getln
open Nq Nq.Substdio Nq.Stralloc

/-- `byte_chr(s,n,c)`: the index of the first `c` among the `n` bytes, `n` if there is none -/
def byteChr : Bytes → Byte → Nat
  | [], _ => 0
  | b :: r, c => if b = c then 0 else byteChr r c + 1

/-- the offsets `byte_chr` dereferences: `0 … i` when it stops at a match, `0 … n-1` otherwise -/
def byteChrReads (b : Bytes) (c : Byte) : List Nat := List.range (min (byteChr b c + 1) b.length)

structure GSt where
  ss : ISt
  sa : GA
  deriving Repr

structure GOut where
  ret : Bool                        -- true = 0, false = -1
  st : GSt
  cont : Nat := 0                   -- *cont − ss->x
  clen : Nat := 0
  rd : List Nat := []               -- offsets of ss->x read by byte_chr
  sast : List (Nat × Nat × Nat) := []   -- (start, count, sa->a at that moment) of every copy into sa->s
  deriving Repr

/-- the `for (;;)` of getln2 -/
def loop (grant : Nat → Bool) (sep : Byte) : Nat → GSt → List Nat → List (Nat × Nat × Nat) → GOut
  | 0, g, rd, sast => ⟨false, g, 0, 0, rd, sast⟩          -- not reached: fuel = bytes available + 2
  | fuel + 1, g, rd, sast =>
      match feed g.ss with
      | (s1, .err) => ⟨false, { g with ss := s1 }, 0, 0, rd, sast⟩
      | (s1, .eof) => ⟨true, { g with ss := s1 }, 0, 0, rd, sast⟩           -- `*clen = 0; return 0;`
      | (s1, .got b) =>
          -- x = substdio_PEEK(ss) = ss->x + ss->n;  i = byte_chr(x,n,sep);
          let i := byteChr b sep
          let rd' := rd ++ (byteChrReads b sep).map (s1.n + ·)
          if i < b.length then
            -- substdio_SEEK(ss,*clen = i + 1); *cont = x;
            ⟨true, { g with ss := seek s1 (i + 1) }, s1.n, i + 1, rd', sast⟩
          else
            -- if (!stralloc_readyplus(sa,n)) return -1;
            let r := readyplus 1 30 grant g.sa b.length
            if r.ret then
              -- i = sa->len; m = substdio_get(ss,sa->s + i,n); if (m != -1) sa->len = i + m;
              match Substdio.get s1 b.length with
              | (s2, .got d) =>
                  loop grant sep fuel ⟨s2, { r.x with len := (r.x.len + d.length) % Stralloc.U32 }⟩ rd'
                    (sast ++ [(r.x.len, d.length, r.x.a)])
              | (s2, _) => loop grant sep fuel ⟨s2, r.x⟩ rd' sast
            else ⟨false, ⟨s1, r.x⟩, 0, 0, rd', sast⟩

/-- `getln2(ss,sa,&cont,&clen,sep)` -/
def getln2 (grant : Nat → Bool) (sep : Byte) (g : GSt) : GOut :=
  -- if (!stralloc_ready(sa,0)) return -1;  sa->len = 0;
  let r := ready 1 30 grant g.sa 0
  if r.ret then
    loop grant sep (g.ss.data.length + g.ss.src.length + 2) ⟨g.ss, { r.x with len := 0 }⟩ [] []
  else ⟨false, { g with sa := r.x }, 0, 0, [], []⟩

/-- `getln(ss,sa,&match,sep)`: getln2, then `stralloc_catb(sa,cont,clen)`; returns (getln2's outcome, catb's) -/
def getln (grant : Nat → Bool) (sep : Byte) (g : GSt) : GOut × Option Out :=
  let o := getln2 grant sep g
  if o.ret && decide (o.clen ≠ 0) then (o, some (catb grant o.st.sa o.clen)) else (o, none)

end Nq.Getln
