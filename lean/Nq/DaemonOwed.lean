/-
  Nq.DaemonOwed — a second layer on the monitor `Nq.Daemon`: the completion marks that are *due*.

  `Daemon.accept` permits a `D` mark right after a `K` report (or after the bounce paragraph of a
  `D` report) but does not oblige qmail-send to write it, and it forgets about the report at the next
  restart.  C04 says more: a recipient that was reported `K`/`D` is never attempted again — not later
  in the same run and not after a clean stop and restart — unless a crash intervened (the report may
  have been read but the mark not yet written) or the mark could not be written because a system
  call failed ("trouble marking …; message will be delivered twice!").

  This layer keeps the list `owed` of records whose final report was handled while their mark has
  not been seen on disk, and refuses a delivery command for such a record.  `owed` is volatile only
  with respect to crashes: a clean restart (`cleanRestart`: TERM, in-flight attempts reported, exit 0,
  start again on the same queue) keeps it.
-/
import Nq.Daemon

namespace Nq.Daemon

structure St2 where
  base : St := {}
  owed : List (Nat × Ch × Nat) := []      -- (message, channel, record index)

inductive Ev2
  | ev (e : Ev)
  | markFail (m : Nat) (c : Ch)            -- a system call of `markdone` on local|remote/<m> failed
  | cleanRestart                            -- exit 0 after TERM, then a new qmail-send on the same queue

def dropChan (owed : List (Nat × Ch × Nat)) (m : Nat) (c : Ch) : List (Nat × Ch × Nat) :=
  owed.filter (fun x => !(x.1 == m && x.2.1 == c))

def dropMsg (owed : List (Nat × Ch × Nat)) (m : Nat) : List (Nat × Ch × Nat) :=
  owed.filter (fun x => !(x.1 == m))

def dropRec (owed : List (Nat × Ch × Nat)) (x : Nat × Ch × Nat) : List (Nat × Ch × Nat) :=
  owed.filter (fun y => !(y == x))

/-- the record a delivery command / a mark at byte offset `pos` refers to -/
def recAt (s : St) (m : Nat) (c : Ch) (pos : Nat) : Option Nat :=
  match (s.msg m).chan c with
  | some rs => recIndex rs pos
  | none => none

/-- how an event of the base monitor (accepted: `s → s'`) changes the list of due marks -/
def owedStep (s s' : St) (owed : List (Nat × Ch × Nat)) : Ev → List (Nat × Ch × Nat)
  | .rbytes _ _ => s'.mayMark ++ owed                 -- the `K` reports of this read (`rbytes` starts from `mayMark = []`)
  | .appendBounce m _ =>
    match s.notes.find? (fun n => n.m == m) with      -- the `D` report whose paragraph this is
    | some n => (m, n.c, n.idx) :: owed
    | none => owed
  | .markD m c pos =>
    match recAt s m c pos with
    | some idx => dropRec owed (m, c, idx)
    | none => owed
  | .unlinkChan m c => dropChan owed m c
  | .newmsg m _ _ => dropMsg owed m
  | .cUnlinkTodo m => dropMsg owed m
  | .restart => []                                     -- crash: a report may have been read without its mark being written
  | _ => owed

/-- a delivery command for a record whose mark is due -/
def blocked (s : St2) : Ev → Bool
  | .cmd c _ m pos _ =>
    (match recAt s.base m c pos with
     | some idx => s.owed.contains (m, c, idx)
     | none => false)
  | _ => false

def accept2 (cfg : Cfg) (s : St2) : Ev2 → Option St2
  | .ev e =>
    if blocked s e then none else
    match accept cfg s.base e with
    | some b => some { base := b, owed := owedStep s.base b s.owed e }
    | none => none
  | .markFail m c => some { s with owed := dropChan s.owed m c }
  | .cleanRestart =>
    match accept cfg s.base .restart with
    | some b => some { s with base := b }
    | none => none

def acceptAll2 (cfg : Cfg) : St2 → List Ev2 → Option St2
  | s, [] => some s
  | s, e :: es => match accept2 cfg s e with
    | some s' => acceptAll2 cfg s' es
    | none => none

end Nq.Daemon
