/-
  Nq.DaemonOwed — a second layer on the monitor `Nq.Daemon`: the completion marks that are *due*.

  `Daemon.accept` permits a `D` mark right after a `K` report (or after the bounce paragraph of a
  `D` report) but does not oblige qmail-send to write it, and it forgets about the report at the next
  restart.  C04 says more: a recipient that was reported `K`/`D` is never attempted again — not later
  in the same run and not after a clean stop and restart — unless a crash intervened (the report may
  have been read but the mark not yet written) or the mark could not be written because a system
  call failed ("trouble marking …; message will be delivered twice!").

  This layer keeps the list `owed` of records whose final report was handled while their mark has
  not been seen on disk, and refuses a delivery command for such a record.  `owed` is volatile only
  with respect to crashes: a clean restart (`cleanRestart`: TERM, in-flight attempts reported, exit 0,
  start again on the same queue) keeps it — and, being no crash, opens no crash window: no crash-damage
  event (`crashMarks`, …) is accepted after it.
-/
import Nq.Daemon

namespace Nq.Daemon

structure St2 where
  base : St := {}
  owed : List (Nat × Ch × Nat) := []      -- (message, channel, record index)

inductive Ev2
  | ev (e : Ev)
  | markFail (m : Nat) (c : Ch) (pos : Nat) -- a system call of `markdone` for the record at byte offset `pos` of local|remote/<m> failed
  | cleanRestart                            -- exit 0 after TERM (possible only with no delivery in flight), then a new qmail-send on the same queue

def dropChan (owed : List (Nat × Ch × Nat)) (m : Nat) (c : Ch) : List (Nat × Ch × Nat) :=
  owed.filter (fun x => !(x.1 == m && x.2.1 == c))

def dropMsg (owed : List (Nat × Ch × Nat)) (m : Nat) : List (Nat × Ch × Nat) :=
  owed.filter (fun x => !(x.1 == m))

def dropRec (owed : List (Nat × Ch × Nat)) (x : Nat × Ch × Nat) : List (Nat × Ch × Nat) :=
  owed.filter (fun y => !(y == x))

/-- the record a delivery command / a mark at byte offset `pos` refers to -/
def recAt (s : St) (m : Nat) (c : Ch) (pos : Nat) : Option Nat :=
  match (s.msg m).chan c with
  | some rs => recIndex rs pos
  | none => none

/-- the records with a `D` report among the pending bounce paragraphs -/
def finalNotes (s : St) : List (Nat × Ch × Nat) := (s.notes.filter (·.final)).map (fun n => (n.m, n.c, n.idx))

/-- the completion mark of record `x` = (message, channel, record index) is on disk -/
def markedDone (s : St) (x : Nat × Ch × Nat) : Bool :=
  match (s.msg x.1).chan x.2.1 with
  | some rs => decide (x.2.2 < rs.length) && (rs.getD x.2.2 ⟨false, []⟩).done
  | none => false

/-- how an event of the base monitor (accepted: `s → s'`) changes the list of due marks -/
def owedStep (s s' : St) (owed : List (Nat × Ch × Nat)) : Ev → List (Nat × Ch × Nat)
  | .rbytes _ _ => s'.mayMark ++ finalNotes s' ++ owed  -- the `K` and the `D` reports of this read (`rbytes` starts from `mayMark = notes = []`)
  | .appendBounce m _ =>
    match s.notes.find? (fun n => n.m == m) with      -- the report (`D`, or `Z` of an expired message) whose paragraph this is
    | some n => (m, n.c, n.idx) :: owed
    | none => owed
  | .markD m c pos =>
    match recAt s m c pos with
    | some idx => dropRec owed (m, c, idx)
    | none => owed
  | .unlinkChan m c => dropChan owed m c
  | .newmsg m _ _ => dropMsg owed m
  | .cUnlinkTodo m => dropMsg owed m
  | .restart => []                                     -- crash: a report may have been read without its mark being written
  | _ => owed

/-- a delivery command for a record whose mark is due -/
def blocked (s : St2) : Ev → Bool
  | .cmd c _ m pos _ =>
    (match recAt s.base m c pos with
     | some idx => s.owed.contains (m, c, idx)
     | none => false)
  | _ => false

def accept2 (cfg : Cfg) (s : St2) : Ev2 → Option St2
  | .ev e =>
    if blocked s e then none else
    match accept cfg s.base e with
    | some b => some { base := b, owed := owedStep s.base b s.owed e }
    | none => none
  | .markFail m c pos =>
    -- `markdone` is called only for a record whose mark is due: a failing call is the failure to write a due mark, and only
    -- that record is excused.  (A mark is due only after a report was read, i.e. outside the crash window: the base state is
    -- left as it is.)
    match recAt s.base m c pos with
    | some idx => if s.owed.contains (m, c, idx) then some { s with owed := dropRec s.owed (m, c, idx) } else none
    | none => none
  | .cleanRestart =>
    -- qmail-send exits 0 after TERM only when no delivery is in flight (`del_canexit`: it waits for every outstanding report).
    -- For the base monitor the daemon is gone and starts again (`.restart`), but this is no crash: no crash-damage event may
    -- follow (`St.calm`: the crash window the base `.restart` opens is closed at once)
    if s.base.slots.isEmpty then
      match accept cfg s.base .restart with
      | some b => some { s with base := b.calm }
      | none => none
    else none

/-- the record is finished as far as the daemon can know: its mark is on disk, or its final report was handled -/
def Fin2 (s : St2) (x : Nat × Ch × Nat) : Prop := x ∈ s.owed ∨ markedDone s.base x = true

/-- the events after which a finished record may legitimately be attempted again: a crash or a failing `markdone` while the
mark is not on disk; a machine crash that reverted THIS record's mark (`crashMarks` with the record's own byte back to `T` — a
`crashMarks` that kept the byte is no excuse) or garbled the files being preprocessed; and the end of the record's life (its
file is unlinked; the message number starts a new life) -/
def excuse (s : St2) (x : Nat × Ch × Nat) : Ev2 → Bool
  | .ev .restart => !markedDone s.base x
  | .markFail m c pos => m == x.1 && c == x.2.1 && recAt s.base m c pos == some x.2.2 && !markedDone s.base x
  | .ev (.crashMarks m c marks) => m == x.1 && c == x.2.1 && !(marks.getD x.2.2 false)
  | .ev (.unlinkChan m c) => m == x.1 && c == x.2.1
  | .ev (.crashTodoFiles m) => m == x.1
  | .ev (.cUnlinkTodo m) => m == x.1
  | .ev (.newmsg m _ _) => m == x.1
  | _ => false

/-- a delivery command for record `x` -/
def cmdFor (s : St2) (x : Nat × Ch × Nat) : Ev2 → Bool
  | .ev (.cmd c _ m pos _) => m == x.1 && c == x.2.1 && recAt s.base m c pos == some x.2.2
  | _ => false

/-- an attempt for record `x` is outstanding -/
def inFl (s : St) (x : Nat × Ch × Nat) : Bool := inFlight s x.1 x.2.1 x.2.2
/-- how often record `x` was reported delivered (`K`) in the current life of its message -/
def dcount (s : St) (x : Nat × Ch × Nat) : Nat := ((s.msg x.1).delivered).count (x.2.1, x.2.2)

def acceptAll2 (cfg : Cfg) : St2 → List Ev2 → Option St2
  | s, [] => some s
  | s, e :: es => match accept2 cfg s e with
    | some s' => acceptAll2 cfg s' es
    | none => none

/-- running `evs` from `s`: does an excusing event for `x` occur / is a delivery command for `x` issued (each judged in
the state in which it happens)? -/
def anyAlong (cfg : Cfg) (p : St2 → Ev2 → Bool) : St2 → List Ev2 → Bool
  | _, [] => false
  | s, e :: es => p s e || (match accept2 cfg s e with
    | some s' => anyAlong cfg p s' es
    | none => false)

end Nq.Daemon
