/-
  Nq.SchedPass — the daemon histories of C15 with passes that are NOT atomic.

  `Nq.SchedHist.step` treats `.pass c letters` as one step: pass_dochan opens the job, every 'T' record is
  started and answered, job_close runs — all at one clock value.  The real daemon does these things in
  separate iterations of main()'s loop, and other things happen in between: the clock moves, the other
  channel works, reports of other jobs arrive, TERM arrives.  This file models that, over the same queue
  directory and heaps (`HSt`) and with the same functions of `Nq.Sched`:

    qmail-send.c  pass_dochan, `if (!pass[c].id)` part       → `openSt`   (job_open, jo.retry from `recent` NOW)
                  pass_dochan, one getln()                   → `nextSt`   ('T' → del_start, 'D' → skip, EOF → the pass
                                                                           drops its job reference)
                  del_dochan, one report + job_close          → `reportSt`
                  job_close once `refs` reaches 0             → `closeSt`  (`jobCloseF`)
                  sigterm()                                   → `termSt`   (flagexitasap: pass_dochan returns at once)
                  main(): loop exit + pqfinish() + _exit      → `pfinSt`   (guard: del_canexit — nothing in flight)
                  pqstart() of the next process               → `ploadSt`

  An open job (`OJob`) is `jo[j]` plus, while `scanning`, `pass[c]`; `refs` = (1 if scanning) + in-flight
  deliveries; `numtodo` = in-flight + `deferred` (reports that left the record 'T').

  `pfinSt` takes a boolean `persist`: `true` is qmail-send.c as it is since be3a18d (`pass_finish()` right after
  `pqfinish()`: the channel file of a pass that TERM cut short and that has deferred recipients — `numtodo != 0`
  once everything in flight has reported — is stamped with `jo[].retry`); `false` is the exit as it was before
  (pqfinish() walks only pqchan[]: the message of an open pass keeps the mtime its channel file had, and is retried
  right after the restart).  `codeNow` says which of the two the source is.
  Core Lean only.
-/
import Nq.SchedHist

namespace Nq.SchedPass
open Nq Nq.Sched Nq.SchedHist

/-- does qmail-send.c persist the retry time of a pass that TERM cut short?  `true` since /repo be3a18d
(`pass_finish()` after `pqfinish()`, notes/C15-fix-1.diff); `false` is the exit as it was before (finding
C15-term-midpass, kept as a documented mutant: `C15_term_midpass_mutant`). -/
def codeNow : Bool := true

/-- `jo[j]` (+ `pass[c]` while `scanning`) -/
structure OJob where
  id : Nat
  job : Job                      -- retry, dying: computed when the job was opened
  opened : Int                   -- `recent` at that moment (ghost)
  scanning : Bool := true        -- `pass[c].id == id`: the pass still holds its reference
  pos : Nat := 0                 -- records read so far
  inflight : List Nat := []      -- record indices started and not yet reported
  deferred : Nat := 0            -- reports of this job that left the record 'T'
  deriving Repr, DecidableEq

structure PSt where
  h : HSt := {}
  j0 : List OJob := []
  j1 : List OJob := []
  exitasap : Bool := false
  up : Bool := false             -- a daemon process exists (pqstart done, not yet exited)

def PSt.jobs (s : PSt) : Chan → List OJob
  | .loc => s.j0
  | .rem => s.j1
def PSt.setJobs (s : PSt) (c : Chan) (l : List OJob) : PSt :=
  match c with
  | .loc => { s with j0 := l }
  | .rem => { s with j1 := l }
def PSt.setH (s : PSt) (h : HSt) : PSt := { s with h := h }

/-- the open job of message `i` on channel `c`, if any -/
def PSt.job? (s : PSt) (c : Chan) (i : Nat) : Option OJob := (s.jobs c).find? (·.id == i)

def updJob (l : List OJob) (j : OJob) : List OJob := l.map fun x => if x.id == j.id then j else x
def delJob (l : List OJob) (i : Nat) : List OJob := l.filter fun x => !(x.id == i)

/-- the queue side of `job_close` when `refs` reaches 0 (the pass has hit EOF: `flaghiteof`) -/
def closeH (h : HSt) (c : Chan) (j : OJob) (m : Msg) : HSt :=
  let o := jobCloseF j.job j.id true j.deferred true (statOf m (other c)) h.clock (h.q c) h.done
  ({ (h.setQ c o.chan) with done := o.done }).update (if o.removed then m.setRecs c none else m)

def closeSt (s : PSt) (c : Chan) (j : OJob) : PSt :=
  match s.h.find j.id with
  | none => s.setJobs c (delJob (s.jobs c) j.id)
  | some m => (s.setJobs c (delJob (s.jobs c) j.id)).setH (closeH s.h c j m)

/-- store the changed job; `job_close` if nothing refers to it any more -/
def settle (s : PSt) (c : Chan) (j : OJob) : PSt :=
  if !j.scanning && j.inflight.isEmpty then closeSt s c j
  else s.setJobs c (updJob (s.jobs c) j)

/-- pass_dochan(c) with no pass open: start the earliest due message -/
def openSt (s : PSt) (c : Chan) : PSt :=
  if !s.up || s.exitasap || (s.jobs c).any (·.scanning) then s else
  match passStart s.h.clock true (s.h.q c) with
  | none => s
  | some (pe, q') =>
    match s.h.find pe.id with
    | none => s
    | some m =>
      (s.setJobs c ({ id := pe.id, job := jobOpen s.h.clock s.h.lifetime m.birth c, opened := s.h.clock } :: s.jobs c)).setH
        (s.h.setQ c q')

/-- one record of the open pass -/
def advance (j : OJob) (recs : List Bool) : OJob :=
  if j.pos ≥ recs.length then { j with scanning := false }
  else if recs.getD j.pos false then { j with pos := j.pos + 1, inflight := j.pos :: j.inflight }
  else { j with pos := j.pos + 1 }

/-- pass_dochan(c) with a pass open (and a delivery slot free): read one record -/
def nextSt (s : PSt) (c : Chan) : PSt :=
  if !s.up || s.exitasap then s else
  match (s.jobs c).find? (·.scanning) with
  | none => s
  | some j =>
    match (s.h.find j.id).bind (·.recs c) with
    | none => s
    | some recs => settle s c (advance j recs)

/-- del_dochan: the report `letter` for record `pos` of message `i` -/
def reportSt (s : PSt) (c : Chan) (i pos : Nat) (letter : Byte) : PSt :=
  if !s.up then s else
  match s.job? c i with
  | none => s
  | some j =>
    if !j.inflight.contains pos then s else
    match s.h.find i with
    | none => s
    | some m =>
      if (report j.job.dying letter (str "report\n")).staysTodo then
        settle s c { j with inflight := j.inflight.erase pos, deferred := j.deferred + 1 }
      else
        settle (s.setH (s.h.update (m.setRecs c ((m.recs c).map fun r => r.set pos false)))) c
          { j with inflight := j.inflight.erase pos }

/-- notes/C15-fix-1.diff `pass_finish()`: the channel file of a cut pass with deferred recipients gets `jo[].retry` -/
def cutWrite (c : Chan) (h : HSt) (j : OJob) : HSt :=
  if j.scanning && decide (0 < j.deferred) then finWrite1 c h { dt := j.job.retry, id := j.id } else h

def nothingInFlight (s : PSt) : Bool := s.j0.all (·.inflight.isEmpty) && s.j1.all (·.inflight.isEmpty)

/-- the loop ends (`flagexitasap && del_canexit()`), pqfinish(), [pass_finish()], _exit(0) -/
def pfinSt (persist : Bool) (s : PSt) : PSt :=
  if !s.up || !s.exitasap || !nothingInFlight s then s else
  { h := if persist then s.j1.foldl (cutWrite .rem) (s.j0.foldl (cutWrite .loc) (finSt s.h)) else finSt s.h,
    j0 := [], j1 := [], exitasap := true, up := false }

/-- a new process on the same queue: pqstart() -/
def ploadSt (s : PSt) : PSt :=
  if s.up then s else { h := loadSt s.h, j0 := [], j1 := [], exitasap := false, up := true }

inductive PStep where
  | mk (id : Nat) (c : Chan) (birth due : Int) (nrec : Nat)   -- a channel file appears from outside
  | alrm
  | tick (d : Nat)                                            -- the clock advances
  | term
  | fin
  | load
  | open (c : Chan)
  | next (c : Chan)
  | report (c : Chan) (i pos : Nat) (letter : Byte)
  deriving Repr

def pstep (persist : Bool) (s : PSt) : PStep → PSt
  | .mk id c birth due nrec => s.setH (step s.h (.mk id c birth due nrec)).1
  | .alrm => if s.up then s.setH (step s.h .alrm).1 else s
  | .tick d => s.setH { s.h with clock := s.h.clock + d }
  | .term => { s with exitasap := true }
  | .fin => pfinSt persist s
  | .load => ploadSt s
  | .open c => openSt s c
  | .next c => nextSt s c
  | .report c i pos letter => reportSt s c i pos letter

def prun (persist : Bool) (s : PSt) (l : List PStep) : PSt := l.foldl (pstep persist) s

/-- the steps of a quiet stretch of daemon life (everything but ALRM and files appearing from outside) -/
def PStep.quiet : PStep → Bool
  | .mk .. => false
  | .alrm => false
  | _ => true

/-- the atomic pass of `Nq.SchedHist` as a sequence of fine steps: open, then per record `next` (+ its report
right away), then the `next` that reads EOF -/
def atomicPass (c : Chan) (i : Nat) (recs : List Bool) (letters : List Byte) : List PStep :=
  let rec go : List Bool → Nat → Nat → List PStep
    | [], _, _ => [.next c]
    | false :: r, pos, k => .next c :: go r (pos + 1) k
    | true :: r, pos, k =>
      let l := letters.getD (k % letters.length) 90
      .next c :: .report c i pos (if l = 63 then 88 else l) :: go r (pos + 1) (k + 1)
  .open c :: go recs 0 0

end Nq.SchedPass
