/-
  Nq.TriggerRelaxed — `Trigger.accept` with individual GUARDS REMOVED (property C16, extension round, session 4).

  `Trigger.accept` is an acceptor: the order of the programs' steps is part of its guards, so "trigger_set precedes opendir",
  "link precedes the pull", "readdir returns every entry before NULL" (`C16_order`, `C16_scan_complete`) merely restate guards.
  To find out which of them the no-lost-wake-up invariant really rests on, each guard can be switched off separately here:
  `acceptX r` accepts everything `accept` accepts (`acceptX_of_accept`) plus the steps `extra r` allows.

    opendirAnywhere   `opendir` also straight from `idle`, WITHOUT a preceding trigger_set (first half of `C16_order` removed)
    pullBeforeLink    the injector may open/write/close the FIFO before `link(todo/n)` (second half of `C16_order` removed)
    skipScan          after trigger_set the daemon may go back to `select` without scanning ("trigger_set … never after" removed:
                      this is what a `todo_do` that re-arms AFTER its scan does)
    endEarly          readdir may return NULL while entries the stream covers are unread (`C16_scan_complete` removed)

  Results (Nq/Props/C16.lean): with `opendirAnywhere` the invariant still holds for every trace (`C16_order_opendir_guard_removed`);
  with each of the other three a lost wake-up is reachable (`C16_guards_necessary`).  Core Lean only.
-/
import Nq.Trigger

namespace Nq.Trigger

structure Relax where
  opendirAnywhere : Bool := false
  pullBeforeLink : Bool := false
  skipScan : Bool := false
  endEarly : Bool := false
  deriving DecidableEq, Repr

/-- the additional steps a relaxation allows (only consulted where `accept` rejects) -/
def extra (r : Relax) (s : St) : Ev → Option St
  | .dOpendir => if r.opendirAnywhere = true ∧ s.d = .idle then some { s with d := .scanning s.todo } else none
  | .iOpen n ok =>
    if r.pullBeforeLink = true ∧ s.pc n = .start ∧ ok = s.dOpen then
      some (if ok then { s with pc := upd s.pc n .opened, writers := s.writers + 1 } else { s with pc := upd s.pc n .finished })
    else none
  | .iLink n => if r.pullBeforeLink = true ∧ n ∉ s.todo then some { s with todo := n :: s.todo } else none
  | .dEnd =>
    match s.d with
    | .scanning _ => if r.endEarly = true then some { s with d := .idle } else none
    | .reopened => if r.skipScan = true then some { s with d := .idle } else none
    | _ => none
  | _ => none

def acceptX (r : Relax) (s : St) (e : Ev) : Option St :=
  match accept s e with
  | some s' => some s'
  | none => extra r s e

def acceptAllX (r : Relax) : St → List Ev → Option St
  | s, [] => some s
  | s, e :: es => match acceptX r s e with
    | some s' => acceptAllX r s' es
    | none => none

/-- every step of the real acceptor is a step of every relaxed one: the replayed traces of the real programs are in its language -/
theorem acceptX_of_accept (r : Relax) (s s' : St) (e : Ev) (h : accept s e = some s') : acceptX r s e = some s' := by
  simp [acceptX, h]

theorem acceptAllX_of_acceptAll (r : Relax) (evs : List Ev) : ∀ (s s' : St), acceptAll s evs = some s' → acceptAllX r s evs = some s' := by
  induction evs with
  | nil => intro s s' h; simpa [acceptAll, acceptAllX] using h
  | cons e es ih =>
    intro s s' h
    simp only [acceptAll] at h
    cases h1 : accept s e with
    | none => simp [h1] at h
    | some s2 =>
      simp only [h1] at h
      simp only [acceptAllX, acceptX_of_accept r s s2 e h1]
      exact ih s2 s' h

/-- with no relaxation nothing is added -/
theorem acceptX_none (s : St) (e : Ev) : acceptX {} s e = accept s e := by
  simp only [acceptX]
  cases h : accept s e with
  | some s' => rfl
  | none =>
    cases e <;> simp [extra]
    split <;> rfl

/-- the state the no-lost-wake-up theorem excludes: daemon outside a scan, injection `n` complete and unprocessed, FIFO not readable -/
def lost (s : St) (n : Nat) : Bool := decide (s.d = .idle) && s.todo.contains n && pulled (s.pc n) && !s.buf

end Nq.Trigger
