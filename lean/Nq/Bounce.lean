/-
  Nq.Bounce — model of the bounce machinery of qmail-send.c:

    * `stripvdom`      — `stripvdomprepend()`  (virtualdomains lookup through `constmap`)
    * `addbounceText`  — the text `addbounce()` appends to `bounce/<id>` for one failed recipient
    * `delReport`      — which report `del_dochan()` hands to `addbounce()` (REPORTMAX cut, the
                         "Z while dying => D + I'm not going to try again" rewrite)
    * `getcontrols`    — the bounce-related part of `getcontrols()` (control_rldef / control_readfile /
                         constmap_init with colon)
    * `inject`         — `injectbounce()`: VERP suffix removal, the three-way decision
                         (single bounce / double bounce / discard), the text of the notice, the
                         order "queue first, unlink bounce/<id> afterwards", every error exit.

  C strings are `Bytes` without NUL.  Everything is a small total function over lists so that the
  compiled driver (`Drv/C14.lean`) can run it next to the real code (harness/c14_bounce.c).
-/
import Nq.Basic
import Nq.Quote
import Nq.Gen.Consts

namespace Nq.Bounce
open Nq

@[reducible] def LANGLE     : Byte := 60   -- '<'
@[reducible] def RANGLE     : Byte := 62   -- '>'
@[reducible] def COLON  : Byte := 58   -- ':'
@[reducible] def DASH   : Byte := 45   -- '-'
@[reducible] def USCORE : Byte := 95   -- '_'
@[reducible] def SLASH  : Byte := 47   -- '/'
@[reducible] def HASH   : Byte := 35   -- '#'

/-! ### control files (control.c) -/

def isTrailWs (c : Byte) : Bool := c == LF || c == SP || c == TAB

/-- `striptrailingwhitespace()` -/
def stripTrail (l : Bytes) : Bytes := (l.reverse.dropWhile isTrailWs).reverse

/-- `getln(...,'\n')`: the first line including its LF (or everything, if there is no LF) -/
def firstLine : Bytes → Bytes
  | [] => []
  | c :: r => if c = LF then [c] else c :: firstLine r

/-- `control_readline()` on an existing file -/
def readline (file : Bytes) : Bytes := stripTrail (firstLine file)

/-- `control_rldef(sa,fn,flagme,def)`: the file's first line; else `me` if allowed and present;
else the built-in default -/
def rldef (file me : Option Bytes) (flagme : Bool) (dflt : Bytes) : Bytes :=
  match file with
  | some f => readline f
  | none => match flagme, me with
    | true, some m => readline m
    | _, _ => dflt

/-- the pieces between LFs (the last piece may be empty) -/
def splitLF : Bytes → List Bytes
  | [] => [[]]
  | c :: r =>
    if c = LF then [] :: splitLF r
    else match splitLF r with
      | [] => [[c]]
      | p :: ps => (c :: p) :: ps

/-- `control_readfile()` on an existing file: stripped lines, empty lines and `#` comments skipped -/
def readfile (f : Bytes) : List Bytes :=
  ((splitLF f).map stripTrail).filter (fun l => !l.isEmpty && l.head? != some HASH)

/-! ### constmap with `flagcolon` (constmap.c) -/

/-- split an entry at its first colon -/
def splitColon : Bytes → Option (Bytes × Bytes)
  | [] => none
  | c :: r =>
    if c = COLON then some ([], r)
    else match splitColon r with
      | some (k, v) => some (c :: k, v)
      | none => none

/-- `constmap_init(..., flagcolon = 1)`: entries without a colon are dropped -/
def cmEntries (lines : List Bytes) : List (Bytes × Bytes) := lines.filterMap splitColon

/-- `constmap()`: keys compare case-insensitively (`case_diffb`), the entry inserted last is found
first -/
def cmLookupRev : List (Bytes × Bytes) → Bytes → Option Bytes
  | [], _ => none
  | (k, v) :: r, key => if lower k == lower key then some v else cmLookupRev r key

def cmLookup (es : List (Bytes × Bytes)) (key : Bytes) : Option Bytes := cmLookupRev es.reverse key

/-! ### stripvdomprepend() -/

/-- the text after the last '@' (`str_rchr`), `none` if there is no '@' -/
def domainOf : Bytes → Option Bytes
  | [] => none
  | c :: r => match domainOf r with
    | some d => some d
    | none => if c = AT then some r else none

/-- suffixes `domain + i` for `1 ≤ i ≤ domainlen` at which the loop looks: `domain[i] == '.'` or
`i == domainlen` -/
def dotSuffixes : Bytes → List Bytes
  | [] => [[]]
  | c :: r => if c = DOT then (c :: r) :: dotSuffixes r else dotSuffixes r

/-- all keys the loop `for (i = 0;i <= domainlen;++i)` looks up, in order -/
def suffixKeys : Bytes → List Bytes
  | [] => [[]]
  | c :: r => (c :: r) :: dotSuffixes r

/-- the first key with an entry decides (every path after a hit leaves the loop) -/
def firstHit (es : List (Bytes × Bytes)) : List Bytes → Option Bytes
  | [] => none
  | k :: ks => match cmLookup es k with
    | some p => some p
    | none => firstHit es ks

/-- `constmap()` on a map built without `flagcolon` (control/locals): the whole line is the key -/
def cmMember : List Bytes → Bytes → Bool
  | [], _ => false
  | l :: r, key => lower l == lower key || cmMember r key

/-- the two tables `stripvdomprepend` consults: `maplocals` and `mapvdoms` -/
structure Tables where
  locals : List Bytes
  vdoms : List (Bytes × Bytes)

/-- the virtual-user loop `for (i = 0;recip[i];++i) if (recip[i] == '-') …`: `pre` = `recip[0..i)`,
the list = `recip + i`.  The first dash whose remainder has an entry with exactly `pre` as its
(non-empty) prepend decides. -/
def userStripGo (es : List (Bytes × Bytes)) : Bytes → Bytes → Option Bytes
  | _, [] => none
  | pre, c :: r =>
    if c = DASH then
      match cmLookup es r with
      | some p => if !p.isEmpty && p == pre then some r else userStripGo es (pre ++ [c]) r
      | none => userStripGo es (pre ++ [c]) r
    else userStripGo es (pre ++ [c]) r

/-- `stripvdomprepend(recip)`: nothing without '@'; nothing for a domain in `locals`; then the
virtual-user loop; then the domain loop -/
def stripvdom (t : Tables) (recip : Bytes) : Bytes :=
  match domainOf recip with
  | none => recip
  | some d =>
    if cmMember t.locals d then recip else
    match userStripGo t.vdoms [] recip with
    | some r => r
    | none =>
      match firstHit t.vdoms (suffixKeys d) with
      | none => recip
      | some p =>
        if !p.isEmpty && (p ++ [DASH]).isPrefixOf recip then recip.drop (p.length + 1) else recip

/-! ### addbounce() -/

def lf2us (c : Byte) : Byte := if c = LF then USCORE else c

/-- one position of the scan: the byte becomes '/' iff it is LF and its predecessor *in the text
before the scan* is LF (the loop runs downwards and reads `pos - 1` before writing it) -/
def squashAll : Bool → Bytes → Bytes
  | _, [] => []
  | p, c :: t => (if p && c == LF then SLASH else c) :: squashAll (c == LF) t

/-- `for (pos = len - 2;pos > 0;--pos) if (s[pos] == '\n') if (s[pos-1] == '\n') s[pos] = '/';`
as a forward pass: position 0 and the last position are never examined -/
def scanFrom : Bool → Bytes → Bytes
  | _, [] => []
  | _, [c] => [c]
  | p, c :: d :: t => (if p && c == LF then SLASH else c) :: scanFrom (c == LF) (d :: t)

/-! The same loop transcribed literally (in-place writes, positions `len-2` down to `1`);
`Lemmas.Bounce.scanInPlace_eq` proves it equal to `scanFrom false`, which is what the model and the
compiled driver use (the in-place form is quadratic on lists). -/

/-- one iteration: `if (s[pos] == '\n') if (s[pos - 1] == '\n') s[pos] = '/';` -/
def scanAt (s : Bytes) (pos : Nat) : Bytes :=
  if s[pos]? = some LF ∧ s[pos - 1]? = some LF then s.set pos SLASH else s

/-- positions `n`, `n-1`, …, `1`, in this order -/
def scanDown : Nat → Bytes → Bytes
  | 0, s => s
  | n + 1, s => scanDown n (scanAt s (n + 1))

/-- `for (pos = len - 2;pos > 0;--pos) …` -/
def scanInPlace (s : Bytes) : Bytes := scanDown (s.length - 2) s


/-- the address `addbounce(id,recip,report,flagstrip)` names:
`flagstrip ? stripvdomprepend(recip) : recip` -/
def nameOf (es : Tables) (flagstrip : Bool) (recip : Bytes) : Bytes :=
  if flagstrip then stripvdom es recip else recip

/-- the bytes `addbounce` appends to `bounce/<id>` once the name is chosen -/
def addbounceNamed (name report : Bytes) : Bytes :=
  let t1 := (LANGLE :: name).map lf2us                      -- "<" + name, LF -> '_'
  let t2 := t1 ++ [RANGLE, COLON, LF]                       -- ">:\n"
  let t3 := t2 ++ report
  let t4 := if !report.isEmpty && report.getLast? != some LF then t3 ++ [LF] else t3
  scanFrom false t4 ++ [LF]

/-- the bytes `addbounce(id,recip,report,flagstrip)` appends to `bounce/<id>` -/
def addbounceText (es : Tables) (flagstrip : Bool) (recip report : Bytes) : Bytes :=
  addbounceNamed (nameOf es flagstrip recip) report

/-- one recorded failure: `flagstrip` (`del_dochan` passes `c == 0`: the delivery was on the local
channel), the recipient as stored in the channel file, the report -/
abbrev Fail := Bool × Bytes × Bytes

/-- the whole `bounce/<id>` file after the listed failures, in order -/
def bounceFile (es : Tables) : List Fail → Bytes
  | [] => []
  | (fl, r, t) :: fs => addbounceText es fl r t ++ bounceFile es fs

/-! ### del_dochan(): from the spawner's report to the addbounce() call -/

def dyingText : Bytes :=
  str "I'm not going to try again; this message has been in the queue too long.\n"

/-- `line` = the bytes received for one report up to (excluding) the terminating NUL, i.e.
delivery number, status byte, text.  Result: the report passed to `addbounce`, if any. -/
def delReport (dying : Bool) (line : Bytes) : Option Bytes :=
  let kept := line.take Gen.REPORTMAX                    -- `if (len > REPORTMAX) len = REPORTMAX`
  match kept with
  | _ :: st :: _ =>
    if st = 90 ∧ dying then                              -- 'Z' and flagdying: becomes 'D'
      some ((line.take (Gen.REPORTMAX - 1)).drop 2 ++ dyingText)   -- `--len` then the fixed text
    else if st = 68 then some (kept.drop 2)              -- 'D'
    else none
  | _ => none

/-! ### getcontrols(): the bounce-related settings -/

/-- raw control files; `none` = the file does not exist -/
structure Controls where
  me : Option Bytes
  bouncefrom : Option Bytes
  bouncehost : Option Bytes
  doublebounceto : Option Bytes
  doublebouncehost : Option Bytes
  virtualdomains : Option Bytes
  locals : Option Bytes := none

structure Cfg where
  bouncefrom : Bytes
  bouncehost : Bytes
  /-- `doublebounceto` "@" `doublebouncehost`, as assembled by getcontrols() -/
  doublebounceto : Bytes
  vdoms : List (Bytes × Bytes)
  /-- control/locals (`control_readfile` with `flagme`: the file's lines, else the single line `me`) -/
  locals : List Bytes := []

/-- the tables `stripvdomprepend` sees under this configuration -/
def Cfg.tables (c : Cfg) : Tables := { locals := c.locals, vdoms := c.vdoms }

def getcontrols (c : Controls) : Cfg :=
  let dbhost := rldef c.doublebouncehost c.me true (str "doublebouncehost")
  { bouncefrom := rldef c.bouncefrom c.me false (str "MAILER-DAEMON")
    bouncehost := rldef c.bouncehost c.me true (str "bouncehost")
    doublebounceto := rldef c.doublebounceto c.me false (str "postmaster") ++ [AT] ++ dbhost
    vdoms := match c.virtualdomains with
      | none => []
      | some f => cmEntries (readfile f)
    locals := match c.locals, c.me with
      | some f, _ => readfile f
      | none, some m => [readline m]
      | none, none => [] }

/-! ### injectbounce() -/

/-- "#@[]" -/
def DBSENDER : Bytes := [35, 64, 91, 93]
/-- "-@[]" -/
def VERPSUF : Bytes := [45, 64, 91, 93]

/-- `owner-@host-@[] -> owner-@host`: a sender of length ≥ 4 ending in "-@[]" loses those 4 bytes -/
def verpBase (s : Bytes) : Bytes :=
  if VERPSUF.isSuffixOf s then s.take (s.length - 4) else s

inductive Decision
  | discard                 -- sender "#@[]": triple bounce, nothing is sent
  | double                  -- empty sender: double bounce to doublebounceto with sender "#@[]"
  | single (rcpt : Bytes)   -- anything else: bounce with empty sender to the base address
  deriving DecidableEq, Repr

def decideBounce (sender : Bytes) : Decision :=
  let b := verpBase sender
  if b = DBSENDER then .discard else if b.isEmpty then .double else .single b

structure Msg where
  sender : Bytes
  rcpts : List Bytes
  body : Bytes
  deriving DecidableEq, Repr

def introSingle : Bytes :=
  str ".\nI'm afraid I wasn't able to deliver your message to the following addresses.\nThis is a permanent error; I've given up. Sorry it didn't work out." ++ [LF, LF]
def introDouble : Bytes :=
  str ".\nI tried to deliver a bounce message to this address, but the bounce bounced!" ++ [LF, LF]
def markerSingle : Bytes := str "--- Below this line is a copy of the message.\n\n"
def markerDouble : Bytes := str "--- Below this line is the original bounce.\n\n"

/-- header and introduction: everything `qmail_put` before the bounce file is copied -/
def preamble (cfg : Cfg) (date rcpt : Bytes) (single : Bool) : Bytes :=
  date ++ str "From: " ++ Quote.quote cfg.bouncefrom ++ [AT] ++ cfg.bouncehost
    ++ str "\nTo: " ++ Quote.quote2 rcpt
    ++ str "\nSubject: failure notice\n\nHi. This is the qmail-send program at " ++ cfg.bouncehost
    ++ (if single then introSingle else introDouble)

/-- everything after the bounce file: marker, Return-Path of the (base) sender, the message -/
def trailer (single : Bool) (base mess : Bytes) : Bytes :=
  (if single then markerSingle else markerDouble)
    ++ str "Return-Path: <" ++ Quote.quote2 base ++ str ">\n" ++ mess

/-- the message handed to qmail-queue, if any -/
def bounceOf (cfg : Cfg) (date bfile : Bytes) (m : Msg) : Option Msg :=
  match decideBounce m.sender with
  | .discard => none
  | .double => some { sender := DBSENDER, rcpts := [cfg.doublebounceto],
                      body := preamble cfg date cfg.doublebounceto false ++ bfile ++ trailer false [] m.body }
  | .single r => some { sender := [], rcpts := [r],
                        body := preamble cfg date r true ++ bfile ++ trailer true r m.body }

/-- the points at which `injectbounce` can fail -/
inductive Fault
  | none
  | info         -- getinfo() fails (info file unreadable)
  | statErr      -- stat(bounce/<id>) fails with something other than ENOENT
  | qqOpen       -- qmail_open() fails
  | bounceOpen   -- open_read(bounce/<id>) fails        -> qmail_fail
  | bounceRead   -- read error inside bounce/<id>        -> qmail_fail
  | messOpen     -- open_read(mess/<id>) fails           -> qmail_fail
  | messRead     -- read error inside mess/<id>          -> qmail_fail
  | qqClose      -- qmail-queue refuses the message
  | unlink       -- unlink(bounce/<id>) fails
  deriving DecidableEq, Repr

structure Res where
  ret : Bool                 -- injectbounce()'s return value (false = "try again later")
  queued : Option Msg        -- the message accepted by qmail-queue during this call
  bounce : Option Bytes      -- bounce/<id> afterwards
  log : Bytes
  deriving DecidableEq, Repr

def bounceFn (id : Nat) : Bytes := str "bounce/" ++ fmtNat id

/-- `injectbounce(id)` for a message with envelope sender `sender`, body `mess` and bounce file
`bounce` (`none` = no recipient failed) -/
def inject (cfg : Cfg) (date : Bytes) (id qp : Nat) (f : Fault)
    (sender : Bytes) (bounce : Option Bytes) (mess : Bytes) : Res :=
  if f = .info then { ret := false, queued := none, bounce := bounce, log := [] } else
  if f = .statErr then
    { ret := false, queued := none, bounce := bounce,
      log := str "warning: unable to stat " ++ bounceFn id ++ [LF] } else
  match bounce with
  | none => { ret := true, queued := none, bounce := none, log := [] }     -- stat: ENOENT
  | some bf =>
    let unlinkStep (q : Option Msg) (log : Bytes) : Res :=
      if f = .unlink then
        { ret := false, queued := q, bounce := bounce,
          log := log ++ str "warning: unable to unlink " ++ bounceFn id ++ [LF] }
      else { ret := true, queued := q, bounce := none, log := log }
    match bounceOf cfg date bf { sender := sender, rcpts := [], body := mess } with
    | none => unlinkStep none (str "triple bounce: discarding " ++ bounceFn id ++ [LF])
    | some m =>
      if f = .qqOpen then
        { ret := false, queued := none, bounce := bounce,
          log := str "warning: unable to start qmail-queue, will try later\n" }
      else if f = .bounceOpen ∨ f = .bounceRead ∨ f = .messOpen ∨ f = .messRead ∨ f = .qqClose then
        { ret := false, queued := none, bounce := bounce,
          log := str "warning: trouble injecting bounce message, will try later\n" }
      else
        unlinkStep (some m) (str "bounce msg " ++ fmtNat id ++ str " qp " ++ fmtNat qp ++ [LF])

end Nq.Bounce
