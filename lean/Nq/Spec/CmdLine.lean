/-
  Nq.Spec.CmdLine — what a line-oriented command stream *means*, written without reference to the
  model of commands.c (`Nq.SmtpSession.readLine/parseLine`, `Nq.SmtpCmdIO`):

    * the commands are the LF-terminated lines of the stream; what follows the last LF is not a command;
    * one CR just before the LF does not belong to the line;
    * the line is a C string: it ends at its first NUL;
    * the verb is what precedes the first space; the argument is what follows the run of spaces after the verb;
    * the verb selects the first table entry equal to it ignoring ASCII case, else the catch-all entry.

  Two forms: relations (`IsLines`, `IsSplit`) used in theorem statements, and executable functions
  (`specLines`, `specSplit`, `specIdx`, `specCalls`) which the compiled driver evaluates on the
  *implementation's* dispatch trace (the oracle).  `Nq.Lemmas.SmtpCmdIO` proves that the functions
  satisfy the relations, that the relations determine their result, and that the model equals them.
  Core Lean only.
-/
import Nq.SmtpSession

namespace Nq.CmdLineSpec
open Nq

/-! ### equality ignoring ASCII case, byte by byte (no `lower`) -/

def isUpperN (n : Nat) : Bool := 65 ≤ n && n ≤ 90

/-- the same character ignoring ASCII case: equal, or an upper-case letter and its lower-case form -/
def ciByteB (x y : Byte) : Bool :=
  x.toNat == y.toNat || (isUpperN x.toNat && y.toNat == x.toNat + 32) || (isUpperN y.toNat && x.toNat == y.toNat + 32)

def ciEqB : Bytes → Bytes → Bool
  | [], [] => true
  | x :: s, y :: t => ciByteB x y && ciEqB s t
  | _, _ => false

/-! ### lines -/

/-- `ls` are the complete lines of `inp` and `tail` its unterminated rest -/
def IsLines (inp : Bytes) (ls : List Bytes) (tail : Bytes) : Prop :=
  inp = (ls.map (· ++ [LF])).flatten ++ tail ∧ (∀ l ∈ ls, LF ∉ l) ∧ LF ∉ tail

/-- the pieces between LFs (n LFs give n + 1 pieces) -/
def pieces : Bytes → List Bytes
  | [] => [[]]
  | c :: r =>
    if c = LF then [] :: pieces r
    else match pieces r with
      | [] => [[c]]
      | p :: ps => (c :: p) :: ps

/-- the LF-terminated lines, without their LF -/
def specLines (inp : Bytes) : List Bytes := (pieces inp).dropLast

/-- what follows the last LF -/
def specTail (inp : Bytes) : Bytes := (pieces inp).getLast?.getD []

/-- the first line and what follows its LF (for consumers that interleave other readers, like DATA) -/
def specFirstLine (inp : Bytes) : Option (Bytes × Bytes) :=
  if LF ∈ inp then some (inp.takeWhile (· != LF), (inp.dropWhile (· != LF)).drop 1) else none

/-! ### verb and argument of one line -/

/-- `v` is the verb and `a` the argument of line `l` (given without its LF) -/
def IsSplit (l v a : Bytes) : Prop :=
  ∃ body t junk sp,
    (l = body ++ [CR] ∨ (l = body ∧ l.getLast? ≠ some CR)) ∧                -- one CR before the LF is dropped
    body = t ++ junk ∧ NUL ∉ t ∧ (junk = [] ∨ junk.head? = some NUL) ∧        -- the line is a C string
    t = v ++ sp ++ a ∧ SP ∉ v ∧ (∀ c ∈ sp, c = SP) ∧ a.head? ≠ some SP ∧      -- verb, blanks, argument
    (sp = [] → a = [])

def chopCR (l : Bytes) : Bytes :=
  match l.reverse with
  | c :: r => if c = CR then r.reverse else l
  | [] => []

def cstr : Bytes → Bytes
  | [] => []
  | c :: r => if c = NUL then [] else c :: cstr r

def word : Bytes → Bytes
  | [] => []
  | c :: r => if c = SP then [] else c :: word r

def afterWord : Bytes → Bytes
  | [] => []
  | c :: r => if c = SP then c :: r else afterWord r

def skipSp : Bytes → Bytes
  | [] => []
  | c :: r => if c = SP then skipSp r else c :: r

def specSplit (l : Bytes) : Bytes × Bytes := (word (cstr (chopCR l)), skipSp (afterWord (cstr (chopCR l))))

/-! ### table entry -/

/-- index of the first text equal to `v` ignoring case; `table.length` if there is none -/
def specIdx : List Bytes → Bytes → Nat
  | [], _ => 0
  | t :: ts, v => if ciEqB t v then 0 else specIdx ts v + 1

/-- the calls a dispatcher over `table` makes on the stream `inp`: (entry, argument), in order -/
def specCalls (table : List Bytes) (inp : Bytes) : List (Nat × Bytes) :=
  (specLines inp).map (fun l => (specIdx table (specSplit l).1, (specSplit l).2))

/-! ### the SMTP table (texts and handlers regenerated from `smtpcommands[]`) -/

open Nq.SmtpSession in
def specVerb (v : Bytes) : Verb :=
  match Gen.smtpCommands[specIdx (Gen.smtpCommands.map (·.1)) v]? with
  | some e => handlerVerb e.2.1
  | none => handlerVerb Gen.smtpDefault.1

open Nq.SmtpSession in
def specParse (l : Bytes) : Verb × Bytes := (specVerb (specSplit l).1, (specSplit l).2)

/-! ### a whole SMTP session laid out over its input stream -/

section session
open Nq.SmtpSession Nq.SmtpIn

def verbOfCmd : Cmd → Verb
  | .helo => .helo | .ehlo => .ehlo | .rset => .rset | .help => .help | .noop => .noop | .vrfy => .vrfy
  | .unimpl => .unimpl | .quit => .quit | .mail _ => .mail | .rcpt _ => .rcpt | .data _ => .data

def argOfCmd : Cmd → Option Bytes
  | .mail a => some a
  | .rcpt a => some a
  | _ => none

/-- command `c` is what line `l` says: the verb the spec finds in the table, and (MAIL, RCPT) the spec's argument -/
def LineIs (l : Bytes) (c : Cmd) : Prop :=
  verbOfCmd c = (specParse l).1 ∧ ∀ a, argOfCmd c = some a → a = (specParse l).2

/-- `Framed inp tr`: the events `tr` account for the stream `inp` from left to right — every event is the next
LF-terminated line, read as the spec says; a DATA answered 354 is followed by its message, which ends where the
reference decoder of RFC 5321 §4.5.2 (`rfcDecode`, C05) says, and the next command line starts right there; after
an event that ends the session nothing more is read; the session otherwise ends where the stream has no further LF. -/
inductive Framed : Bytes → List (Cmd × Out) → Prop
  | eof (inp : Bytes) : LF ∉ inp → Framed inp []
  | last (l rest : Bytes) (c : Cmd) (o : Out) : LF ∉ l → LineIs l c → o.halt = true → Framed (l ++ LF :: rest) [(c, o)]
  | cmd (l rest : Bytes) (c : Cmd) (o : Out) (tr : List (Cmd × Out)) : LF ∉ l → LineIs l c → o.halt = false →
      o.replies.head? ≠ some .go → Framed rest tr → Framed (l ++ LF :: rest) ((c, o) :: tr)
  | data (l rest body rest' : Bytes) (c : Cmd) (o : Out) (tr : List (Cmd × Out)) : LF ∉ l → LineIs l c → o.halt = false →
      o.replies.head? = some .go → rfcDecode rest = .accepted body rest' → Framed rest' tr →
      Framed (l ++ LF :: rest) ((c, o) :: tr)

end session

end Nq.CmdLineSpec
