/-
  Nq.Spec.SmtpPolicy — the declarative side of C08: what the property text says about a session,
  phrased over the observable trace (commands with their replies and the envelopes handed to the
  queue) and over the configuration, without reference to the server's state variables.

  Every predicate comes in two forms: a `Prop` used in the theorem statements of `Props/C08.lean`
  and a `Bool` checker which the compiled driver evaluates on the *implementation's* trace (the
  oracle).  `Lemmas/SmtpSession.lean` proves the two forms equivalent.
-/
import Nq.SmtpSession

namespace Nq.SmtpPolicy
open Nq Nq.SmtpSession

abbrev Ev := Cmd × Out

/-- the domain of an address: what follows its last `@` (none: no `@`) -/
def domainOf (a : Bytes) : Option Bytes := (splitLastAt a).map (·.2)

/-! ### recipient-host lists -/

/-- entry `e` covers domain `d`: equal ignoring case, or `e` starts with a dot and is a suffix of `d`
ignoring case -/
def covers (e d : Bytes) : Prop :=
  d ≠ [] ∧ (lower e = lower d ∨ (e.head? = some DOT ∧ lower e <:+ lower d))

def coversB (e d : Bytes) : Bool :=
  !d.isEmpty && (lower e == lower d || (e.head? == some DOT && (lower e).isSuffixOf (lower d)))

/-- all entries that count: control/rcpthosts plus the compiled control/morercpthosts -/
def hostEntries (cfg : Cfg) : List Bytes := cfg.rh.getD [] ++ cfg.more.getD []

/-- "its domain matches the configured recipient-host lists (exact or dot-suffix wildcard,
case-insensitive, including the compiled extra list, addresses without @ allowed)"; without a
rcpthosts file every address is allowed (qmail-smtpd.8) -/
def MatchSpec (cfg : Cfg) (a : Bytes) : Prop :=
  cfg.rh = none ∨ domainOf a = none ∨ ∃ d, domainOf a = some d ∧ ∃ e ∈ hostEntries cfg, covers e d

def matchSpecB (cfg : Cfg) (a : Bytes) : Bool :=
  cfg.rh.isNone ||
  (match domainOf a with
   | none => true
   | some d => (hostEntries cfg).any (fun e => coversB e d))

/-- the morercpthosts keys are lower-case (qmail-newmrh lower-cases every line) -/
def MoreLower (cfg : Cfg) : Prop := ∀ ks, cfg.more = some ks → ∀ k ∈ ks, lower k = k

/-! ### bad senders -/

/-- "the sender is on the bad-sender list": an entry equals the address, or equals `@domain`,
ignoring case (qmail-smtpd.8) -/
def BadSender (cfg : Cfg) (a : Bytes) : Prop :=
  ∃ es, cfg.bmf = some es ∧ ∃ e ∈ es, lower e = lower a ∨ ∃ d, domainOf a = some d ∧ lower e = lower (AT :: d)

def badSenderB (cfg : Cfg) (a : Bytes) : Bool :=
  match cfg.bmf with
  | none => false
  | some es => es.any (fun e => lower e == lower a ||
      (match domainOf a with | some d => lower e == lower (AT :: d) | none => false))


/-! ### local IP literals (independent of `scanBracket`: split the bracket's inside at the dots) -/

def allDigits (s : Bytes) : Bool := !s.isEmpty && s.all isDigit

/-- `[a.b.c.d]` with four non-empty digit strings; each value is taken modulo 256 (ip.c stores an
`unsigned long` into an `unsigned char`) -/
def ipLiteral (d : Bytes) : Option Ip :=
  match d with
  | [] => none
  | c :: r =>
    if c = LBR ∧ r.getLast? = some RBR then
      match splitOnB DOT r.dropLast with
      | [a, b, c, e] =>
        if allDigits a && allDigits b && allDigits c && allDigits e then
          some (UInt8.ofNat (decVal a % 256), UInt8.ofNat (decVal b % 256), UInt8.ofNat (decVal c % 256), UInt8.ofNat (decVal e % 256))
        else none
      | _ => none
    else none

/-- the text `[d1.d2.d3.d4]` -/
def ipLit (d1 d2 d3 d4 : Bytes) : Bytes := LBR :: (d1 ++ DOT :: (d2 ++ DOT :: (d3 ++ DOT :: (d4 ++ [RBR]))))

/-- "local IP-literal domains are replaced": the address after replacement -/
def lipSpec (cfg : Cfg) (a : Bytes) : Bytes :=
  match cfg.liphost, splitLastAt a with
  | some h, some (p, d) =>
    (match ipLiteral d with
     | some ip => if cfg.ipme.contains ip then p ++ h else a
     | none => a)
  | _, _ => a

/-! ### traces -/

/-- "HELO, EHLO, RSET, a new MAIL or a completed DATA discard earlier transaction state" -/
def discards (x : Ev) : Bool :=
  match x.1 with
  | .helo | .ehlo | .rset => true
  | .mail _ => x.2.replies == [.mailok]
  | .data _ => x.2.replies != [.wantmail] && x.2.replies != [.wantrcpt]
  | _ => false

def relaySuffix (cfg : Cfg) : Bytes := cfg.relay.getD []

/-- the stored form of a recipient answered 250 -/
def acceptedRcpt (cfg : Cfg) (x : Ev) : Option Bytes :=
  match x.1 with
  | .rcpt arg => if x.2.replies = [.rcptok] then (addrparse cfg arg).map (· ++ relaySuffix cfg) else none
  | _ => none

/-- `pre` (everything before the current command) ends in an open transaction: a MAIL answered 250
with parsed sender `snd`, followed by `mid` in which nothing discards it -/
def OpenTxn (cfg : Cfg) (pre : List Ev) (snd : Bytes) (mid : List Ev) : Prop :=
  ∃ pre' a oj, pre = pre' ++ (Cmd.mail a, oj) :: mid ∧ oj.replies = [.mailok] ∧ addrparse cfg a = some snd ∧
    ∀ x ∈ mid, discards x = false

/-- C08 sequencing: the envelope `sub` handed over after `pre` -/
def SubmitOK (cfg : Cfg) (pre : List Ev) (sub : Submit) : Prop :=
  ∃ mid, OpenTxn cfg pre sub.sender mid ∧ sub.rcpts = mid.filterMap (acceptedRcpt cfg) ∧ sub.rcpts ≠ []

/-- the length limit of the property: the address with its final NUL may not exceed 900 bytes.
(A literal on purpose: the model's limit `Gen.ADDRMAX` is regenerated from the source.) -/
def addrLimit : Nat := 900

/-- C08 gating: a RCPT with argument `arg` arriving after `pre` may be answered 250 -/
def GateOK (cfg : Cfg) (pre : List Ev) (arg : Bytes) : Prop :=
  ∃ snd mid adr, OpenTxn cfg pre snd mid ∧ ¬ BadSender cfg snd ∧ addrparse cfg arg = some adr ∧
    adr.length + 1 ≤ addrLimit ∧ (cfg.relay.isSome = true ∨ MatchSpec cfg adr)

/-- last element satisfying `p`, and everything after it -/
def lastSeg {α : Type} (p : α → Bool) : List α → Option (α × List α)
  | [] => none
  | x :: r =>
    match lastSeg p r with
    | some res => some res
    | none => if p x then some (x, r) else none

/-- the open transaction at the end of `pre`, if any: (sender, mid) -/
def openTxnB (cfg : Cfg) (pre : List Ev) : Option (Bytes × List Ev) :=
  match lastSeg discards pre with
  | some ((.mail a, oj), mid) =>
    if oj.replies = [.mailok] then (addrparse cfg a).map (fun s => (s, mid)) else none
  | _ => none

def submitOKB (cfg : Cfg) (pre : List Ev) (sub : Submit) : Bool :=
  match openTxnB cfg pre with
  | some (snd, mid) => snd == sub.sender && sub.rcpts == mid.filterMap (acceptedRcpt cfg) && !sub.rcpts.isEmpty
  | none => false

def gateOKB (cfg : Cfg) (pre : List Ev) (arg : Bytes) : Bool :=
  match openTxnB cfg pre with
  | some (snd, _) =>
    !badSenderB cfg snd &&
    (match addrparse cfg arg with
     | some adr => decide (adr.length + 1 ≤ addrLimit) && (cfg.relay.isSome || matchSpecB cfg adr)
     | none => false)
  | none => false

/-- one event checked against what precedes it -/
def evOKB (cfg : Cfg) (pre : List Ev) (x : Ev) : Bool :=
  (match x.2.submit with
   | some sub => submitOKB cfg pre sub
   | none => true) &&
  (match x.1 with
   | .rcpt arg => (x.2.replies == [.rcptok]) == gateOKB cfg pre arg
   | _ => true)

/-- the whole-trace oracle: index of the first offending event -/
def traceBad (cfg : Cfg) : List Ev → List Ev → Nat → Option Nat
  | _, [], _ => none
  | pre, x :: r, i => if evOKB cfg pre x then traceBad cfg (pre ++ [x]) r (i + 1) else some i

end Nq.SmtpPolicy
