/-
  Nq.Spec.Hidden — "no line of this header text can be taken for a hidden field by an independent reader"
  (C17, Bcc removal on the final TEXT).  The reader is `Nq.Spec.Addr.fieldNames` (split at LF, header = lines up
  to the first empty line / first line that is neither `name:` nor a continuation).
-/
import Nq.Spec.Addr
import Nq.Inject

namespace Nq.Spec.Hidden
open Nq Nq.Spec.Addr Nq.Token822 Nq.Inject

/-- continuation line (LF already removed) -/
def isContLine (l : Bytes) : Bool := l.head? == some SP || l.head? == some TAB

/-- a line the reader cannot take for the start of a Bcc / Resent-Bcc / Return-Path / Content-Length field -/
def lineSafe (l : Bytes) : Bool := isContLine l || !nameIn hiddenFields l

/-- a piece of header text: empty, or complete lines (it ends in LF) each of which is safe -/
def pieceSafe (p : Bytes) : Bool := p.isEmpty || (p.getLast? == some LF && (splitLF p).all lineSafe)

/-! ### token-level conditions under which what `token822_unparse` writes is a safe piece -/

/-- no LF inside the token -/
def lfFree : Tok → Bool
  | .atom s | .quote s | .literal s | .comment s => !s.contains LF
  | _ => true

/-- `name : tokens`, no token holds a LF, and the name as written (with `pre` in front, e.g. `Resent-`) is not hidden -/
def toksSafe (pre : Bytes) (ts : List Tok) : Bool :=
  match ts with
  | .atom nm :: .colon :: rest => !nm.contains LF && rest.all lfFree && !nameIn hiddenFields (pre ++ uesc nm ++ [58])
  | _ => false

/-- the field is kept as it is (not parsable / address list refused), or the token list `token822_addrlist` hands to
`token822_unparse` is `toksSafe` -/
def rewrittenOk (c : RwCfg) (h : Bytes) : Bool :=
  match parse h with
  | none => true
  | some ts =>
    let r := addrlist (rwgeneric c) ts
    !r.ok || toksSafe [] r.out

/-- `defaultfrommake` up to the token list handed to the final `token822_unparse` -/
def defaultFromOut (e : Env) (c : RwCfg) : Option (List Tok) :=
  let nc := hasFlag e 'c'
  let utok : Tok := if Quote.quoteNeed e.mailuser then .quote e.mailuser else .atom e.mailuser
  let toks : List Tok := [.atom (str "From"), .colon]
    ++ (match e.fullname with | some n => if !nc then [.quote n, .left] else [] | none => [])
    ++ [utok]
    ++ (match e.mailhost with | some h => [.at, .atom h] | none => [])
    ++ (match e.fullname with | some n => if !nc then [.right] else [.comment n] | none => [])
  let text := unparse Gen.LINELEN toks
  match parse text with
  | none => none
  | some ts =>
    let r := addrlist (rwgeneric c) ts
    if r.ok then some r.out else none

def fromOk (e : Env) (c : RwCfg) : Bool :=
  match defaultFromOut e c with
  | some out => toksSafe [] out && toksSafe (str "Resent-") out
  | none => true

end Nq.Spec.Hidden
