/-
  Nq.Spec.Addr — the declarative side of C17: which domains the round-trip theorems quantify over,
  the documented rewriting of a mailbox (qmail-header(5), qmail-inject(8): default host, default
  domain, plus domain), the shape "word(.word)*@domain", and an independent header-field-name
  matcher.  Used in the theorem statements and, compiled, as the oracle of the driver.
-/
import Nq.Basic
import Nq.Quote
import Nq.Token822
import Nq.SmtpAddr
import Nq.Gen.Hfield

namespace Nq.Spec.Addr
open Nq Nq.Quote Nq.Token822

/-- a domain literal `[...]` whose content has no `]`, no backslash and no `@` -/
def isDomainLiteral (d : Bytes) : Bool :=
  match d with
  | 91 :: r => r.getLast? == some 93 && r.dropLast.all (fun c => c != 93 && c != 92 && c != 64)
  | _ => false

/-- **SaneDomain** (header side): dots and atoms of unquoted-safe bytes (`ok[]`), or one domain literal -/
def saneDomain (d : Bytes) : Bool := d.all okChar || isDomainLiteral d

/-- **SaneDomain** (SMTP side): no `"`, `\`, `>`, `@` (and no LF, which would end the command line) -/
def smtpDomain (d : Bytes) : Bool := d.all (fun c => c != 34 && c != 92 && c != 62 && c != 64 && c != 10)

/-- the domain is a bracketed dotted-decimal address of this host (then qmail-smtpd substitutes localiphost) -/
def isLocalLiteral (cfg : SmtpAddr.Cfg) (d : Bytes) : Bool :=
  cfg.liphost.isSome && (match SmtpAddr.ipBracketAll d with
    | some ip => cfg.ipme.contains ip
    | none => false)

/-- dot-separated pieces of an unquoted local part, as tokens -/
def dotAtomsAux : Bytes → Bytes → List Tok
  | [], cur => if cur.isEmpty then [] else [.atom cur]
  | c :: r, cur =>
    if c = DOT then (if cur.isEmpty then [.dot] else [.atom cur, .dot]) ++ dotAtomsAux r []
    else dotAtomsAux r (cur ++ [c])

def dotAtoms (s : Bytes) : List Tok := dotAtomsAux s []

/-- `word (. word)*` where every word is an atom -/
def isDotAtomToks : List Tok → Bool
  | [.atom _] => true
  | .atom _ :: .dot :: r => isDotAtomToks r
  | _ => false

/-- tokens of a domain: atoms, dots, literals only -/
def isDomainTok : Tok → Bool
  | .atom _ | .dot | .literal _ => true
  | _ => false

/-- split a token list at its first `@` -/
def splitAtTok : List Tok → Option (List Tok × List Tok)
  | [] => none
  | t :: r => if t = .at then some ([], r) else
      match splitAtTok r with
      | some (a, b) => some (t :: a, b)
      | none => none

def isLocalToks (loc : List Tok) : Bool :=
  match loc with
  | [.quote _] => true
  | _ => isDotAtomToks loc

/-- the shape `word(.word)* @ domain` with the local part either one quoted string or a dot-atom -/
def mailboxShape (ts : List Tok) : Bool :=
  match splitAtTok ts with
  | some (loc, dom) => isLocalToks loc && dom.all isDomainTok
  | none => false

/-! ### the documented rewriting -/

structure RwSpec where
  defaulthost : Bytes
  defaultdomain : Bytes
  plusdomain : Bytes
  deriving Repr, DecidableEq

/-- "All host names should be fully qualified": a trailing `+` is replaced by `.plusdomain`; otherwise a
name without dots gets `.defaultdomain`; a domain literal is left alone -/
def qualifyHost (c : RwSpec) (h : Bytes) : Bytes :=
  if h.head? = some 91 then h
  else if h.getLast? = some 43 then h.dropLast ++ [DOT] ++ c.plusdomain
  else if h.contains DOT then h
  else h ++ [DOT] ++ c.defaultdomain

/-- "Every address must include a host name": a lone box name gets the default host -/
def rewriteMailbox (c : RwSpec) (loc : Bytes) (host : Option Bytes) : Bytes :=
  loc ++ [AT] ++ qualifyHost c (host.getD c.defaulthost)

/-! ### independent header-field-name matcher (for the "Bcc is removed" oracle) -/

/-- lower-cased field name of a header line: bytes before the first colon, trailing blanks removed -/
def fieldName (line : Bytes) : Option Bytes :=
  if line.contains 58 then
    some (lower ((line.takeWhile (· != 58)).reverse.dropWhile (fun c => c == SP || c == TAB)).reverse)
  else none

/-- the header lines of a message: up to the first line that is empty or is neither a field start nor
a continuation -/
def headerLines : List Bytes → List Bytes
  | [] => []
  | l :: r =>
    if l.isEmpty then []
    else if l.head? == some SP || l.head? == some TAB then l :: headerLines r
    else match fieldName l with
      | some _ => l :: headerLines r
      | none => []

def splitLF (m : Bytes) : List Bytes :=
  let rec go : Bytes → Bytes → List Bytes
    | [], cur => if cur.isEmpty then [] else [cur]
    | c :: r, cur => if c = LF then cur :: go r [] else go r (cur ++ [c])
  go m []

/-- names of the fields present in the header of `m` -/
def fieldNames (m : Bytes) : List Bytes :=
  (headerLines (splitLF m)).filterMap (fun l => if l.head? == some SP || l.head? == some TAB then none else fieldName l)

/-! ### `hfield_known`, declaratively (audit repair: links the model's `hfieldKnown` to the independent matcher) -/

/-- index (from `i`) of a lower-cased field name in a table of names; 0 = not in the table -/
def knownIndexFrom (n : Bytes) : Nat → List Bytes → Nat
  | _, [] => 0
  | i, t :: ts => if n = t then i else knownIndexFrom n (i + 1) ts

/-- the H_* number of the field whose (independently extracted, lower-cased) name is in hfield.c's table
`hname[]`; 0 for a line without a colon or with an unknown name -/
def knownField (line : Bytes) : Nat :=
  match fieldName line with
  | some n => knownIndexFrom n 1 (Gen.hname.drop 1)
  | none => 0

/-- the names of the fields that must never reach the output header -/
def hiddenFields : List Bytes :=
  [[98, 99, 99], [114, 101, 115, 101, 110, 116, 45, 98, 99, 99], [114, 101, 116, 117, 114, 110, 45, 112, 97, 116, 104],
   [99, 111, 110, 116, 101, 110, 116, 45, 108, 101, 110, 103, 116, 104]]

/-- the names of the fields that feed the envelope: To Cc Bcc Apparently-To / Resent-To Resent-Cc Resent-Bcc -/
def rcptFields : List Bytes := [[116, 111], [99, 99], [98, 99, 99], [97, 112, 112, 97, 114, 101, 110, 116, 108, 121, 45, 116, 111]]
def resentRcptFields : List Bytes :=
  [[114, 101, 115, 101, 110, 116, 45, 116, 111], [114, 101, 115, 101, 110, 116, 45, 99, 99], [114, 101, 115, 101, 110, 116, 45, 98, 99, 99]]

/-- the names of the eight Resent- fields that make a message "resent" -/
def resentFields : List Bytes :=
  [[114, 101, 115, 101, 110, 116, 45, 115, 101, 110, 100, 101, 114], [114, 101, 115, 101, 110, 116, 45, 102, 114, 111, 109],
   [114, 101, 115, 101, 110, 116, 45, 114, 101, 112, 108, 121, 45, 116, 111], [114, 101, 115, 101, 110, 116, 45, 116, 111],
   [114, 101, 115, 101, 110, 116, 45, 99, 99], [114, 101, 115, 101, 110, 116, 45, 98, 99, 99],
   [114, 101, 115, 101, 110, 116, 45, 100, 97, 116, 101], [114, 101, 115, 101, 110, 116, 45, 109, 101, 115, 115, 97, 103, 101, 45, 105, 100]]

/-- the field's own name (independent matcher) is one of `names` -/
def nameIn (names : List Bytes) (line : Bytes) : Bool :=
  match fieldName line with
  | some n => names.contains n
  | none => false

end Nq.Spec.Addr
