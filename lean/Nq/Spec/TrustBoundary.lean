/-
  Nq.Spec.TrustBoundary — the executable predicates of property C18.  They are stated over *observed
  behaviour* (event lists) and over the raw inputs only — not over the models' internals — so the
  driver can evaluate them on what the real C code did (the ORACLE channel), and `Props/C18.lean`
  proves that the models satisfy them for every input.

  Core Lean only.
-/
import Nq.Clean
import Nq.Spawn
import Nq.SendReport

namespace Nq.Spec.TB
open Nq

/-! ## qmail-clean -/
section clean
open Nq.Clean

/-- what the property lets a request remove: only if the request is `foop/<digits>NUL` or
`todo/<digits>NUL`, the message, envelope and todo files of the number `N` the digits spell
(`N` unbounded: no wrap-around) -/
def allowed (req : Bytes) : List Bytes :=
  let body := req.dropLast
  let ds := body.drop 5
  if req.getLast? = some 0 ∧ ds ≠ [] ∧ ds.all isDigit = true then
    if body.take 5 = FOOP then [fmtqfn INTD (decVal ds) false, fmtqfn MESS (decVal ds) true]
    else if body.take 5 = TODO then [fmtqfn INTD (decVal ds) false, fmtqfn TODO (decVal ds) false]
    else []
  else []

/-- what the property lets one run of `cleanuppid()` remove: `pid/<name>` for an entry `<name>` of the
directory whose `stat` succeeded with an access time at least OSSIFIED (36 hours) before `now()` -/
def pidOld (sc : Scan) (p : Bytes) : Bool :=
  match sc.ents with
  | none => false
  | some es => es.any (fun e => p == PIDDIR ++ e.name &&
      (match e.atime with | some t => decide (t + OSSIFIED ≤ sc.now) | none => false))

/-- the unlinks between `opendir("pid")` and `closedir`: each must be an old `pid/` entry of this scan -/
def takePid (sc : Scan) : List Ev → Option (List Ev)
  | .unlink p :: r => if pidOld sc p then takePid sc r else none
  | .cleanupEnd :: r => some r
  | _ => none

/-- an optional `cleanuppid()` window at the head of the trace (it consumes one scan): the scans
left and the rest of the trace; `none` = the window is not what the property allows -/
def takeScan (scans : List Scan) : List Ev → Option (List Scan × List Ev)
  | .cleanup :: r =>
      (match (scans.headD {}).ents with
       | none => some (scans.tail, r)
       | some _ => (takePid (scans.headD {}) r).map (fun rest => (scans.tail, rest)))
  | evs => some (scans, evs)

/-- the events up to and including the first status byte: the paths unlinked, the status, the rest -/
def takeGroup : List Ev → Option (List Bytes × Byte × List Ev)
  | [] => none
  | .unlink p :: r => match takeGroup r with
      | some (ps, s, rest) => some (p :: ps, s, rest)
      | none => none
  | .status s :: r => some ([], s, r)
  | .cleanup :: _ => none
  | .cleanupEnd :: _ => none

/-- one answer per request, in order; a request only removes what it names; a rejected request
removes nothing; before a request (and after the last one) at most one `cleanuppid()` window, which
removes only old `pid/` entries of the directory it was shown; nothing else happens -/
def cleanOK : List Bytes → List Scan → List Ev → Bool
  | [], scans, evs => (match takeScan scans evs with
      | some (_, rest) => rest.isEmpty
      | none => false)
  | q :: qs, scans, evs => match takeScan scans evs with
      | none => false
      | some (scans', evs') => match takeGroup evs' with
        | none => false
        | some (ps, s, rest) =>
            ps.all (fun p => (allowed q).contains p) && (s != stX || ps.isEmpty) && cleanOK qs scans' rest

end clean

/-! ## qmail-lspawn / qmail-rspawn -/
section spawn
open Nq.Spawn

/-- a message file name the spawners may open: decimal digits and '/', not starting with '/',
non-empty, at most 99 bytes -/
def okPath (p : Bytes) : Bool :=
  !p.isEmpty && p.length ≤ 99 && (match p with | c :: _ => isDigit c | [] => false) &&
  p.all (fun c => isDigit c || c == 47)

structure Cmd where
  delnum : Nat
  messid : Bytes   -- without the NULs
  sender : Bytes
  recip : Bytes
  deriving Repr, DecidableEq

/-- cut the stream on descriptor 0 into complete commands: one byte, then three NUL-terminated fields -/
def parseCmds (fuel : Nat) (s : Bytes) : List Cmd :=
  match fuel with
  | 0 => []
  | fuel + 1 =>
    match s with
    | [] => []
    | d :: r =>
      let m := r.takeWhile (· != 0)
      let r1 := r.drop m.length
      match r1 with
      | [] => []
      | _ :: r1 =>
        let sd := r1.takeWhile (· != 0)
        let r2 := r1.drop sd.length
        match r2 with
        | [] => []
        | _ :: r2 =>
          let rc := r2.takeWhile (· != 0)
          let r3 := r2.drop rc.length
          match r3 with
          | [] => []
          | _ :: r3 => ⟨d.toNat, m, sd, rc⟩ :: parseCmds fuel r3

/-- cut the output stream (after the hello byte) into reports `(delnum, body)`; `none` if it ends inside one -/
def parseReports (fuel : Nat) (s : Bytes) : Option (List (Nat × Bytes)) :=
  match fuel with
  | 0 => none
  | fuel + 1 =>
    match s with
    | [] => some []
    | d :: r =>
      let b := r.takeWhile (· != 0)
      match r.drop b.length with
      | [] => none
      | _ :: rest => match parseReports fuel rest with
          | some l => some ((d.toNat, b) :: l)
          | none => none

def isLetter (c : Byte) : Bool := c == 75 || c == 90 || c == 68

def insertSorted (x : Nat) : List Nat → List Nat
  | [] => [x]
  | y :: r => if x ≤ y then x :: y :: r else y :: insertSorted x r
def sortNat (l : List Nat) : List Nat := l.foldr insertSorted []

/-- the open/spawn discipline on an event list: `plan` gives what the file system said about the
k-th opened file; `pend = some (bad, p)` when the previous event was the open of `p` and `bad` says
that `p` was not a regular file of the queue user.  Every opened path is the message id of a
command and is well-formed; a child is created only right after an open, and never after a bad
one, and it is created in the slot, with the sender and with the recipient of a command that names
the file just opened; after a bad open the very next event is a `Z` report for a command naming
that file. -/
def opensGo (cmds : List Cmd) : Option (Bool × Bytes) → List Nat → List Ev → Bool
  | pend, _, [] => (match pend with | some (true, _) => false | _ => true)
  | pend, plan, e :: rest =>
    match e with
    | .openRead p =>
        let bad := plan.headD 0 = 3 ∨ plan.headD 0 = 4 ∨ plan.headD 0 = 7 ∨ plan.headD 0 = 8
        (match pend with | some (true, _) => false | _ => true) &&
        okPath p && cmds.any (fun c => c.messid == p) && opensGo cmds (some (decide bad, p)) plan.tail rest
    | .spawnCall s sd rc _ =>
        (match pend with
          | some (false, p) => cmds.any (fun c => c.messid == p && c.delnum == s && c.sender == sd && c.recip == rc)
          | _ => false) && opensGo cmds none plan rest
    | .report d body =>
        (match pend with
          | some (true, p) => body.head? == some 90 && cmds.any (fun c => c.messid == p && c.delnum == d)
          | _ => true) && opensGo cmds none plan rest
    | .hello _ => opensGo cmds pend plan rest

def opensOK (cmds : List Cmd) (plan : List Nat) (evs : List Ev) : Bool := opensGo cmds none plan evs

def reportsOf : List Ev → List (Nat × Bytes)
  | [] => []
  | .report d b :: r => (d, b) :: reportsOf r
  | _ :: r => reportsOf r

/-- exactly one report per complete command, carrying its delivery number, each a letter K/Z/D
followed by NUL-free text (checked when the run ended normally with every child reaped) -/
def reportsOK (cmds : List Cmd) (reps : List (Nat × Bytes)) : Bool :=
  sortNat (reps.map (·.1)) == sortNat (cmds.map (·.delnum)) &&
  reps.all (fun r => (match r.2 with | l :: _ => isLetter l | [] => false) && !r.2.contains 0)

/-! ### the life of a child and the report written for it (round-4 seeds)

The report for a delivery must reflect how *its* child ended. The harness records, interleaved with the
program's output, what the world knows: `born` (fork() succeeded, a child now runs for the delivery),
`reaped` (wait() handed that child's status to the program) and `call` (the program calls `report()`
for the delivery, with this wait status). The predicate: `report()` is called for a delivery only
after wait() has handed over the status of the child forked for it, and with exactly that status —
never before the child's fate is known, never with the status an earlier child left in the slot; the
report written for the call is `K` only for exit 0 without a signal and `Z` for a child killed by a
signal. So the relayed verdict never upgrades a crash to success, whatever the child wrote, whenever
it closed its output descriptors, in every order of EOF and SIGCHLD. Reports without a call are
`docmd()`'s own (they are the subject of `reportsOK`/`opensOK`). -/

inductive Life
  | born (slot : Nat)
  | reaped (slot wstat : Nat)
  | call (slot wstat : Nat)
  | report (slot : Nat) (body : Bytes)
  deriving Repr

/-- is report `body` allowed for a child that ended with wait status `w`? -/
def statusOK (w : Nat) (body : Bytes) : Bool :=
  (body.head? != some 75 || (w % 128 == 0 && w / 256 == 0)) && (w % 128 == 0 || body.head? == some 90)

def lifeSet (s : Nat) (v : Option Nat) (m : List (Nat × Option Nat)) : List (Nat × Option Nat) :=
  (s, v) :: m.filter (fun e => e.1 != s)

/-- `m` maps a slot to `none` (child running, status unknown to the program) or `some w` (reaped with `w`);
    a slot without entry has no child. `pend` = the `report()` call whose report has not been seen yet -/
def lifeGo : List (Nat × Option Nat) → Option (Nat × Nat) → List Life → Bool
  | _, pend, [] => pend.isNone
  | m, pend, .born s :: r => lifeGo (lifeSet s none m) pend r
  | m, pend, .reaped s w :: r => if (m.lookup s).isSome then lifeGo (lifeSet s (some w) m) pend r else lifeGo m pend r
  | m, pend, .call s w' :: r =>
      pend.isNone &&
      (match m.lookup s with
       | some (some w) => w' == w
       | _ => false) && lifeGo m (some (s, w')) r
  | m, pend, .report s b :: r =>
      match pend with
      | some (s', w) => s' == s && statusOK w b && lifeGo (m.filter (fun e => e.1 != s)) none r
      | none => lifeGo m none r

/-- **`report()` gets the wait status of the delivery's own child, and no crash is relayed as success** -/
def lifeOK (l : List Life) : Bool := lifeGo [] none l

end spawn

/-! ## qmail-send report reader -/
section send
open Nq.SendReport

/-- the (file, position) pairs that were marked done (`open_write p; lseek pos; write …`) -/
def marksOf : List Ev → List (Bytes × Nat)
  | [] => []
  | .mark p pos _ :: r => (p, pos) :: marksOf r
  | _ :: r => marksOf r

def bouncesOf : List Ev → List Bytes
  | [] => []
  | .openAppend p :: r => p :: bouncesOf r
  | _ :: r => bouncesOf r

/-- every write into a recipient file is the single byte 'D', and there is no seek/write outside a mark -/
def writesOK : List Ev → Bool
  | [] => true
  | .mark _ _ b :: r => b == [68] && writesOK r
  | .stray :: _ => false
  | _ :: r => writesOK r

/-- the record of a delivery slot: (recipient file, position) -/
def entryOf (c : Nat) (jobs : List Job) (sl : Slot) : Bytes × Nat :=
  (Clean.fmtqfn (chanaddr c) ((jobs.getD sl.j ⟨0, 0, 0, false, false, 0, 0⟩).id) true, sl.mpos)

/-- the deliveries in flight: (recipient file, position of the recipient's record) -/
def inflight (c : Nat) (jobs : List Job) (slots : List (Option Slot)) : List (Bytes × Nat) :=
  slots.filterMap (fun s => s.map (entryOf c jobs))

def inflightBounce (jobs : List Job) (slots : List (Option Slot)) : List Bytes :=
  slots.filterMap (fun s => match s with
    | some sl => some (Clean.fmtqfn (str "bounce/") ((jobs.getD sl.j ⟨0, 0, 0, false, false, 0, 0⟩).id) false)
    | none => none)

/-- `xs` is a sub-multiset of `pool`: nothing occurs more often in `xs` than in `pool` -/
def subMultiset {α : Type} [BEq α] (xs pool : List α) : Bool := xs.all (fun x => decide (xs.count x ≤ pool.count x))

/-- a record changes only for a delivery that was in flight, at most once per delivery, and only
by writing the single byte 'D' at its position; bounces only for in-flight deliveries; no write
into a recipient file that is not such a mark -/
def sendOK (c : Nat) (jobs : List Job) (slots : List (Option Slot)) (evs : List Ev) : Bool :=
  subMultiset (marksOf evs) (inflight c jobs slots) &&
  subMultiset (bouncesOf evs) (inflightBounce jobs slots) && writesOK evs

/-! #### step-based reference reader: which records a report stream asks to mark

A reader stripped of all effects: bytes accumulate (at most REPORTMAX are kept); a NUL that is not
the first byte ends a report; its first byte names a slot; if that slot is in use the slot is
freed, and the record is to be marked iff the second byte is `K`, `D`, or `Z` for a message that
has exceeded its queue lifetime.  NOTE: this reader deliberately shares the framing decisions of the
model `SendReport.step` (REPORTMAX cut, `n > 1` trigger, slot-table update) — it is the bridge used
in the simulation proof, not an independent specification.  The independent, declarative reference
(`declReports`/`declMarks`/`sendStrictDecl`: the writer's grammar `delnum text NUL`, no buffer, no
REPORTMAX, the slot table never mutated) is in `Nq/Spec/ReportRef.lean`, and
`Lemmas.SendRefL.refMarks_eq_decl` proves that the two agree on every byte stream. -/

structure RefSt where
  rev : Bytes := []
  n : Nat := 0
  slots : List (Option Slot) := []

def refStep (c : Nat) (jobs : List Job) (st : RefSt) (ch : Byte) : RefSt × List (Bytes × Nat) :=
  let st := if st.n < Nq.Gen.REPORTMAX then { st with rev := ch :: st.rev, n := st.n + 1 } else st
  if ch = 0 ∧ st.n > 1 then
    let dl := st.rev.reverse
    let d := (dl.headD 0).toNat
    match st.slots.getD d none with
    | none => ({ st with rev := [], n := 0 }, [])
    | some sl =>
      let jb := jobs.getD sl.j ⟨0, 0, 0, false, false, 0, 0⟩
      let l := dl.getD 1 0
      ({ rev := [], n := 0, slots := st.slots.set d none },
       if l = 75 ∨ l = 68 ∨ (l = 90 ∧ jb.dying) then [entryOf c jobs sl] else [])
  else (st, [])

def refRun (c : Nat) (jobs : List Job) : RefSt → Bytes → List (Bytes × Nat)
  | _, [] => []
  | st, ch :: rest => (refStep c jobs st ch).2 ++ refRun c jobs (refStep c jobs st ch).1 rest

def refMarks (c : Nat) (jobs : List Job) (slots : List (Option Slot)) (stream : Bytes) : List (Bytes × Nat) :=
  refRun c jobs { slots := slots } stream

/-- the files `markdone` tried to open, in order -/
def attemptsOf : List Ev → List Bytes
  | [] => []
  | .mark p _ _ :: r => p :: attemptsOf r
  | .openWriteFail p :: r => p :: attemptsOf r
  | _ :: r => attemptsOf r

/-- the marks are exactly those the stream asks for: same files in the same order (an open_write
that fails loses its mark), each at the position the stream's slot says -/
def sendStrict (c : Nat) (jobs : List Job) (slots : List (Option Slot)) (stream : Bytes) (evs : List Ev) : Bool :=
  attemptsOf evs == (refMarks c jobs slots stream).map (·.1) &&
  (marksOf evs).isSublist (refMarks c jobs slots stream)

/-! #### oversized reports are truncated

What qmail-send accepts from one report is visible in its log: `delivery <n>: success: <text>`,
`… failure: <text>`, `… deferral: <text>` (one line per report, `logsafe` keeps the length of the
text and never emits a newline or a blank).  A report is `delnum letter text NUL`, so a report line
of at most REPORTMAX bytes carries at most REPORTMAX − 2 bytes of text; the only text that may be
longer is the one qmail-send itself extends for a message that has exceeded its queue lifetime
(`Z` rewritten to `D`, last byte of the line replaced by the fixed sentence `DYINGMSG`). -/

/-- "delivery " -/
def DELIVERY : Bytes := [100, 101, 108, 105, 118, 101, 114, 121, 32]

/-- the report text (with the final newline) carried by a log line that starts with "delivery ":
what follows the first ':', one blank, one word and one more blank; `none` for any other line -/
def reportTextOf (line : Bytes) : Option Bytes :=
  if line.take 9 = DELIVERY then
    some ((((line.dropWhile (· != 58)).drop 2).dropWhile (· != 32)).drop 1)
  else none

/-- the longest report text that fits a report line of REPORTMAX bytes -/
def TEXTMAX : Nat := Nq.Gen.REPORTMAX - 2

/-- the sentence appended for a message past its queue lifetime, as it ends a log line -/
def DYINGLOG : Bytes := logsafe DYINGMSG ++ [LF]

/-- `t` = logged report text + newline: at most TEXTMAX bytes of text, or at most TEXTMAX − 1 bytes
followed by the fixed sentence -/
def textFits (t : Bytes) : Bool :=
  decide (t.length ≤ TEXTMAX + 1) ||
  (decide (t.length ≤ TEXTMAX - 1 + DYINGLOG.length) && DYINGLOG.isSuffixOf t)

/-- **oversized reports are truncated**: no log line (one `log` event per line) reports a delivery
with more report text than fits a REPORTMAX-byte report line -/
def truncOK (evs : List Ev) : Bool :=
  evs.all (fun e => match e with
    | .log t => (match reportTextOf t with | some x => textFits x | none => true)
    | _ => true)

end send

end Nq.Spec.TB
