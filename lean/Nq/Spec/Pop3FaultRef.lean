/-
  Nq.Spec.Pop3FaultRef — what the property demands of a POP3 session in which system calls fail (session 4),
  written on top of the RFC 1939 reference `Nq.Pop3Ref` and independently of the model `Nq.Pop3F`
  (nothing here knows about getln, substdio buffers, 1024-byte reads or blast()).

  * the next open fails: RETR/TOP of a valid message answers -ERR, nothing else changes;
  * a read fails while a message is being sent: EITHER the complete, correct multi-line response (the failing
    read was never needed) OR "+OK" followed by a PROPER PREFIX of the correct response that a client cannot take
    for a complete one (`popDecode … = none`: no terminating lone dot), and then nothing more — the connection is
    gone, nothing was deleted or renamed;
  * QUIT with failing unlink/rename: the j-th marked message (in message-number order) whose unlink fails stays,
    one -ERR line per marked message that could not be unlinked (failed or already gone) precedes the +OK;
    the j-th unmarked new/ message whose rename fails stays in new/; everything else as without faults.
-/
import Nq.Spec.Pop3Ref

namespace Nq.Pop3FRef
open Nq Nq.Pop3Ref

/-- RFC 1939 §3 as a server must write it: byte-stuff, CR LF, terminating lone dot -/
def refEncode (ls : List Bytes) : Bytes :=
  ls.flatMap (fun l => (if l.head? = some DOT then [DOT] else []) ++ l ++ [CR, LF]) ++ [DOT, CR, LF]

inductive FEv
  | line (l : Bytes)
  | vanish (p : Bytes)
  | armOpen
  | armRead
  deriving Repr

structure FEnd where
  rs : RSt
  quit : Bool
  died : Bool
  nErr : Nat        -- -ERR lines before QUIT's +OK
  deriving Repr

/-- QUIT's reply: k lines "-ERR …" and one "+OK …", nothing else: returns k -/
def quitLines : Nat → Bytes → Option Nat
  | 0, _ => none
  | f + 1, w => match readLine w with
    | none => none
    | some (l, r) =>
      if isOk l then (if r.isEmpty then some 0 else none)
      else if isErr l then (quitLines f r).map (· + 1) else none

/-- a reply cut short by the death of the server: "+OK …" CR LF, then a proper prefix of the right response that
does not look complete, then the end of the stream -/
def diedReply (ls : List Bytes) (w : Bytes) : Bool :=
  match readLine w with
  | none => false
  | some (l, r) => isOk l && r.isPrefixOf (refEncode ls) && r != refEncode ls && (popDecode r).isNone

def fwalk : RSt → Bool → Bool → List FEv → Bytes → Option FEnd
  | s, _, _, [], w => if w.isEmpty then some ⟨s, false, false, 0⟩ else none
  | s, ao, ar, .vanish p :: rest, w => fwalk { s with gone := p :: s.gone } ao ar rest w
  | s, _, ar, .armOpen :: rest, w => fwalk s true ar rest w
  | s, ao, _, .armRead :: rest, w => fwalk s ao true rest w
  | s, ao, ar, .line l :: rest, w =>
    let (verb, arg) := splitCmd l
    let (s', e) := refStep s verb arg
    -- does the server try to open a message for this command?
    let tries := (verb = [114, 101, 116, 114] ∨ verb = [116, 111, 112]) && (s.valid arg).isSome
    match e with
    | .quit => (quitLines (w.length + 1) w).map (fun k => ⟨s', true, false, k⟩)
    | .multi ls | .multiOrErr ls =>
      if !tries then
        -- LIST / UIDL listings: no file is opened
        match matchReply e w with
        | some w' => fwalk s' ao ar rest w'
        | none => none
      else if ao then
        match matchReply .err w with
        | some w' => fwalk s' false ar rest w'
        | none => none
      else
        match matchReply e w with
        | some w' => fwalk s' false false rest w'
        | none => if ar && diedReply ls w then some ⟨s', false, true, 0⟩ else none
    | _ => match matchReply e w with
      | some w' => fwalk s' (ao && !tries) ar rest w'
      | none => none

/-- rank of index `i` among the indices satisfying `p` (how many smaller ones satisfy it) -/
def rankOf (p : Nat → Bool) (i : Nat) : Nat := ((List.range i).filter p).length

/-- the maildir a QUIT must leave when the unlink calls with ordinals `U` and the rename calls with ordinals `N`
fail (calls in message-number order; rename is attempted for every unmarked message of new/) -/
def expectFsF (s : RSt) (U N : List Nat) (fs : List RMsg) : List RMsg :=
  let isMarked := fun i => s.marked.contains i
  let isNewKept := fun i => !s.marked.contains i && (match s.msgs[i]? with | some m => m.path.take 4 == [110, 101, 119, 47] | none => false)
  let idx := s.msgs.zipIdx
  let removed := (idx.filter (fun (_, i) => isMarked i && !U.contains (rankOf isMarked i))).map (fun (m, _) => m.path)
  let moved := (idx.filter (fun (m, i) => isNewKept i && !N.contains (rankOf isNewKept i) && fs.any (fun f => f.path == m.path))).map (fun (m, _) => m.path)
  let targets := moved.map (fun p => [99, 117, 114, 47] ++ p.drop 4 ++ [58, 50, 44])
  ((fs.filter (fun f => !removed.contains f.path)).filter (fun f => moved.contains f.path || !targets.contains f.path)).map
    (fun f => if moved.contains f.path then { f with path := [99, 117, 114, 47] ++ f.path.drop 4 ++ [58, 50, 44] } else f)

/-- -ERR lines QUIT must write: one per marked message whose unlink fails or whose file is already gone -/
def expectErrs (s : RSt) (U : List Nat) : Nat :=
  let isMarked := fun i => s.marked.contains i
  (s.msgs.zipIdx.filter (fun (m, i) => isMarked i && (U.contains (rankOf isMarked i) || s.gone.contains m.path))).length

/-- the whole-session predicate under faults, for one candidate numbering -/
def faultSessionOk (numbering : List RMsg) (U N : List Nat) (fs0 : List RMsg) (evs : List FEv) (out : Bytes)
    (fsEnd : List RMsg) : Bool :=
  match readLine out with
  | none => false
  | some (g, w) =>
    isOk g &&
    match fwalk { msgs := numbering } false false evs w with
    | none => false
    | some e =>
      let left := fs0.filter (fun f => !e.rs.gone.contains f.path)
      if e.quit then
        let open_ := collisions e.rs left
        e.nErr == expectErrs e.rs U &&
        sortFs ((expectFsF e.rs U N left).filter (fun f => !open_.contains f.path)) ==
          sortFs (fsEnd.filter (fun f => !open_.contains f.path))
      else sortFs left == sortFs fsEnd

end Nq.Pop3FRef
