/-
  Nq.Spec.RemoteVerdict — the declarative side of C09.

  * a line-based reading of the server's byte stream (`splitLines`, `groupReplies`): a reply is a run
    of lines whose 4th byte is `-` followed by one line where it is not; its code is the decimal
    value of the first three bytes of its first line (`decCode`);
  * the property's class rules over an *abstract script* (`AScript`: the reply codes in order, the
    number of recipients, the failing write, the state of the message file): `expect`;
  * the predicates the C09 theorems state, as Boolean functions of (abstract script, observation):
    `kSound`, `rcptOrder`, `verdictOK`;
  * the predicates about the spawner's report: `records`, `firstKZD`, `rspawnSound`, `noUpgrade`.

  The compiled forms of these predicates are the oracle of the C09 driver, evaluated on what the
  implementation printed.
-/
import Nq.Basic
import Nq.RemoteSmtp
import Nq.RspawnReport
import Nq.RemoteConnect

namespace Nq.Spec.RemoteVerdict
open Nq Nq.RemoteSmtp Nq.RspawnReport Nq.RemoteConnect

/-! ### line-based reading of the reply stream -/

/-- complete lines (each including its LF); an unterminated last line is not a line.
    `cur` = the line being read, most recent byte first -/
def splitLines : Bytes → Bytes → List Bytes
  | _, [] => []
  | cur, c :: r => if c = LF then (c :: cur).reverse :: splitLines [] r else splitLines (c :: cur) r

/-- a continuation line has `-` as its 4th byte -/
def isCont (l : Bytes) : Bool := l[3]? == some DASH

/-- group well-formed lines (at least three bytes before the LF) into replies; stops at a malformed line -/
def groupReplies : Bytes → List Bytes → List Bytes
  | _, [] => []
  | cur, l :: ls =>
    if l.length < 4 then []
    else if isCont l then groupReplies (cur ++ l) ls
    else (cur ++ l) :: groupReplies [] ls

def specFrames (s : Bytes) : List Bytes := groupReplies [] (splitLines [] s)

/-- every complete line of the stream has at least three bytes before its LF -/
def wfLines (s : Bytes) : Bool := (splitLines [] s).all (fun l => l.length ≥ 4)

/-- the decimal value of a reply that starts with three ASCII digits. For a multi-line reply this is
    the code of its *first* line, which is what `smtpcode()` uses (`250-x` / `550 y` counts as 250): the
    class rules below are about the replies and codes *as delimited by `smtpcode()`*. -/
def decCode : Bytes → Option Nat
  | a :: b :: c :: _ =>
    if isDigit a && isDigit b && isDigit c then some ((a.toNat - 48) * 100 + (b.toNat - 48) * 10 + (c.toNat - 48))
    else none
  | _ => none

def decCodes : List Bytes → Option (List Nat)
  | [] => some []
  | f :: fs =>
    match decCode f, decCodes fs with
    | some c, some cs => some (c :: cs)
    | _, _ => none

/-- the reply codes by the line-based reading, when every line is well formed and every reply starts
    with three digits -/
def specCodes (stream : Bytes) : Option (List Nat) :=
  if wfLines stream then decCodes (specFrames stream) else none

/-! ### the class rules -/

/-- the server's behaviour as far as the verdict is concerned -/
structure AScript where
  codes : List Nat          -- the code of each complete reply, in order; afterwards reads fail
  n : Nat                   -- number of recipient arguments
  msgErr : Bool             -- the message file cannot be read to its end
  msgPartial : Bool         -- the message does not end with a newline
  wfail : Option WPoint     -- the write that fails, if any

/-- message-level outcome: `lost crit` = "connection died" (temporary), flagged as a possible
    duplicate iff `crit` -/
inductive Verdict | K | Z | D | lost (crit : Bool)
  deriving DecidableEq, Repr

/-- a verdict decided by a reply or by the message file, as opposed to a lost connection -/
def Verdict.decided : Verdict → Bool
  | .lost _ => false
  | _ => true

structure Exp where
  rl : List Byte            -- class letter of each recipient report, in argument order
  v : Verdict

/-! The rules are *strict* about the final QUIT: once a verdict is decided (a 5xx/4xx reply, every
recipient refused, the reply to the final dot) nothing that happens afterwards changes it — in
particular not a failing write of the QUIT command (`wfail = some .quit` plays no role in `expect`).
The code meets this since /repo commit 7dc98ec (`Props.C09.C09_quit_corner`); before, a failing QUIT
write replaced the verdict by "connection died". -/

def expData (s : AScript) (rl : List Byte) (bother : Bool) (cs : List Nat) : Exp :=
  if bother = false then ⟨rl, .D⟩ else
  if s.wfail = some .data then ⟨rl, .lost false⟩ else
  match cs with
  | [] => ⟨rl, .lost false⟩
  | d :: cs =>
    if d ≥ 500 then ⟨rl, .D⟩ else
    if d ≥ 400 then ⟨rl, .Z⟩ else
    if s.wfail = some .body then ⟨rl, .lost false⟩ else
    if s.msgErr then ⟨rl, .Z⟩ else
    if s.msgPartial then ⟨rl, .D⟩ else
    if s.wfail = some .final then ⟨rl, .lost true⟩ else
    match cs with
    | [] => ⟨rl, .lost true⟩
    | f :: _ =>
      if f ≥ 500 then ⟨rl, .D⟩ else
      if f ≥ 400 then ⟨rl, .Z⟩ else
      ⟨rl, .K⟩

/-- `k` recipients still to be offered, the next one has index `i` -/
def expRcpt (s : AScript) : Nat → Nat → List Byte → Bool → List Nat → Exp
  | _, 0, rl, bother, cs => expData s rl bother cs
  | i, k + 1, rl, bother, cs =>
    if s.wfail = some (.rcpt i) then ⟨rl, .lost false⟩ else
    match cs with
    | [] => ⟨rl, .lost false⟩
    | p :: cs =>
      if p ≥ 500 then expRcpt s (i + 1) k (rl ++ [lH]) bother cs
      else if p ≥ 400 then expRcpt s (i + 1) k (rl ++ [lS]) bother cs
      else expRcpt s (i + 1) k (rl ++ [lR]) true cs

/-- the verdict the property requires: the first decisive event wins -/
def expect (s : AScript) : Exp :=
  match s.codes with
  | [] => ⟨[], .lost false⟩
  | g :: cs =>
    if g ≠ 220 then ⟨[], .Z⟩ else
    if s.wfail = some .helo then ⟨[], .lost false⟩ else
    match cs with
    | [] => ⟨[], .lost false⟩
    | h :: cs =>
      if h ≠ 250 then ⟨[], .Z⟩ else
      if s.wfail = some .mail then ⟨[], .lost false⟩ else
      match cs with
      | [] => ⟨[], .lost false⟩
      | m :: cs =>
        if m ≥ 500 then ⟨[], .D⟩ else
        if m ≥ 400 then ⟨[], .Z⟩ else
        expRcpt s 0 s.n [] false cs

/-! ### observations and the predicates of the theorems -/

/-- does `pat` occur in `t`? -/
def hasInfix (pat : Bytes) : Bytes → Bool
  | [] => pat.isEmpty
  | c :: t => pat.isPrefixOf (c :: t) || hasInfix pat t

/-- what is observable of a qmail-remote run -/
structure Obs where
  rl : List Byte      -- first byte of each per-recipient report, in output order
  ml : Byte           -- first byte of the final (message) report
  dup : Bool          -- the final report contains "Possible duplicate! "

def headB (b : Bytes) : Byte := b.headD 0

def obsOf (r : Res) : Obs := ⟨r.rcpt.map headB, headB r.msg, hasInfix dupMark r.msg⟩

def verdictOK (v : Verdict) (o : Obs) : Bool :=
  match v with
  | .K => o.ml == cK
  | .Z => o.ml == cZ
  | .D => o.ml == cD
  | .lost crit => o.ml == cZ && (!crit || o.dup)

def lt400 : Option Nat → Bool
  | some c => c < 400
  | none => false

def clsLetter (c : Nat) : Byte := if c ≥ 500 then lH else if c ≥ 400 then lS else lR

/-- no write up to and including the final flush of the message fails (`rcpt i` with `i ≥ n` names a
    write that does not exist; the QUIT that follows the verdict is not part of it) -/
def wfailUnreached (s : AScript) : Bool :=
  match s.wfail with
  | none => true
  | some (.rcpt i) => decide (s.n ≤ i)
  | some .quit => true
  | some _ => false

/-- **K is sound**: a `K` report implies greeting 220, HELO 250, MAIL/DATA/final-dot replies below
    400, one report per recipient of which at least one is `r`, no failed write up to the final flush,
    message complete -/
def kSound (s : AScript) (o : Obs) : Bool :=
  o.ml != cK ||
  (s.codes[0]? == some 220 && s.codes[1]? == some 250 && lt400 s.codes[2]? &&
   o.rl.length == s.n && o.rl.contains lR &&
   lt400 s.codes[3 + s.n]? && lt400 s.codes[4 + s.n]? &&
   wfailUnreached s && !s.msgErr && !s.msgPartial)

/-- **recipient reports in argument order**: never more reports than recipients; report `i` is the
    class of the reply to the `i`-th RCPT (reply number `3+i`); none before MAIL was accepted -/
def rcptOrder (s : AScript) (o : Obs) : Bool :=
  decide (o.rl.length ≤ s.n) &&
  o.rl == ((s.codes.drop 3).take o.rl.length).map clsLetter &&
  decide (o.rl.length + 3 ≤ s.codes.length ∨ o.rl = []) &&
  (o.rl.isEmpty || (s.codes[0]? == some 220 && s.codes[1]? == some 250 && lt400 s.codes[2]?))

/-! ### the commands the server receives -/

/-- everything up to and including DATA, recipients in argument order -/
def fullCmds (a : Args) : Bytes :=
  lit "HELO " ++ a.helo ++ lit "\r\n" ++ (lit "MAIL FROM:<" ++ a.sender ++ lit ">\r\n") ++
  a.rcpts.flatMap (fun r => lit "RCPT TO:<" ++ r ++ lit ">\r\n") ++ lit "DATA\r\n"

/-- HELO, MAIL and the first `j` RCPT commands -/
def cmdsUpTo (a : Args) (j : Nat) : Bytes :=
  lit "HELO " ++ a.helo ++ lit "\r\n" ++ (lit "MAIL FROM:<" ++ a.sender ++ lit ">\r\n") ++
  (a.rcpts.take j).flatMap (fun r => lit "RCPT TO:<" ++ r ++ lit ">\r\n")

def quitCmd : Bytes := lit "QUIT\r\n"

/-- `w` = what the server received before a possible final QUIT (`q`) -/
def wireOrderW (a : Args) (enc w : Bytes) (o : Obs) (q : Bool) : Bool :=
  w.isPrefixOf (fullCmds a ++ enc) &&
  (o.rl.isEmpty || (cmdsUpTo a o.rl.length).isPrefixOf w) &&
  (o.ml != cK || (q && w == fullCmds a ++ enc))

/-- **commands in order**: what the server received is — apart from a final QUIT — a prefix of
HELO, MAIL, one RCPT per argument in argument order, DATA, the encoded message (`enc`); every
recipient report was preceded by its RCPT command; `K` only after the whole message and QUIT were sent -/
def wireOrder (a : Args) (enc : Bytes) (wire : Bytes) (o : Obs) : Bool :=
  wireOrderW a enc wire o false ||
  (quitCmd.isSuffixOf wire && wireOrderW a enc (wire.take (wire.length - quitCmd.length)) o true)

/-! ### when the QUIT write fails

The property is strict there (`expect` ignores `wfail = some .quit`): the decided verdict stands. For
the commands the server sees this means that a `K` need not be followed by QUIT on the wire when —
and only when — the QUIT write is the one that failed (`qf`). (`verdictOK` and `kSound` need no such
clause. The former lenient predicates `verdictOKq`/`kSoundQ`, which accepted "connection died" in place
of a decided verdict, are gone: that behaviour was finding C09-quit-write-failure, fixed by 7dc98ec.) -/

/-- `qf` = the QUIT write failed: then `K` does not require QUIT on the wire -/
def wireOrderQ (a : Args) (enc : Bytes) (wire : Bytes) (o : Obs) (qf : Bool) : Bool :=
  wireOrder a enc wire o || (qf && wireOrderW a enc wire o true)

/-! ### which failing write is critical — decided from bytes, not from the client's flag

`wire` = what the server had received when the write of `tried` failed; `enc` = the encoded message
with its terminating dot line. The write is *critical* iff it carries the last byte of `enc`: only then
can the server have the complete message although the client saw an error. -/

def critWrite (a : Args) (enc wire tried : Bytes) : Bool :=
  let full := (fullCmds a ++ enc).length
  decide (wire.length < full) && decide (full ≤ wire.length + tried.length)

/-- has the statement `flagcritical = 1` been executed when this write is issued? `blast()` executes it
    after the last body byte was put and before the 3-byte terminator `.CRLF` is put, and a buffer-full
    flush is issued by the put that does not fit and carries everything put before it — so a write has
    `flagcritical = 1` iff with it the server has all of `enc` but (at most) the terminator. This is how
    the driver chooses between `body` and `final` for the *model* (which has no buffering); it is computed
    from bytes, the client's variable is never read. -/
def flagWrite (a : Args) (enc wire tried : Bytes) : Bool :=
  decide ((fullCmds a ++ enc).length ≤ wire.length + tried.length + 3)

/-- relabel a failing write inside `blast()` from a fact computed from its bytes: `flagWrite` for the
    model's script, `critWrite` for the oracle's abstract script -/
def oracleWf (wf : Option WPoint) (crit : Bool) : Option WPoint :=
  match wf with
  | some .body => if crit then some .final else some .body
  | some .final => if crit then some .final else some .body
  | w => w

/-- "does not end with a newline", without the encoder model where that is clear-cut: an empty message
    or one ending in LF is complete, one ending in a byte other than LF/CR is partial; only for a final
    CR (which ends the last line iff it is not itself the byte after a bare CR) `viaEncoder` decides -/
def partialMsg (msg : Bytes) (viaEncoder : Bool) : Bool :=
  match msg.getLast? with
  | none => false
  | some c => if c = LF then false else if c = CR then viaEncoder else true

/-! ### before the connection: lookup trouble, connect trouble, choice of the address -/

/-- is candidate `c` one the loop may try? -/
def eligible (cs : List Cand) (c : Cand) : Bool := decide (c.pref < prefme cs)

/-- does an attempt on `c` give a connection? -/
def connects (c : Cand) : Bool := !c.skip && c.conn == 0

/-- **connect phase**: lookup failures and the absence of any usable address are never `K` (memory and
    soft failures `Z`, hard ones `D`); when the lookup gave addresses of which some are eligible but none
    connects the verdict is `Z` (connect trouble), with no recipient report. -/
def preOK (dnsret : Int) (cs : List Cand) (o : Obs) : Bool :=
  if dnsret = -3 || dnsret = -1 then o.ml == cZ && o.rl.isEmpty
  else if dnsret = -2 then o.ml == cD && o.rl.isEmpty
  else if cs.isEmpty then (if dnsret = 1 then o.ml == cZ else o.ml == cD) && o.rl.isEmpty
  else if !(cs.any (eligible cs)) then o.ml == cD && o.rl.isEmpty
  else if !(cs.any (fun c => eligible cs c && connects c)) then o.ml == cZ && o.rl.isEmpty
  else true

def isAddrByte (c : Byte) : Bool := isDigit c || c == DOT

/-- `pat` occurs in `t` as a whole dotted-decimal address: not preceded by a digit or dot, not followed
    by a digit, nor by a dot and a digit (`10.0.0.1` does not occur in `110.0.0.1` or `10.0.0.15`).
    `prev` = the byte before `t` -/
def hasAddr (pat : Bytes) : Option Byte → Bytes → Bool
  | _, [] => false
  | prev, c :: t =>
    (pat.isPrefixOf (c :: t) && !(prev.any isAddrByte) &&
      (match (c :: t).drop pat.length with
       | [] => true
       | x :: rest => !isDigit x && !(x == DOT && (rest.head?.any isDigit)))) ||
    hasAddr pat (some c) t

/-- when an address connects it is the first eligible one that does, and every report of `smtp()` names
    it (`outhost()`): the output contains its `ip_fmt` as a whole address (oracle only; tied by correspondence) -/
def hostNamed (cs : List Cand) (out : Bytes) : Bool :=
  match cs.find? (fun c => eligible cs c && connects c) with
  | none => true
  | some c => hasAddr c.host none out

/-! ### the spawner's report -/

/-- the NUL-terminated records of qmail-remote's output (an unterminated tail is not a record) -/
def records : Bytes → Bytes → List Bytes
  | _, [] => []
  | cur, c :: r => if c = NUL then cur.reverse :: records [] r else records (c :: cur) r

def isKZD (c : Byte) : Bool := c == cK || c == cZ || c == cD

/-- the first record that starts with K, Z or D -/
def firstKZD (rs : List Bytes) : Option Byte :=
  match rs.find? (fun r => isKZD (headB r)) with
  | some r => some (headB r)
  | none => none

/-- K > Z > D -/
def rank (c : Byte) : Nat := if c = cK then 2 else if c = cZ then 1 else 0

/-- **rspawn K is sound** -/
def rspawnSound (wstat : Nat) (s : Bytes) (rep : Bytes) : Bool :=
  headB rep != cK ||
  (wstat % 128 == 0 && wstat / 256 == 0 && !s.isEmpty && headB s != lH && headB s != lS &&
   firstKZD (records [] s) == some cK)

/-- crash → Z, exit 111 → Z, other non-zero exit → D, no output → Z, otherwise exactly one of K/Z/D -/
def rspawnClasses (wstat : Nat) (s : Bytes) (rep : Bytes) : Bool :=
  if wstat % 128 ≠ 0 then headB rep == cZ
  else if wstat / 256 = 111 then headB rep == cZ
  else if wstat / 256 ≠ 0 then headB rep == cD
  else if s.isEmpty then headB rep == cZ
  else isKZD (headB rep)

/-- **the relayed text comes from the child's output only.** After a normal exit with some output the
    text behind the letter is empty, or the text of the first report (the bytes `s[1..]` up to the first
    NUL), or that followed by the text of the report after it (the bytes behind that NUL up to the next
    NUL or the end of the output, without their first byte) — nothing that is not in `s`, in particular
    nothing from behind its end when the output lacks its final NUL. -/
def relayWithin (s rep : Bytes) : Bool :=
  let t := rep.drop 1
  let s1 := s.drop 1
  t == [] || t == cstr s1 ||
  (match afterNul s1 with
   | some rest => t == cstr s1 ++ (cstr rest).drop 1
   | none => false)

/-- **no upgrade**: the relayed letter is never better than the message result, and never better than
    the recipient's own class when that is `h` (permanent) or `s` (temporary); no K/Z/D record → not K -/
def noUpgrade (s : Bytes) (rep : Bytes) : Bool :=
  let m := firstKZD (records [] s)
  let l := headB rep
  (match m with
   | some c => rank l ≤ rank c || headB s == lS
   | none => l != cK) &&
  (headB s != lH || l == cD) &&
  (headB s != lS || l != cK)

/-! ### end to end: the class of the line the spawner relays, as a function of the server's replies

qmail-rspawn starts qmail-remote with exactly one recipient and folds that recipient's report letter
(`r`/`h`/`s`) with the message verdict (`K`/`Z`/`D`) into the one line it relays to qmail-send. What the
property demands of that line is a function of what the *server* did (`expect`, over the reply codes):
the (first) recipient refused with 4xx → `Z` (retry later — greylisting, 421, 452), refused with 5xx → `D`,
accepted (or never offered: greeting/HELO/MAIL trouble, lost connection) → the class of the message
verdict, a lost connection being temporary. Nothing here mentions `report()`'s variables. -/

/-- the class letter of a message verdict; "connection died" is temporary -/
def vLetter : Verdict → Byte
  | .K => cK
  | .Z => cZ
  | .D => cD
  | .lost _ => cZ

/-- the class the relayed line must have, given what the rules say about the server's replies -/
def relayClass (e : Exp) : Byte :=
  match e.rl.head? with
  | some c => if c = lS then cZ else if c = lH then cD else vLetter e.v
  | none => vLetter e.v

/-- **the relayed verdict is the documented one**: the first byte of the line `report()` relays for
    qmail-remote's output is the class the rules give for the server's replies -/
def relayAsReplied (e : Exp) (rep : Bytes) : Bool := headB rep == relayClass e

end Nq.Spec.RemoteVerdict
