/-
  Nq.Spec.SelQueued — "the earliest due event" of qmail-send, taken over EVERYTHING that is queued
  (property C16: "it never sleeps past its earliest due event").

  `Nq.SelPrep.Snap` records, per priority queue, what the code reads: `prioq_min`, i.e. the ROOT `p[0]` of the
  heap array.  `SelPrep.dueTimes` and `C16_no_spin` therefore speak about the roots.  Whether the root IS the
  earliest entry is a property of prioq.c (C15's heap theorem), and a select loop that trusts a root which is
  not the minimum sleeps past a due message without any of the select-preparation code being wrong.  The
  property is about the messages, not about the array cell, so the oracle of the C16 driver does not use the
  root: `Queued` holds the due times of ALL entries of `pqchan[c]`, `pqfail`, `pqdone` as they sit in the
  arrays (read by harness/c16_snap.h at every select), `queuedDue` is the list of all of them the daemon can
  act on, `pendingQ` says one of them has been reached.  `RootIsMin`/`HeapRoots` is the premise under which the
  code's view and this one coincide (`C16_never_past_any_queued` in Nq/Props/C16.lean); the driver checks the
  premise on the implementation's arrays too (DISAGREE).

  Core Lean only (the driver links this file).
-/
import Nq.SelPrep

namespace Nq.SelPrep

/-- the due times of ALL entries of the four priority queues, in array order -/
structure Queued where
  chans : List (List Int) := []    -- pqchan[c].p[0 .. len-1].dt, c = 0 .. CHANNELS-1
  fail : List Int := []            -- pqfail
  done : List Int := []            -- pqdone
  deriving Repr

/-- the entries of the channel queues the daemon can open a job for: every entry of a channel that has no
pass open (channel lists are matched with `Snap.chans` by position) -/
def chanQueued : List Chan → List (List Int) → List Int
  | c :: cs, l :: ls => (if c.passOpen then [] else l) ++ chanQueued cs ls
  | _, _ => []

/-- every queued due time the daemon can act on, plus the two timers: the all-entries counterpart of
`dueTimes` (same guards: nothing but the cleanup timer once exit was requested, channel queues only while a
job slot is free) -/
def queuedDue (s : Snap) (q : Queued) : List Int :=
  (if s.exitasap then []
   else (if jobAvail s then chanQueued s.chans q.chans else []) ++ q.fail ++ q.done ++ [s.nexttodorun])
  ++ [s.cleanuptime]

/-- something is pending now: immediate work, or SOME queued entry / timer has been reached -/
def pendingQ (s : Snap) (q : Queued) : Bool := immediate s || (queuedDue s q).any (fun t => decide (t ≤ s.recent))

/-- what `prioq_min` promises: failure exactly on an empty queue, otherwise an entry that no entry precedes -/
def RootIsMin (o : Option Int) (l : List Int) : Prop :=
  (o = none ∧ l = []) ∨ ∃ m, o = some m ∧ m ∈ l ∧ ∀ t, t ∈ l → m ≤ t

/-- executable form of `RootIsMin` (driver) -/
def rootIsMin (o : Option Int) (l : List Int) : Bool :=
  match o with
  | none => l.isEmpty
  | some m => l.contains m && l.all (fun t => decide (m ≤ t))

def RootsOk : List Chan → List (List Int) → Prop
  | c :: cs, l :: ls => RootIsMin c.pqMin l ∧ RootsOk cs ls
  | [], [] => True
  | _, _ => False

/-- every `prioq_min` the snapshot recorded is a minimum of the corresponding queue -/
def HeapRoots (s : Snap) (q : Queued) : Prop :=
  RootsOk s.chans q.chans ∧ RootIsMin s.pqfailMin q.fail ∧ RootIsMin s.pqdoneMin q.done

def rootsOk : List Chan → List (List Int) → Bool
  | c :: cs, l :: ls => rootIsMin c.pqMin l && rootsOk cs ls
  | [], [] => true
  | _, _ => false

def heapRoots (s : Snap) (q : Queued) : Bool :=
  rootsOk s.chans q.chans && rootIsMin s.pqfailMin q.fail && rootIsMin s.pqdoneMin q.done

end Nq.SelPrep
