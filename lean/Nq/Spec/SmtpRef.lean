/-
  Nq.Spec.SmtpRef — a reference *conforming SMTP sender* (RFC 5321 §4.5.2), written
  independently of qmail-remote: every LF-terminated line of the message is sent followed by
  CR LF, with a dot prepended if it begins with a dot; then the lone-dot line.
-/
import Nq.Basic

namespace Nq.SmtpRef
open Nq

/-- `atStart` = we are at the beginning of a line -/
def encGo : Bool → Bytes → Bytes
  | _, [] => [DOT, CR, LF]
  | atStart, x :: m =>
    if x = LF then CR :: LF :: encGo true m
    else if atStart ∧ x = DOT then DOT :: DOT :: encGo false m
    else x :: encGo false m

def rfcEncode (m : Bytes) : Bytes := encGo true m

/-- the message consists of complete lines -/
def completeLines (m : Bytes) : Prop := m = [] ∨ m.getLast? = some LF

/-- lines joined with a terminator after each -/
def joinWith (term : Bytes) : List Bytes → Bytes
  | [] => []
  | l :: ls => l ++ term ++ joinWith term ls

end Nq.SmtpRef
