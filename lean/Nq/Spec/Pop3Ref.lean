/-
  Nq.Spec.Pop3Ref — RFC 1939 as qualified by qmail-pop3d(8), written independently of the
  model in Nq/Pop3.lean: the client-side multi-line decoder, the line structure of a stored
  message, and a reference check of a whole session transcript (the property oracle of C19).

  Nothing here mentions scan_ulong's wrap-around, the heap, getln or blast().
-/
import Nq.Basic

namespace Nq.Pop3Ref
open Nq

/-! ### a stored message as lines -/

/-- the lines of a file: every LF ends a line; a non-empty unterminated tail is a last line -/
def lines : Bytes → List Bytes
  | [] => []
  | c :: rest =>
    if c = LF then [] :: lines rest
    else match lines rest with
      | [] => [[c]]
      | l :: ls => (c :: l) :: ls

/-- TOP n: the header lines, the blank line that ends them, and the first n body lines -/
def topLines (n : Nat) : List Bytes → List Bytes
  | [] => []
  | l :: ls => if l = [] then [] :: ls.take n else l :: topLines n ls

/-! ### RFC 1939 §3: multi-line responses as a client reads them -/

/-- remove the stuffed dot -/
def unstuff (l : Bytes) : Bytes :=
  match l with
  | c :: rest => if c = DOT then rest else l
  | [] => []

/-- Read CR LF-terminated lines up to the first line consisting of a lone dot; strip the
leading dot of every other line that begins with one. `cur` is the current line, reversed.
`none`: the response is not terminated, or contains a LF that does not follow a CR.
Result: the lines of the response and the unread remainder of the stream. -/
def decGo : Bytes → Bytes → Option (List Bytes × Bytes)
  | _, [] => none
  | cur, c :: rest =>
    if c = LF then
      match cur with
      | [] => none
      | d :: l' =>
        if d = CR then
          if l'.reverse = [DOT] then some ([], rest)
          else match decGo [] rest with
            | some (ls, r) => some (unstuff l'.reverse :: ls, r)
            | none => none
        else none
    else decGo (c :: cur) rest

def popDecode (w : Bytes) : Option (List Bytes × Bytes) := decGo [] w

/-- one CR LF-terminated status line: (line without CR LF, rest) -/
def readLineGo : Bytes → Bytes → Option (Bytes × Bytes)
  | _, [] => none
  | cur, c :: rest =>
    if c = LF then
      match cur with
      | d :: l' => if d = CR then some (l'.reverse, rest) else none
      | [] => none
    else readLineGo (c :: cur) rest

def readLine (w : Bytes) : Option (Bytes × Bytes) := readLineGo [] w

def isOk (l : Bytes) : Bool := l.take 3 == [43, 79, 75]          -- "+OK"
def isErr (l : Bytes) : Bool := l.take 4 == [45, 69, 82, 82]     -- "-ERR"

/-! ### the reference session -/

/-- a message as the reference sees it -/
structure RMsg where
  path : Bytes
  data : Bytes
  deriving Repr, DecidableEq

/-- the file name below new/ or cur/, up to the first colon: the unique id -/
def uidOfPath (p : Bytes) : Bytes := (p.drop 4).takeWhile (· ≠ 58)

/-- a decimal number: a non-empty digit string, its value unbounded -/
def number? (tok : Bytes) : Option Nat :=
  if tok ≠ [] ∧ tok.all isDigit then some (decVal tok) else none

/-- the leading decimal number of an argument and what follows it -/
def leadNumber (arg : Bytes) : Option Nat × Bytes :=
  (number? (arg.takeWhile isDigit), arg.dropWhile isDigit)

/-- **a message-number argument**: a non-empty digit run that ends the argument or is followed by a
space (TOP's second argument comes after it). "1x", "2abc", "x", "" are not message numbers. -/
def msgArg (arg : Bytes) : Option Nat :=
  match arg.dropWhile isDigit with
  | [] => number? (arg.takeWhile isDigit)
  | c :: _ => if c = SP then number? (arg.takeWhile isDigit) else none

def words (b : Bytes) : List Bytes := (b.splitOn SP).filter (· ≠ [])

def lowerAscii (b : Bytes) : Bytes := b.map (fun c => if 65 ≤ c ∧ c ≤ 90 then c + 32 else c)

/-- a command line as the client sent it (without LF): verb (lower case) and argument text -/
def splitCmd (line : Bytes) : Bytes × Bytes :=
  let l := if line.getLast? = some CR then line.dropLast else line
  (lowerAscii (l.takeWhile (· ≠ SP)), (l.dropWhile (· ≠ SP)).dropWhile (· = SP))

structure RSt where
  msgs : List RMsg            -- the numbering, fixed for the session
  marked : List Nat := []     -- 0-based numbers marked by DELE
  gone : List Bytes := []     -- paths removed by somebody else meanwhile
  modulus : Nat := 0          -- 0: numbers are unbounded (the property). Non-zero is used only to
                              -- classify a failure as "explained by arithmetic modulo 2^64".
  deriving Repr

def RSt.num (s : RSt) (arg : Bytes) : Option Nat :=
  match (leadNumber arg).1 with
  | some v => some (if s.modulus = 0 then v else v % s.modulus)
  | none => none

/-- the message number an argument names (`modulus` as in `num`) -/
def RSt.msgNum (s : RSt) (arg : Bytes) : Option Nat :=
  match msgArg arg with
  | some v => some (if s.modulus = 0 then v else v % s.modulus)
  | none => none

/-- a valid message number: a message-number argument, 1..count, not marked -/
def RSt.valid (s : RSt) (arg : Bytes) : Option Nat :=
  match s.msgNum arg with
  | some v => if 1 ≤ v ∧ v ≤ s.msgs.length ∧ !s.marked.contains (v - 1) then some (v - 1) else none
  | none => none

def listing (s : RSt) (f : RMsg → Bytes) : List Bytes :=
  (s.msgs.zipIdx.filter (fun (_, i) => !s.marked.contains i)).map (fun (m, i) => fmtNat (i + 1) ++ [SP] ++ f m)

/-- what the reply to one command must look like -/
inductive Expect
  | ok                               -- "+OK …"
  | err                              -- "-ERR …"
  | okText (t : Bytes)               -- "+OK " followed by exactly this text
  | okStat (total : Nat)             -- "+OK <count> <total>", count not compared
  | okNum (n : Nat)                  -- "+OK <n>"
  | multi (ls : List Bytes)          -- "+OK …" then this multi-line response
  | multiOrErr (ls : List Bytes)     -- either of the two
  | quit                             -- end of session
  deriving Repr

def sizeText (m : RMsg) : Bytes := fmtNat m.data.length

/-- the reference server: state change and expected reply of one command -/
def refStep (s : RSt) (verb arg : Bytes) : RSt × Expect :=
  if verb = [113, 117, 105, 116] then (s, .quit)
  else if verb = [110, 111, 111, 112] then (s, .ok)
  else if verb = [114, 115, 101, 116] then ({ s with marked := [] }, .ok)
  else if verb = [115, 116, 97, 116] then
    (s, .okStat ((s.msgs.zipIdx.filter (fun (_, i) => !s.marked.contains i)).foldl (fun t (m, _) => t + m.data.length) 0))
  else if verb = [108, 97, 115, 116] then
    -- LAST: the highest message number marked deleted since the last RSET, 0 if none
    (s, .okNum (s.marked.foldl (fun a i => max a (i + 1)) 0))
  else if verb = [100, 101, 108, 101] then
    match s.valid arg with
    | some i => ({ s with marked := i :: s.marked }, .ok)
    | none => (s, .err)
  else if verb = [108, 105, 115, 116] ∨ verb = [117, 105, 100, 108] then
    let f := if verb = [108, 105, 115, 116] then sizeText else (fun m => uidOfPath m.path)
    if arg = [] then (s, .multi (listing s f))
    else match s.valid arg with
      | some i => match s.msgs[i]? with
        | some m => (s, .okText (fmtNat (i + 1) ++ [SP] ++ f m))
        | none => (s, .err)
      | none => (s, .err)
  else if verb = [114, 101, 116, 114] ∨ verb = [116, 111, 112] then
    match s.valid arg with
    | none => (s, .err)
    | some i => match s.msgs[i]? with
      | none => (s, .err)
      | some m =>
        if s.gone.contains m.path then (s, .err)
        else
          let ls := lines m.data
          if verb = [114, 101, 116, 114] then
            -- RETR: the whole message, whatever follows the message number
            (s, .multi (ls ++ [[]]))
          else
            -- TOP: the optional second number says how many body lines are wanted
            let after := ((leadNumber arg).2).dropWhile (· = SP)
            match s.num after with
            | some k => (s, .multi (topLines k ls ++ [[]]))
            | none => (s, .multiOrErr (ls ++ [[]]))
  else (s, .err)

/-- does the reply stream begin with a reply of the expected shape? returns the rest -/
def matchReply (e : Expect) (w : Bytes) : Option Bytes :=
  match readLine w with
  | none => none
  | some (l, rest) =>
    match e with
    | .ok => if isOk l then some rest else none
    | .err => if isErr l then some rest else none
    | .okText t => if l = [43, 79, 75, 32] ++ t then some rest else none
    | .okStat total =>
      match words (l.drop 3) with
      | [a, b] => if isOk l ∧ (number? a).isSome ∧ number? b = some total then some rest else none
      | _ => none
    | .okNum n =>
      match words (l.drop 3) with
      | [a] => if isOk l ∧ number? a = some n then some rest else none
      | _ => none
    | .multi ls =>
      if isOk l then
        match popDecode rest with
        | some (got, r) => if got = ls then some r else none
        | none => none
      else none
    | .multiOrErr ls =>
      if isErr l then some rest
      else if isOk l then
        match popDecode rest with
        | some (got, r) => if got = ls then some r else none
        | none => none
      else none
    | .quit => none

/-- only complete status lines follow; `strict`: exactly one, and it is +OK -/
def matchQuit (strict : Bool) (w : Bytes) : Bool :=
  match readLine w with
  | none => false
  | some (l, rest) =>
    if strict then isOk l && rest.isEmpty
    else
      -- a marked message had been removed by somebody else: error lines may precede the last status
      let rec go : Nat → Bytes → Bool
        | 0, _ => false
        | f + 1, w => if w.isEmpty then true else match readLine w with
          | some (l, r) => (isOk l || isErr l) && go f r
          | none => false
      (isOk l || isErr l) && go rest.length rest

/-- the maildir a finished session must leave behind, as (path, data), unordered:
`quit = false` (connection dropped): nothing changes. `quit = true`: marked messages are gone,
unmarked messages found in new/ are in cur/ with ":2," appended, everything else is untouched.
(Where a new name collides with an existing file the result is not compared: `collisions`.) -/
def expectFs (s : RSt) (quit : Bool) (fs : List RMsg) : List RMsg :=
  if !quit then fs
  else
    let markedPaths := (s.msgs.zipIdx.filter (fun (_, i) => s.marked.contains i)).map (fun (m, _) => m.path)
    let keepNew := (s.msgs.zipIdx.filter (fun (m, i) => !s.marked.contains i && m.path.take 4 == [110, 101, 119, 47]
                      && fs.any (fun f => f.path == m.path))).map (fun (m, _) => m.path)
    let targets := keepNew.map (fun p => [99, 117, 114, 47] ++ p.drop 4 ++ [58, 50, 44])
    ((fs.filter (fun f => !markedPaths.contains f.path)).filter (fun f => keepNew.contains f.path || !targets.contains f.path)).map
      (fun f => if keepNew.contains f.path then { f with path := [99, 117, 114, 47] ++ f.path.drop 4 ++ [58, 50, 44] } else f)

/-- **Names for which the outcome of QUIT is left open.** maildir(5) makes the part of a file name before
":2," unique. If nevertheless an unmarked message `new/x` is to be renamed while a file `cur/x:2,` exists,
rename(2) replaces that file; the reference neither demands nor forbids this: both names are taken out of
the comparison of the final maildir. (On maildirs that respect maildir(5) this list is empty.) -/
def collisions (s : RSt) (fs : List RMsg) : List Bytes :=
  let keepNew := (s.msgs.zipIdx.filter (fun (m, i) => !s.marked.contains i && m.path.take 4 == [110, 101, 119, 47]
                    && fs.any (fun f => f.path == m.path))).map (fun (m, _) => m.path)
  (keepNew.filter (fun p => fs.any (fun f => f.path == [99, 117, 114, 47] ++ p.drop 4 ++ [58, 50, 44]))).flatMap
    (fun p => [p, [99, 117, 114, 47] ++ p.drop 4 ++ [58, 50, 44]])

/-- a session event as the reference sees it -/
inductive REv
  | line (l : Bytes)       -- a complete command line (without LF)
  | vanish (p : Bytes)
  deriving Repr

/-- Walk the transcript: `w` = everything the server wrote after the greeting. Returns the state
at the end and whether QUIT was reached, or `none` if some reply is not what RFC 1939 requires. -/
def walk : RSt → List REv → Bytes → Option (RSt × Bool)
  | s, [], w => if w.isEmpty then some (s, false) else none
  | s, .vanish p :: rest, w => walk { s with gone := p :: s.gone } rest w
  | s, .line l :: rest, w =>
    let (verb, arg) := splitCmd l
    let (s', e) := refStep s verb arg
    match e with
    | .quit =>
      let lostMarked := (s.msgs.zipIdx.any (fun (m, i) => s.marked.contains i && s.gone.contains m.path))
      if matchQuit (!lostMarked) w then some (s', true) else none
    | _ => match matchReply e w with
      | some w' => walk s' rest w'
      | none => none

def sortFs (fs : List RMsg) : List RMsg :=
  (fs.toArray.qsort (fun a b => a.path < b.path)).toList

/-- the whole-session predicate for one candidate numbering -/
def sessionOk (numbering : List RMsg) (fs0 : List RMsg) (evs : List REv) (out : Bytes) (fsEnd : List RMsg)
    (modulus : Nat := 0) : Bool :=
  match readLine out with
  | none => false
  | some (g, w) =>
    isOk g &&
    match walk { msgs := numbering, modulus := modulus } evs w with
    | none => false
    | some (s, quit) =>
      let gone := fs0.filter (fun f => !s.gone.contains f.path)
      let open_ := if quit then collisions s gone else []
      sortFs ((expectFs s quit gone).filter (fun f => !open_.contains f.path)) ==
        sortFs (fsEnd.filter (fun f => !open_.contains f.path))

/-- all orderings of `l` that are sorted by `key` (ties in every order) -/
def insertAll (x : α) : List α → List (List α)
  | [] => [[x]]
  | y :: ys => (x :: y :: ys) :: (insertAll x ys).map (y :: ·)

def perms : List α → List (List α)
  | [] => [[]]
  | x :: xs => (perms xs).flatMap (insertAll x)

def sortedBy (key : α → Nat) : List α → Bool
  | [] => true
  | [_] => true
  | a :: b :: rest => key a ≤ key b && sortedBy key (b :: rest)

/-! ### qmail-popup: before authentication -/

/-- the reference for the pre-authentication dialogue. Input: command lines; `greet` = the
timestamp between "<" and ">" the server itself announced. Result: expected reply kinds, and the
bytes the checker must receive on descriptor 3 (`none`: it must not be started). -/
inductive PExpect
  | ok | err | auth (fd3 : Bytes) | quit
  deriving Repr

structure PRef where
  user : Option Bytes := none

def prefStep (greet : Bytes) (s : PRef) (verb arg : Bytes) : PRef × PExpect :=
  if verb = [117, 115, 101, 114] then
    if arg = [] then (s, .err) else ({ user := some arg }, .ok)
  else if verb = [112, 97, 115, 115] then
    match s.user with
    | none => (s, .err)
    | some u => if arg = [] then (s, .err) else (s, .auth (u ++ [0] ++ arg ++ [0] ++ [60] ++ greet ++ [62, 0]))
  else if verb = [97, 112, 111, 112] then
    match arg.idxOf? SP with
    | none => (s, .err)
    | some i => (s, .auth (arg.take i ++ [0] ++ arg.drop (i + 1) ++ [0] ++ [60] ++ greet ++ [62, 0]))
  else if verb = [113, 117, 105, 116] then (s, .quit)
  else if verb = [110, 111, 111, 112] then (s, .ok)
  else (s, .err)

/-- `childOk`: the subprogram exited 0. Returns false if the transcript is not as required. -/
def pwalk (greet : Bytes) (childOk : Bool) : PRef → List Bytes → Bytes → Option Bytes → Bool
  | _, [], w, fd3 => w.isEmpty && fd3.isNone
  | s, l :: rest, w, fd3 =>
    let (verb, arg) := splitCmd l
    let (s', e) := prefStep greet s verb arg
    match e with
    | .ok => match readLine w with
      | some (r, w') => isOk r && pwalk greet childOk s' rest w' fd3
      | none => false
    | .err => match readLine w with
      | some (r, w') => isErr r && pwalk greet childOk s' rest w' fd3
      | none => false
    | .quit => match readLine w with
      | some (r, w') => isOk r && w'.isEmpty && fd3.isNone
      | none => false
    | .auth expected =>
      fd3 == some expected &&
      (if childOk then w.isEmpty else match readLine w with
        | some (r, w') => isErr r && w'.isEmpty
        | none => false)

def popupOk (host : Bytes) (lines : List Bytes) (childOk : Bool) (out : Bytes) (fd3 : Option Bytes) : Bool :=
  match readLine out with
  | none => false
  | some (g, w) =>
    -- "+OK <pid.time@host>"
    isOk g && g.take 5 == [43, 79, 75, 32, 60] && g.getLast? == some 62 &&
    (let ts := (g.drop 5).dropLast
     ts.drop (ts.length - host.length) == host && ts.contains AT &&
     pwalk ts childOk {} lines w fd3)

end Nq.Pop3Ref
