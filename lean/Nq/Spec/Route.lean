/-
  Nq.Route — the *documented* routing rules (qmail-send(8) CONTROL FILES, addresses(5), qmail-control(5)),
  written independently of the C control flow. This is the right-hand side of `C10_spec` and,
  compiled, the oracle of `drv_c10`.

    * "The domain part is everything after the final @. The local part is everything before."
    * "an envelope recipient address without an @ … appends @envnoathost"
    * "If domain is listed in percenthack, any address of the form user%fqdn@domain is rewritten as
       user@fqdn. user may contain %, so the percent hack may be applied repeatedly. qmail-send
       handles percenthack before locals."
    * "user@domain is considered local if domain is listed in locals."
    * virtualdomains: "user@domain:prepend" (virtual user), "domain:prepend", wildcards ".fax:…",
      ".nowhere.mil:…", catch-all ":…"; "converts it to prepend-user@domain and treats it as local";
      "an empty prepend means that domain is not a virtual domain"; "handles virtualdomains after
      locals: if a domain is listed in locals, virtualdomains does not apply."
    * "The domain part of an address is interpreted without regard to case."
    * VERP: "pre@host-@[] … rewrite as prerecip=domain@host for deliveries to recip@domain."

  Reading chosen where the documents leave room: the percent hack is a rule on the *pair*
  (local part, domain): (user%fqdn, domain) ↦ (user, fqdn), the last % being the separator; its
  repetition continues from that pair (the new domain is `fqdn` as a whole). Only after the percent
  hack is the address re-read as a string whose domain part is what follows the final @. The two
  readings differ only when `fqdn` itself contains an @ (see `Props/C10.lean`, `C10_pct_string`).
-/
import Nq.Rewrite

namespace Nq.Route
open Nq Nq.Rewrite

/-- split at the **last** occurrence of `c`: (everything before, everything after) -/
def splitLast (c : Byte) : Bytes → Option (Bytes × Bytes)
  | [] => none
  | x :: r =>
    match splitLast c r with
    | some p => some (x :: p.1, p.2)
    | none => if x = c then some ([], r) else none

/-- `d` is listed in a control file (ignoring ASCII case) -/
def listed (es : List Ent) (d : Bytes) : Bool := es.any (fun e => lower e.key == lower d)

/-- the entry for key `k` of a control file without repeated keys (ignoring ASCII case) -/
def entryFor (es : List Ent) (k : Bytes) : Option Bytes :=
  match es.find? (fun e => lower e.key == lower k) with
  | some e => some e.val
  | none => none

/-- no key is listed twice (the stated domain of the property) -/
def noDupKeys : List Ent → Bool
  | [] => true
  | e :: r => !(listed r e.key) && noDupKeys r

/-- percent hack, repeated: `(user%fqdn, domain) ↦ (user, fqdn)` while the domain is listed.
Returns the reassembled address `local@domain`. -/
def pctFix (ph : List Ent) : Nat → Bytes → Bytes → Bytes
  | 0, l, d => l ++ AT :: d
  | n + 1, l, d =>
    if listed ph d then
      match splitLast PCT l with
      | some p => pctFix ph n p.1 p.2
      | none => l ++ AT :: d
    else l ++ AT :: d

/-- `.b.c`-style wildcard keys for a domain, longest first -/
def dotSuffixes : Bytes → List Bytes
  | [] => []
  | c :: r => if c = DOT then (c :: r) :: dotSuffixes r else dotSuffixes r

/-- virtualdomains keys that apply to an address, most specific first:
full address, domain, dot-suffix wildcards (longest first), catch-all -/
def candidates (addr dom : Bytes) : List Bytes := addr :: dom :: (dotSuffixes dom ++ [[]])

def firstHit (vd : List Ent) : List Bytes → Option Bytes
  | [] => none
  | k :: ks => match entryFor vd k with
    | some t => some t
    | none => firstHit vd ks

def domainOf (addr : Bytes) : Bytes :=
  match splitLast AT addr with
  | some p => p.2
  | none => []

def routeSpec (c : Cfg) (r : Bytes) : Routed :=
  let addr := match splitLast AT r with
    | some p => pctFix c.ph (p.1.length + 1) p.1 p.2
    | none => pctFix c.ph (r.length + 1) r c.env
  let dom := domainOf addr
  if listed c.locals dom then ⟨.loc, [], addr⟩
  else match firstHit c.vdoms (candidates addr dom) with
    | some t => if t = [] then ⟨.rem, [], addr⟩ else ⟨.loc, t, addr⟩
    | none => ⟨.rem, [], addr⟩

/-! ### the other reading of "repeatedly": re-read the whole string after every step -/

/-- percent hack on the address *string*: the domain is re-read as what follows the final @ after
every step. Returns the address. -/
def pctString (ph : List Ent) : Nat → Bytes → Bytes
  | 0, a => a
  | n + 1, a =>
    match splitLast AT a with
    | some p =>
      if listed ph p.2 then
        match splitLast PCT p.1 with
        | some q => pctString ph n (q.1 ++ AT :: q.2)
        | none => a
      else a
    | none => a

/-! ### VERP -/

def verpSpec (sender recip : Bytes) : Bytes :=
  if sender.length ≥ 4 ∧ sender.drop (sender.length - 4) = VERPSUFFIX then
    match splitLast AT (sender.take (sender.length - 4)), splitLast AT recip with
    | some p, some q => p.1 ++ q.1 ++ EQS :: q.2 ++ AT :: p.2
    | _, _ => sender
  else sender

/-! ### control files as documented (qmail-control(5)): one entry per line, trailing spaces and
tabs allowed, `#` comments (and empty lines) ignored. For files without NUL bytes. -/

def linesOf (s : Bytes) : List Bytes :=
  s.foldr (fun c acc => if c = LF then [] :: acc else
    match acc with
    | l :: r => (c :: l) :: r
    | [] => [[c]]) [[]]

def rstrip (l : Bytes) : Bytes := (l.reverse.dropWhile (fun c => c == SP || c == TAB)).reverse

/-- a line that is an entry: not empty, not a `#` comment -/
def isEntryLine (l : Bytes) : Bool :=
  match l with
  | [] => false
  | c :: _ => c != HASHC

def specLines (s : Bytes) : List Bytes := ((linesOf s).map rstrip).filter isEntryLine

def specPlain (l : Bytes) : Ent := ⟨l, []⟩

/-- `key:prepend` — split at the first colon; a line without colon is not an entry -/
def specVdom (l : Bytes) : Option Ent :=
  match l.dropWhile (· != COLON) with
  | _ :: v => some ⟨l.takeWhile (· != COLON), v⟩
  | [] => none

def specFirstLine (s : Bytes) : Bytes :=
  match linesOf s with
  | l :: _ => rstrip l
  | [] => []

def specLocals (f : Files) : Option (List Ent) :=
  match f.locals with
  | some s => some ((specLines s).map specPlain)
  | none => match f.me with
    | some m => some [specPlain (specFirstLine m)]
    | none => none

def specVdoms (f : Files) : List Ent :=
  match f.vdoms with
  | some s => (specLines s).filterMap specVdom
  | none => []

/-- configuration at start-up; `none` = qmail-send refuses to run -/
def specCfg (f : Files) : Option Cfg :=
  match specLocals f with
  | none => none
  | some l =>
    some { env := match f.env with
             | some e => specFirstLine e
             | none => match f.me with | some m => specFirstLine m | none => ENVDEFAULT,
           ph := match f.ph with | some s => (specLines s).map specPlain | none => [],
           locals := l, vdoms := specVdoms f }

/-- HUP: "it will reread locals and virtualdomains" (the `me` default is the one read at start-up) -/
def specHup (old : Cfg) (f0 f : Files) : Cfg :=
  match specLocals { f with me := f0.me } with
  | some l => { old with locals := l, vdoms := specVdoms f }
  | none => old

/-- expected channel files for a list of recipients -/
def specChan (c : Cfg) (ch : Chan) (rs : List Bytes) : Bytes :=
  (rs.map (routeSpec c)).flatMap (fun r => if r.chan == ch then r.line else [])

def cfgNoDup (c : Cfg) : Bool := noDupKeys c.ph && noDupKeys c.locals && noDupKeys c.vdoms

/-! ### a `todo` file as documented (qmail-queue(8)/INTERNALS: NUL-terminated records `u<uid>`,
`p<pid>`, `F<sender>`, `T<recipient>`; bytes after the last NUL are not a record) -/

/-- a record qmail-send knows: first byte `T`, `u`, `p` or `F` -/
def recOk (r : Bytes) : Bool :=
  match r with
  | t :: _ => t == TEE || t == 117 || t == 112 || t == 70
  | [] => false

/-- the recipient of a `T` record -/
def recipOf (r : Bytes) : Option Bytes :=
  match r with
  | t :: b => if t == TEE then some b else none
  | [] => none

/-- `info/<id>`: the `F` records, each with its NUL -/
def specInfo (recs : List Bytes) : Bytes :=
  (recs.filter (fun r => r.head? == some 70)).flatMap (fun r => r ++ [NUL])

/-- what preprocessing a `todo` file must produce: `none` (the message is left in `todo/`) iff some
record is empty or of an unknown type; otherwise `info` = the `F` records and the two channel files =
the routed recipients of the `T` records, in input order. For **every** byte string. -/
def specTodo (c : Cfg) (todo : Bytes) : Option TodoOut :=
  let recs := chunks todo
  if recs.all recOk then
    let rs := recs.filterMap recipOf
    some ⟨specInfo recs, specChan c .loc rs, specChan c .rem rs⟩
  else none

/-! ### the daemon as documented: "qmail-send … rereads locals and virtualdomains when it receives a
HUP signal" — the state the documents talk about, and the predicate on an observed trace
(`Ev`: control files edited / SIGHUP delivered / main loop passes its top / one message preprocessed
with these outputs) that the driver evaluates on the real daemon's behaviour. -/

def nulFreeB (f : Files) : Bool :=
  [f.me, f.env, f.locals, f.ph, f.vdoms].all (fun o => match o with | some s => !s.contains NUL | none => true)

structure SpecD where
  cfg : Cfg              -- configuration in force
  files : Files          -- control files on disk
  pending : Bool         -- a HUP was received and has not been acted on yet

/-- `none` = outside the stated domain (a control file with a NUL byte was read, or no start) -/
def specStart (f : Files) : Option SpecD :=
  if nulFreeB f then
    match specCfg f with
    | some c => some ⟨c, f, false⟩
    | none => none
  else none

def specStep (f0 : Files) (s : SpecD) : Ev → Option SpecD
  | .edit f => some { s with files := f }
  | .hup => some { s with pending := true }
  | .top =>
    if s.pending then
      if nulFreeB s.files then some { s with cfg := specHup s.cfg f0 s.files, pending := false } else none
    else some s
  | .msg _ _ => some s

/-- the judgement on one event: a preprocessed message has exactly the documented outputs under the
configuration in force (stated for configurations without a repeated virtualdomains key) -/
def specJudge (s : SpecD) : Ev → Bool
  | .msg todo out => !(noDupKeys s.cfg.vdoms) || decide (out = specTodo s.cfg todo)
  | _ => true

/-- the property on a whole observed trace -/
def specTrace (f0 : Files) : Option SpecD → List Ev → Bool
  | none, _ => true
  | some _, [] => true
  | some s, e :: es => specJudge s e && specTrace f0 (specStep f0 s e) es

end Nq.Route
