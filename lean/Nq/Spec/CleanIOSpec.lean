/-
  Nq.Spec.CleanIOSpec — the oracle for qmail-clean with read/write faults (property C18, session 4):
  "no request is acted on twice or half".  Stated over the observed trace (unlinks, `opendir`/`closedir`,
  write attempts with their result) and the exit code, and over the raw inputs only (the requests are the
  complete NUL-terminated lines among the bytes the `read()` calls returned before end of file / the first
  read error).  Core Lean only (linked into the driver).
-/
import Nq.CleanIO
import Nq.Spec.TrustBoundary

namespace Nq.Spec.TB
open Nq Nq.Clean Nq.CleanIO

/-- the write attempt that follows an interrupted `write()` of `b` is again for `b` -/
def headAnswers (b : Byte) : List IOEv → Bool
  | .wintr c :: _ => b == c
  | .ev (.status c) :: _ => b == c
  | .wfail c :: _ => b == c
  | _ => false

/-- retry discipline of `respond`: after EINTR the same byte is tried again at once (no other event in
between); a write that failed for good is the last thing the program did -/
def attemptsOK : List IOEv → Bool
  | [] => true
  | .ev _ :: r => attemptsOK r
  | .wintr b :: r => headAnswers b r && attemptsOK r
  | .wfail _ :: r => r.isEmpty

/-- `cleanOK` for a run that was cut right after the status byte of some request (the last event of the
trace): the requests up to that one were handled exactly as `cleanOK` demands, in order, each once, and
nothing happened for the later ones (no request is needed to be present for them) -/
def cleanCut : List Bytes → List Scan → List Ev → Bool
  | [], _, _ => false
  | q :: qs, scans, evs => match takeScan scans evs with
      | none => false
      | some (scans', evs') => match takeGroup evs' with
        | none => false
        | some (ps, s, rest) =>
            ps.all (fun p => (allowed q).contains p) && (s != stX || ps.isEmpty) &&
              (if rest.isEmpty then true else cleanCut qs scans' rest)

/-- the oracle: retry discipline; exit code 0 ⇒ no write failed for good and the delivered events are a
complete `cleanOK` trace (every request answered exactly once, after its own unlinks only); exit code
100 ⇒ the trace ends with the failed write of a byte `b`, and the delivered events followed by that
answer are a `cleanOK` trace cut after a request's answer: the request whose answer was lost was handled
completely and exactly once, every earlier one was answered, no later one was touched.  No other exit
code. -/
def cleanIOOK (reqs : List Bytes) (scans : List Scan) (tr : List IOEv) (code : Nat) : Bool :=
  attemptsOK tr &&
  (match tr.getLast? with
   | some (.wfail b) => code == 100 && cleanCut reqs scans (erase tr ++ [.status b])
   | _ => code == 0 && cleanOK reqs scans (erase tr))

/-- number of `write()` calls that delivered a status byte -/
def delivered (tr : List IOEv) : Nat := (statuses (erase tr)).length

end Nq.Spec.TB
