/-
  Nq.Spec.Sched — the declarative side of C15: the predicates the theorems state, in executable form
  (the driver evaluates them on the implementation's outputs).  Independent of the model in
  Nq/Sched.lean except for the vocabulary (`Elt`, `Chan`).  Core Lean only.
-/
import Nq.Sched

namespace Nq.Spec.Sched
open Nq.Sched

/-- `r` is the integer square root of `x` -/
def IsSqrt (x r : Int) : Prop := 0 ≤ r ∧ r * r ≤ x ∧ x < (r + 1) * (r + 1)

instance (x r : Int) : Decidable (IsSqrt x r) := by unfold IsSqrt; exact inferInstance

/-- the back-off constants as the property states them: 10 for local, 20 for remote -/
def skip : Chan → Int
  | .loc => 10
  | .rem => 20

/-- `t` is the quadratic back-off time of a message born at `birth`, at time `recent` -/
def IsRetry (recent birth : Int) (c : Chan) (t : Int) : Prop :=
  ∃ s : Int, IsSqrt (recent - birth) s ∧ t = birth + (s + skip c) * (s + skip c)

/-- executable form of `IsRetry` (the root is unique, so computing one candidate decides it) -/
def isRetryB (recent birth : Int) (c : Chan) (t : Int) : Bool :=
  let age := recent - birth
  if age < 0 then false
  else
    let s : Int := (Nat.sqrt age.toNat : Nat)
    decide (IsSqrt age s) && decide (t = birth + (s + skip c) * (s + skip c))

/-- every element of the heap array is at least `m` -/
def isMinOf (m : Elt) (l : List Elt) : Bool := l.all fun e => decide (m.dt ≤ e.dt)

/-- remove one occurrence -/
def removeOne (x : Elt) : List Elt → Option (List Elt)
  | [] => none
  | y :: r => if x = y then some r else (removeOne x r).map (y :: ·)

/-- insertion sort by (dt,id), used to compare multisets of entries -/
def sortInsert (x : Elt) : List Elt → List Elt
  | [] => [x]
  | y :: r => if x.dt < y.dt ∨ (x.dt = y.dt ∧ x.id ≤ y.id) then x :: y :: r else y :: sortInsert x r

def msort (l : List Elt) : List Elt :=
  (l.toArray.qsort fun x y => x.dt < y.dt ∨ (x.dt = y.dt ∧ x.id < y.id)).toList

def sameMultiset (a b : List Elt) : Bool := a.length == b.length && msort a == msort b

/-- due times served in non-decreasing order -/
def nondecreasing : List Int → Bool
  | a :: b :: r => decide (a ≤ b) && nondecreasing (b :: r)
  | _ => true

end Nq.Spec.Sched
