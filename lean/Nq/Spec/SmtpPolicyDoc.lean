/-
  Nq.Spec.SmtpPolicyDoc — the *documented* rules for badmailfrom, rcpthosts / morercpthosts and RELAYCLIENT,
  written from qmail-smtpd.8 / qmail-control.9 / qmail-newmrh.8 and not from the code: no `lower`, no
  `splitLastAt`, no `candidates`/`dotTails`, no `cmLookup`.

    badmailfrom  "Unacceptable envelope sender addresses. … A line in badmailfrom may be of the form @host,
                  meaning every address at host."
    rcpthosts    "Allowed RCPT domains. If rcpthosts is supplied, qmail-smtpd will reject any envelope recipient
                  address with a domain not listed in rcpthosts. … rcpthosts may include wildcards:
                  heaven.af.mil / .heaven.af.mil.  Envelope recipient addresses without @ signs are always
                  allowed through."  morercpthosts: "Extra allowed RCPT domains … effectively appended to rcpthosts".
    RELAYCLIENT  "Exception: If the environment variable RELAYCLIENT is set, qmail-smtpd will ignore rcpthosts,
                  and will append the value of RELAYCLIENT to each incoming recipient address."

  Host names compare without regard to ASCII case.  `Nq.Lemmas.SmtpPolicyDoc` proves the model's
  `bmfcheck` / `rcpthostsMatch` / RCPT step equal to these rules; the Boolean forms are evaluated by the
  driver on the implementation's verdicts.  Core Lean only.
-/
import Nq.Spec.SmtpPolicy
import Nq.Spec.CmdLine

namespace Nq.SmtpPolicyDoc
open Nq Nq.SmtpSession Nq.SmtpPolicy Nq.CmdLineSpec

/-- equal ignoring ASCII case: same length, and position by position the same letter -/
def CiEq (s t : Bytes) : Prop :=
  s.length = t.length ∧ ∀ (i : Nat) (x y : Byte), s[i]? = some x → t[i]? = some y → ciByteB x y = true

/-- `d` is the host part of address `a`: what follows its last `@` -/
def HostOf (a d : Bytes) : Prop := ∃ l, a = l ++ AT :: d ∧ AT ∉ d

def hostOfB (a : Bytes) : Option Bytes :=
  if AT ∈ a then some (a.reverse.takeWhile (· != AT)).reverse else none

/-! ### badmailfrom -/

def BadSenderDoc (cfg : Cfg) (a : Bytes) : Prop :=
  ∃ es, cfg.bmf = some es ∧ ∃ e ∈ es, CiEq e a ∨ ∃ d, HostOf a d ∧ CiEq e (AT :: d)

def badSenderDocB (cfg : Cfg) (a : Bytes) : Bool :=
  match cfg.bmf with
  | none => false
  | some es => es.any (fun e => ciEqB e a || (match hostOfB a with | some d => ciEqB e (AT :: d) | none => false))

/-! ### rcpthosts + morercpthosts -/

/-- entry `e` lists host `d`: the host itself, or — an entry that begins with a dot — any host that ends with it -/
def Listed (e d : Bytes) : Prop := CiEq e d ∨ (e.head? = some DOT ∧ ∃ x d', d = x ++ d' ∧ CiEq e d')

def listedB (e d : Bytes) : Bool :=
  ciEqB e d || (e.head? == some DOT && decide (e.length ≤ d.length) && ciEqB e (d.drop (d.length - e.length)))

def hostLists (cfg : Cfg) : List Bytes := cfg.rh.getD [] ++ cfg.more.getD []

/-- the recipient-host rule; an address ending in `@` has an empty host, which nothing lists -/
def RcptHostOK (cfg : Cfg) (a : Bytes) : Prop :=
  cfg.rh = none ∨ AT ∉ a ∨ ∃ d, HostOf a d ∧ d ≠ [] ∧ ∃ e ∈ hostLists cfg, Listed e d

def rcptHostOKB (cfg : Cfg) (a : Bytes) : Bool :=
  cfg.rh.isNone ||
  (match hostOfB a with
   | none => true
   | some d => !d.isEmpty && (hostLists cfg).any (fun e => listedB e d))

/-! ### the RCPT decision, with RELAYCLIENT -/

/-- parsed recipient `a` is accepted and stored as `stored` -/
def RcptDoc (cfg : Cfg) (a stored : Bytes) : Prop :=
  match cfg.relay with
  | some suffix => stored = a ++ suffix
  | none => RcptHostOK cfg a ∧ stored = a

def rcptDocB (cfg : Cfg) (a : Bytes) : Option Bytes :=
  match cfg.relay with
  | some suffix => some (a ++ suffix)
  | none => if rcptHostOKB cfg a then some a else none

/-! ### whole sessions: when a RCPT is answered 250, in terms of the documented rules only -/

/-- a RCPT with argument `arg` arriving after `pre` is answered 250: a transaction is open, its sender is not a
bad sender, the argument parses within the length limit, and the documented rule accepts the parsed address -/
def GateDoc (cfg : Cfg) (pre : List Ev) (arg : Bytes) : Prop :=
  ∃ snd mid adr stored, OpenTxn cfg pre snd mid ∧ ¬ BadSenderDoc cfg snd ∧ addrparse cfg arg = some adr ∧
    adr.length + 1 ≤ addrLimit ∧ RcptDoc cfg adr stored

def gateDocB (cfg : Cfg) (pre : List Ev) (arg : Bytes) : Bool :=
  match openTxnB cfg pre with
  | some (snd, _) =>
    !badSenderDocB cfg snd &&
    (match addrparse cfg arg with
     | some adr => decide (adr.length + 1 ≤ addrLimit) && (rcptDocB cfg adr).isSome
     | none => false)
  | none => false

/-- the oracle: index of the first RCPT whose answer is not the one the documented rules give -/
def rcptDocOKB (cfg : Cfg) (pre : List Ev) (x : Ev) : Bool :=
  match x.1 with
  | .rcpt arg => (x.2.replies == [.rcptok]) == gateDocB cfg pre arg
  | _ => true

def traceBadDoc (cfg : Cfg) : List Ev → List Ev → Nat → Option Nat
  | _, [], _ => none
  | pre, x :: r, i => if rcptDocOKB cfg pre x then traceBadDoc cfg (pre ++ [x]) r (i + 1) else some i

end Nq.SmtpPolicyDoc
