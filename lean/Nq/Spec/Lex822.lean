/-
  Nq.Spec.Lex822 — the declarative side of the C17 envelope theorem, lexical level: what a *legal
  rendering* of a token list is (RFC 822 §3: atoms, quoted strings with quoted-pairs, domain literals,
  nested comments, linear white space and folding between lexical tokens), written as a GENERATOR
  (concrete token → text), independent of `token822_parse`.  Used in the theorem statements
  (`C17_parse_render`, `C17_envelope`) and, compiled, by the driver (R lines: the harness describes a
  rendering piece by piece, the driver rebuilds the text with `render`, checks the hypotheses with
  `CTok.ok`/`sepsOk`, and evaluates the conclusion on what the real `token822_parse` returned).
  Core Lean only.
-/
import Nq.Basic
import Nq.Token822

namespace Nq.Spec.Lex822
open Nq Nq.Token822

/-- text of a quoted string / domain literal body: each byte written plainly or as a quoted-pair `\c` -/
def encQP : List (Byte × Bool) → Bytes
  | [] => []
  | (c, true) :: r => BSL :: c :: encQP r
  | (c, false) :: r => c :: encQP r

/-- one element of a comment body: a byte (plain or quoted-pair), an inner `(`, an inner `)` -/
inductive CEl
  | ch (c : Byte) (esc : Bool)
  | op
  | cl
  deriving DecidableEq, Repr

def encC : List CEl → Bytes
  | [] => []
  | .ch c true :: r => BSL :: c :: encC r
  | .ch c false :: r => c :: encC r
  | .op :: r => LPAR :: encC r
  | .cl :: r => RPAR :: encC r

/-- what `token822_parse` keeps of a comment: its text without the inner parentheses -/
def contentC : List CEl → Bytes
  | [] => []
  | .ch c _ :: r => c :: contentC r
  | .op :: r => contentC r
  | .cl :: r => contentC r

/-- nesting level after the elements, starting at `l` inner levels; `none` = an inner `)` without `(` -/
def balC : Nat → List CEl → Option Nat
  | l, [] => some l
  | l, .ch _ _ :: r => balC l r
  | l, .op :: r => balC (l + 1) r
  | 0, .cl :: _ => none
  | l + 1, .cl :: r => balC l r

def plainOkC : CEl → Bool
  | .ch c false => c != LPAR && c != RPAR && c != BSL
  | _ => true

/-- a lexical token as written -/
inductive CTok
  | special (c : Byte)                        -- one of `. , @ < > : ;`
  | atom (s : Bytes)
  | quote (ps : List (Byte × Bool))           -- `"` … `"`
  | literal (ps : List (Byte × Bool))         -- `[` … `]`
  | comment (els : List CEl)                  -- `(` … `)`, nested
  deriving DecidableEq, Repr

/-- the token it stands for -/
def CTok.tok : CTok → Tok
  | .special c => (specialTok c).getD .dot
  | .atom s => .atom s
  | .quote ps => .quote (ps.map (·.1))
  | .literal ps => .literal (ps.map (·.1))
  | .comment els => .comment (contentC els)

def CTok.text : CTok → Bytes
  | .special c => [c]
  | .atom s => s
  | .quote ps => DQ :: (encQP ps ++ [DQ])
  | .literal ps => LBRK :: (encQP ps ++ [RBRK])
  | .comment els => LPAR :: (encC els ++ [RPAR])

/-- an RFC 822 atom byte as token822.c sees it: `atomok` and not objected to by `atomcheck` -/
def atomByte (c : Byte) : Bool := atomok c && !atomBad c

/-- legality: a special is one of the seven; an atom is a non-empty run of atom bytes; a byte of a quoted
string may be written plainly unless it is `"` or `\`; of a literal unless `]` or `\`; of a comment unless
`(`, `)`, `\`; a comment's inner parentheses are balanced -/
def CTok.ok : CTok → Bool
  | .special c => (specialTok c).isSome
  | .atom s => !s.isEmpty && s.all atomByte
  | .quote ps => ps.all (fun p => p.2 || (p.1 != DQ && p.1 != BSL))
  | .literal ps => ps.all (fun p => p.2 || (p.1 != RBRK && p.1 != BSL))
  | .comment els => els.all plainOkC && balC 0 els == some 0

def CTok.isAtom : CTok → Bool
  | .atom _ => true
  | _ => false

/-- the text: white space, token, white space, token, …, trailing white space -/
def render : List (Bytes × CTok) → Bytes → Bytes
  | [], tr => tr
  | (ws, k) :: r, tr => ws ++ (k.text ++ render r tr)

/-- separators are runs of SP TAB CR LF (so also folds `LF SP`), and two atoms are never adjacent
(`pa` = the previous token was an atom) -/
def sepsOk : Bool → List (Bytes × CTok) → Bool
  | _, [] => true
  | pa, (ws, k) :: r => ws.all isWs && !(pa && k.isAtom && ws.isEmpty) && sepsOk k.isAtom r

/-- a token that survives `token822_unparse` → `token822_parse`: an atom must be a legal atom -/
def cleanTok : Tok → Bool
  | .atom s => !s.isEmpty && s.all atomByte
  | _ => true

/-- the way `token822_unparse` writes a token, as a concrete token -/
def canon : Tok → CTok
  | .atom s => .atom s
  | .quote s => .quote (s.map (fun c => (c, Gen.unparseEsc.contains c)))
  | .literal s => .literal (s.map (fun c => (c, Gen.unparseEsc.contains c)))
  | .comment s => .comment (s.map (fun c => .ch c (Gen.unparseEsc.contains c)))
  | .left => .special 60 | .right => .special 62 | .at => .special 64 | .comma => .special 44
  | .semi => .special 59 | .colon => .special 58 | .dot => .special 46

/-- **an RFC 822 atom character, from the RFC's own grammar** (§3.3): any CHAR (0-127) except the specials
`( ) < > @ , ; : \ " . [ ]`, SPACE and the CTLs (0-31, 127) -/
def rfc822Atom (c : Byte) : Bool :=
  decide (c.toNat > 32) && decide (c.toNat < 127) &&
    !([40, 41, 60, 62, 64, 44, 59, 58, 92, 34, 46, 91, 93] : List Byte).contains c

end Nq.Spec.Lex822
