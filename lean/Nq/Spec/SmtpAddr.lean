/-
  Nq.Spec.SmtpAddr — an independent, declarative reading of what qmail-smtpd accepts as the
  argument of MAIL / RCPT (RFC 821 `<path>` as qmail-smtpd.c `addrparse()` documents it in its
  comments: "partner should go read rfc 821", "strip source route", "copy arg to addr, stripping
  quotes").  Nothing of the model (`Nq.SmtpSession`) is imported.

  * `IsStart`  — where the path starts and which byte ends it: after the first `<` (ended by `>`),
                 else after the first `:` and the blanks that follow it (ended by a blank), else nothing.
  * `IsRoute`  — a path that starts with `@` loses everything up to and including its first `:`
                 (the RFC 821 source route `@a,@b:`), all of it when there is no `:`.
  * `IsUnq`    — the grammar of the rest: a sequence of items
                     item   ::=  c            (c not `\`, `"`, terminator)          value c
                             |   `\` x        (quoted pair, any x)                  value x
                             |   `"` qitem* `"`                                     value of the qitems
                     qitem  ::=  c (c not `\`, `"`)  |  `\` x
                 followed by an ending: end of string | the terminator and anything (ignored) |
                 a lone `\` at the very end (dropped) | an unterminated quoted string (its value counts;
                 a lone `\` at its very end is dropped).  The address is the concatenated values.
  * `IsPath`   — the three composed.

  Each relation comes with an executable function (`specStart`, `specRoute`, `specUnq`: a lexer into
  items, not a copy loop) which the driver uses as the oracle.  `Lemmas/SmtpAddrSpec.lean` proves that the
  relations determine their result, that the functions satisfy them, and that the model satisfies them.
  Core Lean only.
-/
import Nq.Basic

namespace Nq.SmtpAddrSpec
open Nq

@[reducible] def LAB : Byte := 60   -- '<'
@[reducible] def RAB : Byte := 62   -- '>'
@[reducible] def COL : Byte := 58   -- ':'
@[reducible] def BSL : Byte := 92   -- '\\'
@[reducible] def DQ  : Byte := 34   -- '"'

/-! ### start of the path and its terminator -/

def IsStart (arg : Bytes) (term : Byte) (body : Bytes) : Prop :=
  (∃ pre, arg = pre ++ LAB :: body ∧ LAB ∉ pre ∧ term = RAB) ∨
  (LAB ∉ arg ∧ term = SP ∧
    ((COL ∉ arg ∧ body = []) ∨
     (∃ pre k, arg = pre ++ COL :: (List.replicate k SP ++ body) ∧ COL ∉ pre ∧ body.head? ≠ some SP)))

/-- what precedes and what follows the first `b` -/
def splitFirst (b : Byte) : Bytes → Option (Bytes × Bytes)
  | [] => none
  | c :: r =>
    if c = b then some ([], r)
    else match splitFirst b r with
      | some p => some (c :: p.1, p.2)
      | none => none

def specStart (arg : Bytes) : Byte × Bytes :=
  match splitFirst LAB arg with
  | some p => (RAB, p.2)
  | none =>
    match splitFirst COL arg with
    | some p => (SP, p.2.dropWhile (· == SP))
    | none => (SP, [])

/-! ### source route -/

def IsRoute (body rest : Bytes) : Prop :=
  (body.head? ≠ some AT ∧ rest = body) ∨
  (∃ r, body = AT :: r ∧ ((COL ∉ r ∧ rest = []) ∨ ∃ p, r = p ++ COL :: rest ∧ COL ∉ p))

def specRoute (body : Bytes) : Bytes :=
  match body with
  | [] => []
  | c :: r =>
    if c = AT then
      match splitFirst COL r with
      | some p => p.2
      | none => []
    else c :: r

/-! ### quoted strings and quoted pairs -/

inductive QItem | ch (c : Byte) | esc (c : Byte)
  deriving DecidableEq, Repr

inductive Item | ch (c : Byte) | esc (c : Byte) | quoted (qs : List QItem)
  deriving DecidableEq, Repr

inductive Ending | eos | term (rest : Bytes) | bsl | openq (qs : List QItem) (dangling : Bool)
  deriving DecidableEq, Repr

def QItem.text : QItem → Bytes
  | .ch c => [c]
  | .esc c => [BSL, c]

def QItem.val : QItem → Byte
  | .ch c => c
  | .esc c => c

def QItem.ok : QItem → Prop
  | .ch c => c ≠ BSL ∧ c ≠ DQ
  | .esc _ => True

def qtext (qs : List QItem) : Bytes := qs.flatMap QItem.text

def Item.text : Item → Bytes
  | .ch c => [c]
  | .esc c => [BSL, c]
  | .quoted qs => DQ :: (qtext qs ++ [DQ])

def Item.val : Item → Bytes
  | .ch c => [c]
  | .esc c => [c]
  | .quoted qs => qs.map QItem.val

def Item.ok (term : Byte) : Item → Prop
  | .ch c => c ≠ BSL ∧ c ≠ DQ ∧ c ≠ term
  | .esc _ => True
  | .quoted qs => ∀ q ∈ qs, q.ok

def Ending.text (term : Byte) : Ending → Bytes
  | .eos => []
  | .term r => term :: r
  | .bsl => [BSL]
  | .openq qs d => DQ :: (qtext qs ++ (if d then [BSL] else []))

def Ending.val : Ending → Bytes
  | .openq qs _ => qs.map QItem.val
  | _ => []

def Ending.ok : Ending → Prop
  | .openq qs _ => ∀ q ∈ qs, q.ok
  | _ => True

def itemsText (items : List Item) : Bytes := items.flatMap Item.text
def itemsVal (items : List Item) : Bytes := items.flatMap Item.val

/-- `s`, read up to the terminator `term`, denotes the address `a` -/
def IsUnq (term : Byte) (s a : Bytes) : Prop :=
  ∃ (items : List Item) (e : Ending), (∀ i ∈ items, i.ok term) ∧ e.ok ∧ s = itemsText items ++ e.text term ∧ a = itemsVal items ++ e.val

/-! #### the lexer -/

inductive QEnd | closed (rest : Bytes) | opn (dangling : Bool)
  deriving DecidableEq, Repr

def QEnd.text : QEnd → Bytes
  | .closed r => DQ :: r
  | .opn d => if d then [BSL] else []

/-- the inside of a quoted string: its items, and how it ends -/
def lexQ : Bytes → List QItem × QEnd
  | [] => ([], .opn false)
  | c :: r =>
    if c = DQ then ([], .closed r)
    else if c = BSL then
      match r with
      | [] => ([], .opn true)
      | d :: r' => (.esc d :: (lexQ r').1, (lexQ r').2)
    else (.ch c :: (lexQ r).1, (lexQ r).2)

/-- items up to the ending; the first argument bounds the number of items (`s.length` suffices) -/
def lexTop (term : Byte) : Nat → Bytes → List Item × Ending
  | 0, _ => ([], .eos)
  | _ + 1, [] => ([], .eos)
  | n + 1, c :: r =>
    if c = term then ([], .term r)
    else if c = DQ then
      match lexQ r with
      | (qs, .closed r') => (.quoted qs :: (lexTop term n r').1, (lexTop term n r').2)
      | (qs, .opn d) => ([], .openq qs d)
    else if c = BSL then
      match r with
      | [] => ([], .bsl)
      | d :: r' => (.esc d :: (lexTop term n r').1, (lexTop term n r').2)
    else (.ch c :: (lexTop term n r).1, (lexTop term n r).2)

def specUnq (term : Byte) (s : Bytes) : Bytes :=
  itemsVal (lexTop term s.length s).1 ++ (lexTop term s.length s).2.val

/-! ### the path -/

/-- the argument `arg` of MAIL / RCPT denotes the address `a` (before the localiphost rule) -/
def IsPath (arg a : Bytes) : Prop :=
  ∃ term body rest, IsStart arg term body ∧ IsRoute body rest ∧ IsUnq term rest a

def specPath (arg : Bytes) : Bytes :=
  specUnq (specStart arg).1 (specRoute (specStart arg).2)

end Nq.SmtpAddrSpec
