/-
  Nq.Spec.ReportRef — a *declarative* reference for the delivery-report stream that qmail-send reads
  (property C18), stated from the WRITER's side (spawn.c) and from the protocol's intent, not from
  the reader's byte loop:

  * `declReports` — the grammar of the stream as qmail-lspawn/qmail-rspawn produce it:
        stream  ::= report*  tail
        report  ::= delnum  text  NUL        delnum = any one byte (0 included)
        text    ::= (byte ≠ NUL)*            the longest NUL-free run
        tail    ::= ε | delnum text          (unterminated: not a report)
    There is no buffer, no byte-at-a-time accumulator, no REPORTMAX and no "n > 1" test here.
  * `declMarks` — the protocol's intent over the ORIGINAL slot table (never mutated): the first
    report that names a delivery in flight decides that delivery (mark its record iff the status
    letter is `K`, `D`, or `Z` for a message past its queue lifetime); every later report naming
    the same delivery number, and every report naming a delivery that is not in flight, is ignored.

  `Nq.Lemmas.SendRefL.refMarks_eq_decl` proves that the step-based reader `refMarks` of
  `Nq.Spec.TrustBoundary` computes exactly this for every byte stream.

  Core Lean only.
-/
import Nq.Spec.TrustBoundary

namespace Nq.Spec.TB
open Nq Nq.SendReport

section sendDecl

/-- cut a byte stream into complete reports `(delivery number, status letter)`.
The status letter is the first byte of the text (0 when the text is empty).
`fuel = s.length + 1` is always enough (each report consumes at least two bytes). -/
def declReports (fuel : Nat) (s : Bytes) : List (Nat × Byte) :=
  match fuel with
  | 0 => []
  | fuel + 1 =>
    match s with
    | [] => []
    | d :: r =>
      let text := r.takeWhile (· != 0)
      match r.drop text.length with
      | [] => []                                   -- unterminated tail: no report
      | _ :: rest => (d.toNat, text.headD 0) :: declReports fuel rest

/-- which records the reports ask to mark.  `slots` is the table of deliveries in flight when the
stream starts (never changed); `seen` = the delivery numbers that have already been answered. -/
def declMarks (c : Nat) (jobs : List Job) (slots : List (Option Slot)) :
    List Nat → List (Nat × Byte) → List (Bytes × Nat)
  | _, [] => []
  | seen, (d, l) :: rest =>
    if d ∈ seen then declMarks c jobs slots seen rest
    else
      match slots.getD d none with
      | none => declMarks c jobs slots seen rest
      | some sl =>
        (if l = 75 ∨ l = 68 ∨ (l = 90 ∧ (jobs.getD sl.j ⟨0, 0, 0, false, false, 0, 0⟩).dying)
          then [entryOf c jobs sl] else []) ++
        declMarks c jobs slots (d :: seen) rest

def refMarksDecl (c : Nat) (jobs : List Job) (slots : List (Option Slot)) (stream : Bytes) :
    List (Bytes × Nat) :=
  declMarks c jobs slots [] (declReports (stream.length + 1) stream)

/-- `sendStrict` over the declarative reader -/
def sendStrictDecl (c : Nat) (jobs : List Job) (slots : List (Option Slot)) (stream : Bytes)
    (evs : List Ev) : Bool :=
  attemptsOf evs == (refMarksDecl c jobs slots stream).map (·.1) &&
  (marksOf evs).isSublist (refMarksDecl c jobs slots stream)

end sendDecl

end Nq.Spec.TB
