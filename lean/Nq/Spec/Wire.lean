/-
  Nq.Spec.Wire — declarative vocabulary about an SMTP DATA payload on the wire, used by the
  statements of C05/C06 and (compiled) by the property oracles.
-/
import Nq.Basic

namespace Nq.Wire
open Nq

/-- every LF is immediately preceded by CR (`prev` = the byte before the list) -/
def noBareLFGo : Byte → Bytes → Bool
  | _, [] => true
  | prev, c :: rest => (c != LF || prev == CR) && noBareLFGo c rest

def noBareLF (w : Bytes) : Bool := noBareLFGo 0 w

/-- prepend a completed line to a split result -/
def consLine (l : Bytes) (p : List Bytes × Bytes) : List Bytes × Bytes := (l :: p.1, p.2)

/-- Split at every CR LF. `cur` is the current line, reversed. Result: the CR LF-terminated lines
(without their terminator) and the unterminated tail. -/
def splitGo : Bytes → Bytes → List Bytes × Bytes
  | cur, [] => ([], cur.reverse)
  | cur, c :: rest =>
    if c = LF ∧ cur.head? = some CR then consLine cur.tail.reverse (splitGo [] rest)
    else splitGo (c :: cur) rest

def splitCRLF (w : Bytes) : List Bytes × Bytes := splitGo [] w

/-- a line is dot-stuffed: if it begins with a dot it begins with two -/
def stuffedLine (l : Bytes) : Bool :=
  match l with
  | c :: rest => if c = DOT then rest.head? == some DOT else true
  | [] => true

/-- The payload consists of CR LF-terminated lines only; the last line is a lone dot and no
earlier line is: "CR LF . CR LF occurs exactly once, at the very end" (with the CR LF that
precedes the payload on the wire). -/
def termOnce (w : Bytes) : Bool :=
  let (ls, tail) := splitCRLF w
  tail.isEmpty && ls.getLast? == some [DOT] && !(ls.dropLast.contains [DOT])

/-- every line before the terminator is dot-stuffed and LF-free -/
def linesStuffed (w : Bytes) : Bool :=
  (splitCRLF w).1.dropLast.all (fun l => stuffedLine l && !l.contains LF)

end Nq.Wire
