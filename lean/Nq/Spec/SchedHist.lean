/-
  Nq.Spec.SchedHist — predicates for the history-level theorems of C15 (over `Nq.SchedHist.step`):
  well-formedness of a daemon state, "nothing is lost", the message a pass starts, quiet histories.
  Core Lean only.
-/
import Nq.SchedHist

namespace Nq.Spec.SchedHist
open Nq Nq.Sched Nq.SchedHist

/-- the message ids queued in a heap -/
def ids (q : PQ) : List Nat := q.toList.map (·.id)

/-- consistency of the heaps with the queue directory: heap order; message ids unique on disk and per channel
heap; every channel-heap entry has its channel file. -/
structure WF (s : HSt) : Prop where
  heap : ∀ c, Heap (s.q c)
  heapDone : Heap s.done
  nodupMsgs : (s.msgs.map (·.id)).Nodup
  nodupQ : ∀ c, (ids (s.q c)).Nodup
  hasFile : ∀ c, ∀ e ∈ (s.q c).toList, ∃ m, s.find e.id = some m ∧ (m.recs c).isSome = true

/-- nothing is lost: every existing channel file is scheduled on its channel heap, and every message without
channel files is in pqdone. -/
def Tracked (s : HSt) : Prop :=
  ∀ m ∈ s.msgs, (∀ c, (m.recs c).isSome = true → m.id ∈ ids (s.q c)) ∧
    (m.recs0 = none → m.recs1 = none → m.id ∈ ids s.done)

/-- the message `pass_dochan(c)` starts in state `s` (a job slot being free) -/
def started (s : HSt) (c : Chan) : Option Elt := (passStart s.clock true (s.q c)).map (·.1)

/-- run a history -/
def run (s : HSt) (l : List Step) : HSt := l.foldl (fun s x => (step s x).1) s

/-- the steps of a "quiet" stretch of daemon life: time passes (in any direction), wake-up computations,
passes on either channel with any reports and any injected system failure, clean restarts (TERM: pqfinish,
then a new process: pqstart).  Excluded: ALRM, files appearing from outside, crash restarts. -/
inductive QStep where
  | clock (t : Int)
  | wake
  | pass (c : Chan) (letters : List Byte) (f : Fault)
  | restart
  deriving Repr

def QStep.steps : QStep → List Step
  | .clock t => [.clock t]
  | .wake => [.wake]
  | .pass c l f => [.pass c l f]
  | .restart => [.fin, .load]

def runQ (s : HSt) (l : List QStep) : HSt := l.foldl (fun s x => run s x.steps) s

/-- number of entries of the channel heap due no later than `d` (the competitors of a message due at `d`) -/
def rank (s : HSt) (c : Chan) (d : Int) : Nat := (s.q c).toList.countP fun x => decide (x.dt ≤ d)

/-- every report letter is one the spawners produce: K, Z or D -/
def lettersKZD (letters : List Byte) : Prop := ∀ l ∈ letters, l = 75 ∨ l = 90 ∨ l = 68

/-- `n` consecutive passes on channel `c` (no faults), the k-th answered with `ls k` -/
def passes (s : HSt) (c : Chan) (ls : Nat → List Byte) : Nat → HSt
  | 0 => s
  | n + 1 => passSt (passes s c ls n) c (ls n) .none

/-- the latest time by which a message born at `birth` is due for its expiring attempt on channel `c`:
`birth + (L + skip)²` where `L = ⌊√lifetime⌋` -/
def expiryBound (L birth : Int) (c : Chan) : Int := birth + (L + chanskip c) * (L + chanskip c)

/-- every scheduled channel entry is due by the expiry bound of its message, or is already due -/
def DueBy (L : Int) (s : HSt) : Prop :=
  ∀ c, ∀ e ∈ (s.q c).toList, ∀ m, s.find e.id = some m → e.dt ≤ expiryBound L m.birth c ∨ e.dt ≤ s.clock

/-- the invariant bundle of a fault-free daemon life -/
def DInv (L : Int) (s : HSt) : Prop := WF s ∧ Tracked s ∧ DueBy L s

/-- the steps of a fault-free daemon life with a monotone clock: time advances, wake-up computations, ALRM,
passes on either channel, clean restarts -/
inductive BStep where
  | tick (d : Nat)
  | wake
  | alrm
  | pass (c : Chan) (letters : List Byte)
  | restart
  deriving Repr

def BStep.steps (s : HSt) : BStep → List Step
  | .tick d => [.clock (s.clock + d)]
  | .wake => [.wake]
  | .alrm => [.alrm]
  | .pass c l => [.pass c l .none]
  | .restart => [.fin, .load]

def runB (s : HSt) (l : List BStep) : HSt := l.foldl (fun s x => run s (x.steps s)) s

/-- every pass of the history is answered with K, Z or D only -/
def allKZD (l : List BStep) : Prop := ∀ x ∈ l, ∀ c letters, x = .pass c letters → lettersKZD letters

end Nq.Spec.SchedHist
