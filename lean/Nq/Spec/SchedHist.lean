/-
  Nq.Spec.SchedHist — predicates for the history-level theorems of C15 (over `Nq.SchedHist.step`):
  well-formedness of a daemon state, "nothing is lost", the message a pass starts, quiet histories,
  and the promptness of the daemon's sleep (`startableDues`, `sleptThrough`, `SnapOf`) over the select
  preparation `Nq.SelPrep` (read-only import; that model belongs to C16).
  Core Lean only.
-/
import Nq.SchedHist
import Nq.SelPrep
import Nq.SchedPass

namespace Nq.Spec.SchedHist
open Nq Nq.Sched Nq.SchedHist

/-- the message ids queued in a heap -/
def ids (q : PQ) : List Nat := q.toList.map (·.id)

/-- consistency of the heaps with the queue directory: heap order; message ids unique on disk and per channel
heap; every channel-heap entry has its channel file. -/
structure WF (s : HSt) : Prop where
  heap : ∀ c, Heap (s.q c)
  heapDone : Heap s.done
  nodupMsgs : (s.msgs.map (·.id)).Nodup
  nodupQ : ∀ c, (ids (s.q c)).Nodup
  hasFile : ∀ c, ∀ e ∈ (s.q c).toList, ∃ m, s.find e.id = some m ∧ (m.recs c).isSome = true

/-- nothing is lost: every existing channel file is scheduled on its channel heap, and every message without
channel files is in pqdone. -/
def Tracked (s : HSt) : Prop :=
  ∀ m ∈ s.msgs, (∀ c, (m.recs c).isSome = true → m.id ∈ ids (s.q c)) ∧
    (m.recs0 = none → m.recs1 = none → m.id ∈ ids s.done)

/-- the message `pass_dochan(c)` starts in state `s` (a job slot being free) -/
def started (s : HSt) (c : Chan) : Option Elt := (passStart s.clock true (s.q c)).map (·.1)

/-- run a history -/
def run (s : HSt) (l : List Step) : HSt := l.foldl (fun s x => (step s x).1) s

/-- the steps of a "quiet" stretch of daemon life: time passes (in any direction), wake-up computations,
passes on either channel with any reports and any injected system failure, clean restarts (TERM: pqfinish,
then a new process: pqstart).  Excluded: ALRM, files appearing from outside, crash restarts. -/
inductive QStep where
  | clock (t : Int)
  | wake
  | pass (c : Chan) (letters : List Byte) (f : Fault)
  | restart
  deriving Repr

def QStep.steps : QStep → List Step
  | .clock t => [.clock t]
  | .wake => [.wake]
  | .pass c l f => [.pass c l f]
  | .restart => [.fin, .load]

def runQ (s : HSt) (l : List QStep) : HSt := l.foldl (fun s x => run s x.steps) s

/-- number of entries of the channel heap due no later than `d` (the competitors of a message due at `d`) -/
def rank (s : HSt) (c : Chan) (d : Int) : Nat := (s.q c).toList.countP fun x => decide (x.dt ≤ d)

/-- every report letter is one the spawners produce: K, Z or D -/
def lettersKZD (letters : List Byte) : Prop := ∀ l ∈ letters, l = 75 ∨ l = 90 ∨ l = 68

/-- `n` consecutive passes on channel `c` (no faults), the k-th answered with `ls k` -/
def passes (s : HSt) (c : Chan) (ls : Nat → List Byte) : Nat → HSt
  | 0 => s
  | n + 1 => passSt (passes s c ls n) c (ls n) .none

/-- the latest time by which a message born at `birth` is due for its expiring attempt on channel `c`:
`birth + (L + skip)²` where `L = ⌊√lifetime⌋` -/
def expiryBound (L birth : Int) (c : Chan) : Int := birth + (L + chanskip c) * (L + chanskip c)

/-- every scheduled channel entry is due by the expiry bound of its message, or is already due -/
def DueBy (L : Int) (s : HSt) : Prop :=
  ∀ c, ∀ e ∈ (s.q c).toList, ∀ m, s.find e.id = some m → e.dt ≤ expiryBound L m.birth c ∨ e.dt ≤ s.clock

/-- the invariant bundle of a fault-free daemon life -/
def DInv (L : Int) (s : HSt) : Prop := WF s ∧ Tracked s ∧ DueBy L s

/-- the steps of a fault-free daemon life with a monotone clock: time advances, wake-up computations, ALRM,
(uninterrupted) passes on either channel, clean restarts, and new messages arriving through todo/ -/
inductive BStep where
  | tick (d : Nat)
  | wake
  | alrm
  | pass (c : Chan) (letters : List Byte)
  | restart
  | arrive (id n0 n1 : Nat)
  deriving Repr

def BStep.steps (s : HSt) : BStep → List Step
  | .tick d => [.clock (s.clock + d)]
  | .wake => [.wake]
  | .alrm => [.alrm]
  | .pass c l => [.pass c l .none]
  | .restart => [.fin, .load]
  | .arrive id n0 n1 => [.arrive id n0 n1]

def runB (s : HSt) (l : List BStep) : HSt := l.foldl (fun s x => run s (x.steps s)) s

/-- the persisted due times a new process finds are not beyond the expiry bound (or not in the future): what `pqstart()`
needs for `DueBy` — true of every queue the daemon itself wrote under `DueBy` (`pqfinish` persists heap entries) -/
def MtimesDueBy (L : Int) (s : HSt) : Prop :=
  ∀ m ∈ s.msgs, ∀ c, (m.recs c).isSome = true → m.mt c ≤ expiryBound L m.birth c ∨ m.mt c ≤ s.clock

/-- every pass of the history is answered with K, Z or D only -/
def allKZD (l : List BStep) : Prop := ∀ x ∈ l, ∀ c letters, x = .pass c letters → lettersKZD letters

/-! ### promptness of the sleep: "is retried promptly once that time has passed"

The daemon only starts a message when it is awake.  Between two loop iterations it sleeps in `select()` with the
timeout `SelPrep.timeout` computed from a snapshot of its globals.  The predicates below say which retry times
the daemon must not sleep through, on such a snapshot (`SelPrep.Snap`). -/

/-- the retry times the daemon could act on the moment they are due ("startable"): the head of the heap of every
channel that is *not* in the middle of a pass (provided a job slot is free), and the heads of pqfail and pqdone —
none of them once exit was requested.  The head of the heap of a channel that is mid-pass is not startable: it
has to wait for the pass to end, whatever its due time.  Deliberately independent of `SelPrep.dueTimes`. -/
def startableDues (s : Nq.SelPrep.Snap) : List Int :=
  if s.exitasap then []
  else (if Nq.SelPrep.jobAvail s then s.chans.filterMap (fun c => if c.passOpen then none else c.pqMin) else [])
       ++ s.pqfailMin.toList ++ s.pqdoneMin.toList

/-- "slept through a due time" (executable; the oracle of the select-loop scenarios): `select()` was entered
with the globals `s` and returned when the clock showed `tafter` — the daemon really slept (`tafter > recent`)
and woke more than `SLEEP_FUZZ` after the due time of a startable entry. -/
def sleptThrough (s : Nq.SelPrep.Snap) (tafter : Int) : Bool :=
  (startableDues s).any fun d => decide (s.recent < tafter) && decide (d + Nq.SelPrep.SLEEP_FUZZ < tafter)

/-- the startable due time that was slept through (for the report) -/
def sleptThroughWhich (s : Nq.SelPrep.Snap) (tafter : Int) : Option Int :=
  (startableDues s).find? fun d => decide (s.recent < tafter) && decide (d + Nq.SelPrep.SLEEP_FUZZ < tafter)

/-- the snapshot `sn` is one the daemon can be in when its heaps are those of the history state `s`: the clock,
the two channels in order with the heads of their heaps, the head of pqdone; no exit requested, a job slot free.
Everything else (pass open or not, slots used, pending writes, pqfail, todo and cleanup timers) is arbitrary. -/
structure SnapOf (s : HSt) (sn : Nq.SelPrep.Snap) : Prop where
  recent : sn.recent = s.clock
  running : sn.exitasap = false
  job : Nq.SelPrep.jobAvail sn = true
  chans : ∃ c0 c1 : Nq.SelPrep.Chan, sn.chans = [c0, c1] ∧ c0.pqMin = (s.q .loc).min.map (·.dt) ∧
    c1.pqMin = (s.q .rem).min.map (·.dt)
  done : sn.pqdoneMin = s.done.min.map (·.dt)

/-- channel `c` is in the middle of a pass in the snapshot -/
def midPass (sn : Nq.SelPrep.Snap) : Chan → Bool
  | .loc => (sn.chans.getD 0 {}).passOpen
  | .rem => (sn.chans.getD 1 {}).passOpen

/-! ### histories with passes that are not atomic (`Nq.SchedPass`) -/

/-- the entry `pass_dochan(c)` starts now in the fine-grained state `s`: a process is running, no exit has been
requested, no pass is open on `c`, and the head of the heap is due -/
def startedP (s : Nq.SchedPass.PSt) (c : Chan) : Option Elt :=
  if !s.up || s.exitasap || (s.jobs c).any (·.scanning) then none
  else (passStart s.h.clock true (s.h.q c)).map (·.1)

/-- when the daemon exits (`fin`) message `i` has no open job on channel `c` -/
def NoCutAt (i : Nat) (c : Chan) (s : Nq.SchedPass.PSt) : Nq.SchedPass.PStep → Prop
  | .fin => s.job? c i = none
  | _ => True

/-- along the history `l` from `s`, whenever the daemon exits (`fin`) message `i` has no open job on channel `c`:
its pass is never cut short by TERM.  (Needed only for the exit as it was before notes/C15-fix-1.diff.) -/
def NoCut (persist : Bool) (i : Nat) (c : Chan) : Nq.SchedPass.PSt → List Nq.SchedPass.PStep → Prop
  | _, [] => True
  | s, x :: l => NoCutAt i c s x ∧ NoCut persist i c (Nq.SchedPass.pstep persist s x) l

/-- every step of the history is a quiet one (no ALRM, no file appearing from outside) -/
def allQuiet (l : List Nq.SchedPass.PStep) : Prop := ∀ x ∈ l, x.quiet = true

end Nq.Spec.SchedHist
