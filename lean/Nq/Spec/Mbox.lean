/-
  Nq.Spec.Mbox — the mbox *reader* of mbox(5), written from the manual page and independent of
  qmail-local.c:

    "A reader scans through an mbox file looking for From_ lines.  Any From_ line marks the
     beginning of a message. […] It then reads until the next From_ line or end of file, whichever
     comes first.  It strips off the final blank line and deletes the quoting of >From_ lines and
     >>From_ lines and so on."

  A From_ line is "any line that begins with the characters F, r, o, m, space".
  Core Lean only.
-/
import Nq.Basic

namespace Nq.Mbox
open Nq

@[reducible] def GT : Byte := 62

/-- "From " -/
def fromSp : Bytes := [70, 114, 111, 109, 32]

/-- Split into lines.  Every line keeps its LF; a non-empty unterminated rest is the last line. -/
def lines : Bytes → List Bytes
  | [] => []
  | c :: r =>
    if c = LF then [LF] :: lines r
    else match lines r with
      | [] => [[c]]
      | l :: ls => (c :: l) :: ls

/-- a From_ line -/
def isFromLine (l : Bytes) : Bool := l.take 5 == fromSp

/-- a >From_, >>From_, … line -/
def isQuoted : Bytes → Bool
  | [] => false
  | c :: r => c == GT && (isFromLine r || isQuoted r)

/-- delete one level of quoting -/
def unquote (l : Bytes) : Bytes := if isQuoted l then l.drop 1 else l

/-- strip off the final blank line -/
def stripBlank (ls : List Bytes) : List Bytes := if ls.getLast? = some [LF] then ls.dropLast else ls

/-- messages as (From_ line, raw body lines): each From_ line starts a message that extends to the
next From_ line or the end; lines before the first From_ line belong to no message -/
def group : List Bytes → List (Bytes × List Bytes)
  | [] => []
  | l :: ls =>
    if isFromLine l then (l, ls.takeWhile (fun x => !isFromLine x)) :: group ls
    else group ls

/-- one message as the reader returns it: the From_ line and the RFC 822 message -/
def decode (m : Bytes × List Bytes) : Bytes × Bytes := (m.1, ((stripBlank m.2).map unquote).flatten)

/-- **the mbox reader** -/
def mboxRead (box : Bytes) : List (Bytes × Bytes) := (group (lines box)).map decode

/-- the envelope sender a reader extracts from a From_ line: the word after "From " -/
def envSender (fromLine : Bytes) : Bytes := (fromLine.drop 5).takeWhile (fun c => c != SP && c != TAB && c != LF)

/-- the file ends at a line boundary (what every complete delivery leaves behind) -/
def AtBoundary (box : Bytes) : Prop := box = [] ∨ box.getLast? = some LF

instance (box : Bytes) : Decidable (AtBoundary box) := by unfold AtBoundary; exact inferInstance

/-- mbox(5): "If the last line of the message was a partial line, it writes two newlines" — the
only normalisation a delivery performs: a partial last line is completed. -/
def completeLastLine (m : Bytes) : Bytes := if m = [] ∨ m.getLast? = some LF then m else m ++ [LF]

end Nq.Mbox
