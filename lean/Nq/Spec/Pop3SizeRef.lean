/-
  Nq.Spec.Pop3SizeRef — the RFC 1939 reference `Nq.Pop3Ref` for maildirs with messages whose contents are not kept in
  memory (multi-gigabyte sparse files): "listed sizes correspond to the files" with the size of such a file given as
  its st_size, an UNBOUNDED natural number (nothing here is 32 or 64 bits wide). LIST, LIST n and STAT are judged
  against these sizes; every other command as in `Pop3Ref.refStep`.
-/
import Nq.Spec.Pop3Ref

namespace Nq.Pop3SRef
open Nq Nq.Pop3Ref

/-- the size of a message: st_size if the file is one of the big ones, else the length of its contents -/
def sizeOfMsg (big : List (Bytes × Nat)) (m : RMsg) : Nat :=
  match big.lookup m.path with
  | some n => n
  | none => m.data.length

def refStepS (big : List (Bytes × Nat)) (s : RSt) (verb arg : Bytes) : RSt × Expect :=
  if verb = [108, 105, 115, 116] then
    if arg = [] then (s, .multi (listing s (fun m => fmtNat (sizeOfMsg big m))))
    else match s.valid arg with
      | some i => match s.msgs[i]? with
        | some m => (s, .okText (fmtNat (i + 1) ++ [SP] ++ fmtNat (sizeOfMsg big m)))
        | none => (s, .err)
      | none => (s, .err)
  else if verb = [115, 116, 97, 116] then
    (s, .okStat ((s.msgs.zipIdx.filter (fun (_, i) => !s.marked.contains i)).foldl (fun t (m, _) => t + sizeOfMsg big m) 0))
  else refStep s verb arg

def walkS (big : List (Bytes × Nat)) : RSt → List REv → Bytes → Option (RSt × Bool)
  | s, [], w => if w.isEmpty then some (s, false) else none
  | s, .vanish p :: rest, w => walkS big { s with gone := p :: s.gone } rest w
  | s, .line l :: rest, w =>
    let (verb, arg) := splitCmd l
    let (s', e) := refStepS big s verb arg
    match e with
    | .quit =>
      let lostMarked := (s.msgs.zipIdx.any (fun (m, i) => s.marked.contains i && s.gone.contains m.path))
      if matchQuit (!lostMarked) w then some (s', true) else none
    | _ => match matchReply e w with
      | some w' => walkS big s' rest w'
      | none => none

/-- `sessionOk` with the sizes of the big files taken from `big`; in the file lists a big file carries a marker
(its size in decimal) instead of its contents, so that the final maildir is compared including the sizes -/
def sessionOkS (big : List (Bytes × Nat)) (numbering : List RMsg) (fs0 : List RMsg) (evs : List REv) (out : Bytes)
    (fsEnd : List RMsg) : Bool :=
  match readLine out with
  | none => false
  | some (g, w) =>
    isOk g &&
    match walkS big { msgs := numbering } evs w with
    | none => false
    | some (s, quit) =>
      let left := fs0.filter (fun f => !s.gone.contains f.path)
      let open_ := if quit then collisions s left else []
      sortFs ((expectFs s quit left).filter (fun f => !open_.contains f.path)) ==
        sortFs (fsEnd.filter (fun f => !open_.contains f.path))

end Nq.Pop3SRef
