/-
  Nq.Spec.HeaderBody — an independent, declarative description of what headerbody.c (with getln.c) does to
  a message: which lines are the header, how they are grouped into fields, what is the body.
  Written with list combinators (`takeWhile`, `dropWhile`, right-to-left grouping) — NOT as the
  left-to-right loop with an open line and a flag that the C code (and its model `Nq.Inject.headerbodyAux`)
  is.  `Nq.Props.C17.C17_headerbody_spec` proves the model equal to this description for every input;
  the driver evaluates it, compiled, on the fields/body the real `headerbody()` delivered.

  The test "is this line a valid field start" is hfield.c's `hfield_valid` (`Nq.Inject.hfieldValid`):
  a different C function with its own model; headerbody.c's spec is stated relative to it.
-/
import Nq.Basic
import Nq.Inject

namespace Nq.Spec.HeaderBody
open Nq

/-! ### lines -/

/-- The lines of a message, each WITH its LF; a non-empty unterminated last line gets a LF
(`getsa`: `stralloc_append(sa,"\n")`).  Right-to-left: a LF ends a new line, any other byte is put in
front of the line that follows it. -/
def linesOf : Bytes → List Bytes
  | [] => []
  | c :: r =>
    if c = LF then [LF] :: linesOf r
    else match linesOf r with
      | [] => [[c, LF]]
      | l :: ls => (c :: l) :: ls

/-- the documented alteration of the text: a final LF is supplied when missing -/
def norm (inp : Bytes) : Bytes :=
  if inp.isEmpty || inp.getLast? == some LF then inp else inp ++ [LF]

/-- exactly one LF, at the end -/
def isLine (l : Bytes) : Bool := l.getLast? == some LF && !(l.dropLast.contains LF)

/-! ### classification of lines -/

/-- continuation line: begins with SP or TAB -/
def isCont (l : Bytes) : Bool := l.head? == some SP || l.head? == some TAB

/-- the mbox separator line `From …` -/
def isFromLine (l : Bytes) : Bool := (str "From ").isPrefixOf l

/-- a line that starts a header field -/
def isStart (l : Bytes) : Bool := isFromLine l || Inject.hfieldValid l

/-- a line that may occur inside the header (after its first line) -/
def isHdrLine (l : Bytes) : Bool := isStart l || isCont l

/-! ### header, rest -/

/-- the header: the longest prefix of the lines that begins with a field start and consists of field
starts and continuation lines.  (So it ends before the first empty line, or the first line that is
neither a field start nor a continuation; a continuation line at the very beginning is not a header.) -/
def hdr : List Bytes → List Bytes
  | [] => []
  | l :: r => if isStart l then l :: r.takeWhile isHdrLine else []

/-- everything after the header -/
def rest : List Bytes → List Bytes
  | [] => []
  | l :: r => if isStart l then r.dropWhile isHdrLine else l :: r

/-! ### fields -/

/-- maximal groups "a line and the continuation lines that follow it" (right to left: a line is put in
front of the group to its right iff that group begins with a continuation line) -/
def groups : List Bytes → List (List Bytes)
  | [] => []
  | l :: r =>
    match groups r with
    | [] => [[l]]
    | g :: gs => if (match g with | c :: _ => isCont c | [] => false) then (l :: g) :: gs else [l] :: g :: gs

def mboxName : Bytes := str "MBOX-Line: "

/-- the text of the field made of one group: the lines concatenated; a `From ` line is turned into a
field named MBOX-Line (the documented alteration) -/
def fieldOf : List Bytes → Bytes
  | [] => []
  | l :: cs => (if isFromLine l then mboxName else []) ++ (l ++ cs.flatten)

/-- the body pieces handed to `dobl`: the remaining lines; when the header is ended not by an empty
line but by a line that cannot belong to it, an empty line is inserted first -/
def bodyOf : List Bytes → List Bytes
  | [] => []
  | l :: r => if l = [LF] then l :: r else [LF] :: l :: r

/-- **the specification of headerbody()**: fields handed to `dohf`, in order; pieces handed to `dobl` -/
def specFields (inp : Bytes) : List Bytes := (groups (hdr (linesOf inp))).map fieldOf
def specBody (inp : Bytes) : List Bytes := bodyOf (rest (linesOf inp))

/-! ### properties of a field text (executable; used as oracles on the implementation's fields) -/

/-- one logical line: ends in LF, and every other LF is followed by SP or TAB (so: no empty line inside,
no second field inside) -/
def logicalLine : Bytes → Bool
  | [] => false
  | [c] => c == LF
  | c :: d :: r => (c != LF || d == SP || d == TAB) && logicalLine (d :: r)

/-- the original text of a field: the `MBOX-Line: ` put in front of a `From ` line removed again -/
def unalter (f : Bytes) : Bytes :=
  if mboxName.isPrefixOf f && isFromLine (f.drop mboxName.length) then f.drop mboxName.length else f

/-- walk along the (normalised) input: each field, or its unaltered form, must be the next piece;
returns what is left -/
def consume : Bytes → List Bytes → Option Bytes
  | inp, [] => some inp
  | inp, f :: fs =>
    if f.isPrefixOf inp then consume (inp.drop f.length) fs
    else if (unalter f).isPrefixOf inp then consume (inp.drop (unalter f).length) fs
    else none

/-- **concatenation law, executable**: fields (unaltered) ++ body (minus the inserted empty line) = input
(plus a final LF when it was missing); the empty line is inserted exactly when a non-empty remainder does
not begin with one -/
def reassembles (inp : Bytes) (fields body : List Bytes) : Bool :=
  match consume (norm inp) fields with
  | none => false
  | some rem =>
    if rem.isEmpty || rem.head? == some LF then body.flatten == rem
    else body.flatten == LF :: rem

end Nq.Spec.HeaderBody
