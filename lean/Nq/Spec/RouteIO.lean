/-
  Nq.Spec.RouteIO — what the documents say when control files cannot be read (property C10, session 4):

    qmail-send(8): at start-up an unreadable control file is fatal ("alert: cannot start: unable to read
    controls"); at a HUP "alert: unable to reread control/locals|virtualdomains" - qmail-send goes on with
    the tables it has.  Routing by `locals` from one instant and `virtualdomains` from another is never
    described: the tables in force are always those of ONE instant (start-up or a served HUP).

  Written without reference to the control flow of getcontrols()/regetcontrols(): only "does an error
  strike a call that is needed" (`strikesStart`, `strikesReread`), the documented state `SpecD` and the
  list of instants at which the control directory was looked at (`servedAt`).  Compiled, it is the oracle.
-/
import Nq.Spec.Route
import Nq.RewriteIO

namespace Nq.Route
open Nq Nq.Rewrite

/-- an error strikes the reader of control/envnoathost: reading the file, or copying the default -/
def envHits (flt : Option RdFault) (f : Option Bytes) : Bool :=
  lineHits flt f || decide (flt = some .nomem)

/-- some call start-up needs fails -/
def strikesStart (io : IOEnv) (f : Files) : Bool :=
  io.chdirHome || io.chdirQueue || io.other || io.cmNomem || lineHits io.me f.me || envHits io.env f.env ||
  fileHits io.locals f.locals || fileHits io.ph f.ph || fileHits io.vdoms f.vdoms

/-- some call the re-read needs fails (the retried ones - installing the tables, going back to the queue
directory - do not count: they are repeated until they succeed) -/
def strikesReread (io : IOEnv) (f : Files) : Bool :=
  io.chdirHome || fileHits io.locals f.locals || fileHits io.vdoms f.vdoms

/-- start-up as documented, with an environment that may fail: any error that strikes is fatal -/
def specStartIO (io : IOEnv) (f : Files) : Option SpecD :=
  if strikesStart io f then none else specStart f

/-- documented state after one event; a re-read that is struck by an error changes nothing (the HUP
has been used up) -/
def specStepF (f0 : Files) (s : SpecD) : EvF → Option SpecD
  | .ev e => specStep f0 s e
  | .topIO io =>
    if s.pending then
      if strikesReread io s.files then some { s with pending := false } else specStep f0 s .top
    else some s

def specJudgeF (s : SpecD) : EvF → Bool
  | .ev e => specJudge s e
  | .topIO _ => true

/-- the property on a whole observed trace, failing re-reads included -/
def specTraceF (f0 : Files) : Option SpecD → List EvF → Bool
  | none, _ => true
  | some _, [] => true
  | some s, e :: es => specJudgeF s e && specTraceF f0 (specStepF f0 s e) es

/-- the documented state after a whole trace; `none` = the trace left the stated domain (a control
file with a NUL byte was read) -/
def specRunF (f0 : Files) : SpecD → List EvF → Option SpecD
  | s, [] => some s
  | s, e :: es => match specStepF f0 s e with
    | some s' => specRunF f0 s' es
    | none => none

/-! ### one instant -/

/-- locals and virtualdomains as the documents read them off ONE control directory (`me0` = the
start-up `me` file) -/
def specTables (me0 : Option Bytes) (f : Files) : Option (List Ent × List Ent) :=
  match specLocals { f with me := me0 } with
  | some l => some (l, specVdoms f)
  | none => none

/-- the two tables in force are those of one of these directories -/
def oneInstant (me0 : Option Bytes) (c : Cfg) (insts : List Files) : Bool :=
  insts.any (fun f => match specTables me0 f with
    | some (l, v) => decide (l = c.locals ∧ v = c.vdoms)
    | none => false)

/-- the message was preprocessed as documented under the tables of ONE of these control directories
(`c0` = the start-up configuration: envnoathost and percenthack never change) -/
def judgeOneInstant (c0 : Cfg) (me0 : Option Bytes) (insts : List Files) (todo : Bytes) (out : Option TodoOut) : Bool :=
  insts.any (fun f => match specTables me0 f with
    | some (l, v) => decide (out = specTodo { c0 with locals := l, vdoms := v } todo)
    | none => false)

end Nq.Route
