/-
  Nq.Spec.BounceSpec — the reader's side of a failure notice, written independently of the model
  of qmail-send.c.  Compiled, these definitions are the C14 oracle (`Drv/C14.lean` evaluates them on
  the text the real code produced); in `Props/C14.lean` they are what the theorems are stated with.

  * `paras`      — a text split into paragraphs: maximal runs of non-empty lines.
  * `governing`  — which `virtualdomains` entry applies to an address, as qmail-send.9 describes it
                   (exact domain, else the longest `.suffix` wildcard, else the catch-all).
  * `Sanit`      — "the failure text is shown": same bytes, except that an LF may appear as '/'.
-/
import Nq.Basic

namespace Nq.BounceSpec
open Nq

/-- where the paragraph reader is: at a line start after a blank line (or at the start of the
text), at a line start after a non-blank line, or inside a line -/
inductive PSt | blank | bol | mid
  deriving DecidableEq, Repr

/-- put a byte in front of the current (first) paragraph -/
def pcons (c : Byte) : List Bytes → List Bytes
  | [] => [[c]]
  | p :: ps => (c :: p) :: ps

/-- The paragraphs of a text read from state `s`.  A paragraph is a maximal run of non-empty lines;
it is returned with the LFs that end its lines.  From `bol`/`mid` the head of the result is the
remainder of the paragraph being read. -/
def paras : PSt → Bytes → List Bytes
  | .blank, [] => []
  | .bol, [] => [[]]
  | .mid, [] => [[]]
  | .blank, c :: t => if c = LF then paras .blank t else pcons c (paras .mid t)
  | .mid, c :: t => if c = LF then pcons LF (paras .bol t) else pcons c (paras .mid t)
  | .bol, c :: t => if c = LF then [] :: paras .blank t else pcons c (paras .mid t)

/-- paragraphs of a complete text -/
def paragraphs (t : Bytes) : List Bytes := paras .blank t

/-- state of the reader after a text -/
def endSt : PSt → Bytes → PSt
  | s, [] => s
  | .mid, c :: t => endSt (if c = LF then .bol else .mid) t
  | .bol, c :: t => endSt (if c = LF then .blank else .mid) t
  | .blank, c :: t => endSt (if c = LF then .blank else .mid) t

/-- two consecutive LFs somewhere in the text (i.e. an empty line after a line end) -/
def hasLFLF : Bytes → Bool
  | a :: b :: t => (a == LF && b == LF) || hasLFLF (b :: t)
  | _ => false

/-- "the failure text is shown": position by position the same byte, except that an LF of the
report may be shown as '/' (47) -/
def sanit : Bytes → Bytes → Bool
  | [], [] => true
  | x :: xs, y :: ys => (y == x || (x == LF && y == 47)) && sanit xs ys
  | _, _ => false

/-! ### which virtualdomains entry governs a domain -/

def tails : Bytes → List Bytes
  | [] => [[]]
  | c :: r => (c :: r) :: tails r

/-- last entry with this key, keys compared case-insensitively -/
def entryFor (es : List (Bytes × Bytes)) (key : Bytes) : Option Bytes :=
  (es.reverse.find? (fun e => lower e.1 == lower key)).map (·.2)

/-- candidate keys for a domain, most specific first: the domain itself, every proper suffix that
starts with a dot, the empty key -/
def candidates (d : Bytes) : List Bytes :=
  d :: ((tails d).drop 1).filter (fun s => s.isEmpty || s.head? == some DOT)

/-- the prepend of the entry that governs domain `d` (possibly empty = "not virtual") -/
def governing (es : List (Bytes × Bytes)) (d : Bytes) : Option Bytes :=
  (candidates d).findSome? (entryFor es)

/-- text after the last '@' -/
def domainPart (a : Bytes) : Option Bytes :=
  match (tails a).reverse.find? (fun s => s.head? == some AT) with
  | some s => some (s.drop 1)
  | none => none

/-- the address a bounce must name for the (rewritten) recipient `recip`: the governing entry's
`prepend-` removed if it is there, otherwise the address as it is -/
def namedRecipient (es : List (Bytes × Bytes)) (recip : Bytes) : Bytes :=
  match domainPart recip with
  | none => recip
  | some d => match governing es d with
    | some p => if !p.isEmpty && (p ++ [45]).isPrefixOf recip then recip.drop (p.length + 1) else recip
    | none => recip

/-- first line of a recipient paragraph: `<` address with LF shown as `_` `>:` LF -/
def recipLine (addr : Bytes) : Bytes :=
  60 :: (addr.map (fun c => if c = LF then 95 else c) ++ [62, 58, LF])

end Nq.BounceSpec
