/-
  Nq.Spec.BounceSpec — the reader's side of a failure notice, written independently of the model
  of qmail-send.c.  Compiled, these definitions are the C14 oracle (`Drv/C14.lean` evaluates them on
  the text the real code produced); in `Props/C14.lean` they are what the theorems are stated with.

  * `paras`      — a text split into paragraphs: maximal runs of non-empty lines.
  * `governing`  — which `virtualdomains` entry applies to an address, as qmail-send.9 describes it
                   (exact domain, else the longest `.suffix` wildcard, else the catch-all).
  * `namedRecipient` — the address a bounce must name, per channel: remote = as stored; local =
                   locals first, then virtual users, then virtual domains (the order of `rewrite()`).
  * `Sanit`      — "the failure text is shown": same bytes, except that an LF may appear as '/'.
-/
import Nq.Basic

namespace Nq.BounceSpec
open Nq

/-- where the paragraph reader is: at a line start after a blank line (or at the start of the
text), at a line start after a non-blank line, or inside a line -/
inductive PSt | blank | bol | mid
  deriving DecidableEq, Repr

/-- put a byte in front of the current (first) paragraph -/
def pcons (c : Byte) : List Bytes → List Bytes
  | [] => [[c]]
  | p :: ps => (c :: p) :: ps

/-- The paragraphs of a text read from state `s`.  A paragraph is a maximal run of non-empty lines;
it is returned with the LFs that end its lines.  From `bol`/`mid` the head of the result is the
remainder of the paragraph being read. -/
def paras : PSt → Bytes → List Bytes
  | .blank, [] => []
  | .bol, [] => [[]]
  | .mid, [] => [[]]
  | .blank, c :: t => if c = LF then paras .blank t else pcons c (paras .mid t)
  | .mid, c :: t => if c = LF then pcons LF (paras .bol t) else pcons c (paras .mid t)
  | .bol, c :: t => if c = LF then [] :: paras .blank t else pcons c (paras .mid t)

/-- paragraphs of a complete text -/
def paragraphs (t : Bytes) : List Bytes := paras .blank t

/-- state of the reader after a text -/
def endSt : PSt → Bytes → PSt
  | s, [] => s
  | .mid, c :: t => endSt (if c = LF then .bol else .mid) t
  | .bol, c :: t => endSt (if c = LF then .blank else .mid) t
  | .blank, c :: t => endSt (if c = LF then .blank else .mid) t

/-- two consecutive LFs somewhere in the text (i.e. an empty line after a line end) -/
def hasLFLF : Bytes → Bool
  | a :: b :: t => (a == LF && b == LF) || hasLFLF (b :: t)
  | _ => false

/-- "the failure text is shown": position by position the same byte, except that an LF of the
report may be shown as '/' (47) -/
def sanit : Bytes → Bytes → Bool
  | [], [] => true
  | x :: xs, y :: ys => (y == x || (x == LF && y == 47)) && sanit xs ys
  | _, _ => false

/-! ### which virtualdomains entry governs a domain -/

def tails : Bytes → List Bytes
  | [] => [[]]
  | c :: r => (c :: r) :: tails r

/-- last entry with this key, keys compared case-insensitively -/
def entryFor (es : List (Bytes × Bytes)) (key : Bytes) : Option Bytes :=
  (es.reverse.find? (fun e => lower e.1 == lower key)).map (·.2)

/-- candidate keys for a domain, most specific first: the domain itself, every proper suffix that
starts with a dot, the empty key -/
def candidates (d : Bytes) : List Bytes :=
  d :: ((tails d).drop 1).filter (fun s => s.isEmpty || s.head? == some DOT)

/-- the prepend of the entry that governs domain `d` (possibly empty = "not virtual") -/
def governing (es : List (Bytes × Bytes)) (d : Bytes) : Option Bytes :=
  (candidates d).findSome? (entryFor es)

/-- text after the last '@' -/
def domainPart (a : Bytes) : Option Bytes :=
  match (tails a).reverse.find? (fun s => s.head? == some AT) with
  | some s => some (s.drop 1)
  | none => none

/-- `d` is listed in control/locals (case-insensitive): qmail-send never treats it as virtual -/
def isLocal (ls : List Bytes) (d : Bytes) : Bool := ls.any (fun l => lower l == lower d)

/-- every way to cut `a` into `(before, rest)` with `rest` non-empty, shortest `before` first -/
def splits : Bytes → List (Bytes × Bytes)
  | [] => []
  | c :: r => ([], c :: r) :: (splits r).map (fun x => (c :: x.1, x.2))

/-- virtual *user* entries (`user@domain:prepend`, rewritten to `prepend-user@domain`): the first cut
`recip = prepend ++ "-" ++ rest` such that `rest` has an entry whose non-empty prepend is exactly
`prepend`; the bounce must name `rest` -/
def userCut (es : List (Bytes × Bytes)) (x : Bytes × Bytes) : Option Bytes :=
  match x.2 with
  | 45 :: rest => match entryFor es rest with
    | some p => if !p.isEmpty && p == x.1 then some rest else none
    | none => none
  | _ => none

def userSplit (es : List (Bytes × Bytes)) (recip : Bytes) : Option Bytes :=
  (splits recip).findSome? (userCut es)

/-- rules 2 and 3 (the local-channel recipient is at a non-local domain `d`):
a virtual-user prefix is removed; otherwise the governing domain entry's `prepend-` is removed if the
recipient starts with it -/
def prefixUndone (es : List (Bytes × Bytes)) (recip d : Bytes) : Bytes :=
  match userSplit es recip with
  | some rest => rest
  | none => match governing es d with
    | some p => if !p.isEmpty && (p ++ [45]).isPrefixOf recip then recip.drop (p.length + 1) else recip
    | none => recip

/-- the address a bounce must name for a recipient `recip` stored in a channel file.
`rewrite()` puts a recipient on the remote channel exactly as it is: `loc = false` — as it is.
On the local channel (`loc = true`) the prefix `rewrite()` put there is undone, in `rewrite()`'s order:
1. a recipient at a domain listed in `locals` was never given one — as it is;
2. otherwise a virtual-user prefix is removed;
3. otherwise the governing domain entry's `prepend-` is removed if it is there.
(No look-up of the whole stored string for an exception entry: on the local channel the stored string
is `prepend-address`, and an exception entry for THAT string says nothing about `address`.) -/
def namedRecipient (loc : Bool) (ls : List Bytes) (es : List (Bytes × Bytes)) (recip : Bytes) : Bytes :=
  if !loc then recip else
  match domainPart recip with
  | none => recip
  | some d => if isLocal ls d then recip else prefixUndone es recip d

/-- first line of a recipient paragraph: `<` address with LF shown as `_` `>:` LF -/
def recipLine (addr : Bytes) : Bytes :=
  60 :: (addr.map (fun c => if c = LF then 95 else c) ++ [62, 58, LF])

/-- the i-th paragraph begins with the line naming the i-th failed recipient (and there are equally many) -/
def NamedInOrder (ls : List Bytes) (es : List (Bytes × Bytes)) : List (Bool × Bytes × Bytes) → List Bytes → Prop
  | [], [] => True
  | f :: fs, p :: ps => recipLine (namedRecipient f.1 ls es f.2.1) <+: p ∧ NamedInOrder ls es fs ps
  | _, _ => False

/-! ### control files as documented (qmail-control(5)): one entry per line, trailing spaces and tabs
ignored, empty lines and `#` comments ignored; virtualdomains entries are `key:prepend`, split at the
first colon, lines without a colon are not entries.  Written independently of `Nq.Bounce.readfile` /
`cmEntries`; the driver computes the oracle's tables with these from the raw control-file bytes. -/

def linesOf (s : Bytes) : List Bytes :=
  s.foldr (fun c acc => if c = LF then [] :: acc else
    match acc with
    | l :: r => (c :: l) :: r
    | [] => [[c]]) [[]]

/-- trailing spaces and tabs removed -/
def rstripBlank (l : Bytes) : Bytes := (l.reverse.dropWhile (fun c => c == SP || c == TAB)).reverse

def specControlLines (f : Bytes) : List Bytes :=
  ((linesOf f).map rstripBlank).filter (fun l => match l with | [] => false | c :: _ => c != 35)

def specVdomEntry (l : Bytes) : Option (Bytes × Bytes) :=
  match l.dropWhile (· != 58) with
  | _ :: v => some (l.takeWhile (· != 58), v)
  | [] => none

/-- control/virtualdomains (`none` = no such file) -/
def specVdoms (f : Option Bytes) : List (Bytes × Bytes) :=
  match f with
  | some b => (specControlLines b).filterMap specVdomEntry
  | none => []

/-- qmail-control(5): a one-line control file is its first line, trailing spaces and tabs removed -/
def specFirstLine (f : Bytes) : Bytes := rstripBlank (f.takeWhile (· != LF))

/-- control/locals, default control/me (qmail-send(8)) -/
def specLocals (locals me : Option Bytes) : List Bytes :=
  match locals, me with
  | some f, _ => specControlLines f
  | none, some m => [specFirstLine m]
  | none, none => []

/-! ### the double-bounce address, from the control-file bytes (qmail-send(8), qmail-control(5)) -/

/-- qmail-send(8): double bounces go to `doublebounceto@doublebouncehost`; default `postmaster` for
the former (control/me is NOT consulted), control/me and then the literal `doublebouncehost` for the
latter.  Arguments: the bytes of control/doublebounceto, control/doublebouncehost, control/me
(`none` = no such file). -/
def specDoubleBounceTo (dbto dbhost me : Option Bytes) : Bytes :=
  (match dbto with
   | some f => specFirstLine f
   | none => str "postmaster")
  ++ [AT] ++
  (match dbhost, me with
   | some f, _ => specFirstLine f
   | none, some m => specFirstLine m
   | none, none => str "doublebouncehost")

end Nq.BounceSpec
