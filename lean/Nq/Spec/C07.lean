/-
  Nq.Spec.C07 — the declarative side of property C07, written without reference to the daemons' code:

    * strict netstrings and the QMTP / QMQP request grammars (digits only in a length);
    * what the Received field must look like (`receivedSpec`, with an independent calendar algorithm);
    * the class (permanent / temporary) the documentation (qmail-queue.8) assigns to every exit status;
    * `Queued`: what "exactly that message was committed to the queue" means for the bytes a queue
      program received together with how it ended.

  Compiled into the driver these are the property oracle; the theorems in Props/C07.lean relate the
  models to them.
-/
import Nq.Basic
import Nq.QmailC

namespace Nq.Spec.C07
open Nq Nq.QmailC

/-! ### netstrings -/

/-- a length: ASCII digits up to ':' (leading zeros / no digits at all are tolerated, anything else is not) -/
def nsLen : Nat → Bytes → Option (Nat × Bytes)
  | _, [] => none
  | acc, c :: r => if c = 58 then some (acc, r) else if 48 ≤ c ∧ c ≤ 57 then nsLen (acc * 10 + (c.toNat - 48)) r else none

/-- one netstring at the head of the input: (content, rest) -/
def ns? (inp : Bytes) : Option (Bytes × Bytes) :=
  match nsLen 0 inp with
  | none => none
  | some (n, r) =>
    if r.length < n + 1 then none
    else if r.getD n 0 = 44 then some (r.take n, r.drop (n + 1)) else none

/-- the input is exactly a sequence of netstrings -/
def nsAll : Nat → Bytes → Option (List Bytes)
  | 0, _ => none
  | _ + 1, [] => some []
  | fuel + 1, inp => match ns? inp with
    | none => none
    | some (a, r) => (nsAll fuel r).map (a :: ·)

def nsList (inp : Bytes) : Option (List Bytes) := nsAll (inp.length + 1) inp

structure Req where
  body : Bytes           -- decoded body
  sender : Bytes
  rcpts : List Bytes
  deriving DecidableEq, Repr

/-- QMTP: CR LF → LF when the message starts with CR -/
def undos : Bytes → Bytes
  | [] => []
  | [c] => [c]
  | c :: d :: r => if c = 13 ∧ d = 10 then 10 :: undos r else c :: undos (d :: r)

/-- one well-framed QMTP message at the head of the input -/
def qmtpNext (inp : Bytes) : Option (Req × Bytes) :=
  match ns? inp with
  | none => none
  | some (m, r1) =>
    match m with
    | [] => none
    | k :: body =>
      if k ≠ 10 ∧ k ≠ 13 then none else
      match ns? r1 with
      | none => none
      | some (s, r2) =>
        match ns? r2 with
        | none => none
        | some (rl, r3) =>
          match nsList rl with
          | none => none
          | some rs => some (⟨if k = 13 then undos body else body, s, rs⟩, r3)

/-- the well-framed messages at the head of a QMTP connection, and whether the whole input was used up -/
def qmtpAll : Nat → Bytes → List Req × Bool
  | 0, _ => ([], false)
  | _ + 1, [] => ([], true)
  | fuel + 1, inp => match qmtpNext inp with
    | none => ([], false)
    | some (m, r) => let t := qmtpAll fuel r; (m :: t.1, t.2)

/-- a well-framed QMQP request (the whole input) -/
def qmqpReq (inp : Bytes) : Option Req :=
  match ns? inp with
  | none => none
  | some (c, _) =>
    match nsList c with
    | some (m :: s :: rs) => some ⟨m, s, rs⟩
    | _ => none

/-! ### the Received field -/

def safeSpec (c : Byte) : Bool :=
  (97 ≤ c && c ≤ 122) || (65 ≤ c && c ≤ 90) || (48 ≤ c && c ≤ 57) ||
  c == 46 || c == 64 || c == 37 || c == 43 || c == 47 || c == 61 || c == 58 || c == 45 || c == 91 || c == 93

def clean (s : Bytes) : Bytes := (cstr s).map (fun c => if safeSpec c then c else 63)

def dec : Nat → Bytes := fun n => (toString n).toUTF8.toList
def dec2 (n : Nat) : Bytes := if n < 10 then 48 :: dec n else dec n

def monthNames : List String := ["Jan", "Feb", "Mar", "Apr", "May", "Jun", "Jul", "Aug", "Sep", "Oct", "Nov", "Dec"]

/-- proleptic Gregorian date of a Unix time (days-from-civil inverse, era arithmetic) -/
def dateSpec (t : Nat) : Bytes :=
  let z := t / 86400 + 719468
  let era := z / 146097
  let doe := z % 146097
  let yoe := (doe - doe / 1460 + doe / 36524 - doe / 146096) / 365
  let doy := doe - (365 * yoe + yoe / 4 - yoe / 100)
  let mp := (5 * doy + 2) / 153
  let d := doy - (153 * mp + 2) / 5 + 1
  let m := if mp < 10 then mp + 3 else mp - 9
  let y := yoe + era * 400 + (if m ≤ 2 then 1 else 0)
  let tod := t % 86400
  dec d ++ [32] ++ (monthNames.getD (m - 1) "").toUTF8.toList ++ [32] ++ dec y ++ [32] ++
  dec2 (tod / 3600) ++ [58] ++ dec2 (tod / 60 % 60) ++ [58] ++ dec2 (tod % 60) ++ str " -0000\n"

/-! The fixed words of the field as explicit bytes (`String.toUTF8` does not reduce inside proofs); each is checked
    against its text by `#guard` below. -/
def wFrom : Bytes := [82, 101, 99, 101, 105, 118, 101, 100, 58, 32, 102, 114, 111, 109, 32]   -- "Received: from "
def wHelo : Bytes := [32, 40, 72, 69, 76, 79, 32]                                              -- " (HELO "
def wClose : Bytes := [41]                                                                     -- ")"
def wOpen : Bytes := [32, 40]                                                                  -- " ("
def wAt : Bytes := [64]                                                                        -- "@"
def wBy : Bytes := [41, 10, 32, 32, 98, 121, 32]                                               -- ")\n  by "
def wWith : Bytes := [32, 119, 105, 116, 104, 32]                                              -- " with "
def wSemi : Bytes := [59, 32]                                                                  -- "; "

#guard wFrom == str "Received: from " && wHelo == str " (HELO " && wClose == str ")" && wOpen == str " (" &&
  wAt == str "@" && wBy == str ")\n  by " && wWith == str " with " && wSemi == str "; "

/-- the field up to the date: "Received: from HOST [(HELO H) ](INFO@IP)\n  by LOCAL with PROTO; " with every variable
    part cleaned (bytes outside the documented safe set `safeSpec` replaced by `?`) -/
def receivedHead (proto host ip local_ : Bytes) (info helo : Option Bytes) : Bytes :=
  wFrom ++ clean host ++
  (match helo with | some h => wHelo ++ clean h ++ wClose | none => []) ++
  wOpen ++ (match info with | some i => clean i ++ wAt | none => []) ++ clean ip ++
  wBy ++ clean local_ ++ wWith ++ proto ++ wSemi

/-- "Received: from HOST [(HELO H) ](INFO@IP)\n  by LOCAL with PROTO; DATE\n" with every variable part cleaned -/
def receivedSpec (proto : String) (host ip local_ : Bytes) (info helo : Option Bytes) (t : Nat) : Bytes :=
  receivedHead (str proto) host ip local_ info helo ++ dateSpec t

/-! ### well-formedness of a header field (RFC 822 §3.1–3.4) as far as data supplied by the peer can damage it

    The field is a sequence of printable ASCII bytes; a line break inside it must be a fold (LF followed by SP or HT)
    and its last byte is the LF that ends the field; comments `( … )` are balanced; there is no backslash (a quoted-pair
    `\)` would hide the parenthesis that closes a comment, `\(` one that opens it) and no double quote (it would open a
    quoted-string in which parentheses no longer delimit comments), no control byte, no 8-bit byte. -/

def wfPlain (c : Byte) : Bool := 32 ≤ c && c < 127 && c != 92 && c != 34 && c != 40 && c != 41

/-- `d` = current depth of comment nesting -/
def wfAux : Nat → Bytes → Bool
  | _, [] => false
  | d, [c] => c == 10 && d == 0
  | d, c :: n :: r =>
    if c = 10 then (n == 32 || n == 9) && wfAux d (n :: r)
    else if c = 40 then wfAux (d + 1) (n :: r)
    else if c = 41 then d != 0 && wfAux (d - 1) (n :: r)
    else wfPlain c && wfAux d (n :: r)

def wf822 (field : Bytes) : Bool := wfAux 0 field

/-- the first `n` lines of a byte string (each with its LF) -/
def takeLines : Nat → Bytes → Bytes
  | 0, _ => []
  | _, [] => []
  | n + 1, c :: r => if c = 10 then c :: takeLines n r else c :: takeLines (n + 1) r

/-! ### hop counting (qmail-smtpd.8: "responsible for counting hops"): Received / Delivered-To header fields -/

def splitLF : Bytes → Bytes → List Bytes     -- lines (without their LF); the text after the last LF is a line too
  | cur, [] => [cur.reverse]
  | cur, c :: r => if c = 10 then cur.reverse :: splitLF [] r else splitLF (c :: cur) r

def startsCI (pre line : Bytes) : Bool := lower (line.take pre.length) == pre

/-- number of header lines (before the first empty line "\r") of the wire text that start with
    "received" / "delivered", any case -/
def hopsSpec (wire : Bytes) : Nat :=
  let hdr := (splitLF [] wire).takeWhile (fun l => l != [13])
  (hdr.filter (fun l => startsCI (str "received") l || startsCI (str "delivered") l)).length

/-! ### classes of queue failures (qmail-queue.8, EXIT CODES) -/

inductive Cls | ok | perm | temp | any
  deriving DecidableEq, Repr

/-- 0 success; 11..40 permanent (115 is the historical alias of 11); 82 with a text: by its first letter; all others temporary -/
def qqClass (exit : Nat) (crashed : Bool) (text : Bytes) : Cls :=
  if crashed then .temp
  else if exit = 0 then .ok
  else if exit = 82 ∧ text.length > 2 then
    (match text.head? with
     | some 68 => .perm
     | some 90 => .temp
     | _ => .any)          -- outside the documented interface
  else if (11 ≤ exit ∧ exit ≤ 40) ∨ exit = 115 then .perm
  else .temp

/-! ### "exactly that message was committed to the queue" -/

/-- the queue program received the message `content` and the complete envelope of `sender` / `rcpts`, and reported success -/
def Queued (fd0 fd1 : Bytes) (exit : Nat) (crashed : Bool) (content sender : Bytes) (rcpts : List Bytes) : Bool :=
  exit == 0 && !crashed && fd0 == content && envParse fd1 == some (sender, rcpts)

/-- the queue program cannot have queued anything: it did not see a complete envelope, or did not report success -/
def NotQueued (fd1 : Bytes) (exit : Nat) (crashed : Bool) : Bool :=
  !envComplete fd1 || exit != 0 || crashed

end Nq.Spec.C07
