/-
  Nq.Spec.SmtpAddrParse — "the parsed address" of the C08 predicates without the model's addrparse:
  the path grammar of `Nq.Spec.SmtpAddr`, then the localiphost rule (`lipSpec`), then the 900-byte
  limit (`addrLimit`, a literal).  `specAddrparse` is what the driver's oracle uses; the `…S` checkers
  are the trace checkers of `Nq.Spec.SmtpPolicy` with `specAddrparse` in the place of the model's
  `addrparse` (`Lemmas/SmtpAddrParse.lean` proves them equal to the originals).  Core Lean only.
-/
import Nq.Spec.SmtpAddr
import Nq.Spec.SmtpPolicy

namespace Nq.SmtpPolicy
open Nq Nq.SmtpSession Nq.SmtpAddrSpec

/-- what MAIL / RCPT make of their argument: `none` = refused (555) -/
def AddrSpec (cfg : Cfg) (arg : Bytes) (res : Option Bytes) : Prop :=
  ∃ a, IsPath arg a ∧
    (((lipSpec cfg a).length + 1 ≤ addrLimit ∧ res = some (lipSpec cfg a)) ∨
     (addrLimit < (lipSpec cfg a).length + 1 ∧ res = none))

def specAddrparse (cfg : Cfg) (arg : Bytes) : Option Bytes :=
  if (lipSpec cfg (specPath arg)).length + 1 ≤ addrLimit then some (lipSpec cfg (specPath arg)) else none

def acceptedRcptS (cfg : Cfg) (x : Ev) : Option Bytes :=
  match x.1 with
  | .rcpt arg => if x.2.replies = [.rcptok] then (specAddrparse cfg arg).map (· ++ relaySuffix cfg) else none
  | _ => none

def openTxnBS (cfg : Cfg) (pre : List Ev) : Option (Bytes × List Ev) :=
  match lastSeg discards pre with
  | some ((.mail a, oj), mid) =>
    if oj.replies = [.mailok] then (specAddrparse cfg a).map (fun s => (s, mid)) else none
  | _ => none

def submitOKBS (cfg : Cfg) (pre : List Ev) (sub : Submit) : Bool :=
  match openTxnBS cfg pre with
  | some (snd, mid) => snd == sub.sender && sub.rcpts == mid.filterMap (acceptedRcptS cfg) && !sub.rcpts.isEmpty
  | none => false

def gateOKBS (cfg : Cfg) (pre : List Ev) (arg : Bytes) : Bool :=
  match openTxnBS cfg pre with
  | some (snd, _) =>
    !badSenderB cfg snd &&
    (match specAddrparse cfg arg with
     | some adr => decide (adr.length + 1 ≤ addrLimit) && (cfg.relay.isSome || matchSpecB cfg adr)
     | none => false)
  | none => false

def evOKBS (cfg : Cfg) (pre : List Ev) (x : Ev) : Bool :=
  (match x.2.submit with
   | some sub => submitOKBS cfg pre sub
   | none => true) &&
  (match x.1 with
   | .rcpt arg => (x.2.replies == [.rcptok]) == gateOKBS cfg pre arg
   | _ => true)

def traceBadS (cfg : Cfg) : List Ev → List Ev → Nat → Option Nat
  | _, [], _ => none
  | pre, x :: r, i => if evOKBS cfg pre x then traceBadS cfg (pre ++ [x]) r (i + 1) else some i

end Nq.SmtpPolicy
