/-
  Nq.LocalEnvSpec — qmail-command(8) "ENVIRONMENT VARIABLES" (and dot-qmail(5) for NEWSENDER) written down variable by
  variable, independently of the model `Nq.LocalEnv` (property C13).  Compiled, `documented` / `check` is the ORACLE the
  driver evaluates on the environment the real qmail-local hands to its command children.

  Not in the manual page, mirrored from the code and said so here:
    * HOSTn of a host with fewer than n-1 dots: the portion preceding the *first* dot (all of HOST if it has none);
    * EXTn of an extension with fewer than n-1 dashes: empty;
    * newlines inside DTLINE / RPLINE become '_', blank/tab/newline in the sender of UFLINE become '-';
    * RPLINE quotes the sender with quote2() (quote.c, property C17's subject; `Nq.Local.quote2` is used as is);
    * a variable qmail-local does not set keeps its inherited value (in particular an inherited DEFAULT is not removed).
  Number formatting of the date (`fmt02`, `fmtDec`: fmt_uint0/fmt_uint) is C12's vocabulary; the calendar is `Nq.Datetime`.
  Core Lean only.
-/
import Nq.Local
import Nq.LocalDeliver
import Nq.Datetime
import Nq.Spec.LocalSpec

namespace Nq.LocalEnvSpec
open Nq

/-- the portion of `s` following the `n`-th occurrence of `c` (empty if there are fewer); `n = 0`: all of `s` -/
def following (c : Byte) : Nat → Bytes → Bytes
  | 0, s => s
  | _ + 1, [] => []
  | n + 1, x :: r => if x = c then following c n r else following c (n + 1) r

/-- the portion of `h` preceding its last dot; all of `h` if it has no dot -/
def precedingLastDot (h : Bytes) : Bytes :=
  if h.contains 46 then ((h.reverse.dropWhile (fun c => c != 46)).drop 1).reverse else h

/-- the portion preceding the `n`-th dot counted from the right (as far as there are dots) -/
def preceding : Nat → Bytes → Bytes
  | 0, h => h
  | n + 1, h => preceding n (precedingLastDot h)

def dayNames : List Bytes := [[83, 117, 110], [77, 111, 110], [84, 117, 101], [87, 101, 100], [84, 104, 117], [70, 114, 105], [83, 97, 116]]
def monNames : List Bytes := [[74, 97, 110], [70, 101, 98], [77, 97, 114], [65, 112, 114], [77, 97, 121], [74, 117, 110],
  [74, 117, 108], [65, 117, 103], [83, 101, 112], [79, 99, 116], [78, 111, 118], [68, 101, 99]]

/-- "Www Mmm dd hh:mm:ss yyyy\n" -/
def renderCtime (wday mon mday hour min sec year : Nat) : Bytes :=
  dayNames.getD wday [] ++ [32] ++ monNames.getD mon [] ++ [32] ++ LocalDeliver.fmt02 mday ++ [32] ++
  LocalDeliver.fmt02 hour ++ [58] ++ LocalDeliver.fmt02 min ++ [58] ++ LocalDeliver.fmt02 sec ++ [32] ++
  LocalDeliver.fmtDec year ++ [10]

/-- the word after "From ": MAILER-DAEMON for the empty sender, else the sender with blank, tab, newline → '-' -/
def fromWord (sender : Bytes) : Bytes :=
  if sender = [] then [77, 65, 73, 76, 69, 82, 45, 68, 65, 69, 77, 79, 78]
  else sender.map (fun c => if c = 32 ∨ c = 9 ∨ c = 10 then 45 else c)

/-- the From_ line for `sender` at `t` seconds after the epoch, (y, m, d) being the civil date of `t`
(m = 0 … 11): weekday from the day number (1970-01-01 was a Thursday), time of day in UTC -/
def uflineOf (sender : Bytes) (t : Nat) (y m d : Int) : Bytes :=
  [70, 114, 111, 109, 32] ++ fromWord sender ++ [32] ++
  renderCtime ((t / 86400 + 4) % 7) m.toNat d.toNat (t % 86400 / 3600) (t % 3600 / 60) (t % 60) y.toNat

/-- `l` is the From_ line for `sender` at time `t`: the date in it is the Gregorian (UTC) date of `t` -/
def IsUfline (sender : Bytes) (t : Nat) (l : Bytes) : Prop :=
  ∃ y m d : Int, Datetime.validDate y m d ∧ Datetime.daysFromCivil y m d = (t : Int) / 86400 ∧ l = uflineOf sender t y m d

/-- the civil date of `t ≥ 0`, found by searching the calendar specification (years 1970 + days/366 … 1970 + days/365) -/
def civilSearch (t : Nat) : Option (Int × Int × Int) :=
  let days : Int := (t : Int) / 86400
  let y0 := 1970 + t / 86400 / 366
  let y1 := 1970 + t / 86400 / 365
  let cands : List (Int × Int × Int) := (List.range (y1 - y0 + 1)).flatMap (fun dy => (List.range 12).flatMap (fun m =>
    (List.range 31).map (fun d => (((y0 + dy : Nat) : Int), ((m : Nat) : Int), ((d + 1 : Nat) : Int)))))
  cands.find? (fun p => decide (Datetime.validDate p.1 p.2.1 p.2.2) && Datetime.daysFromCivil p.1 p.2.1 p.2.2 == days)

/-- executable form of `IsUfline` (sound: `Props/C13.lean: C13_ufline_oracle_sound`) -/
def uflineOracle (sender : Bytes) (t : Nat) (l : Bytes) : Bool :=
  match civilSearch t with
  | some (y, m, d) => l == uflineOf sender t y m d
  | none => false

/-- everything the manual page refers to -/
structure Given where
  user : Bytes
  home : Bytes
  loc : Bytes
  ext : Bytes
  host : Bytes
  sender : Bytes
  now : Nat
  date : Int × Int × Int       -- the civil date of `now` (year, month 0…11, day)
  dflt : Option Bytes          -- the part of `ext` the word "default" of the control file's name stands for, if it ends so
  newsender : Bytes            -- the forwarding envelope sender (dot-qmail(5): `LocalSpec.forwardSender`)

def Given.dateOk (g : Given) : Prop :=
  Datetime.validDate g.date.1 g.date.2.1 g.date.2.2 ∧ Datetime.daysFromCivil g.date.1 g.date.2.1 g.date.2.2 = (g.now : Int) / 86400

def lfToUscore (l : Bytes) : Bytes := l.map (fun c => if c = 10 then 95 else c)

/-- qmail-command(8), in the order of the manual page.  `none`: not set by qmail-local -/
def documented (g : Given) : List (Bytes × Option Bytes) :=
  [ ([83, 69, 78, 68, 69, 82], some g.sender),                                   -- SENDER: the envelope sender address
    ([78, 69, 87, 83, 69, 78, 68, 69, 82], some g.newsender),                     -- NEWSENDER: forwarding envelope sender
    ([82, 69, 67, 73, 80, 73, 69, 78, 84], some (g.loc ++ [64] ++ g.host)),       -- RECIPIENT: local@domain
    ([85, 83, 69, 82], some g.user),                                             -- USER
    ([72, 79, 77, 69], some g.home),                                             -- HOME
    ([72, 79, 83, 84], some g.host),                                             -- HOST: the domain part
    ([76, 79, 67, 65, 76], some g.loc),                                          -- LOCAL: the local part
    ([69, 88, 84], some g.ext),                                                  -- EXT: the address extension
    ([72, 79, 83, 84, 50], some (preceding 1 g.host)),                           -- HOST2: preceding the last dot
    ([72, 79, 83, 84, 51], some (preceding 2 g.host)),                           -- HOST3: preceding the second-to-last dot
    ([72, 79, 83, 84, 52], some (preceding 3 g.host)),                           -- HOST4: preceding the third-to-last dot
    ([69, 88, 84, 50], some (following 45 1 g.ext)),                             -- EXT2: following the first dash
    ([69, 88, 84, 51], some (following 45 2 g.ext)),                             -- EXT3: following the second dash
    ([69, 88, 84, 52], some (following 45 3 g.ext)),                             -- EXT4: following the third dash
    ([68, 69, 70, 65, 85, 76, 84], g.dflt),                                      -- DEFAULT: not set unless the name ends in default
    ([68, 84, 76, 73, 78, 69], some (LocalSpec.dtline g.loc g.host)),            -- DTLINE: the Delivered-To line incl. newline
    ([82, 80, 76, 73, 78, 69],                                                   -- RPLINE: the Return-Path line incl. newline
       some (lfToUscore ([82, 101, 116, 117, 114, 110, 45, 80, 97, 116, 104, 58, 32, 60] ++ Local.quote2 g.sender) ++ [62, 10])),
    ([85, 70, 76, 73, 78, 69], some (uflineOf g.sender g.now g.date.1 g.date.2.1 g.date.2.2)) ]   -- UFLINE: the From_ line

def lookupEnv (e : List (Bytes × Bytes)) (k : Bytes) : Option Bytes := (e.find? (fun p => p.1 == k)).map (fun p => p.2)

/-- does the environment `env` (what a command sees) agree with the documentation, `inherited` being the environment
qmail-local itself was started with?  Returns the names of the variables that do not. -/
def check (g : Given) (inherited env : List (Bytes × Bytes)) : List Bytes :=
  let doc := documented g
  let bad1 := doc.filterMap (fun p =>
    let want := match p.2 with
      | some v => some v
      | none => lookupEnv inherited p.1
    if lookupEnv env p.1 == want then none else some p.1)
  -- every other variable is inherited unchanged, and nothing else appears
  let names := doc.map (fun p => p.1)
  let bad2 := (env.filter (fun p => !names.contains p.1)).filterMap (fun p =>
    if lookupEnv inherited p.1 == some p.2 then none else some p.1)
  let bad3 := (inherited.filter (fun p => !names.contains p.1)).filterMap (fun p =>
    if (lookupEnv env p.1).isSome then none else some p.1)
  bad1 ++ bad2 ++ bad3

end Nq.LocalEnvSpec
