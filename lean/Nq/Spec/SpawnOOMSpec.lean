/-
  Nq.Spec.SpawnOOMSpec — oracle for spawn.c with failing allocations while a command is read (C18, session 4):
  a command whose parse was aborted never starts a delivery and is reported exactly once.  Stated over the
  input (complete commands of the stream on descriptor 0, ordinals of the failing `stralloc_append` calls) and
  the observed events only.  Core Lean only.
-/
import Nq.SpawnOOM
import Nq.Spec.TrustBoundary

namespace Nq.Spec.TB
open Nq Nq.Spawn Nq.Gen.SpawnTexts

/-- for every complete command of the input, in order: was one of its `stralloc_append` calls (one per byte of
messid, sender, recip and their NULs; none for the delnum byte) among the failing ones?  `base` = ordinal of the
command's first call -/
def abortFlags (oom : List Nat) : Nat → List Cmd → List Bool
  | _, [] => []
  | base, c :: r =>
      let n := c.messid.length + c.sender.length + c.recip.length + 3
      (List.range n).any (fun i => oom.contains (base + i)) :: abortFlags oom (base + n) r

def keepFlag {α : Type} : List α → List Bool → Bool → List α
  | a :: r, f :: fs, want => if f == want then a :: keepFlag r fs want else keepFlag r fs want
  | _, _, _ => []

def countEv (p : Ev → Bool) (evs : List Ev) : Nat := (evs.filter p).length

/-- the oracle: the open/spawn discipline holds with respect to the commands that were NOT aborted only (every
open is the messid of such a command, every `spawn()` is in the slot and with the addresses of such a command),
there are at most as many opens and `spawn()` calls as such commands, every aborted command is answered by its
own report `delnum "Zqmail-spawn out of memory. (#4.3.0)\n"` (multiset inclusion), and there is exactly one
report per complete command, aborted or not (`reportsOK`) -/
def oomOK (oom : List Nat) (cmds : List Cmd) (plan : List Nat) (evs : List Ev) : Bool :=
  let flags := abortFlags oom 0 cmds
  let good := keepFlag cmds flags false
  let bad := keepFlag cmds flags true
  opensOK good plan evs &&
  decide (countEv (fun e => match e with | .openRead _ => true | _ => false) evs ≤ good.length) &&
  decide (countEv (fun e => match e with | .spawnCall _ _ _ _ => true | _ => false) evs ≤ good.length) &&
  subMultiset (bad.map (fun c => (c.delnum, E_NOMEM0))) (reportsOf evs) &&
  reportsOK cmds (reportsOf evs)

end Nq.Spec.TB
