/-
  Nq.Spec.LocalSpec — the *documented* behaviour of the delivery agent (dot-qmail(5), qmail-local(8),
  qmail-command(8)), written independently of the transcription of qmail-local.c in Nq/Local.lean.
  Compiled into the C13 driver it is the property oracle, evaluated on the implementation's outputs;
  the theorems of Props/C13.lean relate the model to these definitions.
  Core Lean only.
-/
import Nq.Basic

namespace Nq.LocalSpec
open Nq

/-! ## Search order (dot-qmail(5), EXTENSION ADDRESSES) -/

/-- "qmail-local replaces any dots in ext with colons … converts any uppercase letters to lowercase" -/
def safeChar (c : Byte) : Byte := if c = 46 then 58 else if 65 ≤ c ∧ c ≤ 90 then c + 32 else c

def dotQmail : Bytes := [46, 113, 109, 97, 105, 108]
def dflt : Bytes := [100, 101, 102, 97, 117, 108, 116]

/-- `i` is a place where the extension may be cut: the very beginning, or just after a dash -/
def boundary (sx : Bytes) (i : Nat) : Bool := i == 0 || sx.getD (i - 1) 0 == 45

/-- the documented list: `.qmail-ext`, then `.qmail-<prefix>default` for every boundary, longest prefix first -/
def candidates (dash ext : Bytes) : List Bytes :=
  let sx := ext.map safeChar
  (dotQmail ++ dash ++ sx) ::
    (((List.range (sx.length + 1)).reverse.filter (boundary sx)).map (fun i => dotQmail ++ dash ++ sx.take i ++ dflt))

/-- what a directory listing says about a name -/
inductive Entry
  | missing                 -- does not exist / not a regular file
  | unreadable              -- temporary trouble
  | file (mode : Nat) (content : Bytes)
  deriving DecidableEq, Repr

/-- the names that must be opened, in order: up to and including the first one that is not `missing` -/
def mustOpen (look : Bytes → Entry) : List Bytes → List Bytes
  | [] => []
  | n :: rest => if look n = .missing then n :: mustOpen look rest else [n]

/-- the control file: the first candidate that exists (as a regular file) -/
def control (look : Bytes → Entry) : List Bytes → Option (Bytes × Entry)
  | [] => none
  | n :: rest => if look n = .missing then control look rest else some (n, look n)

/-- qmail-command(8): "DEFAULT is the portion corresponding to the default part of the .qmail-... file name;
DEFAULT is not set if the file name does not end with default".  `ctl` is the control file that was selected. -/
def defaultVar (dash ext ctl : Bytes) : Option Bytes :=
  let sx := ext.map safeChar
  if ctl = dotQmail ++ dash ++ sx then
    (if 7 ≤ sx.length ∧ sx.drop (sx.length - 7) = dflt then some (ext.drop (ext.length - 7)) else none)
  else some (ext.drop (ctl.length - (6 + dash.length + 7)))

/-- a relative name that cannot leave the directory it is resolved in: it begins with ".qmail" and
contains no ".." -/
def hasDotDot : Bytes → Bool
  | a :: b :: r => (a == 46 && b == 46) || hasDotDot (b :: r)
  | _ => false

def confined (name : Bytes) : Bool := name.take 6 == dotQmail && !hasDotDot name

/-! ## Header lines -/

def deliveredTo : Bytes := [68, 101, 108, 105, 118, 101, 114, 101, 100, 45, 84, 111, 58, 32]

/-- "Delivered-To: local@domain" with newlines made harmless, terminated by a newline -/
def dtline (loc host : Bytes) : Bytes :=
  (deliveredTo ++ loc ++ [64] ++ host).map (fun c => if c = 10 then 95 else c) ++ [10]

/-- exactly one header line: no LF except the last byte -/
def oneLine (l : Bytes) : Bool := l.getLast? == some 10 && !(l.dropLast.contains 10)

/-- split into LF-terminated lines (each with its LF) and an unterminated remainder -/
def linesOf : Bytes → List Bytes × Bytes
  | [] => ([], [])
  | c :: r =>
    let p := linesOf r
    if c = 10 then ([10] :: p.1, p.2)
    else match p.1 with
      | [] => ([], c :: p.2)
      | l :: ls => ((c :: l) :: ls, p.2)

/-- the header: the complete lines before the first empty line -/
def headerLines (msg : Bytes) : List Bytes := (linesOf msg).1.takeWhile (fun l => l != [10])

/-- "If exactly the same Delivered-To: local@domain already appears in the header" -/
def loops (loc host msg : Bytes) : Bool := (headerLines msg).contains (dtline loc host)

/-! ## Instructions (dot-qmail(5), THE QMAIL FILE) -/

inductive SInstr
  | nothing                 -- comment, blank line, or other ignored line
  | blank
  | list                    -- "+list": from here on the file is forward-only
  | program (cmd : Bytes)
  | forward (addr : Bytes)
  | mbox (fn : Bytes)
  | maildir (fn : Bytes)
  deriving DecidableEq, Repr

/-- "may contain extra spaces and tabs at the end of a line" -/
def trimRight : Bytes → Bytes
  | [] => []
  | c :: r =>
    match trimRight r with
    | [] => if c = 32 ∨ c = 9 then [] else [c]
    | t => c :: t

def upToNul : Bytes → Bytes
  | [] => []
  | c :: r => if c = 0 then [] else c :: upToNul r

def readLine (raw : Bytes) : SInstr :=
  let l := trimRight raw
  match l.head? with
  | none => .blank
  | some 0 => .blank
  | some 35 => .nothing                                         -- '#'
  | some 124 => .program (l.drop 1)                             -- '|'
  | some 38 => .forward (l.drop 1)                              -- '&'
  | some 43 => if upToNul (l.drop 1) = [108, 105, 115, 116] then .list else .nothing   -- '+'
  | some c =>
    if c = 46 ∨ c = 47 then (if l.getLast? = some 47 then .maildir l else .mbox l)
    else .forward l

/-- qmail-command(8), EXIT CODES -/
inductive Verdict | ok | stop | hard | soft
  deriving DecidableEq, Repr

def exitVerdict (code : Nat) : Verdict :=
  if code = 0 then .ok
  else if code = 99 then .stop
  else if code = 100 ∨ code ∈ [64, 65, 70, 76, 77, 78, 112] then .hard
  else .soft

/-- what happened when a command was run -/
inductive Ran | exited (code : Nat) | crashed
  deriving DecidableEq, Repr

inductive Effect
  | mbox (fn : Bytes) | maildir (fn : Bytes) | program (cmd : Bytes)
  | queue (sender : Bytes) (recips : List Bytes)
  deriving DecidableEq, Repr

/-- running state of the walk over the instructions -/
structure Walk where
  first : Bool := true             -- no line has been read yet
  forwardOnly : Bool
  effects : List Effect := []      -- reversed
  recips : List Bytes := []        -- reversed
  shown : List SInstr := []        -- reversed: what `-n` prints
  status : Option Nat := none      -- `some 0`: stopped by exit 99; `some c`: failed with exit code c
  deriving Repr

/-- one instruction: "follows each instruction in turn … If a delivery instruction fails, qmail-local
stops immediately … handles forwarding after all other instructions … exit code 99: ignores all
succeeding lines" ; an executable .qmail "must not contain any program, mbox or maildir lines … temporary
failure" ; "Blank lines are allowed, but not for the first line" -/
def step (doit : Bool) (run : Bytes → Ran) (fileOK : SInstr → Nat) (w0 : Walk) (i : SInstr) : Walk :=
  if w0.status.isSome then w0 else
  let w := { w0 with first := false }
  match i with
  | .nothing => w
  | .blank => if w0.first then { w with status := some 111 } else w
  | .list => { w with forwardOnly := true }
  | .forward a => { w with recips := upToNul a :: w.recips, shown := i :: w.shown }
  | .program c =>
    if w.forwardOnly then { w with status := some 111 }
    else if !doit then { w with shown := i :: w.shown }
    else
      let w' := { w with effects := .program (upToNul c) :: w.effects, shown := i :: w.shown }
      match run (upToNul c) with
      | .crashed => { w' with status := some 111 }
      | .exited code =>
        match exitVerdict code with
        | .ok => w'
        | .stop => { w' with status := some 0 }
        | .hard => { w' with status := some 100 }
        | .soft => { w' with status := some 111 }
  | .mbox f =>
    if w.forwardOnly then { w with status := some 111 }
    else if !doit then { w with shown := i :: w.shown }
    else
      let w' := { w with effects := .mbox (upToNul f) :: w.effects, shown := i :: w.shown }
      if fileOK i = 0 then w' else { w' with status := some (fileOK i) }
  | .maildir f =>
    if w.forwardOnly then { w with status := some 111 }
    else if !doit then { w with shown := i :: w.shown }
    else
      let w' := { w with effects := .maildir (upToNul f) :: w.effects, shown := i :: w.shown }
      if fileOK i = 0 then w' else { w' with status := some (fileOK i) }

/-- the walk over the lines of a control file -/
def walk (doit : Bool) (forwardOnly : Bool) (run : Bytes → Ran) (fileOK : SInstr → Nat) (lines : List Bytes) : Walk :=
  (lines.map readLine).foldl (step doit run fileOK) { forwardOnly := forwardOnly }

/-- The lines of the instruction text: every LF ends a line and the text after the last LF (if any) is
a line too; a final LF does not start another, empty line. -/
def instrLines (text : Bytes) : List Bytes :=
  let t := if text.getLast? = some 10 then text.dropLast else text
  -- every LF ends a line; the remainder (possibly empty) is the last line
  let rec go : Bytes → Bytes → List Bytes
    | acc, [] => [acc.reverse]
    | acc, c :: r => if c = 10 then acc.reverse :: go [] r else go (c :: acc) r
  go [] t

structure Expect where
  code : Nat
  effects : List Effect
  shown : List SInstr
  counts : Nat × Nat × Nat         -- file, forward, program instructions acted upon
  deriving Repr

/-- the documented outcome of following `text` -/
def follow (doit : Bool) (forwardOnly : Bool) (text sender : Bytes) (run : Bytes → Ran) (fileOK : SInstr → Nat)
    (queueCode : Nat) : Expect :=
  let w := walk doit forwardOnly run fileOK (instrLines text)
  let shown := w.shown.reverse
  let cnt := (shown.filter (fun i => match i with | .mbox _ => true | .maildir _ => true | _ => false)).length
  let cntF := (shown.filter (fun i => match i with | .forward _ => true | _ => false)).length
  let cntP := (shown.filter (fun i => match i with | .program _ => true | _ => false)).length
  let failed : Bool := match w.status with | some c => c != 0 | none => false
  if failed then { code := w.status.getD 111, effects := w.effects.reverse, shown := shown, counts := (cnt, cntF, cntP) }
  else if doit ∧ w.recips ≠ [] then
    { code := queueCode, effects := w.effects.reverse ++ [.queue sender w.recips.reverse], shown := shown, counts := (cnt, cntF, cntP) }
  else { code := 0, effects := w.effects.reverse, shown := shown, counts := (cnt, cntF, cntP) }

/-- what `-n` prints for an instruction -/
def describe : SInstr → Bytes
  | .mbox f => [109, 98, 111, 120, 32] ++ f ++ [10]
  | .maildir f => [109, 97, 105, 108, 100, 105, 114, 32] ++ f ++ [10]
  | .program c => [112, 114, 111, 103, 114, 97, 109, 32] ++ c ++ [10]
  | .forward a => [102, 111, 114, 119, 97, 114, 100, 32] ++ a ++ [10]
  | _ => []

/-- envelope sender of a forwarded copy (dot-qmail(5): -owner, VERP, bounces keep their sender) -/
def forwardSender (loc host sender : Bytes) (owner ownerDefault : Bool) : Bytes :=
  if sender = [] ∨ sender = [35, 64, 91, 93] then sender
  else if owner ∧ ownerDefault then loc ++ [45, 111, 119, 110, 101, 114, 45, 64] ++ host ++ [45, 64, 91, 93]
  else if owner then loc ++ [45, 111, 119, 110, 101, 114, 64] ++ host
  else sender

/-! ## One whole delivery (qmail-local(8), dot-qmail(5)): the documented outcome of an invocation

`Setting` is everything the manual pages refer to: the arguments and the state of the world around the agent.
`outcome` is the single documented result (exit code, externally visible effects in order, the instructions
acted upon, their counts).  `Props/C13.lean: C13_run_outcome` proves that the model of `main()` computes exactly
this; compiled into the driver, the same function is the oracle applied to the implementation's behaviour. -/

structure Setting where
  doit : Bool                       -- false: `-n`, describe only
  homeMode : Nat                    -- st_mode of the home directory
  loc : Bytes
  dash : Bytes
  ext : Bytes
  host : Bytes
  sender : Bytes
  dflt : Bytes                      -- the default delivery instructions (`aliasempty`)
  msg : Bytes
  look : Bytes → Entry              -- the home directory, as `control` sees it
  present : Bytes → Option Bool     -- does a name exist (any type)?  `none`: cannot be determined right now
  run : Bytes → Ran                 -- what running a command gives
  fileOK : SInstr → Nat             -- 0: the mbox / maildir delivery succeeds; otherwise the exit code of its failure
  queueReply : Bytes                -- qmail-queue's answer to the forwarded copy: "" accepted, "D…" permanent, else temporary

/-- "-owner" -/
def ownerSuffix : Bytes := [45, 111, 119, 110, 101, 114]

/-- the names examined to choose the envelope sender of forwarded copies, in order (dot-qmail(5), "-owner" and
"-owner-default"); none for bounces (empty sender or `#@[]`) -/
def ownerNames (S : Setting) : List Bytes :=
  if S.sender = [] ∨ S.sender = [35, 64, 91, 93] then []
  else
    let base := dotQmail ++ S.dash ++ S.ext.map safeChar
    match S.present (base ++ ownerSuffix) with
    | some true => [base ++ ownerSuffix, base ++ (ownerSuffix ++ [45] ++ dflt)]
    | _ => [base ++ ownerSuffix]

/-- the envelope sender of forwarded copies; `none`: an owner file could not be examined (temporary failure) -/
def senderFor (S : Setting) : Option Bytes :=
  if S.sender = [] ∨ S.sender = [35, 64, 91, 93] then some S.sender
  else
    let base := dotQmail ++ S.dash ++ S.ext.map safeChar
    match S.present (base ++ ownerSuffix) with
    | none => none
    | some false => some S.sender
    | some true =>
      match S.present (base ++ (ownerSuffix ++ [45] ++ dflt)) with
      | none => none
      | some od => some (forwardSender S.loc S.host S.sender true od)

/-- which instructions are followed, and whether only forwarding is allowed (x bit); `error c`: the delivery is
refused with exit code `c` before any instruction: no such address (100), control file unreadable for a temporary
reason or writable by others (111) -/
def plan (S : Setting) : Except Nat (Bytes × Bool) :=
  match control S.look (candidates S.dash S.ext) with
  | none => if S.dash ≠ [] then .error 100 else .ok (S.dflt, false)
  | some (_, .file m content) =>
    if m &&& 2 ≠ 0 then .error 111
    else if content = [] then .ok (S.dflt, false)
    else .ok (content, m &&& 0o100 != 0)
  | some (_, _) => .error 111

/-- qmail-local's exit code for qmail-queue's answer to the forwarded copy -/
def queueVerdict (reply : Bytes) : Nat :=
  match reply with
  | [] => 0
  | c :: _ => if c = 68 then 100 else 111

/-- refused before any instruction: nothing delivered, nothing forwarded, nothing described -/
def refuse (code : Nat) : Expect := { code := code, effects := [], shown := [], counts := (0, 0, 0) }

def outcome (S : Setting) : Expect :=
  if S.homeMode &&& 2 ≠ 0 ∨ (S.homeMode &&& 0o1000 ≠ 0 ∧ S.doit = true) then refuse 111
  else if S.doit = true ∧ loops S.loc S.host S.msg = true then refuse 100
  else
    match plan S with
    | .error c => refuse c
    | .ok (text, fo) =>
      match senderFor S with
      | none => refuse 111
      | some snd => follow S.doit fo text snd S.run S.fileOK (queueVerdict S.queueReply)

/-- "did <files>+<forwards>+<programs>\n" -/
def didl (c : Nat × Nat × Nat) : Bytes :=
  [100, 105, 100, 32] ++ fmtNat c.1 ++ [43] ++ fmtNat c.2.1 ++ [43] ++ fmtNat c.2.2 ++ [10]

/-- what `-n` prints: the description of every instruction acted upon and, on success, the counts -/
def printedN (e : Expect) : Bytes :=
  (e.shown.map describe).flatten ++ (if e.code = 0 then didl e.counts else [])

end Nq.LocalSpec
