/-
  Nq.Spec.Users — the declarative reading of property C11, independent of the loops in the C code:
  what users/assign *says* (colon-separated fields), which assignment an address gets (exact entry, else
  longest wildcard prefix, first duplicate, case-insensitive), what the password-file rules give, and the
  predicate on the trace of privileged calls. Compiled into the driver as the oracle; used in the theorems.
-/
import Nq.Users

namespace Nq.Spec.Users
open Nq Nq.Users Nq.Gen.Lspawn

/-! ## what users/assign says -/

def splitOn (sep : Byte) : Bytes → List Bytes
  | [] => [[]]
  | c :: r =>
    if c = sep then [] :: splitOn sep r
    else match splitOn sep r with
      | [] => [[c]]
      | f :: fs => (c :: f) :: fs

def joinNul : List Bytes → Bytes
  | [] => []
  | [f] => f
  | f :: fs => f ++ NUL :: joinNul fs

/-- `=local:user:uid:gid:home:dash:ext:` / `+loc:user:uid:gid:home:dash:pre:` — eight or more fields, the
    first one not empty, no NUL anywhere -/
def specLine (line : Bytes) : Option Asg :=
  let fs := splitOn COLON line
  if line.contains NUL then none else
  match fs with
  | f0 :: u :: ui :: gi :: ho :: da :: ex :: _ :: _ =>
    if f0.isEmpty then none else
    some ⟨f0.head? == some PLUS, lower (f0.drop 1), joinNul [u, ui, gi, ho, da, ex]⟩
  | _ => none

def allSome {α} : List (Option α) → Option (List α)
  | [] => some []
  | none :: _ => none
  | some a :: r => (allSome r).map (a :: ·)

/-- the table is the lines before the first line that starts with a dot; every one of them must be well formed;
    without a dot line the file is refused -/
def specParse (assign : Bytes) : Option (List Asg) :=
  let lines := splitOn LF assign
  let body := lines.takeWhile (fun l => l.head? != some DOT)
  if body.length = lines.length then none else allSome (body.map specLine)

/-! ## what a cdb file says: its records in file order (an independent reading of the format, like cdbdump) -/

/-- the records laid out from the start of `bytes`, `remaining` bytes of record area left -/
def dumpRecs : Nat → Bytes → Nat → Option (List (Bytes × Bytes))
  | 0, _, _ => none
  | fuel + 1, bytes, remaining =>
    if remaining = 0 then some [] else
    match bytes with
    | a :: b :: c :: d :: e :: f :: g :: h :: rest =>
      let kl := le32 a b c d
      let dl := le32 e f g h
      if remaining < 8 + kl + dl then none else
      let key := rest.take kl
      let r2 := rest.drop kl
      let data := r2.take dl
      if key.length = kl ∧ data.length = dl then
        (dumpRecs fuel (r2.drop dl) (remaining - (8 + kl + dl))).map ((key, data) :: ·)
      else none
    | _ => none

/-- records occupy the file from offset 2048 up to the first hash table (the pointer of header entry 0) -/
def cdbDump (f : Bytes) : Option (List (Bytes × Bytes)) :=
  match read8 f 0 with
  | none => none
  | some (pos0, _) => if pos0 < 2048 then none else dumpRecs (f.length + 1) (f.drop 2048) (pos0 - 2048)

/-- the eight bytes `pack a ++ pack b` occur somewhere in the file: ∃ o, read8 f o = (a, b) -/
def hasWordPair (f : Bytes) (a b : Nat) : Bool :=
  let pat := pack a ++ pack b
  let rec go : Bytes → Bool
    | [] => false
    | l@(_ :: r) => pat.isPrefixOf l || go r
  go f

/-- the predicate of `C11_cdb_hit_sound`, given the file position `dpos` at which the reader stopped: the record
    `(k, d)` with its header is in the file right before/at `dpos`, and some slot holds `(hash k, position of the record)` -/
def hitBacked (f k d : Bytes) (dpos : Nat) : Bool :=
  let p := dpos - 8 - k.length
  decide (8 + k.length ≤ dpos) && read8 f p == some (k.length, d.length) &&
  (f.drop (p + 8)).take (k.length + d.length) == k ++ d &&
  decide (p + 8 + k.length + d.length ≤ f.length) &&
  hasWordPair f (hashKey k).toNat p

/-! ## which assignment an address gets -/

def firstExact (tbl : List Asg) (l : Bytes) : Option Asg := tbl.find? (fun a => !a.wild && a.name == l)
def firstWild (tbl : List Asg) (p : Bytes) : Option Asg := tbl.find? (fun a => a.wild && a.name == p)

/-- the longest prefix (of length ≤ n) of the lower-cased address that some wildcard assignment names -/
def longestWild (tbl : List Asg) (loc : Bytes) : Nat → Option (Nat × Asg)
  | 0 => (firstWild tbl []).map (fun a => (0, a))
  | n + 1 =>
    match firstWild tbl ((lower loc).take (n + 1)) with
    | some a => some (n + 1, a)
    | none => longestWild tbl loc n

/-- the nughde record the table assigns to `loc`, `none` if the table does not cover it -/
def specLookup (tbl : List Asg) (loc : Bytes) : Option Bytes :=
  match firstExact tbl (lower loc) with
  | some a => some (a.data ++ [NUL])
  | none =>
    match longestWild tbl loc loc.length with
    | some (n, a) => some (a.data ++ loc.drop n ++ [NUL])
    | none => none

/-! ## what a nughde record says (the six NUL-terminated fields), read declaratively -/

/-- a numeric field as qmail-lspawn uses it: the value of its leading decimal digits (0 if there are none), as a 32-bit
    `uid_t`/`gid_t` -/
def specNum (b : Bytes) : Nat := decVal (b.takeWhile isDigit) % 4294967296

/-- split at EVERY NUL: six NUL-terminated fields are seven or more pieces; user, uid, gid, home, dash, ext are the
    first six; whatever follows the sixth NUL is ignored; fewer than six NULs = malformed.
    Independent of the model's `splitNul`/`scanUlong` loops (`C11_record_parse`: `parseNughde = specRecord`). -/
def specRecord (r : Bytes) : Option Ident :=
  match splitOn NUL r with
  | u :: ui :: gi :: ho :: da :: ex :: _ :: _ => some ⟨u, specNum ui, specNum gi, ho, da, ex⟩
  | _ => none

/-- the argument list qmail-lspawn must hand to qmail-local, written from qmail-local(8)
    (`qmail-local [-nN] user homedir local dash ext domain sender defaultdelivery`; qmail-lspawn passes `--` for the
    options and its own argument `aliasempty` as the default delivery) — spelled out here, NOT taken from the model's
    `argvOf` (that the two agree is `C11_argv_layout`) -/
def specArgv (env : Env) (id : Ident) (loc dom sender : Bytes) : List Bytes :=
  [[98, 105, 110, 47, 113, 109, 97, 105, 108, 45, 108, 111, 99, 97, 108],   -- "bin/qmail-local"
   [45, 45],                                                                -- "--"
   id.user, id.home, loc, id.dash, id.ext, dom, sender, env.aliasempty]

/-! ## the password-file rules (qmail-getpw.9) -/

inductive Acct
  | user (pw : PwEnt)     -- non-root account that owns its existing home
  | no
  | sys                   -- getpwnam: temporary failure
  | nfs                   -- stat: temporary failure
deriving Repr, BEq, DecidableEq

def acct (db : PwDb) (name : Bytes) : Acct :=
  match db.getpwnam name with
  | none => .no
  | some pw =>
    if pw.busy then .sys else
    if pw.uid = 0 then .no else
    match db.stat pw.dir with
    | .ok o => if o = pw.uid then .user pw else .no
    | .temp => .nfs
    | .gone => .no

/-- the positions where the address may be split into user [break ext], longest user first -/
def splitPoints (loc : Bytes) : List Nat :=
  ((List.range (loc.length + 1)).reverse).filter
    (fun n => n < GETPW_USERLEN && (n == loc.length || loc.getD n 0 == breakByte))

def Acct.isNo : Acct → Bool
  | .no => true
  | _ => false

/-- a split point together with what the password file says about the user part before it -/
def classify (db : PwDb) (loc : Bytes) (n : Nat) : Nat × Acct := (n, acct db (lower (loc.take n)))

/-- the first split point (longest user part) whose user part is not simply "no such user" decides -/
def specGetpw (db : PwDb) (loc : Bytes) : GpwRes :=
  match ((splitPoints loc).map (classify db loc)).find? (fun p => !p.2.isNo) with
  | some (n, .user pw) => .out (if n = loc.length then pwLine pw [] [] else pwLine pw [45] (loc.drop (n + 1)))
  | some (_, .sys) => .exit QLX_SYS
  | some (_, .nfs) => .exit QLX_NFS
  | _ =>
    match db.getpwnam auto_usera with
    | some pw => if pw.busy then .exit QLX_NOALIAS else .out (pwLine pw [45] loc)
    | none => .exit QLX_NOALIAS

/-! ## the composed identity: the assignment table first, or else the password-file rules -/

/-- what the tables say about an address -/
inductive Want
  | table (r : Bytes)      -- users/assign covers it: this record
  | passwd (r : Bytes)     -- it does not (or there is no users/cdb): qmail-getpw prints this record
  | fail (code : Nat)      -- the password-file lookup fails with this exit code
deriving Repr, BEq, DecidableEq

/-- `tbl` = the declarative reading of the users/assign that users/cdb was compiled from (`none`: no users/cdb) -/
def specIdentity (tbl : Option (List Asg)) (pw : PwDb) (loc : Bytes) : Want :=
  match tbl.bind (fun t => specLookup t loc) with
  | some r => .table r
  | none =>
    match specGetpw pw loc with
    | .out b => .passwd b
    | .exit c => .fail c

def Want.record? : Want → Option Bytes
  | .table r => some r
  | .passwd r => some r
  | .fail _ => none

/-- users/cdb is absent (`tbl = none`), or it is the file qmail-newu compiles (below the format's 4 GiB limit) from a
    users/assign whose declarative reading is `tbl` -/
def Installed (env : Env) : Option (List Asg) → Prop
  | none => env.cdb = none
  | some t => ∃ assign f, env.cdb = some f ∧ newuFile assign = some f ∧ f.length < 4294967296 ∧ specParse assign = some t

/-- the calls of the forked child that runs qmail-getpw when nothing fails: nofiles group, qmailp user, then the exec -/
def gpwEvents (env : Env) (loc : Bytes) : List Ev :=
  [.g (.setgroups 1 env.gidn true), .g (.setgid env.gidn true), .g (.setuid env.uidp true),
   .g (.execv [98, 105, 110, 47, 113, 109, 97, 105, 108, 45, 103, 101, 116, 112, 119] [[98, 105, 110, 47, 113, 109, 97, 105, 108, 45, 103, 101, 116, 112, 119], loc])]

/-- the events of the lookup: nothing for a table hit, the qmail-getpw child otherwise -/
def Want.events (env : Env) (loc : Bytes) : Want → List Ev
  | .table _ => []
  | _ => gpwEvents env loc

/-- the complete behaviour of the delivery child when no call fails, as the tables dictate it: the lookup's events, then
    (for a well-formed record) stdin/stdout/stderr, the privilege drop to exactly the record's gid and uid, the check that
    the process is not root, and qmail-local with `specArgv`; uid 0 ⇒ exit QLX_ROOT before any exec; a malformed record
    ⇒ QLX_USAGE; a failing password-file lookup ⇒ its exit code -/
def specChild (env : Env) (w : Want) (sender loc dom : Bytes) : List Ev × Outcome :=
  let pre := Ev.chdir env.autoQmail :: w.events env loc
  match w with
  | .fail c => (pre, .exit c)
  | .table r | .passwd r =>
    match specRecord r with
    | none => (pre, .exit QLX_USAGE)
    | some id =>
      let drop := [Ev.fdmove 0, .fdmove 1, .fdcopy 2, .setgroups 1 id.gid true, .setgid id.gid true, .setuid id.uid true, .getuid id.uid]
      if id.uid = 0 then (pre ++ drop, .exit QLX_ROOT)
      else (pre ++ drop ++ [.execv localPath (specArgv env id loc dom sender)], .exec)

/-- the calls that bear on the identity of the delivery: everything except the stdin/stdout/stderr plumbing (whose order is
    property-neutral; it is compared with the model on the DISAGREE channel only) -/
def idEvent : Ev → Bool
  | .fdmove _ => false
  | .fdcopy _ => false
  | _ => true

/-- the oracle form of `C11_identity`: the identity-relevant calls, in order, and the outcome are exactly those of `specChild` -/
def childAsDictated (env : Env) (w : Want) (sender loc dom : Bytes) (evs : List Ev) (out : Outcome) : Bool :=
  let s := specChild env w sender loc dom
  decide (evs.filter idEvent = s.1.filter idEvent) && decide (out = s.2)

/-! ## the trace predicate: drop privileges in order, never root -/

def isExecLocal : Ev → Bool
  | .execv p _ => p == localPath
  | _ => false

/-- the events immediately before `execv bin/qmail-local` are successful setgroups [gid], setgid gid,
    setuid uid, getuid = uid, with uid ≠ 0; `pre` is the reversed prefix of the trace -/
def execGuarded (id : Ident) : List Ev → Bool
  | .getuid u :: .setuid u' true :: .setgid g true :: .setgroups 1 g' true :: _ =>
    u == id.uid && u' == id.uid && g == id.gid && g' == id.gid && id.uid != 0
  | _ => false

/-- an execv of qmail-local is guarded and carries exactly the argv of `id`; other events are fine -/
def execOk (env : Env) (id : Ident) (loc dom sender : Bytes) (pre : List Ev) : Ev → Bool
  | .execv p a => if p == localPath then execGuarded id pre && a == specArgv env id loc dom sender else true
  | _ => true

/-- every execv of qmail-local in the trace is guarded and carries exactly the argv of `id` -/
def traceOk (env : Env) (id : Ident) (loc dom sender : Bytes) : List Ev → List Ev → Bool
  | _, [] => true
  | pre, e :: r => execOk env id loc dom sender pre e && traceOk env id loc dom sender (e :: pre) r

/-- generic safety of a trace, whatever the tables say: qmail-local is only ever executed right after successful
    setgroups [g], setgid g, setuid u, getuid = u ≠ 0 -/
def guardedAny : List Ev → List Ev → Bool
  | _, [] => true
  | pre, e :: r =>
    (if isExecLocal e then
      match pre with
      | .getuid u :: .setuid u' true :: .setgid g true :: .setgroups 1 g' true :: _ => u == u' && g == g' && u != 0
      | _ => false
     else true) && guardedAny (e :: pre) r

/-- no execv of qmail-local at all -/
def noExec (t : List Ev) : Bool := !t.any isExecLocal

/-- the exit codes that stand for "could not find out / could not become the user" -/
def lookupErrors : List Nat := [QLX_CDB, QLX_NOMEM, QLX_SYS, QLX_NFS, QLX_EXECPW, QLX_USAGE, QLX_NOALIAS, QLX_ROOT, QLX_EXECSOFT]

end Nq.Spec.Users
