/-
  Nq.SmtpCmdIO — commands.c `commands()` *as it runs over substdio*, and the SMTP session on top of it.

    commands.c `commands(ss,c)`:
        for (;;) {
          cmd = "";
          for (;;) { j = substdio_get(ss,cmd.s + cmd.len,1); if (j != 1) return j;      → `getLine`
                     if (cmd.s[cmd.len] == '\n') break; ++cmd.len; }
          if (cmd.len > 0) if (cmd.s[cmd.len - 1] == '\r') --cmd.len;                    → `splitCmd` (`stripCR`)
          cmd.s[cmd.len] = 0;
          i = str_chr(cmd.s,' '); arg = cmd.s + i; while (*arg == ' ') ++arg; cmd.s[i] = 0;
          for (i = 0;c[i].text;++i) if (case_equals(c[i].text,cmd.s)) break;             → `tableIdx`
          c[i].fun(arg); if (c[i].flush) c[i].flush();                                   → one element of `calls`
        }

  Every byte comes from `substdio_get(ss,&ch,1)` on a buffered descriptor whose `read()` calls return
  arbitrary short counts (`Nq.Substdio.ISt`, read script `rs`; `Nq.SmtpIO.get1`).  The table is a
  parameter (its texts): `commandsIO` is generic, qmail-pop3d/qmail-popup use the same function.

    `commandsIO table s`  — handlers that do not read from `ss`: the list of calls (index into the table —
                            `table.length` = the terminating catch-all entry —, argument) and the return value
    `cmds table inp`      — the same on a plain byte list (no I/O), by iterating `SmtpSession.readLine`
    `runIO cfg qq s`      — qmail-smtpd: `commands(&ssin,&smtpcommands)` where `smtp_data` calls `blast()` on
                            the *same* `ssin` (`SmtpIO.sblast`), `saferead` dies on end of file / error

  `Nq.Lemmas.SmtpCmdIO` proves `commandsIO = cmds`, `runIO = SmtpSession.run` on the concatenation of the
  reads, for every read script.  Core Lean only.
-/
import Nq.SmtpSession
import Nq.SmtpIO

namespace Nq.SmtpCmdIO
open Nq Nq.Substdio Nq.SmtpIn Nq.SmtpIO Nq.SmtpSession

/-! ### the inner loop: one line -/

inductive LineRes
  | line (l : Bytes) (s : ISt)   -- LF read: the bytes before it, and `ss` afterwards
  | eof (s : ISt)                -- `substdio_get` returned 0
  | err (s : ISt)                -- `substdio_get` returned -1
  deriving Repr, DecidableEq

/-- `++cmd.len` after storing `c` -/
def LineRes.cons (c : Byte) : LineRes → LineRes
  | .line l s => .line (c :: l) s
  | r => r

/-- the inner `for (;;)`; `fuel` bounds the number of bytes (one iteration each) -/
def getLine : Nat → ISt → LineRes
  | 0, s => .eof s               -- not reached: fuel = stream length + 1
  | fuel + 1, s =>
    match get1 s with
    | (s', .byte c) => if c = LF then .line [] s' else (getLine fuel s').cons c
    | (s', .eof) => .eof s'
    | (s', .err) => .err s'

/-- bytes not yet handed to the caller: buffered, or still in the kernel -/
def pending (s : ISt) : Bytes := s.data ++ s.src

def readLineIO (s : ISt) : LineRes := getLine ((pending s).length + 1) s

/-! ### verb / argument / table entry -/

/-- the line without its LF → (`cmd.s` after `cmd.s[i] = 0`, `arg`), both as C strings -/
def splitCmd (l : Bytes) : Bytes × Bytes :=
  let s := (stripCR l).takeWhile (· != NUL)
  (s.takeWhile (· != SP), (s.dropWhile (· != SP)).dropWhile (· == SP))

/-- `for (i = 0;c[i].text;++i) if (case_equals(c[i].text,cmd.s)) break;` — `table.length` when no text matches -/
def tableIdx (table : List Bytes) (v : Bytes) : Nat := table.findIdx (fun t => lower t == lower v)

/-- the call made for one line -/
def callOf (table : List Bytes) (l : Bytes) : Nat × Bytes := (tableIdx table (splitCmd l).1, (splitCmd l).2)

/-! ### commands() with handlers that leave `ss` alone -/

inductive Ret | eof | err        -- `return 0` / `return -1`
  deriving Repr, DecidableEq

def cmdsIOFuel (table : List Bytes) : Nat → ISt → List (Nat × Bytes) × Ret
  | 0, _ => ([], .eof)            -- not reached: fuel = stream length + 1
  | fuel + 1, s =>
    match readLineIO s with
    | .line l s' => (callOf table l :: (cmdsIOFuel table fuel s').1, (cmdsIOFuel table fuel s').2)
    | .eof _ => ([], .eof)
    | .err _ => ([], .err)

def commandsIO (table : List Bytes) (s : ISt) : List (Nat × Bytes) × Ret :=
  cmdsIOFuel table ((pending s).length + 1) s

/-- the same without I/O: the calls made when the whole stream is `inp` -/
def cmdsFuel (table : List Bytes) : Nat → Bytes → List (Nat × Bytes)
  | 0, _ => []
  | fuel + 1, inp =>
    match readLine inp with
    | some (l, rest) => callOf table l :: cmdsFuel table fuel rest
    | none => []

def cmds (table : List Bytes) (inp : Bytes) : List (Nat × Bytes) := cmdsFuel table (inp.length + 1) inp

/-! ### the SMTP table -/

def smtpTexts : List Bytes := Gen.smtpCommands.map (·.1)

/-- handler of table entry `i` (`i = smtpTexts.length`: the terminating entry) -/
def verbAt (i : Nat) : Verb :=
  match Gen.smtpCommands[i]? with
  | some e => handlerVerb e.2.1
  | none => handlerVerb Gen.smtpDefault.1

/-! ### qmail-smtpd: commands() + smtp_data's blast() on the same `ssin` -/

/-- the command a line stands for when it is not a DATA that reaches `blast()` -/
def lineCmd (qq : QQ) (v : Verb) (arg : Bytes) : Cmd :=
  match v with
  | .rcpt => .rcpt arg
  | .mail => .mail arg
  | .quit => .quit
  | .helo => .helo
  | .ehlo => .ehlo
  | .rset => .rset
  | .help => .help
  | .noop => .noop
  | .vrfy => .vrfy
  | .unimpl => .unimpl
  | .data => .data { openFails := qq.openFails, close := qq.close }

/-- one iteration of `commands()` inside qmail-smtpd; `none` = `saferead` called `die_read()` before a
complete line was there -/
def nextCmdIO (qq : QQ) (s : Sess) (i : ISt) : Option (Cmd × ISt) :=
  match readLineIO i with
  | .line l i' =>
    if (parseLine l).1 = .data ∧ (dataGate s && !qq.openFails) = true then
      match sblast i' with
      | .accepted _ i'' => some (.data { blast := .ok, close := qq.close }, i'')
      | .stray => some (.data { blast := .stray, close := qq.close }, i')
      | .died => some (.data { blast := .eof, close := qq.close }, i')
    else some (lineCmd qq (parseLine l).1 (parseLine l).2, i')
  | .eof _ => none
  | .err _ => none

def runIOFuel (cfg : Cfg) (qq : QQ) : Nat → Sess → ISt → List (Cmd × Out)
  | 0, _, _ => []
  | n + 1, s, i =>
    match nextCmdIO qq s i with
    | none => []
    | some (c, i') =>
      (c, (sstep cfg s c).2) :: (if (sstep cfg s c).2.halt then [] else runIOFuel cfg qq n (sstep cfg s c).1 i')

/-- the whole session over a buffered descriptor -/
def runIO (cfg : Cfg) (qq : QQ) (i : ISt) : List (Cmd × Out) := runIOFuel cfg qq ((pending i).length + 1) {} i

end Nq.SmtpCmdIO
