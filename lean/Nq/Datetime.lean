/-
  Nq.Datetime — model of datetime.c `datetime_tai()` over all of ℤ (statement by statement; C `/` and `%`
  truncate: `Int.tdiv`, `Int.tmod`), the list of every value the C code stores in an `int` (to state the
  range in which no signed overflow / narrowing happens), and an **independent calendar specification**
  (leap-year rule, month lengths, day count of a civil date) against which the model is proved in
  `Nq/Lemmas/Datetime.lean`.

  Core Lean only (the drivers link this file).
-/
import Nq.Basic

namespace Nq.Datetime
open Nq

/-! ### datetime_tai -/

/-- `struct datetime`; `year` is the calendar year (the C field holds `year - 1900`, and every user —
date822fmt, myctime, qmail-qread — adds 1900 back) -/
structure DT where
  hour : Int
  min : Int
  sec : Int
  wday : Int
  mday : Int
  yday : Int
  mon : Int
  year : Int
  deriving DecidableEq, Repr

/-- all the C variables of `datetime_tai(dt,t)`, in the order they are assigned (SSA form) -/
structure Vars where
  tod0 : Int      -- tod = t % 86400
  day0 : Int      -- day = t / 86400            (long → int)
  tod : Int       -- if (tod < 0) tod += 86400
  day : Int       --             … --day
  hour : Int
  tod2 : Int      -- tod %= 3600
  min : Int
  sec : Int
  w0 : Int        -- (day + 4) % 7
  dplus4 : Int    -- day + 4
  wday : Int
  d1 : Int        -- day -= 11017
  y0 : Int        -- year = 5 + day / 146097
  d2 : Int        -- day = day % 146097
  y1 : Int        -- if (day < 0) { day += 146097; --year; }
  d3 : Int
  y2 : Int        -- year *= 4
  y3 : Int        -- if (day == 146096) { year += 3; day = 36524; } else { year += day / 36524; day %= 36524; }
  d4 : Int
  y3b : Int       -- year *= 25
  y4 : Int        -- year += day / 1461
  d5 : Int        -- day %= 1461
  y5 : Int        -- year *= 4
  yd0 : Int       -- yday = (day < 306)
  y6 : Int        -- if (day == 1460) { year += 3; day = 365; } else { year += day / 365; day %= 365; }
  d6 : Int
  yd1 : Int       -- yday += day
  d7 : Int        -- day *= 10
  mon0 : Int      -- mon = (day + 5) / 306
  d8a : Int       -- day = day + 5 - 306 * mon
  d8 : Int        -- day /= 10
  yday : Int
  year : Int
  mon : Int
  deriving Repr

def vars (t : Int) : Vars :=
  let tod0 := t.tmod 86400
  let day0 := t.tdiv 86400
  let tod := if tod0 < 0 then tod0 + 86400 else tod0
  let day := if tod0 < 0 then day0 - 1 else day0
  let hour := tod.tdiv 3600
  let tod2 := tod.tmod 3600
  let w0 := (day + 4).tmod 7
  let wday := if w0 < 0 then w0 + 7 else w0
  let d1 := day - 11017
  let y0 := 5 + d1.tdiv 146097
  let d2 := d1.tmod 146097
  let y1 := if d2 < 0 then y0 - 1 else y0
  let d3 := if d2 < 0 then d2 + 146097 else d2
  let y2 := y1 * 4
  let y3 := if d3 = 146096 then y2 + 3 else y2 + d3.tdiv 36524
  let d4 := if d3 = 146096 then 36524 else d3.tmod 36524
  let y3b := y3 * 25
  let y4 := y3b + d4.tdiv 1461
  let d5 := d4.tmod 1461
  let y5 := y4 * 4
  let yd0 : Int := if d5 < 306 then 1 else 0
  let y6 := if d5 = 1460 then y5 + 3 else y5 + d5.tdiv 365
  let d6 := if d5 = 1460 then 365 else d5.tmod 365
  let yd1 := yd0 + d6
  let d7 := d6 * 10
  let mon0 := (d7 + 5).tdiv 306
  let d8a := d7 + 5 - 306 * mon0
  let d8 := d8a.tdiv 10
  { tod0, day0, tod, day, hour, tod2, min := tod2.tdiv 60, sec := tod2.tmod 60, w0, dplus4 := day + 4, wday,
    d1, y0, d2, y1, d3, y2, y3, d4, y3b, y4, d5, y5, yd0, y6, d6, yd1, d7, mon0, d8a, d8,
    yday := if mon0 ≥ 10 then yd1 - 306 else yd1 + 59,
    year := if mon0 ≥ 10 then y6 + 1 else y6,
    mon := if mon0 ≥ 10 then mon0 - 10 else mon0 + 2 }

/-- `datetime_tai(&dt,t)` -/
def tai (t : Int) : DT :=
  let v := vars t
  { hour := v.hour, min := v.min, sec := v.sec, wday := v.wday, mday := v.d8 + 1, yday := v.yday,
    mon := v.mon, year := v.year }

/-- every value the C code computes in an `int` (`datetime_sec` is `long`: `t`, `t % 86400`, `t / 86400`
are computed in `long`, then stored in `int`) -/
def Vars.ints (v : Vars) : List Int :=
  [v.tod0, v.day0, v.tod, v.day, v.hour, v.tod2, v.min, v.sec, v.dplus4, v.w0, v.wday, v.d1, v.y0, v.d2, v.y1, v.d3,
   v.y2, v.y3, v.d4, v.y3b, v.y4, v.d5, v.y5, v.yd0, v.y6, v.d6, v.yd1, v.d7, v.d7 + 5, v.mon0, 306 * v.mon0, v.d8a,
   v.d8, v.d8 + 1, v.yday, v.year, v.year - 1900, v.mon]

def INT_MIN : Int := -2147483648
def INT_MAX : Int := 2147483647

/-- the instants `datetime_tai` supports: the day number ⌊t/86400⌋ lies in `[INT_MIN + 11017, INT_MAX - 4]`
(`day -= 11017` and `day + 4` are the two places where an `int` could overflow), i.e.
`-185 541 635 318 400 ≤ t ≤ 185 542 586 841 599` (years −5 877 611 … 5 881 580). -/
def tLo : Int := (INT_MIN + 11017) * 86400
def tHi : Int := (INT_MAX - 4) * 86400 + 86399
def supported (t : Int) : Bool := tLo ≤ t && t ≤ tHi

/-! ### the calendar, written independently of the code -/

/-- Gregorian leap-year rule (proleptic: applied to every year of ℤ, year 0 = 1 BC) -/
def isLeap (y : Int) : Bool := y % 4 = 0 && (y % 100 ≠ 0 || y % 400 = 0)

def yearLen (y : Int) : Int := if isLeap y then 366 else 365

/-- length of month `m` (0 = January … 11 = December, as `struct datetime`'s `mon`) -/
def monthLen (y : Int) (m : Int) : Int :=
  if m = 1 then (if isLeap y then 29 else 28)
  else if m = 3 ∨ m = 5 ∨ m = 8 ∨ m = 10 then 30
  else 31

/-- days of year `y` before month `m`: the sum of the month lengths -/
def daysBeforeMonth (y : Int) : Nat → Int
  | 0 => 0
  | m + 1 => daysBeforeMonth y m + monthLen y m

/-- number of leap years in `[1, y]` for `y ≥ 0`, resp. minus the number in `[y+1, 0]` (floor division) -/
def leapsThrough (y : Int) : Int := y / 4 - y / 100 + y / 400

/-- days from 1970-01-01 to January 1 of year `y` (negative before 1970) -/
def daysBeforeYear (y : Int) : Int := 365 * (y - 1970) + (leapsThrough (y - 1) - leapsThrough 1969)

/-- `mon` is a month index and `mday` a day of that month -/
def validDate (y mon mday : Int) : Prop := 0 ≤ mon ∧ mon < 12 ∧ 1 ≤ mday ∧ mday ≤ monthLen y mon

instance (y mon mday : Int) : Decidable (validDate y mon mday) := by unfold validDate; infer_instance

/-- day number (days since 1970-01-01) of the civil date year `y`, month index `mon` (0-based), day `mday` (1-based) -/
def daysFromCivil (y mon mday : Int) : Int := daysBeforeYear y + daysBeforeMonth y mon.toNat + (mday - 1)

/-- executable form of the calendar statement about one result of `datetime_tai` (the ORACLE of the drivers):
the date is a valid civil date whose day number is ⌊t/86400⌋, the time of day is `t mod 86400` split in base 60,
the weekday is right (1970-01-01 was a Thursday = 4) -/
def civilOk (t : Int) (dt : DT) : Bool :=
  decide (validDate dt.year dt.mon dt.mday) &&
  daysFromCivil dt.year dt.mon dt.mday == t / 86400 &&
  decide (0 ≤ dt.hour ∧ dt.hour < 24 ∧ 0 ≤ dt.min ∧ dt.min < 60 ∧ 0 ≤ dt.sec ∧ dt.sec < 60) &&
  dt.hour * 3600 + dt.min * 60 + dt.sec == t % 86400 &&
  dt.wday == (t / 86400 + 4) % 7

/-- `yday` as the calendar defines it: days since January 1 -/
def ydaySpec (y mon mday : Int) : Int := daysBeforeMonth y mon.toNat + (mday - 1)

/-- what `datetime_tai` really stores in `yday`: one too many from March on in the century years that are not
leap years (1900, 2100, …) — `yday = (day < 306)` assumes the first year of every 4-year cycle is a leap year.
(`yday` is read nowhere in the package.) -/
def ydayCode (y mon mday : Int) : Int :=
  ydaySpec y mon mday + (if mon ≥ 2 ∧ y % 100 = 0 ∧ y % 400 ≠ 0 then 1 else 0)

/-! ### vocabulary for date822fmt's output -/

/-- `bs` is the decimal numeral of `n`: ASCII digits, value `n`, no leading zero (except "0" itself) -/
def isDecimal (n : Nat) (bs : Bytes) : Prop :=
  bs ≠ [] ∧ (∀ b ∈ bs, isDigit b = true) ∧ decVal bs = n ∧ (bs.head? = some 48 → bs = [48])

/-- ASCII digit of `k < 10` -/
def digit (k : Nat) : Byte := UInt8.ofNat (48 + k)

/-- two-digit field -/
def two (n : Nat) : Bytes := [digit (n / 10), digit (n % 10)]

end Nq.Datetime
