/-
  Nq.LocalPass — the two passes of qmail-local.c main() over the delivery instructions `cmds` (the slurped
  .qmail file, or `aliasempty`, always ending in '\n'), property C20.

  Pass 1 (`count1`) counts the lines whose FIRST byte is none of `# . / |` into `numforward`; then
  `recips = calloc(numforward + 1, sizeof(char *))`.  Pass 2 (`run2`) overwrites each newline and the blanks
  before it with NUL, dispatches on the first byte of the line AS IT IS THEN (0 for an empty or all-blank line),
  and — for `&` and every byte without a case of its own — stores `recips[numforward++] = cmds.s + i` without
  looking at the allocated size; after the loop `recips[numforward] = 0`.  The two passes classify lines by
  different tests on different bytes; that the second never stores more than the first counted is the theorem.
  Each pass is a Mealy machine over the bytes of `cmds` (state of pass 1: the first byte of the current line;
  state of pass 2: the line so far).  Core Lean only.
-/
import Nq.Basic

namespace Nq.LocalPass
open Nq

@[reducible] def HASH : Byte := 35
@[reducible] def AMP : Byte := 38
@[reducible] def PLUS : Byte := 43
@[reducible] def PDOT : Byte := 46
@[reducible] def SLASH : Byte := 47
@[reducible] def PIPE : Byte := 124

/-! ### pass 1 -/

/-- `switch(cmds.s[i]) { case '#': case '.': case '/': case '|': break; default: ++numforward; }` -/
def counted1 (first : Byte) : Bool := !(first == HASH || first == PDOT || first == SLASH || first == PIPE)

/-- pass 1 from inside a line whose first byte is `first` (`none`: `j = i`, no byte of the line seen yet — the
byte looked at by the switch is then the newline itself).  An unterminated tail is never looked at. -/
def count1 : Option Byte → Nat → Bytes → Nat
  | _, n, [] => n
  | first, n, c :: r =>
      if c = LF then count1 none (if counted1 (first.getD LF) then n + 1 else n) r
      else count1 (some (first.getD c)) n r

/-- `numforward` after the counting loop -/
def pass1 (cmds : Bytes) : Nat := count1 none 0 cmds

/-! ### pass 2 -/

def isBlank (c : Byte) : Bool := c == SP || c == TAB

/-- the line after `cmds.s[j] = 0; while ((k > i) && blank(cmds.s[k-1])) cmds.s[--k] = 0;` -/
def trim : Bytes → Bytes
  | [] => []
  | c :: r => match trim r with
    | [] => if isBlank c then [] else [c]
    | t => c :: t

/-- `cmds.s[i]` at the second switch: 0 when `k == i` (or when the file has a NUL there) -/
def eff (line : Bytes) : Byte := (trim line).headD 0

/-- a NUL-terminated C string starting at the head of `l` -/
def cstr (l : Bytes) : Bytes := l.takeWhile (· != 0)

inductive Act
  | skip | dieBlank | file | prog | plus (list : Bool) | fwd
  deriving DecidableEq, Repr

/-- the second `switch(cmds.s[i])`; `atStart` = `i == 0` -/
def act (atStart : Bool) (line : Bytes) : Act :=
  if eff line = 0 then (if atStart then .dieBlank else .skip)
  else if eff line = HASH then .skip
  else if eff line = PDOT ∨ eff line = SLASH then .file
  else if eff line = PIPE then .prog
  else if eff line = PLUS then .plus (cstr (trim line).tail == [108, 105, 115, 116])     -- `str_equal(cmds.s + i + 1,"list")`
  else .fwd                                                                              -- `case '&': ++i;` and `default:`

inductive Exit
  | done            -- the loop ran to the end: `count_print(); _exit(0)` (after mailforward() when there are recipients)
  | die             -- strerr_die1x(111,…): blank first line, or file/program delivery with the x bit / "+list"
  | env             -- a delivery ended the run: maildir()/mailfile()/mailprogram() died, or exit code 99 (`flag99`)
  deriving DecidableEq, Repr

structure R where
  stores : List Nat      -- k of every `recips[k] = cmds.s + i`
  nf : Nat               -- numforward after the loop
  cf : Nat               -- count_forward after the loop (also counted with -n)
  exit : Exit
  deriving Repr

/-- pass 2.  `doit` = flagdoit; `env ln` = "the file or program delivery of line `ln` ends the run" (only asked in
doit mode; an arbitrary function: the theorem holds for every environment); `ffo` = flagforwardonly. -/
def run2 (doit : Bool) (env : Nat → Bool) : Bytes → Bool → Nat → Nat → Nat → Bool → Bytes → R
  | _, _, _, nf, cf, _, [] => ⟨[], nf, cf, .done⟩
  | cur, atStart, ln, nf, cf, ffo, c :: r =>
      if c = LF then
        match act atStart cur with
        | .skip => run2 doit env [] false (ln + 1) nf cf ffo r
        | .dieBlank => ⟨[], nf, cf, .die⟩
        | .file | .prog =>
            if ffo then ⟨[], nf, cf, .die⟩
            else if doit && env ln then ⟨[], nf, cf, .env⟩
            else run2 doit env [] false (ln + 1) nf cf ffo r
        | .plus l => run2 doit env [] false (ln + 1) nf cf (ffo || l) r
        | .fwd =>
            if doit then
              let x := run2 doit env [] false (ln + 1) (nf + 1) (cf + 1) ffo r
              { x with stores := nf :: x.stores }
            else run2 doit env [] false (ln + 1) nf (cf + 1) ffo r
      else run2 doit env (cur ++ [c]) atStart ln nf cf ffo r

def pass2 (doit : Bool) (env : Nat → Bool) (ffo : Bool) (cmds : Bytes) : R := run2 doit env [] true 0 0 0 ffo cmds

/-- every index of `recips` written: the loop's stores, and the terminator `recips[numforward] = 0` that is
written (and the array handed to mailforward(), which reads up to the terminator) in doit mode with at least one
recipient when the loop ran to the end or was left by `flag99` (`Exit.env` covers both that and a delivery that
died, where nothing more is stored: an over-approximation) -/
def allStores (doit : Bool) (x : R) : List Nat :=
  x.stores ++ (if doit && x.exit != .die && x.nf != 0 then [x.nf] else [])

end Nq.LocalPass
