/-
  Nq.SmtpIO — the two `blast()` loops *as they run over substdio*: every byte is obtained with
  `substdio_get(&ssin,&ch,1)` from a buffered descriptor whose `read()` calls return arbitrary
  short counts (`Nq.Substdio.ISt`, read script `rs`), and (qmail-remote) every output byte goes
  through `substdio_put(&smtpto,…)` into a buffered descriptor whose `write()` calls take arbitrary
  short counts (`Nq.Substdio.OSt`, write script `ws`).

    `sblast`  — qmail-smtpd.c blast():  `for (;;) { substdio_get(&ssin,&ch,1); … switch(state) … put(&ch); }`
                with `saferead` (`die_read()` on end of file / error) as the read operation.
    `oblast`  — qmail-remote.c blast(): the three `substdio_get(&ssin,&ch,1)` sites, the individual
                `substdio_put(&smtpto,…)` calls in source order, the final `substdio_flush`.

  The per-byte decisions are the Mealy machines `SmtpIn.dstep` / `SmtpOut.rstep`; what is added here
  is the I/O: the buffer refill, short reads, the CR look-ahead that may fall on a refill, short
  writes, the flush when the 1024-byte output buffer fills.  Core Lean only.
-/
import Nq.Substdio
import Nq.SmtpIn
import Nq.SmtpOut

namespace Nq.SmtpIO
open Nq Nq.Substdio Nq.SmtpIn Nq.SmtpOut

/-! ## `r = substdio_get(&ssin,&ch,1)` -/

inductive G1
  | byte (c : Byte)   -- r > 0: `ch` is the next byte
  | eof               -- r == 0
  | err               -- r == -1
  deriving Repr, DecidableEq

def get1 (s : ISt) : ISt × G1 :=
  match Substdio.get s 1 with
  | (s', .got (c :: _)) => (s', .byte c)
  | (s', .got []) => (s', .eof)       -- r == 0 (not produced by `get`, see `get1_spec`)
  | (s', .eof) => (s', .eof)
  | (s', .err) => (s', .err)

/-! ## qmail-smtpd.c blast() over `ssin` -/

inductive SRes
  | accepted (body : Bytes) (s : ISt)   -- `return`: the bytes given to `put`, and `ssin` as `commands()` finds it
  | stray                               -- `straynewline()`: 451, `_exit(1)`
  | died                                -- `saferead`: `die_read()` (end of file, error) or `die_alarm()`
  deriving Repr, DecidableEq

/-- the observable result: verdict, stored bytes, and the unread rest of the stream (buffered or
still in the kernel), in the vocabulary of the pure decoder -/
def SRes.view : SRes → DRes
  | .accepted b s => .accepted b (s.data ++ s.src)
  | .stray => .stray
  | .died => .incomplete

def semit (bs : Bytes) : SRes → SRes
  | .accepted b s => .accepted (bs ++ b) s
  | r => r

/-- the `for (;;)` loop; `fuel` bounds the number of iterations (one stream byte each) -/
def sloop : Nat → ISt → DSt → SRes
  | 0, _, _ => .died          -- not reached: fuel = stream length + 1
  | fuel + 1, s, st =>
      match get1 s with
      | (s', .byte c) =>
          match (dstep st c).2 with
          | .data bs => semit bs (sloop fuel s' (dstep st c).1)
          | .done => .accepted [] s'
          | .stray => .stray
      | (_, .eof) => .died
      | (_, .err) => .died

def sblast (s : ISt) : SRes := sloop ((s.data ++ s.src).length + 1) s .s1

/-! ## qmail-remote.c blast() over `ssin` and `smtpto` -/

/-- successive `substdio_put(&smtpto,d,len)` calls; stops at the first failing one -/
def putAll : OSt → List Bytes → OSt × Bool
  | o, [] => (o, true)
  | o, d :: ds =>
      let r := put o d
      if r.2 then putAll r.1 ds else (r.1, false)

/-- the `substdio_put` calls made while consuming one byte, in source order -/
def rputs : RSt → Byte → List Bytes
  | .top, c =>
      if c = LF then [[CR, LF]]
      else if c = CR then []
      else if c = DOT then [[DOT], [DOT]]
      else [[c]]
  | .mid, c =>
      if c = LF then [[CR, LF]]
      else if c = CR then []
      else [[c]]
  | .cr, c =>
      if c = LF then [[CR, LF]]
      else if c = DOT then [[CR, LF], [DOT], [DOT]]
      else [[CR, LF], [c]]

inductive ORes
  | sent (o : OSt)          -- `blast()` returned, after `substdio_flush(&smtpto)`
  | partialLine (o : OSt)   -- `perm_partialline()`
  | tempRead (o : OSt)      -- `temp_read()`
  | dropped (o : OSt)       -- a write failed: `safewrite` calls `dropped()`
  deriving Repr, DecidableEq

/-- `smtpto` as the outcome leaves it -/
def ORes.ost : ORes → OSt
  | .sent o => o
  | .partialLine o => o
  | .tempRead o => o
  | .dropped o => o

/-- the loop, one iteration per `substdio_get` (the state says at which of the three sites) -/
def oloop : Nat → ISt → OSt → RSt → ORes
  | 0, _, o, _ => .tempRead o     -- not reached: fuel = stream length + 2
  | fuel + 1, i, o, st =>
      match get1 i with
      | (i', .byte c) =>
          let r := putAll o (rputs st c)
          if r.2 then oloop fuel i' r.1 (rstep st c).1 else .dropped r.1
      | (i', .eof) =>
          match st with
          | .top =>                                   -- `if (r == 0) break;` … put(".\r\n",3); flush
              let r := putAll o [[DOT, CR, LF]]
              if r.2 then
                let f := flush r.1
                if f.2 then .sent f.1 else .dropped f.1
              else .dropped r.1
          | .mid => .partialLine o                    -- `if (r == 0) perm_partialline();`
          | .cr =>                                    -- `if (r == 0) break;` out of the while: put("\r\n",2), back to the top
              let r := putAll o [[CR, LF]]
              if r.2 then oloop fuel i' r.1 .top else .dropped r.1
      | (_, .err) => .tempRead o

def oblast (i : ISt) (o : OSt) : ORes := oloop ((i.data ++ i.src).length + 2) i o .top

/-- a fresh `SUBSTDIO_FDBUF(read,fd,buf,size)` reading `src` with read script `rs` -/
def istart (size : Nat) (src : Bytes) (rs : List Nat) : ISt :=
  { size := size, n := size, src := src, rs := rs }

/-- a fresh `SUBSTDIO_FDBUF(write,fd,buf,size)` with write script `ws` -/
def ostart (size : Nat) (ws : List Nat) : OSt := { n := size, ws := ws }

end Nq.SmtpIO
