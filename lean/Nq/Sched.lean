/-
  Nq.Sched — executable model of notqmail's retry scheduling (property C15).

  Transcribed from the C sources (function by function):
    qmail-send.c  squareroot()   → `sqLoop` / `squareroot`      (+ `sqLoopOk`: every intermediate fits)
    qmail-send.c  nextretry()    → `nextretry`
    prioq.c       prioq_insert   → `siftUp` / `PQ.insert`       (hole technique, same index arithmetic)
    prioq.c       prioq_min      → `PQ.min`
    prioq.c       prioq_delmin   → `siftDown` / `PQ.delmin`
    qmail-send.c  pqrun()        → `pqrun`
    qmail-send.c  pqfinish()     → `pqfinish`  (sequence of utimes() calls)  / `Mtimes.write`
    qmail-send.c  pqadd()        → `pqaddChan` (per channel: insert ⟨mtime, id⟩), `pqstart`
    qmail-send.c  pass_dochan()  → `passStart` (the job-opening prefix: min / due test / delmin),
                                    `jobOpen`  (retry := nextretry, flagdying := recent > birth+lifetime)
    qmail-send.c  pass_selprep() → `wakeupChan`
    qmail-send.c  del_dochan()   → `report` (Z→D rewriting under flagdying, K/Z/D/other dispatch)
    qmail-send.c  job_close()    → `jobClose`

  Times are C `long` (datetime_sec); they are modelled as `Int`.  `sqLoopOk` and `nextretryOk` state
  the ranges on which the C arithmetic cannot overflow.
  Core Lean only (the driver links this file).
-/
import Nq.Basic
import Nq.Gen.Consts

namespace Nq.Sched

/-! ## squareroot() and nextretry() -/

/-- The body of `for (j = 15; j >= 0; --j)` in `squareroot()`.  In `sqLoop x (j+1) y yy` the C loop
variable has the value `j`; `y << (j+1)` is `y * 2^(j+1)` and `1 << (j+j)` is `2^(j+j)`. -/
def sqLoop (x : Int) : Nat → Int → Int → Int
  | 0, y, _ => y
  | j + 1, y, yy =>
    let y21 := y * 2 ^ (j + 1) + 2 ^ (j + j)
    if y21 ≤ x - yy then sqLoop x j (y + 2 ^ j) (yy + y21) else sqLoop x j y yy

/-- `static datetime_sec squareroot(x)` -/
def squareroot (x : Int) : Int := sqLoop x 16 0 0

/-- the value fits a C `long` (64 bit) -/
def inLong (v : Int) : Bool := decide (-9223372036854775808 ≤ v ∧ v < 9223372036854775808)
/-- the value fits a C `int` (32 bit) -/
def inInt (v : Int) : Bool := decide (-2147483648 ≤ v ∧ v < 2147483648)

/-- Same loop, returning whether every intermediate value stays in range: `1 << (j+j)` must fit an
`int`, everything else a `long`. -/
def sqLoopOk (x : Int) : Nat → Int → Int → Bool
  | 0, _, _ => true
  | j + 1, y, yy =>
    let y21 := y * 2 ^ (j + 1) + 2 ^ (j + j)
    inInt (2 ^ (j + j)) && inLong (y * 2 ^ (j + 1)) && inLong y21 && inLong (x - yy) && inLong (y + 2 ^ j) &&
      inLong (yy + y21) &&
      (if y21 ≤ x - yy then sqLoopOk x j (y + 2 ^ j) (yy + y21) else sqLoopOk x j y yy)

inductive Chan where
  | loc | rem
  deriving DecidableEq, Repr, Inhabited

/-- `int chanskip[CHANNELS] = { 10, 20 }` — the numbers are regenerated from the source (Gen.Consts) -/
def chanskip : Chan → Int
  | .loc => (Nq.Gen.chanskip_local : Nat)
  | .rem => (Nq.Gen.chanskip_remote : Nat)

/-- `datetime_sec nextretry(birth,c)` with the global `recent` as an argument -/
def nextretry (recent birth : Int) (c : Chan) : Int :=
  let n := (if birth > recent then 0 else squareroot (recent - birth)) + chanskip c
  birth + n * n

/-! ## prioq.c -/

structure Elt where
  dt : Int
  id : Nat
  deriving DecidableEq, Repr, Inhabited, BEq

abbrev PQ := Array Elt

/-- `while (j) { i = (j-1)/2; if (p[i].dt <= pe->dt) break; p[j] = p[i]; j = i; } p[j] = *pe;`
`fuel ≥ j` always suffices because `j` strictly decreases. -/
def siftUp (pe : Elt) : Nat → PQ → Nat → PQ
  | 0, a, j => a.setIfInBounds j pe
  | f + 1, a, j =>
    if j = 0 then a.setIfInBounds j pe
    else
      let i := (j - 1) / 2
      if a[i]!.dt ≤ pe.dt then a.setIfInBounds j pe
      else siftUp pe f (a.setIfInBounds j a[i]!) i

/-- `prioq_insert` (allocation failure is not modelled): `j = len++`, sift up. -/
def PQ.insert (q : PQ) (pe : Elt) : PQ := siftUp pe q.size (q.push pe) q.size

/-- `prioq_min` -/
def PQ.min (q : PQ) : Option Elt := q[0]?

/-- the `for (;;)` of `prioq_delmin`; `n` is the index of the last element (already `--n`),
`i` the hole.  `fuel ≥ n - i` suffices because `i` strictly increases. -/
def siftDown : Nat → PQ → Nat → Nat → PQ
  | 0, a, n, i => a.setIfInBounds i a[n]!
  | f + 1, a, n, i =>
    let j := i + i + 2
    if j > n then a.setIfInBounds i a[n]!
    else
      let j := if a[j - 1]!.dt ≤ a[j]!.dt then j - 1 else j
      if a[n]!.dt ≤ a[j]!.dt then a.setIfInBounds i a[n]!
      else siftDown f (a.setIfInBounds i a[j]!) n j

/-- `prioq_delmin` -/
def PQ.delmin (q : PQ) : PQ :=
  if q.size = 0 then q else (siftDown (q.size - 1) q (q.size - 1) 0).pop

/-- heap order, as an executable predicate (the oracle) and as a proposition -/
def Heap (q : PQ) : Prop := ∀ k, 0 < k → k < q.size → q[(k - 1) / 2]!.dt ≤ q[k]!.dt

def heapB (q : PQ) : Bool := (List.range q.size).all fun k => k = 0 || decide (q[(k - 1) / 2]!.dt ≤ q[k]!.dt)

/-- an arbitrary history of heap operations -/
inductive PQ.Op where
  | ins (e : Elt)
  | del
  deriving Repr

def PQ.run (q : PQ) : List PQ.Op → PQ
  | [] => q
  | .ins e :: r => PQ.run (q.insert e) r
  | .del :: r => PQ.run q.delmin r

/-! ## the daemon's use of the heaps (qmail-send.c) -/

/-- `pqrun()`: ALRM makes every channel entry due now -/
def pqrun (recent : Int) (q : PQ) : PQ := q.map fun e => { e with dt := recent }

/-- the head of `pass_dochan` when no pass is open on the channel: returns the message whose job is
opened and the heap without it; `none` = nothing is started now. -/
def passStart (recent : Int) (jobAvail : Bool) (q : PQ) : Option (Elt × PQ) :=
  if !jobAvail then none
  else match q.min with
    | none => none
    | some pe => if pe.dt > recent then none else some (pe, q.delmin)

/-- all messages that `pass_dochan` would start at time `recent`, in order (fuel = heap size) -/
def drainDue (recent : Int) : Nat → PQ → List Elt × PQ
  | 0, q => ([], q)
  | f + 1, q => match passStart recent true q with
    | none => ([], q)
    | some (pe, q') => let r := drainDue recent f q'; (pe :: r.1, r.2)

/-- the part of `pass_selprep` that looks at one channel heap -/
def wakeupChan (wakeup : Int) (q : PQ) : Int :=
  match q.min with
  | none => wakeup
  | some pe => if wakeup > pe.dt then pe.dt else wakeup

structure Job where
  retry : Int
  dying : Bool
  deriving DecidableEq, Repr

/-- `jo[j].retry = nextretry(birth,c); jo[j].flagdying = (recent > birth + lifetime);` -/
def jobOpen (recent lifetime birth : Int) (c : Chan) : Job :=
  { retry := nextretry recent birth c, dying := decide (recent > birth + lifetime) }

def tooLong : Bytes :=
  str "I'm not going to try again; this message has been in the queue too long.\n"

/-- what `del_dochan` does with one delivery report `letter text` -/
inductive Act where
  | success                 -- 'K': markdone, --numtodo
  | deferral                -- 'Z': record stays 'T'
  | failure (text : Bytes)  -- 'D': addbounce(text), markdone, --numtodo
  | mangled                 -- anything else: "report mangled, will defer"
  deriving DecidableEq, Repr

def report (dying : Bool) (letter : Byte) (text : Bytes) : Act :=
  let z : Byte := 90
  let d : Byte := 68
  let k : Byte := 75
  -- if (dline[c].s[1] == 'Z') if (flagdying) { s[1] = 'D'; append the too-long text }
  let letter' := if letter = z ∧ dying then d else letter
  let text' := if letter = z ∧ dying then text ++ tooLong else text
  if letter' = k then .success
  else if letter' = z then .deferral
  else if letter' = d then .failure text'
  else .mangled

/-- does the recipient record stay 'T' (to be retried)? -/
def Act.staysTodo : Act → Bool
  | .success => false
  | .failure _ => false
  | .deferral => true
  | .mangled => true

/-- `job_close` once the pass has hit EOF: either the channel file is unlinked (message leaves the
channel) or the message goes back into the channel heap with `dt = retry`. -/
def jobClose (job : Job) (id : Nat) (numtodo : Nat) (q : PQ) : Option PQ :=
  if numtodo = 0 then none else some (q.insert { dt := job.retry, id := id })

/-- `pqfinish()`: drain the heap, one `utimes(chan file of id, dt)` per entry (fuel = size) -/
def pqfinish : Nat → PQ → List Elt
  | 0, _ => []
  | f + 1, q => match q.min with
    | none => []
    | some pe => pe :: pqfinish f q.delmin

/-- the persisted due times: mtime of `local/<id>` or `remote/<id>` -/
abbrev Mtimes := Nat → Option Int

def Mtimes.write (m : Mtimes) (e : Elt) : Mtimes := fun i => if i = e.id then some e.dt else m i

def Mtimes.writeAll (m : Mtimes) (l : List Elt) : Mtimes := l.foldl Mtimes.write m

/-- `pqadd(id)` restricted to one channel: `pechan[c].dt = st.st_mtime`, insert if the file exists -/
def pqaddChan (m : Mtimes) (q : PQ) (id : Nat) : PQ :=
  match m id with
  | none => q
  | some t => q.insert { dt := t, id := id }

/-- `pqstart()`: `pqadd` for every id found under info/, in directory order -/
def pqstart (m : Mtimes) (ids : List Nat) : PQ := ids.foldl (pqaddChan m) #[]

/-! ## the system-failure paths (SLEEP_SYSFAIL re-insertion, pqfail) and the full `job_close` / `pqadd` -/

/-- `#define SLEEP_SYSFAIL 123` (regenerated from the source) -/
def SLEEP_SYSFAIL : Int := (Nq.Gen.SLEEP_SYSFAIL : Nat)

/-- the `trouble:` exit of `pass_dochan` (channel file cannot be opened / `getinfo` fails) after
`prioq_delmin`: `pe.dt = recent + SLEEP_SYSFAIL; prioq_insert(&pqchan[c],&pe)` -/
def passTrouble (recent : Int) (pe : Elt) (q' : PQ) : PQ :=
  q'.insert { dt := recent + SLEEP_SYSFAIL, id := pe.id }

/-- outcome of a `stat()`: the file exists (with its mtime), `ENOENT`, or any other error -/
inductive StatRes where
  | found (mtime : Int)
  | noent
  | err
  deriving DecidableEq, Repr

structure CloseOut where
  chan : PQ          -- pqchan[channel] afterwards
  done : PQ          -- pqdone afterwards
  removed : Bool     -- the channel file was unlinked
  deriving Repr

/-- the whole of `job_close(j)` once `refs` reaches 0 (`CHANNELS = 2`: the loop over the other channels is
one `stat`): `flaghiteof && !numtodo` → unlink; unlink fails → back into the channel heap at
`now + SLEEP_SYSFAIL`; other channel file exists → nothing ("more channels going"); `ENOENT` → pqdone at
`now`; other stat error → pqdone anyway ("the only reason for HOPEFULLY"); otherwise (recipients left, or
the pass was cut short) → back into the channel heap at `retry`. -/
def jobCloseF (job : Job) (id : Nat) (hiteof : Bool) (numtodo : Nat) (unlinkOk : Bool) (otherStat : StatRes)
    (now : Int) (q done : PQ) : CloseOut :=
  if hiteof && numtodo == 0 then
    if !unlinkOk then { chan := q.insert { dt := now + SLEEP_SYSFAIL, id := id }, done := done, removed := false }
    else match otherStat with
      | .found _ => { chan := q, done := done, removed := true }
      | _ => { chan := q, done := done.insert { dt := now, id := id }, removed := true }
  else { chan := q.insert { dt := job.retry, id := id }, done := done, removed := false }

/-- the four heaps of qmail-send -/
structure Heaps where
  q0 : PQ := #[]
  q1 : PQ := #[]
  done : PQ := #[]
  fail : PQ := #[]
  deriving Repr

/-- `pqadd(id)` in full: stat info/, todo/, local/, remote/ in this order; any error other than `ENOENT`
→ `fail:` (pqfail at `now + SLEEP_SYSFAIL`, nothing else inserted); no info file or a todo file → nothing;
each existing channel file → its heap with `dt = st_mtime`; no channel file → pqdone at `now`. -/
def pqaddF (now : Int) (info todo ch0 ch1 : StatRes) (id : Nat) (h : Heaps) : Heaps :=
  let failed : Heaps := { h with fail := h.fail.insert { dt := now + SLEEP_SYSFAIL, id := id } }
  match info with
  | .err => failed
  | .noent => h
  | .found _ =>
    match todo with
    | .found _ => h
    | .err => failed
    | .noent =>
      match ch0, ch1 with
      | .err, _ => failed
      | _, .err => failed
      | .found t0, .found t1 => { h with q0 := h.q0.insert { dt := t0, id := id }, q1 := h.q1.insert { dt := t1, id := id } }
      | .found t0, .noent => { h with q0 := h.q0.insert { dt := t0, id := id } }
      | .noent, .found t1 => { h with q1 := h.q1.insert { dt := t1, id := id } }
      | .noent, .noent => { h with done := h.done.insert { dt := now, id := id } }

/-- the stat outcomes of one message's four queue files -/
structure Files where
  info : StatRes := .noent
  todo : StatRes := .noent
  ch0 : StatRes := .noent
  ch1 : StatRes := .noent
  deriving Repr

/-- the pqfail part of `pass_do()`: `if (prioq_min(&pqfail,&pe)) if (pe.dt <= recent) { prioq_delmin(&pqfail); pqadd(pe.id); }` -/
def passDoFail (recent now : Int) (files : Nat → Files) (h : Heaps) : Heaps :=
  match h.fail.min with
  | none => h
  | some pe =>
    if pe.dt ≤ recent then
      let f := files pe.id
      pqaddF now f.info f.todo f.ch0 f.ch1 pe.id { h with fail := h.fail.delmin }
    else h

/-! ## C `long` arithmetic of `nextretry` (overflow) -/

/-- two's-complement wrap-around to 64 bits (what gcc/clang produce on the supported targets for the
`datetime_sec` operations when the mathematical result does not fit; formally undefined behaviour in C) -/
def wrap64 (v : Int) : Int := (v + 9223372036854775808) % 18446744073709551616 - 9223372036854775808

/-- every intermediate of `nextretry(birth,c)` fits a `long`: `recent - birth` (only evaluated when
`birth <= recent`), `n + chanskip`, `n * n`, `birth + n * n`; and `squareroot` itself does not overflow. -/
def nextretryOk (recent birth : Int) (c : Chan) : Bool :=
  let x := recent - birth
  let n := (if birth > recent then 0 else squareroot x) + chanskip c
  inLong recent && inLong birth && (decide (birth > recent) || (inLong x && sqLoopOk x 16 0 0)) &&
    inLong n && inLong (n * n) && inLong (birth + n * n)

/-- `nextretry` with every `long` operation wrapped -/
def nextretryW (recent birth : Int) (c : Chan) : Int :=
  let n := wrap64 ((if birth > recent then 0 else squareroot (wrap64 (recent - birth))) + chanskip c)
  wrap64 (birth + wrap64 (n * n))

end Nq.Sched
