/-
  Nq.Rewrite — executable model of qmail-send's recipient routing (property C10).

  Transcribes, function by function:
    byte_rchr.c / str_rchr.c      `rchr`
    case_diffb.c                  `foldb`, `caseEq`
    constmap.c  hash()            `hashCh`, `cmHash`
    constmap.c  constmap_init()   `chunks`, `entOf`, `parseEntries`, `maskFor`, `CM.insert`, `cmInit`
    constmap.c  constmap()        `walk`, `CM.lookup`
    control.c   control_readline / control_rldef / control_readfile
                                  `readline`, `readfileBody`, `readfile`
    qmail-send.c getcontrols / regetcontrols   `getcontrols`, `reget`
    qmail-send.c rewrite()        `phLoop`, `cand`, `vscan`, `rewriteWith`
    qmail-send.c senderadd()      `senderadd`
    qmail-send.c todo_do() record loop          `todoStep`, `todoDo`
    qmail-send.c sighup / main loop / reread    `Daemon`, `Ev` (edit, hup, top, msg), `accept`, `acceptAll`

  Core Lean only (the driver `drv_c10` links this file).
-/
import Nq.Basic

namespace Nq.Rewrite
open Nq

@[reducible] def PCT   : Byte := 37   -- '%'
@[reducible] def COLON : Byte := 58   -- ':'
@[reducible] def DASH  : Byte := 45   -- '-'
@[reducible] def EQS   : Byte := 61   -- '='
@[reducible] def HASHC : Byte := 35   -- '#'
@[reducible] def TEE   : Byte := 84   -- 'T'

/-! ### byte_rchr / str_rchr -/

/-- `byte_rchr(s,n,c)` (and `str_rchr` on a NUL-free string): index of the **last** occurrence of
`c`, or the length when there is none. -/
def rchr (c : Byte) : Bytes → Nat
  | [] => 0
  | x :: r =>
    if rchr c r < r.length then rchr c r + 1
    else if x = c then 0 else r.length + 1

/-! ### case folding: case_diffb.c and the hash of constmap.c -/

/-- `case_diffb`: `x = c - 'A'; if (x <= 'Z' - 'A') x += 'a'; else x += 'A';` (unsigned char arithmetic) -/
def foldb (c : Byte) : Byte := if c - 65 ≤ 25 then c - 65 + 97 else c - 65 + 65

/-- `!case_diffb(s,len,t)` for two strings of the same length `len` -/
def caseEq (s t : Bytes) : Bool := s.map foldb == t.map foldb

/-- constmap.c `hash`: `ch = *s++ - 'A'; if (ch <= 'Z' - 'A') ch += 'a' - 'A';` -/
def hashCh (c : Byte) : Byte := if c - 65 ≤ 25 then c - 65 + 32 else c - 65

/-- constmap.c `hash`: `h = 5381; h = ((h << 5) + h) ^ ch` over `unsigned long` (64 bit). -/
def cmHash (s : Bytes) : UInt64 :=
  s.foldl (fun h c => ((h <<< 5) + h) ^^^ (hashCh c).toUInt64) 5381

/-! ### constmap_init: entries -/

structure Ent where
  key : Bytes
  val : Bytes
  deriving Repr, BEq, DecidableEq

/-- the NUL-terminated chunks of a buffer, in order (bytes after the last NUL are ignored, as the
`for (j…) if (!s[j])` loop of `constmap_init` and the `getln(…,'\0')` loop of `todo_do` do) -/
def chunksGo : Bytes → Bytes → List Bytes
  | [], _ => []
  | c :: r, acc => if c = NUL then acc.reverse :: chunksGo r [] else chunksGo r (c :: acc)

def chunks (s : Bytes) : List Bytes := chunksGo s []

/-- split at the first ':' (flagcolon) -/
def splitColon : Bytes → Option (Bytes × Bytes)
  | [] => none
  | c :: r =>
    if c = COLON then some ([], r)
    else match splitColon r with
      | some p => some (c :: p.1, p.2)
      | none => none

/-- one chunk → one table entry; with `flagcolon` a chunk without ':' is skipped -/
def entOf (flagcolon : Bool) (ch : Bytes) : Option Ent :=
  if flagcolon then
    match splitColon ch with
    | some p => some ⟨p.1, p.2⟩
    | none => none
  else some ⟨ch, []⟩

def parseEntries (s : Bytes) (flagcolon : Bool) : List Ent := (chunks s).filterMap (entOf flagcolon)

/-! ### constmap: the hash table -/

/-- `h = 64; while (h && (h < cm->num)) h += h;` -/
def maskGo : Nat → UInt64 → Nat → UInt64
  | 0, h, _ => h
  | f + 1, h, n => if h ≠ 0 ∧ h.toNat < n then maskGo f (h + h) n else h

def maskFor (num : Nat) : UInt64 := maskGo 64 64 num - 1

/-- The table: `first[]`/`next[]` chains are represented as one list per bucket, head = `first[b]`,
tail = the `next` chain. Each element carries the stored `hash[pos]`. -/
structure CM where
  mask : UInt64
  bucket : UInt64 → List (UInt64 × Ent)

def CM.empty (mask : UInt64) : CM := ⟨mask, fun _ => []⟩

/-- `cm->next[pos] = cm->first[h]; cm->first[h] = pos;` — push at the head of chain `h & mask` -/
def CM.insert (cm : CM) (e : Ent) : CM :=
  let h := cmHash e.key
  { cm with bucket := fun b => if b = (h &&& cm.mask) then (h, e) :: cm.bucket b else cm.bucket b }

def cmInit (s : Bytes) (flagcolon : Bool) : CM :=
  (parseEntries s flagcolon).foldl CM.insert (CM.empty (maskFor (s.count NUL)))

/-- the `while (pos != -1)` chain walk of `constmap()` -/
def walk (h : UInt64) (key : Bytes) : List (UInt64 × Ent) → Option Bytes
  | [] => none
  | (h', e) :: r =>
    if h = h' ∧ key.length = e.key.length ∧ caseEq e.key key = true then some e.val
    else walk h key r

def CM.lookup (cm : CM) (key : Bytes) : Option Bytes :=
  walk (cmHash key) key (cm.bucket (cmHash key &&& cm.mask))

/-! ### the finite map the hash table implements (keys compared ignoring ASCII case; of two
entries with the same key the later one is found first — the chain is in reverse insertion order) -/

def keyEq (k : Bytes) (e : Ent) : Bool := lower e.key == lower k

def mapLookupRev (k : Bytes) : List Ent → Option Bytes
  | [] => none
  | e :: r => if keyEq k e then some e.val else mapLookupRev k r

def mapLookup (es : List Ent) (k : Bytes) : Option Bytes := mapLookupRev k es.reverse

/-! ### control files (control.c) -/

def isWs (c : Byte) : Bool := c == LF || c == SP || c == TAB

/-- `striptrailingwhitespace` -/
def stripWs (s : Bytes) : Bytes := (s.reverse.dropWhile isWs).reverse

/-- `control_readline`: first line, trailing whitespace stripped; `none` = file absent -/
def readline (f : Option Bytes) : Option Bytes :=
  match f with
  | some s => some (stripWs (s.takeWhile (· != LF)))
  | none => none

def splitLinesGo : Bytes → Bytes → List Bytes
  | [], acc => [acc.reverse]
  | c :: r, acc => if c = LF then acc.reverse :: splitLinesGo r [] else splitLinesGo r (c :: acc)

/-- the pieces between LFs (the last one is the unterminated tail, possibly empty) -/
def splitLines (s : Bytes) : List Bytes := splitLinesGo s []

/-- what `control_readfile` appends for one line: nothing for an empty line, a `#` comment or a line
starting with NUL; otherwise the stripped line and a NUL -/
def fileLine (l : Bytes) : Bytes :=
  match stripWs l with
  | [] => []
  | c :: r => if c = NUL ∨ c = HASHC then [] else c :: r ++ [NUL]

def readfileBody (s : Bytes) : Bytes := (splitLines s).flatMap fileLine

/-- `control_readfile(sa,fn,flagme)`: `none` = returns 0 (no file, no default) -/
def readfile (f : Option Bytes) (me : Option Bytes) (flagme : Bool) : Option Bytes :=
  match f with
  | some s => some (readfileBody s)
  | none => if flagme then (match me with | some m => some (m ++ [NUL]) | none => none) else none

/-- contents of the control directory; `none` = file does not exist -/
structure Files where
  me : Option Bytes
  env : Option Bytes
  locals : Option Bytes
  ph : Option Bytes
  vdoms : Option Bytes

/-- the C globals `envnoathost`, `percenthack`, `locals`, `vdoms` (NUL-separated buffers) -/
structure RawCfg where
  env : Bytes
  ph : Bytes
  locals : Bytes
  vdoms : Bytes
  deriving Repr, BEq, DecidableEq

def ENVDEFAULT : Bytes := [101, 110, 118, 110, 111, 97, 116, 104, 111, 115, 116]  -- "envnoathost"

/-- `getcontrols()`; `none` = "cannot start: unable to read controls" -/
def getcontrols (f : Files) : Option RawCfg :=
  let me := readline f.me
  let env := match readline f.env with
    | some e => e
    | none => match me with | some m => m | none => ENVDEFAULT
  match readfile f.locals me true with
  | none => none
  | some l =>
    some { env := env, ph := (readfile f.ph me false).getD [], locals := l,
           vdoms := (readfile f.vdoms me false).getD [] }

/-- `regetcontrols()`: locals and virtualdomains only; `me` is the value read at start-up -/
def reget (me : Option Bytes) (old : RawCfg) (f : Files) : RawCfg :=
  match readfile f.locals me true with
  | none => old
  | some l => { old with locals := l, vdoms := (readfile f.vdoms me false).getD [] }

/-! ### rewrite() -/

/-- the three `constmap` lookups `rewrite()` performs, abstracted -/
structure Lookups where
  ph : Bytes → Bool
  locals : Bytes → Bool
  vdoms : Bytes → Option Bytes

/-- parsed control files: the finite maps -/
structure Cfg where
  env : Bytes
  ph : List Ent
  locals : List Ent
  vdoms : List Ent

def Cfg.lookups (c : Cfg) : Lookups :=
  { ph := fun k => (mapLookup c.ph k).isSome,
    locals := fun k => (mapLookup c.locals k).isSome,
    vdoms := mapLookup c.vdoms }

def RawCfg.cfg (r : RawCfg) : Cfg :=
  { env := r.env, ph := parseEntries r.ph false, locals := parseEntries r.locals false,
    vdoms := parseEntries r.vdoms true }

/-- the same lookups through the hash tables `constmap_init` builds -/
def RawCfg.htLookups (r : RawCfg) : Lookups :=
  let cph := cmInit r.ph false
  let cl := cmInit r.locals false
  let cv := cmInit r.vdoms true
  { ph := fun k => (cph.lookup k).isSome, locals := fun k => (cl.lookup k).isSome, vdoms := cv.lookup }

/-- the percent-hack `while` loop. `addr[i] = '@'`; each round cuts `addr` at `i`, so `fuel =
addr.length + 1` is never exhausted. -/
def phLoop (ph : Bytes → Bool) : Nat → Bytes → Nat → Bytes
  | 0, addr, _ => addr
  | fuel + 1, addr, i =>
    if ph (addr.drop (i + 1)) then
      let j := rchr PCT (addr.take i)
      if j = i then addr
      else phLoop ph fuel ((addr.take i).set j AT) j
    else addr

/-- `!i || (i == at + 1) || (i == addr.len) || ((i > at) && (addr.s[i] == '.'))` -/
def cand (addr : Bytes) (at_ i : Nat) : Bool :=
  i == 0 || i == at_ + 1 || i == addr.length || (decide (i > at_) && addr[i]? == some DOT)

/-- the `for (i = 0;i <= addr.len;++i)` scan of `mapvdoms`: `n` positions remain, starting at `i`.
`some tag` = first hit (an empty tag is the `break`), `none` = no hit. -/
def vscan (vd : Bytes → Option Bytes) (addr : Bytes) (at_ : Nat) : Nat → Nat → Option Bytes
  | 0, _ => none
  | n + 1, i =>
    if cand addr at_ i then
      match vd (addr.drop i) with
      | some x => some x
      | none => vscan vd addr at_ n (i + 1)
    else vscan vd addr at_ n (i + 1)

inductive Chan | loc | rem
  deriving Repr, BEq, DecidableEq

/-- result of `rewrite()`: return value 1 (`loc`) / 2 (`rem`), the prepended tag (empty = none) and
the rewritten address -/
structure Routed where
  chan : Chan
  tag : Bytes
  addr : Bytes
  deriving Repr, BEq, DecidableEq

/-- `rwline`: "T" [tag "-"] addr NUL -/
def Routed.line (r : Routed) : Bytes :=
  TEE :: ((if r.tag = [] then r.addr else r.tag ++ DASH :: r.addr) ++ [NUL])

def rewriteWith (L : Lookups) (env recip : Bytes) : Routed :=
  let i := rchr AT recip
  let addr0 := if i = recip.length then recip ++ AT :: env else recip
  let addr := phLoop L.ph (addr0.length + 1) addr0 i
  let at_ := rchr AT addr
  if L.locals (addr.drop (at_ + 1)) then ⟨.loc, [], addr⟩
  else match vscan L.vdoms addr at_ (addr.length + 1) 0 with
    | some x => if x = [] then ⟨.rem, [], addr⟩ else ⟨.loc, x, addr⟩
    | none => ⟨.rem, [], addr⟩

/-- `rewrite()` over the parsed control files -/
def rewrite (c : Cfg) (recip : Bytes) : Routed := rewriteWith c.lookups c.env recip

/-- `rewrite()` over the hash tables (what the driver runs against the C code) -/
def rewriteHT (r : RawCfg) (recip : Bytes) : Routed := rewriteWith r.htLookups r.env recip

/-! ### senderadd() -/

def VERPSUFFIX : Bytes := [DASH, AT, 91, 93]  -- "-@[]"

def senderadd (sender recip : Bytes) : Bytes :=
  let i := sender.length
  if i ≥ 4 ∧ sender.drop (i - 4) = VERPSUFFIX then
    let j := rchr AT (sender.take (i - 4))
    let k := rchr AT recip
    if k < recip.length ∧ j + 5 ≤ i then
      sender.take j ++ recip.take k ++ EQS :: recip.drop (k + 1) ++ AT :: (sender.drop (j + 1)).take (i - 5 - j)
    else sender
  else sender

/-- `comm_write`: delnum, split file name, NUL, sender, NUL, recip, NUL -/
def commWrite (delnum : Byte) (fnSplit sender recip : Bytes) : Bytes :=
  delnum :: fnSplit ++ NUL :: senderadd sender recip ++ NUL :: recip ++ [NUL]

/-! ### todo_do(): the record loop -/

structure TodoOut where
  info : Bytes
  loc : Bytes
  rem : Bytes
  deriving Repr, BEq, DecidableEq

/-- one NUL-terminated record of `todo/<id>` (`rec` without its NUL); `none` = `goto fail` -/
def todoStep (L : Lookups) (env : Bytes) (o : TodoOut) (rec : Bytes) : Option TodoOut :=
  match rec with
  | [] => none
  | t :: body =>
    if t = 117 ∨ t = 112 then some o                                  -- 'u', 'p'
    else if t = 70 then some { o with info := o.info ++ rec ++ [NUL] } -- 'F'
    else if t = TEE then
      let r := rewriteWith L env body
      match r.chan with
      | .loc => some { o with loc := o.loc ++ r.line }
      | .rem => some { o with rem := o.rem ++ r.line }
    else none

def todoFold (L : Lookups) (env : Bytes) : List Bytes → TodoOut → Option TodoOut
  | [], o => some o
  | r :: rs, o => match todoStep L env o r with
    | some o' => todoFold L env rs o'
    | none => none

/-- contents of `info/<id>`, `local/<id>`, `remote/<id>` after preprocessing `todo/<id>`
(an empty channel file is not created) -/
def todoDo (L : Lookups) (env : Bytes) (todo : Bytes) : Option TodoOut :=
  todoFold L env (chunks todo) ⟨[], [], []⟩

/-- the recipient list of a `todo` file routed one by one -/
def routeAll (c : Cfg) (rs : List Bytes) : List Routed := rs.map (rewrite c)

/-! ### the daemon: control files, HUP, preprocessing

qmail-send.c: `void sighup() { flagreadasap = 1; }` and the main loop

    while (!flagexitasap || !del_canexit()) {
      recent = now();
      if (flagrunasap) { flagrunasap = 0; pqrun(); }
      if (flagreadasap) { flagreadasap = 0; reread(); }        -- event `top`
      …selprep…
      if (select(…) == -1) { if (errno == error_intr) ; else log1(…); }   -- EINTR: the body is skipped
      else { recent = now(); comm_do(); del_do(); todo_do(&rfds); pass_do(); cleanup_do(); }   -- event `msg`
    }

The reread happens when the loop passes its top, with the files as they are on disk *then*; `todo_do`
(at most one message per call) runs in the body under whatever configuration is in force *then* — it
does not look at the flag. A SIGHUP that arrives while the daemon is blocked in `select()` makes
`select` return `EINTR`, the body is skipped and the loop top follows at once: the trace `[hup, top]`.
A SIGHUP that arrives between the flag test and `select()` is only served after the next body (the
select race inherent in this loop): the trace `[top, hup, msg, top]`. Both are traces of this acceptor. -/

structure Daemon where
  me : Option Bytes        -- `me` as read by control_init at start-up
  cfg : RawCfg             -- the C globals
  files : Files            -- what is on disk now
  flagread : Bool          -- flagreadasap

inductive Ev
  | edit (f : Files)                    -- the administrator rewrites the control files
  | hup                                 -- SIGHUP is delivered (anywhere in the loop): sighup() sets flagreadasap
  | top                                 -- the loop passes its top: `if (flagreadasap) { flagreadasap = 0; reread(); }`
  | msg (todo : Bytes) (out : Option TodoOut)   -- `todo_do` in the loop body preprocesses one message

def start (f : Files) : Option Daemon :=
  match getcontrols f with
  | some c => some { me := readline f.me, cfg := c, files := f, flagread := false }
  | none => none

/-- `if (flagreadasap) { flagreadasap = 0; reread(); }` at the top of the main loop -/
def Daemon.top (d : Daemon) : Daemon :=
  if d.flagread then { d with cfg := reget d.me d.cfg d.files, flagread := false } else d

/-- acceptor (monitor) for an observed trace. `edit`, `hup`, `top` are always possible and update the
state as the C code does; an observed `msg` event is accepted iff its outputs are what `todo_do`
writes under the configuration in force at that moment (no reread here: the flag is only looked at
by `top`). The state is not changed by `msg`. -/
def accept (d : Daemon) : Ev → Option Daemon
  | .edit f => some { d with files := f }
  | .hup => some { d with flagread := true }
  | .top => some d.top
  | .msg todo out =>
    if todoDo d.cfg.htLookups d.cfg.env todo = out then some d else none

def acceptAll : Daemon → List Ev → Option Daemon
  | d, [] => some d
  | d, e :: es => match accept d e with
    | some d' => acceptAll d' es
    | none => none

end Nq.Rewrite
