/-
  Nq.RemoteConnect — model of the part of qmail-remote.c `main()` between the DNS lookup and `smtp()`:
  the switch on the lookup result, the best-preference rule (`prefme`), the connect loop with the
  `tcpto` skip and `timeoutconn`, and the reports of the exits on the way
  (`temp_nomem temp_dns perm_dns perm_nomx perm_ambigmx temp_noconn`).

  The lookup result is an input (`dnsret` = return value of `dns_mxip`, `cs` = the addresses it
  produced, in order, each with what `ipme_is`, `tcpto` and `timeoutconn` answer for it); control files,
  smtproutes and the resolver are not modelled here.
-/
import Nq.Basic
import Nq.RemoteSmtp

namespace Nq.RemoteConnect
open Nq Nq.RemoteSmtp

structure Cand where
  host : Bytes      -- `ip_fmt` of the address
  pref : Nat
  isMe : Bool       -- `ipme_is`
  skip : Bool       -- `tcpto` says: recently timed out, do not try
  conn : Nat        -- `timeoutconn`: 0 connects, 1 refused, 2 timed out

def tempNomemRep : Bytes := lit "ZOut of memory. (#4.3.0)\n"
def tempDnsRep : Bytes := lit "ZSorry, I couldn't find any host by that name. (#4.1.2)\n"
def permNomxRep : Bytes := lit "DSorry, I couldn't find a mail exchanger or IP address. (#5.4.4)\n"
def permAmbigRep : Bytes := lit "DSorry. Although I'm listed as a best-preference MX or A for that host,\nit isn't in my control/locals file, so I don't treat it as local. (#5.4.6)\n"

/-- `outsafe` -/
def outsafe (h : Bytes) : Bytes := h.map (fun c => if c < 33 ∨ c > 126 then QM else c)

def permDnsRep (hostArg : Bytes) : Bytes :=
  lit "DSorry, I couldn't find any host named " ++ outsafe hostArg ++ lit ". (#5.1.2)\n"

/-- what happens before `smtp()` -/
inductive Pre | report (r : Bytes) | connected (i : Nat) (host : Bytes)
  deriving DecidableEq

/-- the lowest preference among the addresses that are this host (100000 if none) -/
def prefme (cs : List Cand) : Nat := cs.foldl (fun m c => if c.isMe && decide (c.pref < m) then c.pref else m) 100000

/-- the connect loop; `i` = index of the head of the list -/
def tryLoop (pm : Nat) : Nat → List Cand → Pre
  | _, [] => .report tempNoconnRep
  | i, c :: rest =>
    if c.pref < pm then
      if c.skip then tryLoop pm (i + 1) rest
      else if c.conn = 0 then .connected i c.host
      else tryLoop pm (i + 1) rest
    else tryLoop pm (i + 1) rest

/-- the `tcpto_err(ip, flag)` calls of the loop, as (index, flag) -/
def tryTrace (pm : Nat) : Nat → List Cand → List (Nat × Bool)
  | _, [] => []
  | i, c :: rest =>
    if c.pref < pm then
      if c.skip then tryTrace pm (i + 1) rest
      else if c.conn = 0 then [(i, false)]
      else (i, c.conn == 2) :: tryTrace pm (i + 1) rest
    else tryTrace pm (i + 1) rest

def dnsFails (dnsret : Int) (cs : List Cand) : Bool :=
  dnsret = -3 || dnsret = -1 || dnsret = -2 || cs.isEmpty

def connectPhase (dnsret : Int) (hostArg : Bytes) (cs : List Cand) : Pre :=
  if dnsret = -3 then .report tempNomemRep
  else if dnsret = -1 then .report tempDnsRep
  else if dnsret = -2 then .report (permDnsRep hostArg)
  else if dnsret = 1 ∧ cs = [] then .report tempDnsRep
  else if cs = [] then .report permNomxRep
  else if cs.all (fun c => decide (prefme cs ≤ c.pref)) then .report permAmbigRep
  else tryLoop (prefme cs) 0 cs

def connectTrace (dnsret : Int) (cs : List Cand) : List (Nat × Bool) :=
  if dnsFails dnsret cs then [] else if cs.all (fun c => decide (prefme cs ≤ c.pref)) then []
  else tryTrace (prefme cs) 0 cs

/-- `main()` from the lookup result on -/
def mainRun (dnsret : Int) (hostArg : Bytes) (cs : List Cand) (a : Args) (sc : Script) : Res :=
  match connectPhase dnsret hostArg cs with
  | .report r => { rcpt := [], msg := r, wire := [] }
  | .connected _ h => smtpRun { a with host := h } sc

end Nq.RemoteConnect
