/-
  Nq.TokFill — index-level model of `token822_unparse` and `token822_unquote` (token822.c), property C20.

  Both functions compute a length over the token array (`ulen1` / `qlen1`), call `stralloc_ready(sa,len)` and
  then walk the array again storing through a cursor `s` that is never compared with the allocated size.
  The second walk is modelled with the cursor as an offset from `sa->s`, logging every offset stored to
  (`Ix.st`) and every offset read back (`Ix.rd`: the shifting loop of the line-folding macro NSUW, which also
  moves the cursor BACK over a tentative fold).  Tokens are arbitrary `(type, bytes)` pairs — also types
  outside 1..11, for which both walks do nothing.  Core Lean only.
-/
import Nq.Basic
import Nq.Gen.AtomOk

namespace Nq.TokFill
open Nq

structure Tk where
  typ : Nat
  s : Bytes
  deriving Repr, DecidableEq

@[reducible] def ATOM : Nat := 1
@[reducible] def QUOTE : Nat := 2
@[reducible] def LITERAL : Nat := 3
@[reducible] def COMMENT : Nat := 4
@[reducible] def LEFT : Nat := 5
@[reducible] def RIGHT : Nat := 6
@[reducible] def TAT : Nat := 7
@[reducible] def COMMA : Nat := 8
@[reducible] def SEMI : Nat := 9
@[reducible] def COLON : Nat := 10
@[reducible] def TDOT : Nat := 11

/-- the four "word" cases `TOKEN822_ATOM/QUOTE/LITERAL/COMMENT` -/
def isWord (t : Nat) : Bool := t == ATOM || t == LITERAL || t == QUOTE || t == COMMENT
/-- `case TOKEN822_AT: case TOKEN822_DOT: case TOKEN822_LEFT: case TOKEN822_RIGHT: case TOKEN822_SEMI: case TOKEN822_COLON` -/
def isSingle (t : Nat) : Bool := t == TAT || t == TDOT || t == LEFT || t == RIGHT || t == SEMI || t == COLON

/-- `needspace(t1,t2)` (one C function, used by both walks) -/
def needspace (t1 t2 : Nat) : Bool :=
  if t1 = 0 then false
  else if t1 = COLON then true
  else if t1 = COMMA then true
  else if t2 = LEFT then true
  else isWord t1 && isWord t2

/-- the inner `switch(ch = t->s[j])` of the LENGTH walk: bytes that cost two -/
def esc1 (c : Byte) : Bool := c == 34 || c == 91 || c == 93 || c == 40 || c == 41 || c == 92 || c == 13 || c == 10
/-- the same switch of the FILL walk -/
def esc2 (c : Byte) : Bool := c == 34 || c == 91 || c == 93 || c == 40 || c == 41 || c == 92 || c == 13 || c == 10

/-! ### token822_unparse, first walk -/

def bytesLen1 : Bytes → Nat
  | [] => 0
  | c :: r => (if esc1 c then 2 else 1) + bytesLen1 r

/-- what one token adds to `len` -/
def tokLen1 (last : Nat) (t : Tk) : Nat :=
  (if needspace last t.typ then 1 else 0) +
  (if t.typ = COMMA then 3
   else if isSingle t.typ then 1
   else if isWord t.typ then (if t.typ ≠ ATOM then 2 else 0) + bytesLen1 t.s
   else 0)

def toksLen1 : Nat → List Tk → Nat
  | _, [] => 0
  | last, t :: r => tokLen1 last t + toksLen1 t.typ r

/-- the value handed to `stralloc_ready` (`len += 2` after the loop) -/
def ulen1 (ts : List Tk) : Nat := toksLen1 0 ts + 2

/-! ### token822_unparse, second walk -/

inductive Ix
  | st (j : Nat) | rd (j : Nat)
  deriving DecidableEq, Repr

def Ix.idx : Ix → Nat
  | .st j => j | .rd j => j

structure Cur where
  s : Nat                  -- s − sa->s
  lineb : Nat              -- lineb − sa->s
  linee : Option Nat       -- linee − sa->s; none = null pointer
  deriving Repr, DecidableEq

/-- the macro NSUW at cursor `c` -/
def nsuw (linelen : Nat) (c : Cur) : Cur × List Ix :=
  match c.linee with
  | some le =>
      if linelen = 0 ∨ c.s - c.lineb ≤ linelen then
        -- `while (linee < s) { linee[0] = linee[2]; ++linee; } linee -= 2;`  the cursor stays
        ({ c with linee := some (c.s - 2) },
         [.st c.s, .st (c.s + 1)] ++ (List.range' le (c.s - le)).flatMap (fun p => [Ix.rd (p + 2), Ix.st p]))
      else
        ({ s := c.s + 2, lineb := le + 1, linee := some c.s }, [.st c.s, .st (c.s + 1)])
  | none => ({ s := c.s + 2, lineb := c.lineb, linee := some c.s }, [.st c.s, .st (c.s + 1)])

/-- the byte loop of a word token from offset `s`: new offset and the stores -/
def bytesFill : Nat → Bytes → Nat × List Ix
  | s, [] => (s, [])
  | s, c :: r =>
      if esc2 c then ((bytesFill (s + 2) r).1, [.st s, .st (s + 1)] ++ (bytesFill (s + 2) r).2)
      else ((bytesFill (s + 1) r).1, [.st s] ++ (bytesFill (s + 1) r).2)

/-- `*s++ = x` when `b` -/
def put1 (b : Bool) (s : Nat) : Nat × List Ix := if b then (s + 1, [.st s]) else (s, [])

/-- one token of the second walk -/
def tokFill (linelen last : Nat) (t : Tk) (c : Cur) : Cur × List Ix :=
  let sp := put1 (needspace last t.typ) c.s
  if t.typ = COMMA then
    let n := nsuw linelen { c with s := sp.1 + 1 }
    (n.1, sp.2 ++ [.st sp.1] ++ n.2)
  else if isSingle t.typ then ({ c with s := sp.1 + 1 }, sp.2 ++ [.st sp.1])
  else if isWord t.typ then
    -- three separate `if (t->type == …) *s++ = …;` before and after the byte loop
    let o1 := put1 (t.typ == QUOTE) sp.1
    let o2 := put1 (t.typ == LITERAL) o1.1
    let o3 := put1 (t.typ == COMMENT) o2.1
    let b := bytesFill o3.1 t.s
    let e1 := put1 (t.typ == QUOTE) b.1
    let e2 := put1 (t.typ == LITERAL) e1.1
    let e3 := put1 (t.typ == COMMENT) e2.1
    ({ c with s := e3.1 }, sp.2 ++ o1.2 ++ o2.2 ++ o3.2 ++ b.2 ++ e1.2 ++ e2.2 ++ e3.2)
  else ({ c with s := sp.1 }, sp.2)

def toksFill (linelen : Nat) : Nat → List Tk → Cur → Cur × List Ix
  | _, [], c => (c, [])
  | last, t :: r, c =>
      let o := tokFill linelen last t c
      let x := toksFill linelen t.typ r o.1
      (x.1, o.2 ++ x.2)

structure UOut where
  len : Nat            -- `sa->len = s - sa->s` after the final `NSUW  --s;`
  ix : List Ix
  deriving Repr

def unparseFill (linelen : Nat) (ts : List Tk) : UOut :=
  let o := toksFill linelen 0 ts ⟨0, 0, none⟩
  let n := nsuw linelen o.1
  ⟨n.1.s - 1, o.2 ++ n.2⟩

/-! ### token822_unquote -/

def isOne (t : Nat) : Bool := t == COMMA || t == TAT || t == TDOT || t == LEFT || t == RIGHT || t == SEMI || t == COLON

/-- first walk: `++len` / `len += 2` (falls through) / `len += t->slen`; comments add nothing -/
def qTokLen1 (t : Tk) : Nat :=
  if isOne t.typ then 1
  else if t.typ = LITERAL then 2 + t.s.length
  else if t.typ = ATOM ∨ t.typ = QUOTE then t.s.length
  else 0

def qlen1 : List Tk → Nat
  | [] => 0
  | t :: r => qTokLen1 t + qlen1 r

/-- second walk, one token from offset `s` -/
def qTokFill (t : Tk) (s : Nat) : Nat × List Ix :=
  if isOne t.typ then (s + 1, [.st s])
  else if t.typ = ATOM ∨ t.typ = QUOTE ∨ t.typ = LITERAL then
    let o := put1 (t.typ == LITERAL) s
    let b := (o.1 + t.s.length, (List.range' o.1 t.s.length).map Ix.st)
    let e := put1 (t.typ == LITERAL) b.1
    (e.1, o.2 ++ b.2 ++ e.2)
  else (s, [])

def qFill : List Tk → Nat → Nat × List Ix
  | [], s => (s, [])
  | t :: r, s => ((qFill r (qTokFill t s).1).1, (qTokFill t s).2 ++ (qFill r (qTokFill t s).1).2)

end Nq.TokFill
